(* Node.v -- model of network/mixins.py (NetworkMixin) and rf24_network.py
   (RF24NetworkRoutingOnly, RF24Network), method by method, on top of the RF24 driver
   model and generic in the same bus.  Python ints are Z; addresses go through the
   N-valued address arithmetic of Net/Addr.v (they are validated / 16-bit before use).
   Timeouts read the bus clock exactly where the Python code calls time.monotonic_ns().
   Loops carry fuel; OutOfFuel is excluded by the theorems and never seen in the
   correspondence runs.  Model only: no proofs here. *)
From Coq Require Import ZArith NArith List Bool.
From NRF Require Import Env.Radio Env.World Drv.RF24 Net.Addr Net.Header Net.Queue Net.QueueRun.
Import ListNotations.
Local Open Scope Z_scope.

Record node := mkNode {
  n_rf : drv;
  n_addr : Z; n_mask : Z; n_mask_inv : Z; n_lvl : Z; n_parent : Z; n_ppipe : Z;
  n_relay : bool; n_frag : bool;
  n_tx_timeout : Z; n_route_timeout : Z;
  n_allow_mc : bool; n_ret_sys : bool; n_parenthood : bool;
  n_max_len : Z;
  n_queue : qstate;
  n_fb : frame;             (* frame_buf *)
  (* mesh *)
  n_id : Z; n_dhcp : list (Z * Z); n_do_dhcp : bool
}.

Definition NET_DEFAULT : Z := 2340.    (* 0o4444 *)
Definition NET_MULTICAST : Z := 64.    (* 0o100 *)
Definition T_PING : Z := 130.  Definition T_POLL : Z := 194.
Definition T_ADDR_REQ : Z := 195.  Definition T_ADDR_RESP : Z := 128.
Definition T_ADDR_RELEASE : Z := 197. Definition T_ADDR_LOOKUP : Z := 196.
Definition T_ID_LOOKUP : Z := 198.
Definition S_NORMAL : Z := 0. Definition S_ROUTED : Z := 1. Definition S_PHYSICAL : Z := 2.
Definition S_LOGICAL : Z := 3. Definition S_MULTICAST : Z := 4.

Definition FUEL_DRV : nat := 4.   (* polls of RF24.send/resend: an exchange is atomic in the world *)

Section NodeModel.
  Context {bus : Type} (B : busops bus).

  Definition NM (A : Type) := node -> bus -> result A * node * bus.
  Definition nret {A} (a : A) : NM A := fun n b => (Ok a, n, b).
  Definition nraise {A} (e : exn) : NM A := fun n b => (Exn e, n, b).
  Definition nbind {A C} (m : NM A) (f : A -> NM C) : NM C :=
    fun n b => match m n b with
               | (Ok a, n', b') => f a n' b'
               | (Exn e, n', b') => (Exn e, n', b')
               end.
  Notation "x <- m ;; f" := (nbind m (fun x => f)) (at level 61, m at next level, right associativity).
  Notation "m ;;; f" := (nbind m (fun _ => f)) (at level 61, right associativity).
  Definition nget : NM node := fun n b => (Ok n, n, b).
  Definition nmod (f : node -> node) : NM unit := fun n b => (Ok tt, f n, b).

  (* run a driver computation on the node's RF24 object *)
  Definition set_rf (n : node) (d : drv) : node :=
    mkNode d (n_addr n) (n_mask n) (n_mask_inv n) (n_lvl n) (n_parent n) (n_ppipe n) (n_relay n)
           (n_frag n) (n_tx_timeout n) (n_route_timeout n) (n_allow_mc n) (n_ret_sys n)
           (n_parenthood n) (n_max_len n) (n_queue n) (n_fb n) (n_id n) (n_dhcp n) (n_do_dhcp n).
  Definition rf {A} (m : M (bus := bus) A) : NM A :=
    fun n b => let '(r, d', b') := m (n_rf n) b in (r, set_rf n d', b').

  Definition set_consts (n : node) (a m mi l p pp : Z) : node :=
    mkNode (n_rf n) a m mi l p pp (n_relay n) (n_frag n) (n_tx_timeout n) (n_route_timeout n)
           (n_allow_mc n) (n_ret_sys n) (n_parenthood n) (n_max_len n) (n_queue n) (n_fb n)
           (n_id n) (n_dhcp n) (n_do_dhcp n).
  Definition set_fb (n : node) (f : frame) : node :=
    mkNode (n_rf n) (n_addr n) (n_mask n) (n_mask_inv n) (n_lvl n) (n_parent n) (n_ppipe n) (n_relay n)
           (n_frag n) (n_tx_timeout n) (n_route_timeout n) (n_allow_mc n) (n_ret_sys n)
           (n_parenthood n) (n_max_len n) (n_queue n) f (n_id n) (n_dhcp n) (n_do_dhcp n).
  Definition set_queue (n : node) (q : qstate) : node :=
    mkNode (n_rf n) (n_addr n) (n_mask n) (n_mask_inv n) (n_lvl n) (n_parent n) (n_ppipe n) (n_relay n)
           (n_frag n) (n_tx_timeout n) (n_route_timeout n) (n_allow_mc n) (n_ret_sys n)
           (n_parenthood n) (n_max_len n) q (n_fb n) (n_id n) (n_dhcp n) (n_do_dhcp n).
  Definition set_lvl (n : node) (l : Z) : node :=
    set_consts n (n_addr n) (n_mask n) (n_mask_inv n) l (n_parent n) (n_ppipe n).
  Definition set_flags (n : node) (relay frag allow ret_sys parenthood : bool) (maxlen : Z) : node :=
    mkNode (n_rf n) (n_addr n) (n_mask n) (n_mask_inv n) (n_lvl n) (n_parent n) (n_ppipe n) relay
           frag (n_tx_timeout n) (n_route_timeout n) allow ret_sys parenthood maxlen (n_queue n)
           (n_fb n) (n_id n) (n_dhcp n) (n_do_dhcp n).
  Definition set_timeouts (n : node) (tx route : Z) : node :=
    mkNode (n_rf n) (n_addr n) (n_mask n) (n_mask_inv n) (n_lvl n) (n_parent n) (n_ppipe n) (n_relay n)
           (n_frag n) tx route (n_allow_mc n) (n_ret_sys n) (n_parenthood n) (n_max_len n)
           (n_queue n) (n_fb n) (n_id n) (n_dhcp n) (n_do_dhcp n).
  Definition set_mesh (n : node) (id : Z) (dhcp : list (Z * Z)) (dd : bool) : node :=
    mkNode (n_rf n) (n_addr n) (n_mask n) (n_mask_inv n) (n_lvl n) (n_parent n) (n_ppipe n) (n_relay n)
           (n_frag n) (n_tx_timeout n) (n_route_timeout n) (n_allow_mc n) (n_ret_sys n)
           (n_parenthood n) (n_max_len n) (n_queue n) (n_fb n) id dhcp dd.

  Definition fb_hdr (n : node) : header := hdr (n_fb n).
  Definition set_hdr (n : node) (h : header) : node := set_fb n (mkFrame h (msg (n_fb n))).
  Definition hdr_with (h : header) (fromv tov : Z) (ty : mtype) (res : Z) : header :=
    mkHeader fromv tov (frame_id h) ty res.

  Definition now_z : NM Z := rf (bind (now B) (fun t => ret (Z.of_N t))).
  Definition sleep_ns (ns : Z) : NM unit := rf (sleep B (Z.to_N ns)).

  (* _pipe_address with the default prefix/suffix; IndexError when the Python code indexes
     out of range (invalid digit, too many digits) *)
  Definition pipe_addr_of (n : node) (a p : Z) : NM (list N) :=
    if (a <? 0) || (p <? 0) then nraise IndexError
    else match pipe_address default_prefix default_suffix (n_allow_mc n) (Z.to_N a) (Z.to_N p) with
         | Some bs => nret bs
         | None => nraise IndexError
         end.

  (* ---- _begin ---- *)
  Fixpoint open_all (addr : Z) (i : nat) (k : nat) : NM unit :=
    match k with
    | O => nret tt
    | S k' =>
      n <- nget ;;
      a <- pipe_addr_of n addr (Z.of_nat i) ;;
      rf (open_rx_pipe B (Z.of_nat i) a) ;;;
      open_all addr (S i) k'
    end.

  Definition begin (addr : Z) : NM unit :=
    rf (set_listen B false) ;;;
    rf (set_auto_ack_attr B (PInt 62)) ;;;
    rf (set_auto_retries B (250 * (((addr mod 6) + 1) * 2 + 3) + 250) 5) ;;;
    open_all addr 0 6 ;;;
    rf (set_listen B true) ;;;
    match begin_consts (Z.to_N addr) with
    | None => nraise OutOfFuel
    | Some c =>
      nmod (fun n => set_consts n addr (Z.of_N (c_mask c)) (Z.of_N (c_mask_inv c)) (Z.of_N (c_lvl c))
                                (Z.of_N (c_parent c)) (Z.of_N (c_ppipe c)))
    end.

  Definition consts_of (n : node) : consts :=
    mkConsts (Z.to_N (n_addr n)) (Z.to_N (n_mask n)) (Z.to_N (n_mask_inv n)) (Z.to_N (n_lvl n))
             (Z.to_N (n_parent n)) (Z.to_N (n_ppipe n)).

  (* _logi_2_phys *)
  Definition l2p (n : node) (to_node send_type : Z) : Z * Z * bool :=
    let '(a, p, m) := logi_2_phys (consts_of n) (Z.to_N to_node) (Z.to_N send_type) in
    (Z.of_N a, Z.of_N p, m).

  Definition valid_z (a : Z) : bool := (0 <=? a) && is_address_valid (Z.to_N a).

  (* queue.enqueue(frame_buf): the frame's type may be rewritten to NETWORK_EXT_DATA *)
  Definition enqueue_fb : NM bool :=
    n <- nget ;;
    match n_queue n with
    | Plain q =>
      match enqueue q (n_fb n) with
      | None => nraise TypeError
      | Some (r, q') => nmod (fun n => set_queue n (Plain q')) ;;; nret r
      end
    | Frag q =>
      match frag_enqueue q (n_fb n) with
      | None => nraise TypeError
      | Some (r, q', ext) =>
        nmod (fun n => set_queue n (Frag q')) ;;;
        (if ext then
           nmod (fun n => let h := fb_hdr n in
                          set_hdr n (mkHeader (from_node h) (to_node h) (frame_id h)
                                              (IntT NETWORK_EXT_DATA) (reserved h)))
         else nret tt) ;;; nret r
      end
    end.

  Definition fb_type_int (n : node) : option Z :=
    match message_type (fb_hdr n) with IntT z => Some z | StrT _ => None end.

  (* ---- _tx_standby ---- *)
  Fixpoint tx_standby_loop (fuel : nat) (timeout : Z) : NM bool :=
    match fuel with
    | O => nraise OutOfFuel
    | S k =>
      t <- now_z ;;
      if t <? timeout then
        r <- rf (resend B true FUEL_DRV) ;;
        match r with
        | SBool true => nret true
        | SPayload (Some _) => nret true
        | _ => tx_standby_loop k timeout
        end
      else nret false
    end.

  Definition tx_standby (delta : Z) (fuel : nat) : NM bool :=
    t <- now_z ;;
    tx_standby_loop fuel (delta * 1000000 + t).

  Definition sendres_truthy (r : sendres) : bool :=
    match r with SBool b => b | SPayload (Some _) => true | SPayload None => false end.

  (* fragment `count` of `total`: bytes handed to send() *)
  Definition frag_retries (fuel : nat) : nat -> bool -> NM bool :=
    fix go (retries : nat) (result : bool) : NM bool :=
      if result then nret true
      else match retries with
           | O => nret false
           | S r' =>
             sleep_ns 2000000 ;;;
             n <- nget ;;
             res <- tx_standby (n_tx_timeout n) fuel ;;
             go r' res
           end.

  Fixpoint frag_loop (fuel : nat) (msg_t : mtype) (total : nat) (count : nat) (k : nat)
    : NM bool :=
    match k with
    | O => nret true     (* not reached: total >= 2 *)
    | S k' =>
      n <- nget ;;
      let h := fb_hdr n in
      let m := msg (n_fb n) in
      let last := Nat.eqb count (total - 1) in
      let h' :=
          if last then
            (* header.reserved = msg_t : a str here makes pack() raise TypeError below *)
            mkHeader (from_node h) (to_node h) (frame_id h) (IntT MSG_FRAG_LAST)
                     (match msg_t with IntT z => z | StrT _ => -1000000 end)
          else mkHeader (from_node h) (to_node h) (frame_id h)
                        (IntT (if Nat.eqb count 0 then MSG_FRAG_FIRST else MSG_FRAG_MORE))
                        (Z.of_nat (total - count)) in
      nmod (fun n => set_hdr n h') ;;;
      match msg_t, last with
      | StrT _, true => nraise TypeError
      | _, _ =>
        match hdr_pack h' with
        | None => nraise TypeError
        | Some hb =>
          let slice := if last then skipn (24 * count) m else firstn 24 (skipn (24 * count) m) in
          r <- rf (send B (hb ++ slice) false 0 true FUEL_DRV) ;;
          ok <- frag_retries fuel 3 (sendres_truthy r) ;;
          if ok then
            (if last then nret true else frag_loop fuel msg_t total (S count) k')
          else nret false
        end
      end
    end.

  (* ---- _write_to_pipe ---- *)
  Definition write_to_pipe (tn tp : Z) (is_mc : bool) (fuel : nat) : NM bool :=
    n <- nget ;;
    if (tn =? n_addr n) && negb is_mc then enqueue_fb
    else
      rf (set_auto_ack_attr B (PInt (62 + zb (negb is_mc)))) ;;;
      rf (set_listen B false) ;;;
      a <- pipe_addr_of n tn tp ;;
      rf (open_tx_pipe B a) ;;;
      n <- nget ;;
      let m := msg (n_fb n) in
      if Nat.leb (length m) 24 then
        match frame_pack (n_fb n) with
        | None => nraise TypeError
        | Some bytes =>
          r <- rf (send B bytes false 0 true FUEL_DRV) ;;
          if sendres_truthy r then nret true
          else tx_standby (n_tx_timeout n) fuel
        end
      else
        let total := frag_total (length m) in
        let msg_t := message_type (fb_hdr n) in
        res <- frag_loop fuel msg_t total 0 total ;;
        nmod (fun n => let h := fb_hdr n in
                       set_hdr n (mkHeader (from_node h) (to_node h) (frame_id h) msg_t (reserved h))) ;;;
        nret res.

  (* ---- _net_update and the two handlers, and _write (mutually recursive through
     forwarding: all share one fuel) ---- *)
  Definition is_frag_or_ext (t : Z) : bool :=
    (t =? MSG_FRAG_FIRST) || (t =? MSG_FRAG_MORE) || (t =? MSG_FRAG_LAST) || (t =? NETWORK_EXT_DATA).

  Fixpoint net_update (fuel : nat) (ret_val : Z) {struct fuel} : NM Z :=
    match fuel with
    | O => nraise OutOfFuel
    | S k =>
      tmp <- rf (read B None) ;;
      match tmp with
      | None => nret ret_val
      | Some buf =>
        match frame_unpack buf with
        | None => net_update k ret_val
        | Some f =>
          nmod (fun n => set_fb n f) ;;;
          if negb (valid_z (to_node (hdr f))) || negb (valid_z (from_node (hdr f)))
          then net_update k 0       (* frame_buf holds the discarded frame: nothing to report for it *)
          else
            n <- nget ;;
            let t := match message_type (hdr f) with IntT z => z | StrT _ => 0 end in
            kr <- (if to_node (hdr f) =? n_addr n then handle_this k t else handle_other k t) ;;
            let '(keep, rv) := kr in
            if keep then net_update k rv else nret rv
        end
      end
    end

  with handle_this (fuel : nat) (msg_t : Z) {struct fuel} : NM (bool * Z) :=
    match fuel with
    | O => nraise OutOfFuel
    | S k =>
      n <- nget ;;
      if msg_t =? T_PING then nret (true, msg_t)
      else if (msg_t =? T_ADDR_RESP) && negb (n_addr n =? NET_DEFAULT) then
        nmod (fun n => let h := fb_hdr n in set_hdr n (hdr_with h (from_node h) NET_DEFAULT (message_type h) (reserved h))) ;;;
        write_ k NET_DEFAULT S_PHYSICAL ;;; nret (true, msg_t)
      else if (msg_t =? T_ADDR_REQ) && negb (n_addr n =? 0) then
        nmod (fun n => let h := fb_hdr n in set_hdr n (hdr_with h (n_addr n) 0 (message_type h) (reserved h))) ;;;
        write_ k 0 S_NORMAL ;;; nret (true, msg_t)
      else if ((n_ret_sys n && (127 <? msg_t)) || (msg_t =? NETWORK_ACK)) && negb (is_frag_or_ext msg_t)
      then nret (false, msg_t)
      else
        enqueue_fb ;;;
        n <- nget ;;
        match fb_type_int n with
        | Some t => if t =? NETWORK_EXT_DATA then nret (false, NETWORK_EXT_DATA) else nret (true, msg_t)
        | None => nret (true, msg_t)
        end
    end

  with handle_other (fuel : nat) (msg_t : Z) {struct fuel} : NM (bool * Z) :=
    match fuel with
    | O => nraise OutOfFuel
    | S k =>
      n <- nget ;;
      let h := fb_hdr n in
      if n_allow_mc n then
        if to_node h =? NET_MULTICAST then
          if (msg_t =? T_POLL) && negb (n_addr n =? NET_DEFAULT) then
            (if n_parenthood n then
               nmod (fun n => let h := fb_hdr n in
                              set_hdr n (hdr_with h (n_addr n) (from_node h) (message_type h) (reserved h))) ;;;
               sleep_ns (n_ppipe n * 1000000) ;;;
               n <- nget ;;
               write_ k (to_node (fb_hdr n)) S_PHYSICAL ;;; nret tt
             else nret tt) ;;; nret (true, 0)
          else
            enqueue_fb ;;;
            n <- nget ;;
            (if n_allow_mc n && n_relay n then
               (if Z.shiftr (n_addr n) 3 =? 0 then sleep_ns 2400000 else nret tt) ;;;
               sleep_ns ((n_addr n mod 4) * 600000) ;;;
               write_ k (Z.land (Z.shiftl (Z.of_N (lvl_2_addr (Z.to_N (n_lvl n)))) 3) 65535) S_MULTICAST ;;; nret tt
             else nret tt) ;;;
            n <- nget ;;
            match fb_type_int n with
            | Some t => if t =? NETWORK_EXT_DATA then nret (false, NETWORK_EXT_DATA) else nret (true, msg_t)
            | None => nret (true, msg_t)
            end
        else if negb (n_addr n =? NET_DEFAULT) then
          write_ k (to_node h) S_ROUTED ;;; nret (true, 0)
        else nret (true, msg_t)
      else if to_node h =? NET_MULTICAST then nret (true, 0)
      else if negb (n_addr n =? NET_DEFAULT) then
        write_ k (to_node h) S_ROUTED ;;; nret (true, 0)
      else nret (true, msg_t)
    end

  (* _write(write_direct, send_type) *)
  with write_ (fuel : nat) (write_direct send_type : Z) {struct fuel} : NM bool :=
    match fuel with
    | O => nraise OutOfFuel
    | S k =>
      n <- nget ;;
      match fb_type_int n with
      | None => nraise TypeError           (* 64 < "T" *)
      | Some ty =>
        let is_ack_t := (64 <? ty) && (ty <? 192) in
        let '(to_n, to_p, is_mc) := l2p n write_direct send_type in
        (if (send_type =? S_ROUTED) && (write_direct =? to_n) && is_ack_t then sleep_ns 2000000 else nret tt) ;;;
        result <- write_to_pipe to_n to_p is_mc k ;;
        n <- nget ;;
        if result && is_ack_t && (send_type =? S_ROUTED) && (to_n =? write_direct)
           && negb (from_node (fb_hdr n) =? n_addr n) then
          nmod (fun n => let h := fb_hdr n in
                         set_hdr n (hdr_with h (from_node h) (from_node h) (IntT NETWORK_ACK) (reserved h))) ;;;
          n <- nget ;;
          let '(an, ap, amc) := l2p n (from_node (fb_hdr n)) S_ROUTED in
          write_to_pipe an ap amc k ;;;
          rf (set_listen B true) ;;;
          (if amc then nret tt else rf (set_auto_ack_attr B (PInt 62))) ;;;
          nret result
        else if result && is_ack_t && negb (to_n =? write_direct)
                && ((send_type =? S_NORMAL) || (send_type =? S_LOGICAL)) then
          rf (set_listen B true) ;;;
          rf (set_auto_ack_attr B (PInt 62)) ;;;
          t0 <- now_z ;;
          n <- nget ;;
          wait_ack k (n_route_timeout n * 1000000 + t0)
        else
          rf (set_listen B true) ;;;
          (if is_mc then nret tt else rf (set_auto_ack_attr B (PInt 62))) ;;;
          nret result
      end
    end

  (* while self._net_update() != NETWORK_ACK: if now > rx_timeout: result = False; break *)
  with wait_ack (fuel : nat) (deadline : Z) {struct fuel} : NM bool :=
    match fuel with
    | O => nraise OutOfFuel
    | S k =>
      t <- net_update k 0 ;;
      if t =? NETWORK_ACK then nret true
      else
        now_ <- now_z ;;
        if deadline <? now_ then nret false else wait_ack k deadline
    end.

End NodeModel.

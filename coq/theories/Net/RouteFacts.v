(* RouteFacts.v -- C04: routing over the 781-address space and pipe-address
   injectivity.  The domain named by the property is finite, so the routing facts
   are kernel computations over all_nodes x all_nodes lifted with forallb_forall;
   pipe-address injectivity is proved for ARBITRARY distinct prefix/suffix bytes
   through index patterns. *)
From Coq Require Import NArith PeanoNat List Bool Lia.
From NRF Require Import Net.Addr Net.AddrFacts.
Import ListNotations.
Local Open Scope N_scope.

Fixpoint list_eqbN (x y : list N) : bool :=
  match x, y with
  | [], [] => true
  | a :: x', b :: y' => (a =? b) && list_eqbN x' y'
  | _, _ => false
  end.

Lemma list_eqbN_eq x y : list_eqbN x y = true <-> x = y.
Proof.
  revert y. induction x as [|a x IH]; destruct y as [|b y]; simpl; try (split; [discriminate|congruence]).
  - tauto.
  - rewrite andb_true_iff, N.eqb_eq, IH. split; [intros [-> ->]; reflexivity|intros H; inversion H; auto].
Qed.

(* ---- routing ---- *)
Definition step_ok (cur nxt : N) : bool :=
  (nxt =? parent_of cur) || ((parent_of nxt =? cur) && negb (nxt =? 0)).

Fixpoint steps_ok (cur : N) (path : list N) : bool :=
  match path with
  | [] => true
  | n :: t => step_ok cur n && steps_ok n t
  end.

(* every hop goes to pipe 1..5 of a node of the address space, and when it goes up
   the pipe is the sender's own last digit (the parent's child number) *)
Fixpoint pipes_ok (cur : N) (r : list (N * N)) : bool :=
  match r with
  | [] => true
  | (n, p) :: t =>
    (1 <=? p) && (p <=? 5) && node_specb n
    && (if n =? parent_of cur then p =? last (digits_of 8 cur) 0 else p =? 5)
    && pipes_ok n t
  end.

Definition route_ok (s d : N) : bool :=
  match route 10 TX_NORMAL s d with
  | None => false
  | Some r =>
    let nodes := map fst r in
    list_eqbN nodes (tree_path s d)
    && Nat.leb (length r) 8
    && steps_ok s nodes
    && (last nodes s =? d)
    && pipes_ok s r
  end.

Lemma route_all_ok :
  forallb (fun s => forallb (fun d => route_ok s d) all_nodes) all_nodes = true.
Proof. vm_compute. reflexivity. Qed.

Theorem route_correct s d :
  In s all_nodes -> In d all_nodes ->
  exists r, route 10 TX_NORMAL s d = Some r
    /\ map fst r = tree_path s d
    /\ (length r <= 8)%nat
    /\ steps_ok s (map fst r) = true
    /\ last (map fst r) s = d
    /\ pipes_ok s r = true.
Proof.
  intros Hs Hd.
  pose proof (forallb_In _ _ _ (forallb_In _ _ _ route_all_ok Hs) Hd) as H.
  unfold route_ok in H. destruct (route 10 TX_NORMAL s d) as [r|]; [|discriminate].
  exists r. repeat (apply andb_true_iff in H; destruct H as [H ?]).
  split; [reflexivity|]. split; [apply list_eqbN_eq; assumption|].
  split; [apply Nat.leb_le; assumption|]. split; [assumption|].
  split; [apply N.eqb_eq; assumption|assumption].
Qed.

(* the level computed by _begin is the number of octal digits *)
Lemma consts_level :
  forallb (fun a => match begin_consts a with
                    | Some c => (c_lvl c =? N.of_nat (length (digits_of 8 a)))
                                && (c_parent c =? parent_of a)
                    | None => false end) all_nodes = true.
Proof. vm_compute. reflexivity. Qed.


(* HeaderRun.v -- int-stream entry points for the header/frame/fragment codecs (C11).
   Model-side glue: no proofs. *)
From Coq Require Import ZArith NArith List Bool.
From NRF Require Import Base.Wire Net.Header Net.QueueRun.
Import ListNotations.
Local Open Scope Z_scope.

Definition put_optbytes (o : option (list N)) : list Z :=
  match o with None => [-1] | Some b => put_bytes b end.

(* frames the fragment loop hands to the radio; `fail` = index of the first fragment
   whose transmission (with all its retries) fails, negative = none fails *)
Definition emitted (h : header) (t : Z) (m : list N) (fail : Z) : list frame :=
  if (length m <=? 24)%nat then [mkFrame h m]
  else
    let fs := fragment_frames h t m in
    if fail <? 0 then fs else firstn (Z.to_nat fail + 1) fs.

Fixpoint put_frames_packed (fs : list frame) : list Z :=
  match fs with
  | [] => []
  | f :: t => put_optbytes (frame_pack f) ++ put_frames_packed t
  end.

Fixpoint put_deliveries (ds : list (Z * Z * list N)) : list Z :=
  match ds with
  | [] => []
  | (f, t, b) :: r => f :: t :: put_bytes b ++ put_deliveries r
  end.

Definition run_header (req : list Z) : list Z :=
  match req with
  | 1 :: f :: t :: i :: r1 =>
    match take_mtype r1 with
    | Some (mt, rs :: _) => put_optbytes (hdr_pack (mkHeader f t i mt rs))
    | _ => [-2]
    end
  | 2 :: r1 =>
    match take_bytes r1 with
    | Some (b, _) =>
      match hdr_unpack b with
      | None => [0]
      | Some h => 1 :: [from_node h; to_node h; frame_id h] ++ put_mtype (message_type h) ++ [reserved h]
      end
    | None => [-2]
    end
  | 3 :: r1 =>
    match take_frame r1 with
    | Some (fr, _) => Z.of_nat (frame_len fr) :: put_optbytes (frame_pack fr)
    | None => [-2]
    end
  | 4 :: r1 =>
    match take_bytes r1 with
    | Some (b, _) => put_optframe (frame_unpack b)
    | None => [-2]
    end
  | 5 :: f :: t :: i :: ty :: rs :: r1 =>
    match take_bytes r1 with
    | Some (m, fail :: _) =>
      let h := mkHeader f t i (IntT ty) rs in
      let fs := emitted h ty m fail in
      let ds := tm_run None fs in
      Z.of_nat (length fs) :: put_frames_packed fs ++ Z.of_nat (length ds) :: put_deliveries ds
    | _ => [-2]
    end
  | 8 :: n :: r1 =>
    let fix take_payloads (k : nat) (s : list Z) : list (list N) :=
      match k with
      | O => []
      | S k' => match take_bytes s with
                | Some (b, r) => b :: take_payloads k' r
                | None => []
                end
      end in
    let fs := flat_map (fun b => match frame_unpack b with Some f => [f] | None => [] end)
                       (take_payloads (Z.to_nat n) r1) in
    let ds := tm_run None fs in
    Z.of_nat (length ds) :: put_deliveries ds
  | 6 :: c :: _ => let '(a, b) := next_id c in [a; b]
  | 7 :: ty :: _ => [zbool (is_ack_type ty)]
  | _ => [-2]
  end.

(* KeepFacts.v -- the network layer (Net/Node.v: _net_update, the two handlers, _write, _write_to_pipe, the
   fragment loop, the NETWORK_ACK wait, _begin) never touches the mesh fields of a node: node ID, lease table,
   pending-request flag.  A frame lemma for the monad NM, proved by structural rules and one induction on the
   shared fuel of the mutually recursive functions; it holds on every bus. *)
From Coq Require Import ZArith NArith List Bool.
From NRF Require Import Env.Radio Env.World Drv.RF24 Net.Addr Net.Header Net.Queue Net.QueueRun Net.Node.
Import ListNotations.
Local Open Scope Z_scope.

Section Keep.
  Context {bus : Type} (B : busops bus).

  Definition mesh_of (n : node) : Z * list (Z * Z) * bool := (n_id n, n_dhcp n, n_do_dhcp n).
  Definition Keeps {A} (m : NM (bus := bus) A) : Prop :=
    forall n b, mesh_of (snd (fst (m n b))) = mesh_of n.

  Lemma keeps_ret {A} (a : A) : Keeps (nret a).
  Proof. intros n b. reflexivity. Qed.
  Lemma keeps_raise {A} e : Keeps (@nraise bus A e).
  Proof. intros n b. reflexivity. Qed.
  Lemma keeps_get : Keeps (@nget bus).
  Proof. intros n b. reflexivity. Qed.
  Lemma keeps_mod f : (forall n, mesh_of (f n) = mesh_of n) -> Keeps (nmod (bus := bus) f).
  Proof. intros H n b. apply H. Qed.
  Lemma keeps_rf {A} (m : M (bus := bus) A) : Keeps (rf m).
  Proof. intros n b. unfold rf. destruct (m (n_rf n) b) as [[r d'] b']. reflexivity. Qed.
  Lemma keeps_bind {A C} (m : NM A) (f : A -> NM C) : Keeps m -> (forall a, Keeps (f a)) -> Keeps (nbind m f).
  Proof.
    intros Hm Hf n b. unfold nbind. specialize (Hm n b). destruct (m n b) as [[[a|e] n1] b1]; cbn [fst snd] in Hm |- *.
    - rewrite (Hf a n1 b1). exact Hm.
    - exact Hm.
  Qed.

End Keep.
Arguments Keeps {bus A} m.

Ltac kpw t :=
  repeat first
    [ t
    | apply keeps_ret | apply keeps_raise | apply keeps_get | apply keeps_rf
    | apply keeps_mod; intro; reflexivity
    | apply keeps_bind; [|intro]
    | assumption
    | match goal with
      | |- Keeps (if ?c then _ else _) => destruct c
      | |- Keeps (match ?x with _ => _ end) => destruct x
      end ].
Ltac kp := kpw fail.

Section KeepNode.
  Context {bus : Type} (B : busops bus).

  Lemma keeps_now_z : Keeps (now_z B).
  Proof. unfold now_z. kp. Qed.
  Lemma keeps_sleep ns : Keeps (sleep_ns B ns).
  Proof. unfold sleep_ns. kp. Qed.
  Lemma keeps_pipe_addr_of n a p : Keeps (pipe_addr_of (bus := bus) n a p).
  Proof. unfold pipe_addr_of. kp. Qed.

  Lemma keeps_open_all addr k : forall i, Keeps (open_all B addr i k).
  Proof. induction k as [|k IH]; intro i; cbn [open_all]; [kp|]. kpw ltac:(first [apply keeps_pipe_addr_of|apply IH]). Qed.

  Lemma keeps_begin addr : Keeps (begin B addr).
  Proof. unfold begin. kpw ltac:(first [apply keeps_open_all|apply keeps_pipe_addr_of]). Qed.

  Lemma keeps_enqueue_fb : Keeps (enqueue_fb (bus := bus)).
  Proof. unfold enqueue_fb. kp. Qed.

  Lemma keeps_tx_standby_loop fuel : forall timeout, Keeps (tx_standby_loop B fuel timeout).
  Proof.
    induction fuel as [|k IH]; intro timeout; cbn [tx_standby_loop]; [kp|].
    kpw ltac:(first [apply keeps_now_z|apply IH]).
  Qed.
  Lemma keeps_tx_standby delta fuel : Keeps (tx_standby B delta fuel).
  Proof. unfold tx_standby. kpw ltac:(first [apply keeps_now_z|apply keeps_tx_standby_loop]). Qed.

  Lemma keeps_frag_retries fuel retries : forall result, Keeps (frag_retries B fuel retries result).
  Proof.
    induction retries as [|r IH]; intro result; destruct result;
      try (change (Keeps (nret (bus := bus) true)); apply keeps_ret);
      try (change (Keeps (nret (bus := bus) false)); apply keeps_ret).
    change (Keeps (nbind (sleep_ns B 2000000) (fun _ => nbind nget (fun n =>
              nbind (tx_standby B (n_tx_timeout n) fuel) (fun res => frag_retries B fuel r res))))).
    kpw ltac:(first [apply keeps_sleep|apply keeps_tx_standby|apply IH]).
  Qed.

  Lemma keeps_frag_loop fuel msg_t total k : forall count, Keeps (frag_loop B fuel msg_t total count k).
  Proof.
    induction k as [|k IH]; intro count; cbn [frag_loop]; [kp|].
    kpw ltac:(first [apply keeps_frag_retries|apply IH]).
  Qed.

  Lemma keeps_write_to_pipe tn tp mc fuel : Keeps (write_to_pipe B tn tp mc fuel).
  Proof.
    unfold write_to_pipe.
    kpw ltac:(first [apply keeps_enqueue_fb|apply keeps_pipe_addr_of|apply keeps_tx_standby|apply keeps_frag_loop]).
  Qed.

  (* the mutually recursive core *)
  Lemma keeps_core fuel :
    (forall rv, Keeps (net_update B fuel rv)) /\
    (forall t, Keeps (handle_this B fuel t)) /\
    (forall t, Keeps (handle_other B fuel t)) /\
    (forall wd st, Keeps (write_ B fuel wd st)) /\
    (forall dl, Keeps (wait_ack B fuel dl)).
  Proof.
    induction fuel as [|k (IHu & IHt & IHo & IHw & IHa)].
    - repeat split; intros; cbn; kp.
    - repeat split; intros.
      + cbn [net_update]. kpw ltac:(first [apply IHu|apply IHt|apply IHo]).
      + cbn [handle_this]. kpw ltac:(first [apply IHw|apply keeps_enqueue_fb]).
      + cbn [handle_other]. kpw ltac:(first [apply IHw|apply keeps_enqueue_fb|apply keeps_sleep]).
      + cbn [write_]. kpw ltac:(first [apply keeps_sleep|apply keeps_write_to_pipe|apply keeps_now_z|apply IHa]).
      + cbn [wait_ack]. kpw ltac:(first [apply IHu|apply keeps_now_z|apply IHa]).
  Qed.

  Theorem keeps_net_update fuel rv : Keeps (net_update B fuel rv).
  Proof. apply keeps_core. Qed.
  Theorem keeps_write fuel wd st : Keeps (write_ B fuel wd st).
  Proof. apply keeps_core. Qed.
End KeepNode.

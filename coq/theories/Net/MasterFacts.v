(* MasterFacts.v -- RF24Mesh.update() on the master (Net/Mesh.v update_master) keeps the lease table one-to-one:
   for EVERY stream of received frames, every world and loss pattern, every bus.  The network layer never touches
   the table (KeepFacts.v); update() changes it only through release_addr and through dhcp_pick + set_address
   (DhcpFacts.v). *)
From Coq Require Import ZArith NArith List Bool.
From NRF Require Import Env.Radio Env.World Drv.RF24 Net.Addr Net.Header Net.Queue Net.QueueRun Net.Node Net.Mesh
     Net.DhcpFacts Net.KeepFacts.
Import ListNotations.
Local Open Scope Z_scope.

Local Opaque FUEL.

Section Master.
  Context {bus : Type} (B : busops bus).

  (* preserves "one ID per address" of the node's table *)
  Definition TInv {A} (m : NM (bus := bus) A) : Prop :=
    forall n b, Inj (n_dhcp n) -> Inj (n_dhcp (snd (fst (m n b)))).

  Lemma tinv_of_keeps {A} (m : NM A) : Keeps m -> TInv m.
  Proof.
    intros K n b H. specialize (K n b). unfold mesh_of in K.
    assert (E : n_dhcp (snd (fst (m n b))) = n_dhcp n) by congruence. rewrite E. exact H.
  Qed.
  Lemma tinv_bind {A C} (m : NM A) (f : A -> NM C) : TInv m -> (forall a, TInv (f a)) -> TInv (nbind m f).
  Proof.
    intros Hm Hf n b H. unfold nbind. specialize (Hm n b H). destruct (m n b) as [[[a|e] n1] b1]; cbn [fst snd] in Hm |- *.
    - apply Hf. exact Hm.
    - exact Hm.
  Qed.
  Lemma tinv_mod f : (forall n, Inj (n_dhcp n) -> Inj (n_dhcp (f n))) -> TInv (nmod (bus := bus) f).
  Proof. intros H n b Hi. apply H. exact Hi. Qed.

  (* Keeps for the mesh helpers the master's update() calls *)
  Lemma keeps_lookup_wait fuel : forall dl, Keeps (lookup_wait B fuel dl).
  Proof.
    induction fuel as [|k IH]; intro dl; cbn [lookup_wait]; [kp|].
    kpw ltac:(first [apply keeps_net_update|apply keeps_now_z|apply IH]).
  Qed.
  Lemma keeps_lookup_2_master number by_id : Keeps (lookup_2_master B number by_id).
  Proof.
    unfold lookup_2_master.
    kpw ltac:(first [apply keeps_write|apply keeps_now_z|apply keeps_lookup_wait]).
  Qed.
  Lemma keeps_lookup_address mc i : Keeps (lookup_address B mc i).
  Proof. unfold lookup_address. kpw ltac:(apply keeps_lookup_2_master). Qed.
  Lemma keeps_lookup_node_id mc a : Keeps (lookup_node_id B mc a).
  Proof. unfold lookup_node_id. kpw ltac:(apply keeps_lookup_2_master). Qed.
  Lemma keeps_release_address_node : Keeps (release_address_node B).
  Proof. unfold release_address_node. kpw ltac:(first [apply keeps_write|apply keeps_begin]). Qed.

  Ltac tv t :=
    repeat first
      [ t
      | apply tinv_bind; [|intro]
      | apply tinv_of_keeps; kpw ltac:(first [apply keeps_write|apply keeps_net_update|apply keeps_lookup_address
                                               |apply keeps_lookup_node_id|apply keeps_release_address_node]); fail
      | match goal with
        | |- TInv (if ?c then _ else _) => destruct c
        | |- TInv (match ?x with _ => _ end) => destruct x
        end ].

  Lemma tinv_dhcp_loop i via sh : TInv (dhcp_loop B i via sh).
  Proof.
    intros n b Hi. unfold dhcp_loop, nbind at 1, nget.
    destruct (dhcp_pick (n_dhcp n) (reserved (fb_hdr n)) i via sh) as [a|] eqn:E; [|exact Hi].
    (* the one place where a lease is written: the address dhcp_pick found free *)
    unfold nbind at 1, nmod at 1.
    set (n1 := set_mesh n (n_id n) (set_address (n_dhcp n) (reserved (fb_hdr n)) a false) (n_do_dhcp n)).
    assert (H1 : Inj (n_dhcp n1)) by (unfold n1; cbn [n_dhcp set_mesh]; exact (inj_dhcp_step _ _ _ _ _ _ Hi E)).
    revert H1. generalize n1. intros n2 H2.
    match goal with |- Inj (n_dhcp (snd (fst (?m n2 b)))) => assert (T : TInv m); [|exact (T n2 b H2)] end.
    tv fail.
  Qed.

  Lemma tinv_dhcp : TInv (dhcp B).
  Proof.
    intros n b Hi. unfold dhcp, nbind at 1, nget. destruct (n_do_dhcp n); [|exact Hi].
    unfold nbind at 1, nmod at 1.
    set (n1 := set_mesh n (n_id n) (n_dhcp n) false).
    assert (H1 : Inj (n_dhcp n1)) by exact Hi.
    apply tinv_dhcp_loop. exact H1.
  Qed.

  (* RF24Mesh.update() on the master keeps the table one-to-one, whatever arrives *)
  Theorem tinv_update_master : TInv (update_master B).
  Proof.
    unfold update_master.
    apply tinv_bind; [apply tinv_of_keeps; apply keeps_net_update|intro msg_t].
    apply tinv_bind; [apply tinv_of_keeps; apply keeps_get|intro n].
    apply tinv_bind; [destruct (_ && _); [apply tinv_mod; intros ? H; exact H|apply tinv_of_keeps; apply keeps_ret]|intros _].
    apply tinv_bind; [apply tinv_of_keeps; apply keeps_get|intro n2].
    apply tinv_bind; [|intros _; apply tinv_of_keeps; apply keeps_ret].
    destruct (n_id n2 =? 0); [|apply tinv_of_keeps; apply keeps_ret].
    apply tinv_bind; [|intros _; apply tinv_dhcp].
    destruct ((msg_t =? T_ADDR_LOOKUP) || (msg_t =? T_ID_LOOKUP)).
    - apply tinv_of_keeps.
      kpw ltac:(first [apply keeps_write|apply keeps_lookup_address|apply keeps_lookup_node_id]).
    - destruct (msg_t =? T_ADDR_RELEASE); [|apply tinv_of_keeps; apply keeps_ret].
      apply tinv_bind; [apply tinv_of_keeps; apply keeps_get|intro n3].
      destruct (from_node (fb_hdr n3) =? 0).
      + apply tinv_of_keeps. kpw ltac:(apply keeps_release_address_node).
      + apply tinv_mod. intros n4 H. cbn [n_dhcp set_mesh]. apply inj_release. exact H.
  Qed.

End Master.

(* Mesh.v -- model of rf24_mesh.py (RF24MeshNoMaster, RF24Mesh) on top of Net/Node.v.
   dhcp_dict is an insertion-ordered association list with Python's dict semantics;
   the set of poll responders follows CPython's small-set iteration order (8 slots,
   hash(int) = int, perturbation probing).  Model only: no proofs here. *)
From Coq Require Import ZArith NArith List Bool.
From NRF Require Import Env.Radio Env.World Drv.RF24 Net.Addr Net.Header Net.Queue Net.QueueRun Net.Node.
Import ListNotations.
Local Open Scope Z_scope.

(* ---- Python dict (insertion ordered) ---- *)
Fixpoint dict_set (d : list (Z * Z)) (k v : Z) : list (Z * Z) :=
  match d with
  | [] => [(k, v)]
  | (k', v') :: t => if k' =? k then (k, v) :: t else (k', v') :: dict_set t k v
  end.
Fixpoint dict_del (d : list (Z * Z)) (k : Z) : list (Z * Z) :=
  match d with
  | [] => []
  | (k', v') :: t => if k' =? k then t else (k', v') :: dict_del t k
  end.
Fixpoint dict_find_val (d : list (Z * Z)) (v : Z) : option Z :=   (* first key with this value *)
  match d with
  | [] => None
  | (k', v') :: t => if v' =? v then Some k' else dict_find_val t v
  end.
Fixpoint dict_get (d : list (Z * Z)) (k : Z) : option Z :=
  match d with
  | [] => None
  | (k', v') :: t => if k' =? k then Some v' else dict_get t k
  end.

(* set_address(node_id, node_address, search_by_address) *)
Definition set_address (d : list (Z * Z)) (node_id node_address : Z) (by_addr : bool) : list (Z * Z) :=
  if by_addr then
    match dict_find_val d node_address with
    | Some k => dict_set (dict_del d k) node_id node_address
    | None => dict_set d node_id node_address
    end
  else dict_set d node_id node_address.

(* release_address(address): delete the first entry with that address *)
Definition release_addr (d : list (Z * Z)) (address : Z) : bool * list (Z * Z) :=
  match dict_find_val d address with
  | Some k => (true, dict_del d k)
  | None => (false, d)
  end.

(* _get_address(number, lookup_type): -2 when absent *)
Definition get_address (d : list (Z * Z)) (number : Z) (by_id : bool) : Z :=
  if by_id then match dict_get d number with Some a => a | None => -2 end
  else match dict_find_val d number with Some k => k | None => -2 end.

(* _dhcp()'s candidate scan, i = MESH_MAX_CHILDREN(+1) .. 1: the first child slot of [via] that is not the
   unassigned address and is not held by another ID *)
Fixpoint dhcp_pick (d : list (Z * Z)) (rid : Z) (i : nat) (via shift_val : Z) : option Z :=
  match i with
  | O => None
  | S i' =>
    let new_addr := Z.lor via (Z.shiftl (Z.of_nat i) shift_val) in
    if new_addr =? 2340 (* NETWORK_DEFAULT_ADDR 0o4444 *) then dhcp_pick d rid i' via shift_val
    else if existsb (fun kv => (snd kv =? new_addr) && negb (fst kv =? rid)) d
    then dhcp_pick d rid i' via shift_val
    else Some new_addr
  end.

(* binary persistence: [id, 0, lo, hi] per entry; loading searches by address, like JSON (fix C16) *)
Definition save_bin (d : list (Z * Z)) : result (list N) :=
  (fix go (d : list (Z * Z)) : result (list N) :=
     match d with
     | [] => Ok []
     | (k, v) :: t =>
       if negb ((0 <=? k) && (k <=? 255)) then Exn ValueError          (* bytes([_id, 0]) *)
       else if negb ((0 <=? v) && (v <=? 65535)) then Exn StructError   (* struct.pack("<H") *)
       else match go t with
            | Ok r => Ok (Z.to_N k :: 0%N :: Z.to_N (v mod 256) :: Z.to_N (v / 256) :: r)
            | Exn e => Exn e
            end
     end) d.
Fixpoint load_bin (fuel : nat) (buf : list N) (d : list (Z * Z)) : list (Z * Z) :=
  match fuel with
  | O => d
  | S k =>
    match buf with
    | i :: _ :: lo :: hi :: t => load_bin k t (set_address d (Z.of_N i) (Z.of_N lo + 256 * Z.of_N hi) true)
    | _ => d
    end
  end.
(* JSON persistence: what json.load gives back is the same (str(id), addr) pairs in order;
   loading searches by address *)
Fixpoint load_json (pairs : list (Z * Z)) (d : list (Z * Z)) : list (Z * Z) :=
  match pairs with
  | [] => d
  | (k, v) :: t => load_json t (set_address d k v true)
  end.

(* ---- CPython iteration order of a set of at most 4 small non-negative ints ---- *)
Fixpoint probe (fuel : nat) (tbl : list (option Z)) (i perturb : Z) : Z :=
  match fuel with
  | O => i
  | S k =>
    match nth (Z.to_nat i) tbl None with
    | None => i
    | Some _ =>
      let perturb' := Z.shiftr perturb 5 in
      probe k tbl (Z.land (i * 5 + 1 + perturb') 7) perturb'
    end
  end.
Fixpoint tbl_set (tbl : list (option Z)) (i : nat) (v : Z) : list (option Z) :=
  match tbl, i with
  | [], _ => []
  | _ :: t, O => Some v :: t
  | x :: t, S k => x :: tbl_set t k v
  end.
Definition set_add (tbl : list (option Z)) (v : Z) : list (option Z) :=
  if existsb (fun o => match o with Some x => x =? v | None => false end) tbl then tbl
  else tbl_set tbl (Z.to_nat (probe 32 tbl (Z.land v 7) v)) v.
Definition set_items (tbl : list (option Z)) : list Z :=
  flat_map (fun o => match o with Some x => [x] | None => [] end) tbl.
Definition empty_set : list (option Z) := repeat None 8.
Definition set_len (tbl : list (option Z)) : nat := length (set_items tbl).

Fixpoint level_of (fuel : nat) (a : Z) : Z :=
  match fuel with
  | O => 0
  | S k => if a =? 0 then 0 else 1 + level_of k (Z.shiftr a 3)
  end.

Section MeshModel.
  Context {bus : Type} (B : busops bus).
  Notation "x <- m ;; f" := (nbind m (fun x => f)) (at level 61, m at next level, right associativity).
  Notation "m ;;; f" := (nbind m (fun _ => f)) (at level 61, right associativity).

  Definition FUEL : nat := N.to_nat 300000.

  Definition set_fb_fields (n : node) (fromv tov ty res : Z) (m : list N) : node :=
    set_fb n (mkFrame (mkHeader fromv tov (frame_id (fb_hdr n)) (IntT ty) res) m).

  Definition update_nomaster : NM Z := net_update B FUEL 0.

  (* RF24MeshNoMaster.release_address() *)
  Definition release_address_node : NM bool :=
    n <- nget ;;
    if negb (n_addr n =? NET_DEFAULT) then
      nmod (fun n => set_fb_fields n (n_addr n) 0 T_ADDR_RELEASE (reserved (fb_hdr n)) []) ;;;
      r <- write_ B FUEL 0 S_NORMAL ;;
      if r then begin B NET_DEFAULT ;;; nret true else nret false
    else nret false.

  (* _lookup_2_master(number, lookup_type) *)
  Fixpoint lookup_wait (fuel : nat) (deadline : Z) : NM bool :=
    match fuel with
    | O => nraise OutOfFuel
    | S k =>
      t <- net_update B FUEL 0 ;;
      if (t =? T_ID_LOOKUP) || (t =? T_ADDR_LOOKUP) then nret true
      else
        now_ <- now_z B ;;
        if deadline <? now_ then nret false else lookup_wait k deadline
    end.

  Definition lookup_2_master (number : Z) (by_id : bool) : NM Z :=
    n <- nget ;;
    (if by_id then   (* MESH_ADDR_LOOKUP: bytes([number]) *)
       if (0 <=? number) && (number <=? 255)
       then nmod (fun n => set_fb_fields n (n_addr n) 0 T_ADDR_LOOKUP (reserved (fb_hdr n)) [Z.to_N number])
       else nraise ValueError
     else            (* MESH_ID_LOOKUP: struct.pack("<H", number) *)
       if (0 <=? number) && (number <=? 65535)
       then nmod (fun n => set_fb_fields n (n_addr n) 0 T_ID_LOOKUP (reserved (fb_hdr n))
                                         [Z.to_N (number mod 256); Z.to_N (number / 256)])
       else nraise StructError) ;;;
    r <- write_ B FUEL 0 S_NORMAL ;;
    if negb r then nret (-1)
    else
      t0 <- now_z B ;;
      ok <- lookup_wait FUEL (135 * 1000000 + t0) ;;
      if negb ok then nret (-1)
      else
        n <- nget ;;
        match msg (n_fb n) with
        | lo :: hi :: _ =>     (* struct.unpack("<h", message[:2]) *)
          let u := Z.of_N lo + 256 * Z.of_N hi in
          nret (if u <? 32768 then u else u - 65536)
        | [x] => if by_id then nret (-1) else nret (Z.of_N x)
        | [] => nret (-1)
        end.

  (* lookup_address(node_id) / lookup_node_id(address): None is modelled as the empty option *)
  Definition lookup_address (is_master_class : bool) (node_id : option Z) : NM Z :=
    n <- nget ;;
    match node_id with
    | None => nret 0
    | Some i =>
      if i =? 0 then nret 0
      else if n_addr n =? NET_DEFAULT then nret (-2)
      else if is_master_class && (n_id n =? 0) then nret (get_address (n_dhcp n) i true)
      else lookup_2_master i true
    end.

  Definition lookup_node_id (is_master_class : bool) (address : option Z) : NM Z :=
    n <- nget ;;
    match address with
    | None => nret (n_id n)
    | Some a =>
      if a =? 0 then nret 0
      else if n_addr n =? NET_DEFAULT then nret (-2)
      else if is_master_class && (n_addr n =? 0) then nret (get_address (n_dhcp n) a false)
      else lookup_2_master a false
    end.

  (* RF24MeshNoMaster.write(to_node, message_type, message); message_type int or 1-char str
     (already converted by RF24NetworkHeader.__init__: `& 0xFF`), frame id from the counter *)
  Definition mesh_write (to_node ty : Z) (message : list N) (fid : Z) : NM bool :=
    n <- nget ;;
    if n_max_len n <? Z.of_nat (length message) then nraise ValueError
    else
      let message := if (Nat.ltb 24 (length message)) && negb (n_frag n) then firstn 24 message else message in
      if (n_addr n =? NET_DEFAULT) || negb (valid_z to_node) then nret false
      else
        nmod (fun n => set_fb n (mkFrame (mkHeader (n_addr n) (Z.land to_node 4095) fid (IntT (Z.land ty 255)) 0)
                                         message)) ;;;
        write_ B FUEL to_node S_NORMAL.

  (* check_connection(attempts, ping_master) for a node with a non-zero id *)
  Fixpoint check_conn_loop (is_master_class : bool) (attempts : nat) (ping_master : bool) (fid : Z) : NM bool :=
    match attempts with
    | O => nret false
    | S k =>
      n <- nget ;;
      if ping_master then
        r <- lookup_address is_master_class (Some (n_id n)) ;;
        if r =? -2 then nret false
        else
          n <- nget ;;
          if r =? n_addr n then nret true else check_conn_loop is_master_class k ping_master fid
      else
        ok <- mesh_write (n_parent n) T_PING [] fid ;;
        if ok then nret true else check_conn_loop is_master_class k ping_master (fid + 1)
    end.
  Definition check_connection (is_master_class : bool) (attempts : nat) (ping_master : bool) (fid : Z) : NM bool :=
    n <- nget ;;
    if n_id n =? 0 then nret true
    else if n_addr n =? NET_DEFAULT then nret false
    else check_conn_loop is_master_class attempts ping_master fid.

  (* send(to_node_id, message_type, message) *)
  Fixpoint send_lookup (is_master_class : bool) (fuel : nat) (to_id deadline retry_delay : Z) : NM (option Z) :=
    match fuel with
    | O => nraise OutOfFuel
    | S k =>
      a <- lookup_address is_master_class (Some to_id) ;;
      t <- now_z B ;;
      if deadline <=? t then nret None
      else if a <? 0 then
        sleep_ns B (retry_delay * 1000000) ;;; send_lookup is_master_class k to_id deadline (retry_delay + 10)
      else nret (Some a)
    end.

  Definition mesh_send (is_master_class : bool) (to_id ty : Z) (message : list N) (fid : Z) : NM bool :=
    n <- nget ;;
    if n_addr n =? NET_DEFAULT then nret false
    else
      target <-
        (if negb (to_id =? 0) && negb (to_id =? n_id n) then
           t0 <- now_z B ;;
           send_lookup is_master_class FUEL to_id (115 * 1000000 + t0) 5
         else
           (* `elif to_node == self._id`: only an ID that was not looked up can mean "myself" *)
           n <- nget ;; nret (Some (if to_id =? n_id n then n_addr n else to_id))) ;;
      match target with
      | None => nret false
      | Some tn => mesh_write tn ty message fid
      end.

  (* ---- master ---- *)
  (* _dhcp(): candidate loop i = MESH_MAX_CHILDREN(+1) .. 1 *)
  Definition dhcp_loop (i : nat) (via shift_val : Z) : NM unit :=
    n <- nget ;;
    let h := fb_hdr n in
    match dhcp_pick (n_dhcp n) (reserved h) i via shift_val with
    | None => nret tt
    | Some new_addr =>
        nmod (fun n => set_mesh n (n_id n) (set_address (n_dhcp n) (reserved h) new_addr false) (n_do_dhcp n)) ;;;
        (* header.message_type, header.to_node are assigned before struct.pack("<H", new_addr) can raise *)
        nmod (fun n => let h := fb_hdr n in
                       set_fb n (mkFrame (mkHeader (from_node h) (from_node h) (frame_id h) (IntT T_ADDR_RESP) (reserved h))
                                         (msg (n_fb n)))) ;;;
        (if (0 <=? new_addr) && (new_addr <=? 65535) then nret tt else nraise StructError) ;;;
        nmod (fun n => set_fb n (mkFrame (fb_hdr n) [Z.to_N (new_addr mod 256); Z.to_N (new_addr / 256)])) ;;;
        n <- nget ;;
        if negb (from_node (fb_hdr n) =? NET_DEFAULT) then
          let response := n_fb n in          (* frame_buf.pack() ... frame_buf.unpack(response) *)
          r <- write_ B FUEL via S_NORMAL ;;
          if negb r then nmod (fun n => set_fb n response) ;;; write_ B FUEL via S_NORMAL ;;; nret tt else nret tt
        else
          write_ B FUEL (to_node (fb_hdr n)) S_PHYSICAL ;;; nret tt
    end.

  Definition dhcp : NM unit :=
    n <- nget ;;
    if n_do_dhcp n then
      nmod (fun n => set_mesh n (n_id n) (n_dhcp n) false) ;;;
      let fromv := from_node (fb_hdr n) in
      let direct := fromv =? NET_DEFAULT in
      let via := if direct then 0 else fromv in
      let shift_val := if direct then 0 else 3 * level_of 8 via in
      dhcp_loop (if direct then 5 else 4) via shift_val
    else nret tt.

  (* RF24Mesh.update() *)
  Definition update_master : NM Z :=
    msg_t <- net_update B FUEL 0 ;;
    n <- nget ;;
    (if (msg_t =? T_ADDR_REQ) && negb (reserved (fb_hdr n) =? 0)
     then nmod (fun n => set_mesh n (n_id n) (n_dhcp n) true) else nret tt) ;;;
    n <- nget ;;
    (if n_id n =? 0 then    (* not self.lookup_node_id() : id 0 is the master *)
       (if (msg_t =? T_ADDR_LOOKUP) || (msg_t =? T_ID_LOOKUP) then
          nmod (fun n => let h := fb_hdr n in
                         set_hdr n (mkHeader (from_node h) (from_node h) (frame_id h) (message_type h) (reserved h))) ;;;
          n <- nget ;;
          ans <- (if msg_t =? T_ADDR_LOOKUP then
                    match msg (n_fb n) with
                    | [] => nret None                       (* truncated request: ignored *)
                    | x :: _ => r <- lookup_address true (Some (Z.of_N x)) ;; nret (Some r)
                    end
                  else
                    match msg (n_fb n) with
                    | lo :: hi :: _ => r <- lookup_node_id true (Some (Z.of_N lo + 256 * Z.of_N hi)) ;; nret (Some r)
                    | _ => nret None
                    end) ;;
          match ans with
          | None => nret tt
          | Some r =>
            (* struct.pack("<h", r) *)
            if (-32768 <=? r) && (r <=? 32767) then
              let u := r mod 65536 in
              nmod (fun n => set_fb n (mkFrame (fb_hdr n) [Z.to_N (u mod 256); Z.to_N (u / 256)])) ;;;
              n <- nget ;;
              write_ B FUEL (to_node (fb_hdr n)) S_NORMAL ;;; nret tt
            else nraise StructError
          end
        else if msg_t =? T_ADDR_RELEASE then
          n <- nget ;;
          let a := from_node (fb_hdr n) in
          (* release_address(address): address 0 falls back to the node version *)
          (if a =? 0 then release_address_node ;;; nret tt
           else nmod (fun n => set_mesh n (n_id n) (snd (release_addr (n_dhcp n) a)) (n_do_dhcp n)))
        else nret tt) ;;;
       dhcp
     else nret tt) ;;;
    nret msg_t.

  Definition class_update (is_master_class : bool) : NM Z :=
    if is_master_class then update_master else update_nomaster.

  (* ---- joining: _make_contact / _request_address / renew_address ---- *)
  Fixpoint contact_loop (fuel : nat) (deadline : Z) (resp : list (option Z)) : NM (list (option Z)) :=
    match fuel with
    | O => nraise OutOfFuel
    | S k =>
      t <- now_z B ;;
      if (t <? deadline) && Nat.ltb (set_len resp) 4 then
        ty <- net_update B FUEL 0 ;;
        if ty =? T_POLL then
          n <- nget ;; contact_loop k deadline (set_add resp (from_node (fb_hdr n)))
        else contact_loop k deadline resp
      else nret resp
    end.

  Definition make_contact (lvl : Z) : NM (list Z) :=
    nmod (fun n => set_fb_fields n NET_DEFAULT NET_MULTICAST T_POLL (reserved (fb_hdr n)) []) ;;;
    write_ B FUEL (Z.of_N (lvl_2_addr (Z.to_N lvl))) S_MULTICAST ;;;
    t0 <- now_z B ;;
    r <- contact_loop FUEL (55000000 + t0) empty_set ;;
    nret (set_items r).

  (* wait up to 225 ms for a MESH_ADDR_RESPONSE carrying our id and a child of `contact` *)
  Fixpoint response_loop (fuel : nat) (deadline contact : Z) (cur : option Z) : NM (option Z) :=
    match fuel with
    | O => nraise OutOfFuel
    | S k =>
      t <- now_z B ;;
      if t <? deadline then
        ty <- net_update B FUEL 0 ;;
        n <- nget ;;
        if (ty =? T_ADDR_RESP) && (reserved (fb_hdr n) =? n_id n) then
          match msg (n_fb n) with
          | lo :: hi :: _ =>
            let new_addr := Z.of_N lo + 256 * Z.of_N hi in
            let test := Z.land new_addr (Z.lnot (Z.shiftl 65535 (level_of 8 contact * 3))) in
            if test =? contact then nret (Some new_addr) else response_loop k deadline contact None
          | _ => nraise StructError
          end
        else response_loop k deadline contact cur
      else nret cur
    end.

  Fixpoint request_contacts (is_master_class : bool) (contacts : list Z) (cur : option Z) : NM bool :=
    match contacts with
    | [] => nret false
    | contact :: rest =>
      n <- nget ;;
      nmod (fun n => set_fb_fields n NET_DEFAULT contact T_ADDR_REQ (n_id n) []) ;;;
      write_ B FUEL contact S_PHYSICAL ;;;
      t0 <- now_z B ;;
      got <- response_loop FUEL (225000000 + t0) contact cur ;;
      match got with
      | None => request_contacts is_master_class rest None
      | Some a =>
        begin B a ;;;
        n <- nget ;;
        r1 <- lookup_node_id is_master_class (Some (n_addr n)) ;;
        n <- nget ;;
        if negb (r1 =? n_id n) then
          r2 <- lookup_node_id is_master_class (Some (n_addr n)) ;;
          n <- nget ;;
          if negb (r2 =? n_id n) then
            begin B NET_DEFAULT ;;; request_contacts is_master_class rest got
          else nret true
        else nret true
      end
    end.

  Definition request_address (is_master_class : bool) (level : Z) : NM bool :=
    cs <- make_contact level ;;
    match cs with
    | [] => nret false
    | _ => request_contacts is_master_class cs None
    end.

  (* renew_address(timeout): timeout in ns *)
  Fixpoint renew_loop (is_master_class : bool) (fuel : nat) (end_timer total_requests request_count : Z) : NM (option Z) :=
    match fuel with
    | O => nraise OutOfFuel
    | S k =>
      ok <- request_address is_master_class request_count ;;
      if ok then n <- nget ;; nret (Some (n_addr n))
      else
        t <- now_z B ;;
        if end_timer <? t then nret None
        else
          sleep_ns B ((25 + ((total_requests + 1) * (request_count + 1)) * 2) * 1000000) ;;;
          renew_loop is_master_class k end_timer ((total_requests + 1) mod 10) ((request_count + 1) mod 4)
    end.

  Definition renew_address (is_master_class : bool) (timeout_ns : Z) : NM (option Z) :=
    n <- nget ;;
    if is_master_class && (n_id n =? 0) then nret (Some 0)
    else
      av <- rf (available B) ;;
      (if av then class_update is_master_class ;;; nret tt else nret tt) ;;;
      n <- nget ;;
      (if negb (n_addr n =? NET_DEFAULT) then begin B NET_DEFAULT else nret tt) ;;;
      t0 <- now_z B ;;
      renew_loop is_master_class 64 (timeout_ns + t0) 0 0.

  (* node_id setter *)
  Definition set_node_id (v : Z) : NM unit :=
    n <- nget ;;
    (if negb (n_addr n =? NET_DEFAULT) then release_address_node ;;; nret tt else nret tt) ;;;
    nmod (fun n => set_mesh n (Z.land v 255) (n_dhcp n) (n_do_dhcp n)).

End MeshModel.

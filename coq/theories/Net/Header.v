(* Header.v -- model of network/structs.py: RF24NetworkHeader, RF24NetworkFrame,
   and of the sender-side fragment numbering of mixins.py:_write_to_pipe.
   Python ints are Z (unbounded, `&` = Z.land), bytes are N < 256.
   Model only: no proofs here. *)
From Coq Require Import ZArith NArith List Bool.
Import ListNotations.
Local Open Scope Z_scope.

Definition MSG_FRAG_FIRST : Z := 148.
Definition MSG_FRAG_MORE : Z := 149.
Definition MSG_FRAG_LAST : Z := 150.
Definition NETWORK_EXT_DATA : Z := 131.
Definition NETWORK_ACK : Z := 193.
Definition MAX_FRAG_SIZE : nat := 24.

(* message_type is an int, or a str (list of code points) when the user assigned one *)
Inductive mtype := IntT (z : Z) | StrT (cps : list Z).

Record header := mkHeader {
  from_node : Z; to_node : Z; frame_id : Z; message_type : mtype; reserved : Z }.

Record frame := mkFrame { hdr : header; msg : list N }.

Definition byte (v : Z) : N := Z.to_N (Z.land v 255).

(* struct.pack("H", v) for 0 <= v < 65536, little-endian host *)
Definition le16 (v : Z) : list N := [byte v; byte (Z.shiftr v 8)].
Definition un16 (lo hi : N) : Z := Z.of_N lo + 256 * Z.of_N hi.

(* msg_t = self.message_type
   if isinstance(self.message_type, str) and self.message_type: msg_t = ord(...[0])
   ... msg_t & 0xFF        -- an empty str reaches `"" & 0xFF`: TypeError          *)
Definition type_code (t : mtype) : option Z :=
  match t with
  | IntT z => Some z
  | StrT [] => None
  | StrT (c :: _) => Some c
  end.

(* RF24NetworkHeader.pack(); None = TypeError *)
Definition hdr_pack (h : header) : option (list N) :=
  match type_code (message_type h) with
  | None => None
  | Some t =>
    Some (le16 (Z.land (from_node h) 4095) ++ le16 (Z.land (to_node h) 4095)
          ++ le16 (Z.land (frame_id h) 65535) ++ [byte t; byte (reserved h)])
  end.

(* RF24NetworkHeader.unpack(buffer): None = returned False (len < 8) *)
Definition hdr_unpack (b : list N) : option header :=
  match b with
  | f0 :: f1 :: t0 :: t1 :: i0 :: i1 :: ty :: rs :: _ =>
    Some (mkHeader (un16 f0 f1) (un16 t0 t1) (un16 i0 i1) (IntT (Z.of_N ty)) (Z.of_N rs))
  | _ => None
  end.

Definition frame_pack (f : frame) : option (list N) :=
  match hdr_pack (hdr f) with
  | None => None
  | Some hb => Some (hb ++ msg f)
  end.

Definition frame_unpack (b : list N) : option frame :=
  match hdr_unpack b with
  | None => None
  | Some h => Some (mkFrame h (skipn 8 b))
  end.

Definition frame_len (f : frame) : nat := 8 + length (msg f).

(* what a copy through pack/unpack stores: all fields masked, type an int *)
Definition mask_hdr (h : header) : option header :=
  match type_code (message_type h) with
  | None => None
  | Some t => Some (mkHeader (Z.land (from_node h) 4095) (Z.land (to_node h) 4095)
                             (Z.land (frame_id h) 65535) (IntT (Z.land t 255))
                             (Z.land (reserved h) 255))
  end.

(* RF24NetworkHeader.__next_id bookkeeping: the id handed out and the new counter *)
Definition next_id (counter : Z) : Z * Z := (counter, Z.land (counter + 1) 65535).

(* is_ack_type: 64 < message_type < 192 (ints only) *)
Definition is_ack_type (t : Z) : bool := (64 <? t) && (t <? 192).

(* ---- sender-side fragmentation (mixins.py:552-586) ----
   total = bool(msg_len % 24) + int(msg_len / 24)
   fragment `count` (0-based): bytes [24*count, 24*count+24) (to the end for the last),
   type FIRST / MORE / LAST, reserved = total - count, the last one carries the
   original type in `reserved`.  Every fragment is header.pack() + slice.          *)
Definition frag_total (n : nat) : nat :=
  (if Nat.eqb (Nat.modulo n MAX_FRAG_SIZE) 0 then 0 else 1) + Nat.div n MAX_FRAG_SIZE.

Definition frag_header (h : header) (orig_t : Z) (total count : nat) : header :=
  if Nat.eqb count (total - 1) then
    mkHeader (from_node h) (to_node h) (frame_id h) (IntT MSG_FRAG_LAST) orig_t
  else if Nat.eqb count 0 then
    mkHeader (from_node h) (to_node h) (frame_id h) (IntT MSG_FRAG_FIRST)
             (Z.of_nat (total - count))
  else
    mkHeader (from_node h) (to_node h) (frame_id h) (IntT MSG_FRAG_MORE)
             (Z.of_nat (total - count)).

Definition frag_slice (m : list N) (total count : nat) : list N :=
  if Nat.eqb count (total - 1) then skipn (MAX_FRAG_SIZE * count) m
  else firstn MAX_FRAG_SIZE (skipn (MAX_FRAG_SIZE * count) m).

(* the frames the loop hands to RF24.send, in order (message longer than 24 bytes,
   int-typed header) *)
Definition fragment_frames (h : header) (orig_t : Z) (m : list N) : list frame :=
  let total := frag_total (length m) in
  map (fun count => mkFrame (frag_header h orig_t total count) (frag_slice m total count))
      (seq 0 total).

(* ---- a TMRh20-style receiver (written from RF24Network.cpp's fragment handling,
   not from this library): one pending message (id, expected counter, bytes) ---- *)
Record tm_state := mkTm { tm_id : Z; tm_cnt : Z; tm_from : Z; tm_buf : list N }.

Definition tm_step (st : option tm_state) (f : frame)
  : option tm_state * option (Z * Z * list N) (* delivered: (from, type, bytes) *) :=
  let h := hdr f in
  match message_type h with
  | IntT t =>
    if t =? MSG_FRAG_FIRST then
      (Some (mkTm (frame_id h) (reserved h) (from_node h) (msg f)), None)
    else if t =? MSG_FRAG_MORE then
      match st with
      | Some s =>
        if (1 <? tm_cnt s) && (tm_cnt s - 1 =? reserved h) && (tm_id s =? frame_id h)
        then (Some (mkTm (tm_id s) (tm_cnt s - 1) (tm_from s) (tm_buf s ++ msg f)), None)
        else (st, None)
      | None => (None, None)
      end
    else if t =? MSG_FRAG_LAST then
      match st with
      | Some s =>
        if (tm_cnt s =? 2) && (tm_id s =? frame_id h)
        then (None, Some (tm_from s, reserved h, tm_buf s ++ msg f))
        else (None, None)
      | None => (None, None)
      end
    else (st, Some (from_node h, t, msg f))
  | StrT _ => (st, None)
  end.

Fixpoint tm_run (st : option tm_state) (fs : list frame) : list (Z * Z * list N) :=
  match fs with
  | [] => []
  | f :: t =>
    let '(st', out) := tm_step st f in
    match out with
    | Some d => d :: tm_run st' t
    | None => tm_run st' t
    end
  end.

(* FragFacts.v -- proofs about the reassembly model (property C06; shared with C05/C11). *)
From Coq Require Import ZArith NArith List Bool Lia.
From NRF Require Import Net.Header Net.Queue Net.QueueFacts.
Import ListNotations.
Local Open Scope Z_scope.

(* ---- sent messages ---- *)
Record message := mkMsg { m_from : Z; m_to : Z; m_id : Z; m_type : Z; m_data : list N }.

Definition wf_msg (m : message) : Prop :=
  0 <= m_from m < 4096 /\ 0 <= m_to m < 4096 /\ 0 <= m_id m < 65536 /\ 0 <= m_type m < 256
  /\ m_type m <> 148 /\ m_type m <> 149 /\ m_type m <> 150
  /\ (length (m_data m) <= 24 * 255)%nat.

Definition mkey (m : message) : Z * Z * Z := (m_from m, m_to m, m_id m).
Definition mtotal (m : message) : nat := frag_total (length (m_data m)).
Definition is_long (m : message) : bool := (24 <? length (m_data m))%nat.
Definition hdr0 (m : message) : header :=
  mkHeader (m_from m) (m_to m) (m_id m) (IntT (m_type m)) 0.

(* fragment number i of a long message, exactly as the sender's loop builds it *)
Definition frag (m : message) (i : nat) : frame :=
  mkFrame (frag_header (hdr0 m) (m_type m) (mtotal m) i) (frag_slice (m_data m) (mtotal m) i).

Definition frames_of (m : message) : list frame :=
  if is_long m then fragment_frames (hdr0 m) (m_type m) (m_data m)
  else [mkFrame (hdr0 m) (m_data m)].

(* a frame the application sees carries message m *)
Definition delivers (m : message) (f : frame) : Prop :=
  from_node (hdr f) = m_from m /\ to_node (hdr f) = m_to m /\ frame_id (hdr f) = m_id m
  /\ message_type (hdr f) = IntT (m_type m) /\ msg f = m_data m.

Lemma frames_of_long m f :
  is_long m = true -> (In f (frames_of m) <-> exists i, (i < mtotal m)%nat /\ f = frag m i).
Proof.
  intros Hl. unfold frames_of. rewrite Hl. unfold fragment_frames, mtotal. rewrite in_map_iff.
  split.
  - intros [i [Hf Hi]]. apply in_seq in Hi. exists i. split; [lia|]. symmetry. exact Hf.
  - intros [i [Hi Hf]]. exists i. split; [symmetry; exact Hf|]. apply in_seq. lia.
Qed.

(* ---- arithmetic of the fragment count ---- *)
Lemma total_bounds n : (24 < n)%nat ->
  (2 <= frag_total n /\ 24 * (frag_total n - 1) < n /\ n <= 24 * frag_total n)%nat.
Proof.
  unfold frag_total, MAX_FRAG_SIZE. intros H.
  pose proof (Nat.div_mod n 24 ltac:(lia)) as E.
  pose proof (Nat.mod_upper_bound n 24 ltac:(lia)) as U.
  remember (n / 24)%nat as d. remember (n mod 24)%nat as r.
  destruct (Nat.eqb_spec r 0); lia.
Qed.

Lemma total_le n : (n <= 24 * 255)%nat -> (frag_total n <= 255)%nat.
Proof.
  unfold frag_total, MAX_FRAG_SIZE. intros H.
  pose proof (Nat.div_mod n 24 ltac:(lia)) as E.
  pose proof (Nat.mod_upper_bound n 24 ltac:(lia)) as U.
  remember (n / 24)%nat as d. remember (n mod 24)%nat as r.
  destruct (Nat.eqb_spec r 0); lia.
Qed.

Lemma land_small x k : 0 <= x < 2 ^ k -> 0 <= k -> Z.land x (Z.ones k) = x.
Proof. intros H Hk. rewrite Z.land_ones by lia. apply Z.mod_small. exact H. Qed.

Lemma land12 x : 0 <= x < 4096 -> Z.land x 4095 = x.
Proof. intros H. change 4095 with (Z.ones 12). apply land_small; [exact H|lia]. Qed.
Lemma land16 x : 0 <= x < 65536 -> Z.land x 65535 = x.
Proof. intros H. change 65535 with (Z.ones 16). apply land_small; [exact H|lia]. Qed.
Lemma land8 x : 0 <= x < 256 -> Z.land x 255 = x.
Proof. intros H. change 255 with (Z.ones 8). apply land_small; [exact H|lia]. Qed.

(* ---- the reassembly cache while fragments 0..k of m have been accepted ---- *)
Definition prefix_frame (m : message) (k : nat) : frame :=
  mkFrame (mkHeader (m_from m) (m_to m) (m_id m)
                    (IntT (if Nat.eqb k 0 then MSG_FRAG_FIRST else MSG_FRAG_MORE))
                    (Z.of_nat (mtotal m - k)))
          (firstn (24 * (k + 1)) (m_data m)).

Lemma firstn_step (l : list N) a :
  firstn a l ++ firstn 24 (skipn a l) = firstn (a + 24) l.
Proof.
  revert l. induction a as [|a IH]; intros l; cbn [firstn skipn Nat.add app].
  - reflexivity.
  - destruct l as [|x t]; [reflexivity|]. cbn [firstn skipn app]. rewrite IH. reflexivity.
Qed.


Local Arguments Nat.mul : simpl never.
Local Arguments Nat.add : simpl never.
Local Arguments Nat.sub : simpl never.

Section Reassembly.
  Variable S : list message.
  Hypothesis S_wf : forall m, In m S -> wf_msg m.
  Hypothesis S_keys : NoDup (map mkey S).

  Lemma key_inj m m' : In m S -> In m' S -> mkey m = mkey m' -> m = m'.
  Proof.
    clear S_wf. induction S as [|a l IH]; intros Hm Hm' Hk; [destruct Hm|].
    cbn in S_keys. inversion S_keys as [|x xs Hnot Hnd]; subst.
    destruct Hm as [->|Hm], Hm' as [->|Hm'].
    - reflexivity.
    - exfalso. apply Hnot. rewrite Hk. apply in_map. exact Hm'.
    - exfalso. apply Hnot. rewrite <- Hk. apply in_map. exact Hm.
    - apply IH; assumption.
  Qed.

  Definition CacheInv (c : option frame) : Prop :=
    match c with
    | None => True
    | Some cf => exists m k, In m S /\ is_long m = true /\ (k + 2 <= mtotal m)%nat
                             /\ cf = prefix_frame m k
    end.

  Definition FInv (q : fragq) : Prop :=
    CacheInv (cache q)
    /\ stored_ok (base q)
    /\ forall f, In f (qframes (base q)) -> exists m, In m S /\ delivers m f.

  Lemma FInv_empty : FInv empty_fragq.
  Proof. split; [exact I|]. split; [constructor|]. intros f []. Qed.

  (* enqueueing into the base queue a frame that carries m keeps the invariant *)
  Lemma base_enqueue_inv q f m r b' :
    FInv q -> In m S -> (forall c, copy_frame f = Some c -> delivers m c) ->
    enqueue (base q) f = Some (r, b') ->
    forall c', CacheInv c' -> FInv (mkFQ b' c').
  Proof.
    intros [Hc [Hs Hd]] Hm Hdel He c' Hc'. split; [exact Hc'|].
    destruct r.
    - destruct (enqueue_true _ _ _ Hs He) as [c [Hcp [_ [_ Hb]]]]. subst b'. split.
      + unfold stored_ok. cbn. apply Forall_app. split; [exact Hs|].
        constructor; [exact (copy_frame_int _ _ Hcp)|constructor].
      + cbn. intros g Hg. apply in_app_or in Hg. destruct Hg as [Hg|[Hg|[]]].
        * exact (Hd g Hg).
        * subst g. exists m. split; [exact Hm|]. exact (Hdel c Hcp).
    - destruct (enqueue_false _ _ _ Hs He) as [Hb _]. subst b'. split; assumption.
  Qed.

  Lemma wf_fields m : In m S ->
    Z.land (m_from m) 4095 = m_from m /\ Z.land (m_to m) 4095 = m_to m
    /\ Z.land (m_id m) 65535 = m_id m /\ Z.land (m_type m) 255 = m_type m.
  Proof.
    intros Hm. destruct (S_wf m Hm) as [H1 [H2 [H3 [H4 _]]]].
    rewrite land12, land12, land16, land8 by assumption. auto.
  Qed.

  Lemma long_total m : In m S -> is_long m = true ->
    (2 <= mtotal m <= 255 /\ 24 * (mtotal m - 1) < length (m_data m) <= 24 * mtotal m)%nat.
  Proof.
    intros Hm Hl. unfold is_long in Hl. apply Nat.ltb_lt in Hl.
    destruct (S_wf m Hm) as [_ [_ [_ [_ [_ [_ [_ Hlen]]]]]]].
    pose proof (total_bounds _ Hl). pose proof (total_le _ Hlen). unfold mtotal. lia.
  Qed.

  (* a cached prefix matches an incoming fragment's (from, to, id) only for its own message *)
  Lemma match_same m m' :
    In m S -> In m' S ->
    (m_from m =? m_from m') && (m_to m =? m_to m') && (m_id m =? m_id m') = true -> m = m'.
  Proof.
    intros Hm Hm' H. rewrite !andb_true_iff, !Z.eqb_eq in H. destruct H as [[H1 H2] H3].
    apply key_inj; [assumption|assumption|]. unfold mkey. congruence.
  Qed.

  (* ---- one arrival keeps the invariant and never raises ---- *)
  Lemma arrive_short q m :
    FInv q -> In m S -> is_long m = false ->
    exists r q', frag_enqueue q (mkFrame (hdr0 m) (m_data m)) = Some (r, q', false) /\ FInv q'
                 /\ cache q' = cache q.
  Proof.
    intros Hq Hm Hl. destruct (S_wf m Hm) as [_ [_ [_ [Ht [N1 [N2 [N3 _]]]]]]].
    assert (Hnf : not_frag (mkFrame (hdr0 m) (m_data m))).
    { unfold not_frag. cbn. unfold MSG_FRAG_FIRST, MSG_FRAG_MORE, MSG_FRAG_LAST.
      destruct (Z.eqb_spec (m_type m) 148); [contradiction|].
      destruct (Z.eqb_spec (m_type m) 149); [contradiction|].
      destruct (Z.eqb_spec (m_type m) 150); [contradiction|]. reflexivity. }
    rewrite (frag_enqueue_plain q _ Hnf).
    destruct (wf_fields m Hm) as [E1 [E2 [E3 E4]]].
    assert (Hcp : copy_frame (mkFrame (hdr0 m) (m_data m))
                  = Some (mkFrame (mkHeader (m_from m) (m_to m) (m_id m) (IntT (m_type m)) 0) (m_data m))).
    { unfold copy_frame, mask_hdr. cbn. rewrite E1, E2, E3, E4. reflexivity. }
    destruct (enqueue (base q) (mkFrame (hdr0 m) (m_data m))) as [[r b']|] eqn:He.
    - exists r, (mkFQ b' (cache q)). split; [reflexivity|]. split; [|reflexivity].
      apply (base_enqueue_inv q (mkFrame (hdr0 m) (m_data m)) m r b' Hq Hm); [|exact He|exact (proj1 Hq)].
      intros c Hc. rewrite Hcp in Hc. inversion Hc; subst. repeat split.
    - exfalso. unfold enqueue in He. rewrite Hcp in He.
      destruct (_ <=? _); [discriminate|]. destruct (existsb _ _); discriminate.
  Qed.

  Lemma arrive_frag q m i :
    FInv q -> In m S -> is_long m = true -> (i < mtotal m)%nat ->
    exists r q' e, frag_enqueue q (frag m i) = Some (r, q', e) /\ FInv q'.
  Proof.
    intros Hq Hm Hl Hi.
    destruct (long_total m Hm Hl) as [[Ht2 Ht255] [Hlo Hhi]].
    destruct (wf_fields m Hm) as [E1 [E2 [E3 E4]]].
    destruct (S_wf m Hm) as [_ [_ [_ [Hty _]]]].
    unfold frag, frag_header, hdr0. cbn [from_node to_node frame_id].
    destruct (Nat.eqb_spec i (mtotal m - 1)) as [Hlast|Hnl].
    - (* LAST *)
      unfold frag_enqueue. cbn [hdr message_type is_frag_type is_type].
      change (MSG_FRAG_LAST =? MSG_FRAG_FIRST) with false.
      change (MSG_FRAG_LAST =? MSG_FRAG_MORE) with false.
      change (MSG_FRAG_LAST =? MSG_FRAG_LAST) with true.
      cbn [orb].
      destruct (cache q) as [cf|] eqn:Ec; [|exists false, q, false; split; [reflexivity|exact Hq]].
      pose proof Hq as Hq0. destruct Hq as [Hc [Hs Hd]]. rewrite Ec in Hc. unfold CacheInv in Hc.
      destruct Hc as [m' [k [Hm' [Hl' [Hk Hcf]]]]]. subst cf.
      cbn [hdr from_node to_node frame_id reserved prefix_frame msg].
      destruct ((m_from m =? m_from m') && (m_to m =? m_to m') && (m_id m =? m_id m')) eqn:Hmatch;
        [|exists false, q, false; split; [reflexivity|exact Hq0]].
      pose proof (match_same m m' Hm Hm' Hmatch) as <-.
      cbn [negb andb orb].
      destruct (2 <? Z.of_nat (mtotal m - k)) eqn:Hseq;
        [exists false, q, false; split; [reflexivity|exact Hq0]|].
      apply Z.ltb_ge in Hseq. assert (Hk2 : k = (mtotal m - 2)%nat) by lia.
      unfold mask_hdr. cbn [message_type type_code from_node to_node frame_id reserved].
      set (done := mkFrame _ _).
      assert (Hdel : forall c, copy_frame done = Some c -> delivers m c).
      { intros c Hc. unfold done, copy_frame, mask_hdr in Hc. cbn in Hc.
        rewrite E1, E2, E3, E4 in Hc. rewrite !E1, !E2, !E3 in Hc. inversion Hc; subst c. cbn.
        unfold delivers. cbn. repeat split.
        unfold frag_slice. rewrite Hlast, Nat.eqb_refl.
        replace (24 * (k + 1))%nat with (MAX_FRAG_SIZE * (mtotal m - 1))%nat
          by (unfold MAX_FRAG_SIZE; lia).
        apply firstn_skipn. }
      destruct (enqueue (base q) done) as [[r b']|] eqn:He.
      + eexists r, (mkFQ b' None), _. split; [reflexivity|].
        apply (base_enqueue_inv q done m r b'); [exact Hq0
                                                 |exact Hm|exact Hdel|exact He|exact I].
      + exfalso. unfold enqueue in He. destruct (_ <=? _); [discriminate|].
        unfold done, copy_frame, mask_hdr in He. cbn in He.
        destruct (existsb _ _); discriminate.
    - destruct (Nat.eqb_spec i 0) as [Hz|Hnz].
      + (* FIRST *)
        unfold frag_enqueue. cbn [hdr message_type is_frag_type is_type].
        change (MSG_FRAG_FIRST =? MSG_FRAG_FIRST) with true. cbn [orb].
        unfold copy_frame, mask_hdr. cbn [hdr message_type type_code from_node to_node frame_id reserved msg].
        rewrite E1, E2, E3.
        eexists true, _, false. split; [reflexivity|].
        destruct Hq as [_ [Hs Hd]]. split; [|split; assumption].
        cbn. exists m, 0%nat. repeat split; [exact Hm|exact Hl|lia|].
        unfold prefix_frame. cbn [Nat.eqb].
        change (Z.land MSG_FRAG_FIRST 255) with MSG_FRAG_FIRST.
        rewrite land8 by lia. subst i.
        unfold frag_slice. destruct (Nat.eqb_spec 0 (mtotal m - 1)); [lia|].
        rewrite Nat.sub_0_r. cbn [Nat.mul Nat.add skipn]. unfold MAX_FRAG_SIZE.
        replace (MAX_FRAG_SIZE * 0)%nat with 0%nat by lia. reflexivity.
      + (* MORE *)
        unfold frag_enqueue. cbn [hdr message_type is_frag_type is_type].
        change (MSG_FRAG_MORE =? MSG_FRAG_FIRST) with false.
        change (MSG_FRAG_MORE =? MSG_FRAG_MORE) with true.
        change (MSG_FRAG_MORE =? MSG_FRAG_LAST) with false.
        cbn [orb].
        destruct (cache q) as [cf|] eqn:Ec; [|exists false, q, false; split; [reflexivity|exact Hq]].
        pose proof Hq as Hq0. destruct Hq as [Hc [Hs Hd]]. rewrite Ec in Hc. unfold CacheInv in Hc.
        destruct Hc as [m' [k [Hm' [Hl' [Hk Hcf]]]]]. subst cf.
        cbn [hdr from_node to_node frame_id reserved prefix_frame msg].
        destruct ((m_from m =? m_from m') && (m_to m =? m_to m') && (m_id m =? m_id m')) eqn:Hmatch;
          [|exists false, q, false; split; [reflexivity|exact Hq0]].
        pose proof (match_same m m' Hm Hm' Hmatch) as <-.
        cbn [negb andb orb].
        destruct (Z.of_nat (mtotal m - k) - 1 =? Z.of_nat (mtotal m - i)) eqn:Hseq; cbn [negb orb];
          [|exists false, q, false; split; [reflexivity|exact Hq0]].
        apply Z.eqb_eq in Hseq. assert (Hik : i = (k + 1)%nat) by lia.
        unfold mask_hdr. cbn [message_type type_code from_node to_node frame_id reserved].
        rewrite E1, E2, E3.
        eexists true, _, false. split; [reflexivity|].
        split; [|split; assumption].
        cbn. exists m, i. repeat split; [exact Hm|exact Hl|lia|].
        unfold prefix_frame. destruct (Nat.eqb_spec i 0); [lia|].
        change (Z.land MSG_FRAG_MORE 255) with MSG_FRAG_MORE.
        rewrite land8 by lia. f_equal.
        unfold frag_slice. destruct (Nat.eqb_spec i (mtotal m - 1)); [lia|].
        subst i. unfold MAX_FRAG_SIZE.
        replace (24 * (k + 1 + 1))%nat with (24 * (k + 1) + 24)%nat by lia.
        apply firstn_step.
  Qed.

  (* every frame of a sent message, in any state satisfying the invariant *)
  Lemma arrive_inv q m f :
    FInv q -> In m S -> In f (frames_of m) ->
    exists r q' e, frag_enqueue q f = Some (r, q', e) /\ FInv q'.
  Proof.
    intros Hq Hm Hf. destruct (is_long m) eqn:Hl.
    - apply (frames_of_long m f Hl) in Hf. destruct Hf as [i [Hi ->]].
      exact (arrive_frag q m i Hq Hm Hl Hi).
    - unfold frames_of in Hf. rewrite Hl in Hf. destruct Hf as [<-|[]].
      destruct (arrive_short q m Hq Hm Hl) as [r [q' [He [Hq' _]]]].
      exists r, q', false. split; assumption.
  Qed.

  (* ---- arrival streams ---- *)
  Inductive event := Arrive (f : frame) | Dequeue.

  Definition sent_frame (f : frame) : Prop := exists m, In m S /\ In f (frames_of m).

  Definition stream_ok (es : list event) : Prop :=
    Forall (fun e => match e with Arrive f => sent_frame f | Dequeue => True end) es.

  (* run a stream; collects what the application dequeues; None = enqueue raised *)
  Fixpoint run_stream (q : fragq) (es : list event) : option (list frame * fragq) :=
    match es with
    | [] => Some ([], q)
    | Arrive f :: t =>
      match frag_enqueue q f with
      | None => None
      | Some (_, q', _) => run_stream q' t
      end
    | Dequeue :: t =>
      let '(o, b') := dequeue (base q) in
      match run_stream (mkFQ b' (cache q)) t with
      | None => None
      | Some (out, qf) => Some (match o with Some f => f :: out | None => out end, qf)
      end
    end.

  Lemma dequeue_FInv q o b' : FInv q -> dequeue (base q) = (o, b') ->
    FInv (mkFQ b' (cache q)) /\ (forall f, o = Some f -> exists m, In m S /\ delivers m f).
  Proof.
    intros [Hc [Hs Hd]] H. unfold dequeue in H. destruct (qframes (base q)) as [|f t] eqn:E.
    - inversion H; subst. split; [split; [exact Hc|split; [exact Hs|cbn; rewrite E; exact Hd]]|]. intros f Hf; discriminate.
    - inversion H; subst. split.
      + split; [exact Hc|]. unfold stored_ok in *. rewrite E in *. cbn. inversion Hs; subst.
        split; [assumption|]. intros g Hg. apply Hd. right; exact Hg.
      + intros g Hg. inversion Hg; subst g. apply Hd. left; reflexivity.
  Qed.

  (* NO SPLICE: whatever subset / duplication / order / interleaving of sent fragments
     arrives, enqueue never raises and every frame handed to the application carries
     exactly one sent message (origin, destination, id, type, bytes) *)
  Theorem no_splice es : forall q, FInv q -> stream_ok es ->
    exists out qf, run_stream q es = Some (out, qf) /\ FInv qf
      /\ Forall (fun f => exists m, In m S /\ delivers m f) out.
  Proof.
    induction es as [|e es IH]; intros q Hq Hs.
    - exists [], q. split; [reflexivity|]. split; [exact Hq|constructor].
    - inversion Hs as [|x xs He Hes]; subst. destruct e as [f|].
      + destruct He as [m [Hm Hf]].
        destruct (arrive_inv q m f Hq Hm Hf) as [r [q' [e [Hfe Hq']]]].
        cbn. rewrite Hfe. exact (IH q' Hq' Hes).
      + cbn. destruct (dequeue (base q)) as [o b'] eqn:Hd.
        destruct (dequeue_FInv q o b' Hq Hd) as [Hq' Ho].
        destruct (IH _ Hq' Hes) as [out [qf [Hr [Hqf Hout]]]].
        rewrite Hr. eexists _, qf. split; [reflexivity|]. split; [exact Hqf|].
        destruct o as [f|]; [|exact Hout]. constructor; [exact (Ho f eq_refl)|exact Hout].
  Qed.

End Reassembly.

(* ---- discarding: a MORE/LAST fragment that does not continue the cached message
   leaves queue and cache untouched ---- *)
Lemma discard_no_cache q f :
  is_frag_type (message_type (hdr f)) = true -> is_type (message_type (hdr f)) MSG_FRAG_FIRST = false ->
  cache q = None -> frag_enqueue q f = Some (false, q, false).
Proof. intros H1 H2 H3. unfold frag_enqueue. rewrite H1, H2, H3. reflexivity. Qed.

Lemma discard_other_message q f c :
  is_frag_type (message_type (hdr f)) = true -> is_type (message_type (hdr f)) MSG_FRAG_FIRST = false ->
  cache q = Some c ->
  (from_node (hdr f) =? from_node (hdr c)) && (to_node (hdr f) =? to_node (hdr c))
    && (frame_id (hdr f) =? frame_id (hdr c)) = false ->
  frag_enqueue q f = Some (false, q, false).
Proof. intros H1 H2 H3 H4. unfold frag_enqueue. rewrite H1, H2, H3, H4. reflexivity. Qed.

Lemma discard_out_of_sequence q f c :
  is_frag_type (message_type (hdr f)) = true -> is_type (message_type (hdr f)) MSG_FRAG_FIRST = false ->
  cache q = Some c ->
  (if is_type (message_type (hdr f)) MSG_FRAG_LAST then 2 <? reserved (hdr c)
   else negb (reserved (hdr c) - 1 =? reserved (hdr f))) = true ->
  frag_enqueue q f = Some (false, q, false).
Proof.
  intros H1 H2 H3 H4. unfold frag_enqueue. rewrite H1, H2, H3.
  destruct (_ && _ && _); [|reflexivity].
  destruct (is_type (message_type (hdr f)) MSG_FRAG_LAST); cbn in *; rewrite H4; reflexivity.
Qed.

(* the cache is empty right after a message has been completed: a repeated LAST (or any
   MORE) is then discarded until a new FIRST arrives *)
Lemma completion_clears_cache q f r q' e :
  is_type (message_type (hdr f)) MSG_FRAG_LAST = true ->
  frag_enqueue q f = Some (r, q', e) -> q' <> q -> cache q' = None.
Proof.
  intros Hl H Hne. unfold frag_enqueue in H.
  assert (Hft : is_frag_type (message_type (hdr f)) = true).
  { unfold is_type, is_frag_type in *. destruct (message_type (hdr f)); [|discriminate].
    rewrite Hl. rewrite !orb_true_r. reflexivity. }
  assert (Hnf : is_type (message_type (hdr f)) MSG_FRAG_FIRST = false).
  { unfold is_type in *. destruct (message_type (hdr f)); [|reflexivity].
    apply Z.eqb_eq in Hl. subst. reflexivity. }
  rewrite Hft, Hnf, Hl in H.
  destruct (cache q) as [c|]; [|inversion H; subst; contradiction].
  destruct (_ && _ && _); [|inversion H; subst; contradiction].
  cbn [negb andb orb] in H.
  destruct (2 <? reserved (hdr c)); [inversion H; subst; contradiction|].
  destruct (mask_hdr (hdr f)); [|discriminate].
  destruct (enqueue _ _) as [[r0 b']|]; [|discriminate]. inversion H; subst. reflexivity.
Qed.

(* ---- non-vacuity: two senders with the same frame id, fragments interleaved, a
   duplicate and a stray fragment: exactly the two complete messages come out ---- *)
Definition ex_m1 : message := mkMsg 1 0 9 65 (map N.of_nat (seq 0 50)).
Definition ex_m2 : message := mkMsg 2 0 9 7 (map N.of_nat (seq 100 30)).

Lemma ex_wf : forall m, In m [ex_m1; ex_m2] -> wf_msg m.
Proof.
  intros m [<-|[<-|[]]]; unfold wf_msg; cbn; repeat split; try lia; try discriminate.
Qed.

Lemma ex_keys : NoDup (map mkey [ex_m1; ex_m2]).
Proof.
  cbn. constructor; [intros [H|[]]; discriminate|]. constructor; [intros []|constructor].
Qed.

Example ex_stream_ok :
  stream_ok [ex_m1; ex_m2]
    [Arrive (frag ex_m1 0); Arrive (frag ex_m1 1); Arrive (frag ex_m2 1); Arrive (frag ex_m1 1);
     Arrive (frag ex_m1 2); Arrive (frag ex_m2 0); Arrive (frag ex_m1 2); Arrive (frag ex_m2 1);
     Dequeue; Dequeue; Dequeue].
Proof.
  repeat constructor;
    try (exists ex_m1; split; [left; reflexivity|vm_compute; tauto]);
    try (exists ex_m2; split; [right; left; reflexivity|vm_compute; tauto]).
Qed.

Example ex_stream_result :
  option_map fst (run_stream empty_fragq
    [Arrive (frag ex_m1 0); Arrive (frag ex_m1 1); Arrive (frag ex_m2 1); Arrive (frag ex_m1 1);
     Arrive (frag ex_m1 2); Arrive (frag ex_m2 0); Arrive (frag ex_m1 2); Arrive (frag ex_m2 1);
     Dequeue; Dequeue; Dequeue])
  = Some [mkFrame (mkHeader 1 0 9 (IntT 65) 65) (m_data ex_m1);
          mkFrame (mkHeader 2 0 9 (IntT 7) 7) (m_data ex_m2)].
Proof. vm_compute. reflexivity. Qed.

(* Addr.v -- model of the pure address arithmetic of the network layer.
   Mirrors (method by method, same loops, same masks):
     network/structs.py   is_address_valid
     network/mixins.py    _lvl_2_addr, NetworkMixin._begin (address part),
                          _logi_2_phys, _pipe_address
   Model only: no proofs in this file (so it still extracts when a proof breaks). *)
From Coq Require Import NArith List Bool.
Import ListNotations.
Local Open Scope N_scope.

(* ---- constants (network/constants.py) ---- *)
Definition NETWORK_DEFAULT_ADDR : N := 2340.      (* 0o4444 *)
Definition NETWORK_MULTICAST_ADDR : N := 64.      (* 0o100 *)
Definition NETWORK_MULTICAST_ADDR_LVL_2 : N := 8. (* 0o10 *)
Definition NETWORK_MULTICAST_ADDR_LVL_4 : N := 512. (* 0o1000 *)
Definition TX_NORMAL : N := 0.
Definition TX_ROUTED : N := 1.
Definition TX_PHYSICAL : N := 2.
Definition TX_LOGICAL : N := 3.
Definition TX_MULTICAST : N := 4.

(* ---- is_address_valid (address is not None) ----
   while address:
       if (not 0 < (address & 7) <= 5) or (byte_count > 3): return False
       address >>= 3; byte_count += 1
   return True
   The loop leaves after at most 5 iterations (byte_count > 3), so fuel 8 is
   never exhausted; exhaustion returns false and is excluded by
   AddrFacts.valid_loop_fuel. *)
Definition digit_limit : N := 3.

Fixpoint valid_loop (fuel : nat) (a cnt : N) : bool :=
  match fuel with
  | O => false
  | S f =>
    if a =? 0 then true
    else
      let d := N.land a 7 in
      if negb ((0 <? d) && (d <=? 5)) || (digit_limit <? cnt) then false
      else valid_loop f (N.shiftr a 3) (cnt + 1)
  end.

Definition is_address_valid (a : N) : bool :=
  if (a =? NETWORK_MULTICAST_ADDR) || (a =? NETWORK_MULTICAST_ADDR_LVL_2)
     || (a =? NETWORK_MULTICAST_ADDR_LVL_4)
  then true
  else valid_loop 8 a 0.

(* ---- _lvl_2_addr ---- *)
Definition lvl_2_addr (level : N) : N :=
  if level =? 0 then 0 else N.shiftl 1 ((level - 1) * 3).

(* ---- _begin: address-related attributes ----
   mask = 0xFFFF
   while self._addr & mask: mask = (mask << 3) & 0xFFFF; self._net_lvl += 1
   self._mask_inv = mask
   while not mask & 7: self._mask = (self._mask << 3) | 7; mask >>= 3
   self._parent = self._addr & (self._mask >> 3)
   self._parent_pipe = self._addr ; mask = self._mask >> 3
   while mask: mask >>= 3; self._parent_pipe >>= 3                          *)
Record consts := mkConsts {
  c_addr : N; c_mask : N; c_mask_inv : N; c_lvl : N; c_parent : N; c_ppipe : N }.

Fixpoint loop_maskinv (fuel : nat) (addr mask lvl : N) : option (N * N) :=
  match fuel with
  | O => None
  | S f =>
    if N.land addr mask =? 0 then Some (mask, lvl)
    else loop_maskinv f addr (N.land (N.shiftl mask 3) 65535) (lvl + 1)
  end.

Fixpoint loop_mask (fuel : nat) (mask m : N) : option N :=
  match fuel with
  | O => None
  | S f =>
    if negb (N.land mask 7 =? 0) then Some m
    else loop_mask f (N.shiftr mask 3) (N.lor (N.shiftl m 3) 7)
  end.

Fixpoint loop_ppipe (fuel : nat) (mask pp : N) : option N :=
  match fuel with
  | O => None
  | S f =>
    if mask =? 0 then Some pp
    else loop_ppipe f (N.shiftr mask 3) (N.shiftr pp 3)
  end.

Definition begin_consts (addr : N) : option consts :=
  match loop_maskinv 8 addr 65535 0 with
  | None => None
  | Some (minv, lvl) =>
    match loop_mask 8 minv 0 with
    | None => None
    | Some m =>
      match loop_ppipe 8 (N.shiftr m 3) addr with
      | None => None
      | Some pp =>
        Some (mkConsts addr m minv lvl (N.land addr (N.shiftr m 3)) pp)
      end
    end
  end.

(* ---- _logi_2_phys ---- returns (node, pipe, is_multicast) *)
Definition logi_2_phys (c : consts) (to_node send_type : N) : N * N * bool :=
  if TX_ROUTED <? send_type then (to_node, 0, true)
  else if N.land to_node (c_mask c) =? c_addr c then
    if N.land to_node (N.shiftl (c_mask_inv c) 3) =? 0
    then (to_node, 5, false)
    else (N.land to_node (N.lor (N.shiftl (c_mask c) 3) 7), 5, false)
  else (c_parent c, c_ppipe c, false).

(* ---- _pipe_address ----
   The address bytes are chosen from [prefix] and the six-byte [suffix]; to state
   injectivity for *arbitrary* distinct bytes the model first computes an index
   pattern (None = the prefix byte, Some i = suffix[i]) and then looks the bytes
   up.  Python raises IndexError when count reaches 5 or dec%8 > 5; the pattern
   function returns None in those cases.                                       *)
Definition pat := option N.

Fixpoint set_nth {A} (n : nat) (x : A) (l : list A) : option (list A) :=
  match n, l with
  | O, _ :: t => Some (x :: t)
  | S k, h :: t => match set_nth k x t with Some t' => Some (h :: t') | None => None end
  | _, [] => None
  end.

(* the while loop; [use] is the (loop-invariant) condition
   not allow_multicast or (pipe_number or not node_addr) *)
Fixpoint pa_loop (fuel : nat) (use : bool) (dec : N) (count : nat) (res : list pat)
  : option (list pat * nat) :=
  match fuel with
  | O => None
  | S f =>
    if dec =? 0 then Some (res, count)
    else
      let d := N.land dec 7 in
      if use then
        if 5 <? d then None           (* address_suffix[dec % 8] IndexError *)
        else match set_nth count (Some d) res with
             | None => None           (* result[count] IndexError *)
             | Some res' => pa_loop f use (N.shiftr dec 3) (S count) res'
             end
      else pa_loop f use (N.shiftr dec 3) (S count) res
  end.

Definition pipe_pattern (allow_mc : bool) (node_addr pipe : N) : option (list pat) :=
  let use := negb allow_mc || (negb (pipe =? 0) || (node_addr =? 0)) in
  match pa_loop 8 use node_addr 1 [None; None; None; None; None] with
  | None => None
  | Some (res, count) =>
    if use then
      if 5 <? pipe then None else set_nth 0 (Some pipe) res
    else
      (* elif allow_multicast and (not pipe_number or node_addr): always true here *)
      if 6 <? N.of_nat count then None
      else set_nth 1 (Some (N.of_nat (count - 1))) res
  end.

Definition lookup_pat (prefix : N) (suffix : list N) (p : pat) : N :=
  match p with
  | None => prefix
  | Some i => nth (N.to_nat i) suffix 0
  end.

Definition pipe_address (prefix : N) (suffix : list N) (allow_mc : bool)
           (node_addr pipe : N) : option (list N) :=
  match pipe_pattern allow_mc node_addr pipe with
  | None => None
  | Some ps => Some (map (lookup_pat prefix suffix) ps)
  end.

Definition default_prefix : N := 204. (* 0xCC *)
Definition default_suffix : list N := [195; 60; 51; 206; 62; 227].
   (* C3 3C 33 CE 3E E3 *)

(* ---- the 781 node addresses, generated level by level ---- *)
Definition digits15 : list N := [1; 2; 3; 4; 5].

Definition next_level (k : N) (lvl : list N) : list N :=
  flat_map (fun a => map (fun d => a + d * N.shiftl 1 (3 * k)) digits15) lvl.

Definition level_nodes (k : nat) : list N :=
  nat_rect (fun _ => list N) [0]
           (fun i acc => next_level (N.of_nat i) acc) k.

Definition all_nodes : list N :=
  level_nodes 0 ++ level_nodes 1 ++ level_nodes 2 ++ level_nodes 3 ++ level_nodes 4.

(* ---- independent routing specification: octal digit lists (least significant
   first = closest to the master first) ---- *)
Fixpoint digits_of (fuel : nat) (a : N) : list N :=
  match fuel with
  | O => []
  | S f => if a =? 0 then [] else N.land a 7 :: digits_of f (N.shiftr a 3)
  end.

Fixpoint of_digits (ds : list N) : N :=
  match ds with
  | [] => 0
  | d :: t => d + 8 * of_digits t
  end.

Fixpoint common_prefix (x y : list N) : list N :=
  match x, y with
  | a :: x', b :: y' => if a =? b then a :: common_prefix x' y' else []
  | _, _ => []
  end.

(* ancestors of s strictly above s down to (and including) the node with digit
   list [stop], nearest first *)
Fixpoint up_path (fuel : nat) (ds stop : list N) : list N :=
  match fuel with
  | O => []
  | S f =>
    if Nat.leb (length ds) (length stop) then []
    else let ds' := removelast ds in of_digits ds' :: up_path f ds' stop
  end.

(* descendants of the node with digits [cur] towards [target], nearest first *)
Fixpoint down_path (fuel : nat) (cur rest : list N) : list N :=
  match fuel, rest with
  | S f, d :: rest' => let cur' := cur ++ [d] in of_digits cur' :: down_path f cur' rest'
  | _, _ => []
  end.

Definition tree_path (s d : N) : list N :=
  let sd := digits_of 8 s in
  let dd := digits_of 8 d in
  let cp := common_prefix sd dd in
  up_path 8 sd cp ++ down_path 8 cp (skipn (length cp) dd).

(* the route the code takes: iterate each node's own next-hop choice; the origin
   calls _write(to, TX_NORMAL), every forwarding node _write(to, TX_ROUTED) *)
Fixpoint route (fuel : nat) (st cur dst : N) : option (list (N * N)) :=
  match fuel with
  | O => None
  | S f =>
    if cur =? dst then Some []
    else match begin_consts cur with
         | None => None
         | Some c =>
           let '(nxt, pipe, _) := logi_2_phys c dst st in
           match route f TX_ROUTED nxt dst with
           | None => None
           | Some r => Some ((nxt, pipe) :: r)
           end
         end
  end.

Definition parent_of (a : N) : N :=
  of_digits (removelast (digits_of 8 a)).

(* HeaderFacts.v -- proofs about the header / frame / fragment wire formats (C11). *)
From Coq Require Import ZArith NArith List Bool Lia.
From NRF Require Import Net.Header.
Import ListNotations.
Local Open Scope Z_scope.

(* ---- bytes ---- *)
Lemma byte_spec v : Z.of_N (byte v) = v mod 256.
Proof.
  unfold byte. change 255 with (Z.ones 8). rewrite Z.land_ones by lia.
  rewrite Z2N.id; [reflexivity|]. apply Z.mod_pos_bound. lia.
Qed.

Lemma byte_lt v : (byte v < 256)%N.
Proof.
  apply N2Z.inj_lt. rewrite byte_spec. change (Z.of_N 256) with 256.
  apply Z.mod_pos_bound. lia.
Qed.

(* le16 is the little-endian 16-bit encoding: low byte, then high byte *)
Lemma le16_spec v :
  map Z.of_N (le16 v) = [v mod 256; (v / 256) mod 256].
Proof.
  unfold le16. cbn [map]. rewrite !byte_spec. rewrite Z.shiftr_div_pow2 by lia. reflexivity.
Qed.

Lemma un16_le16 v : 0 <= v < 65536 ->
  un16 (byte v) (byte (Z.shiftr v 8)) = v.
Proof.
  intros H. unfold un16. rewrite !byte_spec. rewrite Z.shiftr_div_pow2 by lia.
  change (2 ^ 8) with 256.
  rewrite (Z.mod_small (v / 256) 256).
  - pose proof (Z.div_mod v 256 ltac:(lia)). lia.
  - split; [apply Z.div_pos; lia|]. apply Z.div_lt_upper_bound; lia.
Qed.

Lemma land_range x k : 0 <= k -> 0 <= Z.land x (Z.ones k) < 2 ^ k.
Proof. intros Hk. rewrite Z.land_ones by lia. apply Z.mod_pos_bound. lia. Qed.

Lemma land4095 x : 0 <= Z.land x 4095 < 65536.
Proof. pose proof (land_range x 12 ltac:(lia)). change (Z.ones 12) with 4095 in H. lia. Qed.
Lemma land65535 x : 0 <= Z.land x 65535 < 65536.
Proof. pose proof (land_range x 16 ltac:(lia)). change (Z.ones 16) with 65535 in H. lia. Qed.
Lemma land255 x : 0 <= Z.land x 255 < 256.
Proof. pose proof (land_range x 8 ltac:(lia)). change (Z.ones 8) with 255 in H. lia. Qed.

Lemma byte_small v : 0 <= v < 256 -> Z.of_N (byte v) = v.
Proof. intros H. rewrite byte_spec. apply Z.mod_small. exact H. Qed.

Lemma byte_land v : Z.of_N (byte v) = Z.land v 255.
Proof.
  unfold byte. rewrite Z2N.id; [reflexivity|]. pose proof (land255 v). lia.
Qed.

(* ---- header: exactly 8 bytes, documented layout, parse inverts serialise ---- *)
Lemma hdr_pack_length h b : hdr_pack h = Some b -> length b = 8%nat /\ Forall (fun x => (x < 256)%N) b.
Proof.
  unfold hdr_pack. destruct (type_code (message_type h)) as [t|]; [|discriminate].
  intros H. inversion H; subst. split; [reflexivity|].
  unfold le16. cbn. repeat constructor; apply byte_lt.
Qed.

Lemma hdr_pack_defined h : type_code (message_type h) <> None -> exists b, hdr_pack h = Some b.
Proof.
  unfold hdr_pack. destruct (type_code (message_type h)); [eexists; reflexivity|contradiction].
Qed.

(* the numeric layout, against an independent reading of "little-endian 16-bit" *)
Lemma hdr_pack_layout h t :
  type_code (message_type h) = Some t ->
  option_map (map Z.of_N) (hdr_pack h) =
  Some [ Z.land (from_node h) 4095 mod 256; (Z.land (from_node h) 4095 / 256) mod 256;
         Z.land (to_node h) 4095 mod 256; (Z.land (to_node h) 4095 / 256) mod 256;
         Z.land (frame_id h) 65535 mod 256; (Z.land (frame_id h) 65535 / 256) mod 256;
         t mod 256; reserved h mod 256 ].
Proof.
  intros Ht. unfold hdr_pack. rewrite Ht. cbn [option_map]. f_equal.
  rewrite !map_app, !le16_spec. cbn [map app]. rewrite !byte_spec. reflexivity.
Qed.

Lemma hdr_unpack_pack h b rest :
  hdr_pack h = Some b -> hdr_unpack (b ++ rest) = mask_hdr h.
Proof.
  unfold hdr_pack, mask_hdr. destruct (type_code (message_type h)) as [t|]; [|discriminate].
  intros H. inversion H; subst. unfold le16. cbn [app hdr_unpack].
  rewrite !un16_le16 by (apply land4095 || apply land65535).
  rewrite !byte_land. reflexivity.
Qed.

Lemma hdr_unpack_short b : hdr_unpack b = None <-> (length b < 8)%nat.
Proof.
  unfold hdr_unpack.
  do 8 (destruct b as [|? b]; [cbn; split; [intros _; lia|reflexivity]|]).
  cbn. split; [discriminate|lia].
Qed.

(* in-range fields survive unchanged (12-bit addresses incl. reserved ones, 16-bit ids) *)
Lemma mask_hdr_id h t :
  0 <= from_node h < 4096 -> 0 <= to_node h < 4096 -> 0 <= frame_id h < 65536 ->
  message_type h = IntT t -> 0 <= t < 256 -> 0 <= reserved h < 256 ->
  mask_hdr h = Some h.
Proof.
  intros H1 H2 H3 H4 H5 H6. unfold mask_hdr. rewrite H4. cbn.
  change 4095 with (Z.ones 12). change 65535 with (Z.ones 16). change 255 with (Z.ones 8).
  rewrite !Z.land_ones by lia. rewrite !Z.mod_small by lia.
  destruct h; cbn in *. subst. reflexivity.
Qed.

(* a one-character string type packs as its code point *)
Lemma str_type_packs_as_codepoint f t i c rest r :
  mask_hdr (mkHeader f t i (StrT (c :: rest)) r) = mask_hdr (mkHeader f t i (IntT c) r).
Proof. reflexivity. Qed.

(* ---- frames ---- *)
Lemma skipn_app_exact {A} (a b : list A) n : length a = n -> skipn n (a ++ b) = b.
Proof.
  intros <-. induction a as [|x a IH]; [reflexivity|]. cbn. exact IH.
Qed.

Lemma frame_unpack_pack f b :
  frame_pack f = Some b ->
  frame_unpack b = option_map (fun h => mkFrame h (msg f)) (mask_hdr (hdr f))
  /\ length b = frame_len f.
Proof.
  unfold frame_pack. destruct (hdr_pack (hdr f)) as [hb|] eqn:Hp; [|discriminate].
  intros H. inversion H; subst. destruct (hdr_pack_length _ _ Hp) as [Hl _].
  unfold frame_unpack. rewrite (hdr_unpack_pack _ _ (msg f) Hp).
  split.
  - destruct (mask_hdr (hdr f)); [|reflexivity]. cbn [option_map]. rewrite (skipn_app_exact hb (msg f) 8 Hl).
    reflexivity.
  - rewrite app_length, Hl. reflexivity.
Qed.

Lemma frame_unpack_short b : frame_unpack b = None <-> (length b < 8)%nat.
Proof.
  unfold frame_unpack. destruct (hdr_unpack b) eqn:E.
  - split; [discriminate|]. intros H. apply hdr_unpack_short in H. congruence.
  - split; [intros _; apply hdr_unpack_short; exact E|reflexivity].
Qed.

(* ---- frame id counter ---- *)
Lemma next_id_spec c : 0 <= c < 65536 ->
  fst (next_id c) = c /\ snd (next_id c) = (c + 1) mod 65536 /\ 0 <= snd (next_id c) < 65536.
Proof.
  intros H. unfold next_id. cbn. change 65535 with (Z.ones 16).
  rewrite Z.land_ones by lia. change (2 ^ 16) with 65536.
  repeat split; try apply Z.mod_pos_bound; lia.
Qed.

Lemma firstn_skipn_step (l : list N) a :
  firstn a l ++ firstn 24 (skipn a l) = firstn (a + 24) l.
Proof.
  revert l. induction a as [|a IH]; intros l; cbn [firstn skipn Nat.add app].
  - reflexivity.
  - destruct l as [|x t]; [reflexivity|]. cbn [firstn skipn app]. rewrite IH. reflexivity.
Qed.

(* ---- fragments ---- *)
Local Arguments Nat.mul : simpl never.
Local Arguments Nat.add : simpl never.
Local Arguments Nat.sub : simpl never.
Local Arguments firstn : simpl never.
Local Arguments skipn : simpl never.

Lemma frag_total_ceil n : frag_total n = ((n + 23) / 24)%nat.
Proof.
  unfold frag_total, MAX_FRAG_SIZE.
  pose proof (Nat.div_mod n 24 ltac:(lia)) as E.
  pose proof (Nat.mod_upper_bound n 24 ltac:(lia)) as U.
  pose proof (Nat.div_mod (n + 23) 24 ltac:(lia)) as E2.
  pose proof (Nat.mod_upper_bound (n + 23) 24 ltac:(lia)) as U2.
  remember (n / 24)%nat as d. remember (n mod 24)%nat as r.
  remember ((n + 23) / 24)%nat as d2. remember ((n + 23) mod 24)%nat as r2.
  destruct (Nat.eqb_spec r 0); lia.
Qed.

Lemma total_bounds' n : (24 < n)%nat ->
  (2 <= frag_total n /\ 24 * (frag_total n - 1) < n /\ n <= 24 * frag_total n)%nat.
Proof.
  unfold frag_total, MAX_FRAG_SIZE. intros H.
  pose proof (Nat.div_mod n 24 ltac:(lia)) as E.
  pose proof (Nat.mod_upper_bound n 24 ltac:(lia)) as U.
  remember (n / 24)%nat as d. remember (n mod 24)%nat as r.
  destruct (Nat.eqb_spec r 0); lia.
Qed.

Lemma fragment_count h t m : length (fragment_frames h t m) = frag_total (length m).
Proof. unfold fragment_frames. rewrite map_length, seq_length. reflexivity. Qed.

Definition nth_frag (h : header) (t : Z) (m : list N) (i : nat) : frame :=
  mkFrame (frag_header h t (frag_total (length m)) i) (frag_slice m (frag_total (length m)) i).

Lemma fragment_nth h t m i : (i < frag_total (length m))%nat ->
  nth_error (fragment_frames h t m) i = Some (nth_frag h t m i).
Proof.
  intros Hi. unfold fragment_frames. rewrite nth_error_map.
  rewrite (nth_error_nth' _ 0%nat) by (rewrite seq_length; exact Hi).
  rewrite seq_nth by exact Hi. reflexivity.
Qed.

(* types / counters / shared id of fragment i *)
Lemma fragment_header_shape h t m i : (24 < length m)%nat -> (i < frag_total (length m))%nat ->
  let total := frag_total (length m) in
  let fh := hdr (nth_frag h t m i) in
  from_node fh = from_node h /\ to_node fh = to_node h /\ frame_id fh = frame_id h
  /\ (i = 0%nat -> message_type fh = IntT MSG_FRAG_FIRST /\ reserved fh = Z.of_nat total)
  /\ ((0 < i < total - 1)%nat -> message_type fh = IntT MSG_FRAG_MORE /\ reserved fh = Z.of_nat (total - i))
  /\ (i = (total - 1)%nat -> message_type fh = IntT MSG_FRAG_LAST /\ reserved fh = t).
Proof.
  intros Hn Hi total fh. pose proof (total_bounds' _ Hn) as [Ht _]. fold total in Ht, Hi.
  unfold fh, nth_frag, frag_header. fold total. cbn [hdr].
  destruct (Nat.eqb_spec i (total - 1)); [|destruct (Nat.eqb_spec i 0)]; cbn;
    repeat split; try reflexivity; intros; try lia.
Qed.

(* slice i has 24 bytes, the last one 1..24, so every frame is at most 32 bytes on air *)
Lemma fragment_slice_length h t m i : (24 < length m)%nat -> (i < frag_total (length m))%nat ->
  (1 <= length (msg (nth_frag h t m i)) <= 24)%nat.
Proof.
  intros Hn Hi. pose proof (total_bounds' _ Hn) as [Ht [Hlo Hhi]].
  unfold nth_frag, frag_slice, MAX_FRAG_SIZE. cbn [msg].
  destruct (Nat.eqb_spec i (frag_total (length m) - 1)).
  - rewrite skipn_length. subst i. lia.
  - rewrite firstn_length, skipn_length. lia.
Qed.

Lemma fragment_frame_size h t m i b : (24 < length m)%nat -> (i < frag_total (length m))%nat ->
  frame_pack (nth_frag h t m i) = Some b -> (9 <= length b <= 32)%nat.
Proof.
  intros Hn Hi Hp. destruct (frame_unpack_pack _ _ Hp) as [_ Hl]. rewrite Hl. unfold frame_len.
  pose proof (fragment_slice_length h t m i Hn Hi). lia.
Qed.

(* the slices, concatenated in order, are the message *)
Lemma concat_slices m total : forall d k, (k + d = total - 1)%nat -> (1 <= total)%nat ->
  firstn (24 * k) m ++ concat (map (fun c => frag_slice m total c) (seq k (d + 1))) = m.
Proof.
  induction d as [|d IH]; intros k Hk Ht.
  - cbn [seq map concat Nat.add]. replace (0 + 1)%nat with 1%nat by lia. cbn [seq map concat].
    rewrite app_nil_r. unfold frag_slice, MAX_FRAG_SIZE.
    replace (Nat.eqb k (total - 1)) with true by (symmetry; apply Nat.eqb_eq; lia).
    apply firstn_skipn.
  - replace (S d + 1)%nat with (S (d + 1)) by lia. cbn [seq map concat].
    unfold frag_slice at 1. unfold MAX_FRAG_SIZE.
    replace (Nat.eqb k (total - 1)) with false by (symmetry; apply Nat.eqb_neq; lia).
    rewrite app_assoc, firstn_skipn_step.
    replace (24 * k + 24)%nat with (24 * (S k))%nat by lia.
    apply IH; lia.
Qed.

Theorem fragments_concat h t m : (24 < length m)%nat ->
  concat (map msg (fragment_frames h t m)) = m.
Proof.
  intros Hn. pose proof (total_bounds' _ Hn) as [Ht _].
  unfold fragment_frames. rewrite map_map. cbn [msg].
  pose proof (concat_slices m (frag_total (length m)) (frag_total (length m) - 1) 0 ltac:(lia) ltac:(lia)) as H.
  replace (24 * 0)%nat with 0%nat in H by lia. rewrite firstn_O in H. cbn [app] in H.
  replace (frag_total (length m) - 1 + 1)%nat with (frag_total (length m)) in H by lia.
  exact H.
Qed.

(* ---- a TMRh20-style receiver reassembles exactly the original message ---- *)
Lemma tm_tail h t m :
  let total := frag_total (length m) in
  (24 < length m)%nat -> (total <= 255)%nat ->
  forall d k, (k + d + 1 = total)%nat -> (1 <= k)%nat ->
  tm_run (Some (mkTm (frame_id h) (Z.of_nat (total - (k - 1))) (from_node h) (firstn (24 * k) m)))
         (map (nth_frag h t m) (seq k (d + 1)))
  = [(from_node h, t, m)].
Proof.
  intros total Hn H255. pose proof (total_bounds' _ Hn) as [Ht _]. fold total in Ht.
  induction d as [|d IH]; intros k Hk Hk1.
  - replace (0 + 1)%nat with 1%nat by lia. cbn [seq map tm_run].
    unfold nth_frag, frag_header, frag_slice, MAX_FRAG_SIZE. fold total.
    replace (Nat.eqb k (total - 1)) with true by (symmetry; apply Nat.eqb_eq; lia).
    unfold tm_step. cbn [hdr message_type frame_id reserved from_node msg].
    change (MSG_FRAG_LAST =? MSG_FRAG_FIRST) with false.
    change (MSG_FRAG_LAST =? MSG_FRAG_MORE) with false.
    change (MSG_FRAG_LAST =? MSG_FRAG_LAST) with true.
    cbn [tm_cnt tm_id tm_from tm_buf].
    replace (Z.of_nat (total - (k - 1)) =? 2) with true by (symmetry; apply Z.eqb_eq; lia).
    rewrite Z.eqb_refl. cbn [andb tm_run].
    replace (24 * k)%nat with (24 * (total - 1))%nat by (f_equal; lia).
    rewrite firstn_skipn. reflexivity.
  - replace (S d + 1)%nat with (S (d + 1)) by lia. cbn [seq map tm_run].
    unfold nth_frag at 1. unfold frag_header, frag_slice, MAX_FRAG_SIZE. fold total.
    replace (Nat.eqb k (total - 1)) with false by (symmetry; apply Nat.eqb_neq; lia).
    replace (Nat.eqb k 0) with false by (symmetry; apply Nat.eqb_neq; lia).
    unfold tm_step. cbn [hdr message_type frame_id reserved from_node msg].
    change (MSG_FRAG_MORE =? MSG_FRAG_FIRST) with false.
    change (MSG_FRAG_MORE =? MSG_FRAG_MORE) with true.
    cbn [tm_cnt tm_id tm_from tm_buf].
    replace (1 <? Z.of_nat (total - (k - 1))) with true by (symmetry; apply Z.ltb_lt; lia).
    replace (Z.of_nat (total - (k - 1)) - 1 =? Z.of_nat (total - k)) with true
      by (symmetry; apply Z.eqb_eq; lia).
    rewrite Z.eqb_refl. cbn [andb].
    rewrite firstn_skipn_step.
    replace (Z.of_nat (total - (k - 1)) - 1) with (Z.of_nat (total - (S k - 1))) by lia.
    replace (24 * k + 24)%nat with (24 * S k)%nat by lia.
    apply IH; lia.
Qed.

Theorem tmrh20_reassembles h t m :
  (24 < length m)%nat -> (length m <= 24 * 255)%nat ->
  tm_run None (fragment_frames h t m) = [(from_node h, t, m)].
Proof.
  intros Hn Hmax. pose proof (total_bounds' _ Hn) as [Ht [Hlo Hhi]].
  assert (H255 : (frag_total (length m) <= 255)%nat).
  { lia. }
  unfold fragment_frames.
  replace (frag_total (length m)) with (S (frag_total (length m) - 1)) at 1 by lia.
  cbn [seq map tm_run].
  change (fun count => mkFrame (frag_header h t (frag_total (length m)) count)
                               (frag_slice m (frag_total (length m)) count))
    with (nth_frag h t m).
  unfold frag_header at 1. unfold frag_slice at 1. unfold MAX_FRAG_SIZE.
  replace (Nat.eqb 0 (frag_total (length m) - 1)) with false by (symmetry; apply Nat.eqb_neq; lia).
  cbn [Nat.eqb]. unfold tm_step. cbn [hdr message_type frame_id reserved from_node msg].
  change (MSG_FRAG_FIRST =? MSG_FRAG_FIRST) with true.
  replace (24 * 0)%nat with 0%nat by lia. rewrite skipn_O.
  pose proof (tm_tail h t m Hn H255 (frag_total (length m) - 2) 1 ltac:(lia) ltac:(lia)) as H.
  replace (frag_total (length m) - 2 + 1)%nat with (frag_total (length m) - 1)%nat in H by lia.
  replace (frag_total (length m) - (1 - 1))%nat with (frag_total (length m) - 0)%nat in H by lia.
  replace (24 * 1)%nat with 24%nat in H by lia.
  exact H.
Qed.

(* non-vacuity *)
Example fragments_example :
  let h := mkHeader 1 2 7 (IntT 65) 0 in
  let m := map N.of_nat (seq 0 60) in
  map (fun f => (message_type (hdr f), reserved (hdr f), length (msg f))) (fragment_frames h 65 m)
  = [(IntT 148, 3, 24%nat); (IntT 149, 2, 24%nat); (IntT 150, 65, 12%nat)]
  /\ tm_run None (fragment_frames h 65 m) = [(1, 65, m)].
Proof. vm_compute. split; reflexivity. Qed.

(* NodeRun.v -- public API of the network / mesh classes on top of Node.v and Mesh.v, and
   the int-stream runner used by the correspondence checks.  Model-side glue for the
   runner part; the API wrappers mirror rf24_network.py / mixins.py setters. *)
From Coq Require Import ZArith NArith List Bool.
From NRF Require Import Base.Wire Env.Radio Env.World Drv.RF24 Drv.RF24Run Net.Addr Net.Header Net.Queue
     Net.QueueRun Net.Node Net.Mesh.
Import ListNotations.
Local Open Scope Z_scope.

Inductive nkind := KRouting | KNetwork | KMeshNode | KMesh.

Definition node0 (fid : Z) : node :=
  mkNode init_drv 0 0 0 0 0 0 false true 25 75 true false true 144 (Frag empty_fragq)
         (mkFrame (mkHeader 4095 0 fid (IntT 0) 0) []) 0 [] false.

Section Api.
  Context {bus : Type} (B : busops bus).
  Notation "x <- m ;; f" := (nbind m (fun x => f)) (at level 61, m at next level, right associativity).
  Notation "m ;;; f" := (nbind m (fun _ => f)) (at level 61, right associativity).

  (* constructors *)
  Definition construct_node (k : nkind) (arg fid : Z) : NM unit :=
    match k with
    | KRouting | KNetwork =>
      if negb (valid_z arg) then nraise ValueError
      else
        nmod (fun _ => node0 fid) ;;; rf (construct B) ;;; begin B arg
    | KMeshNode | KMesh =>
      nmod (fun _ => node0 fid) ;;; rf (construct B) ;;;
      nmod (fun n => set_flags (set_mesh n (Z.min 255 arg) [] false) (n_relay n) (n_frag n) (n_allow_mc n) true
                               (n_parenthood n) (n_max_len n)) ;;;
      begin B (if arg =? 0 then 0 else NET_DEFAULT)
    end.

  Definition update_of (k : nkind) : NM Z :=
    match k with
    | KRouting | KNetwork => net_update B FUEL 0
    | KMeshNode => update_nomaster B
    | KMesh => update_master B
    end.

  (* _validate_msg_len: None = ValueError, Some false = must truncate *)
  Definition validate_len (n : node) (len : nat) : option bool :=
    if n_max_len n <? Z.of_nat len then None
    else if Nat.ltb 24 len && negb (n_frag n) then Some false else Some true.

  (* RF24Network.write(frame, traffic_direct) *)
  Definition net_write (f : frame) (traffic_direct : Z) : NM bool :=
    n <- nget ;;
    if negb (valid_z (to_node (hdr f))) then nraise AttributeError
    else match validate_len n (length (msg f)) with
    | None => nraise ValueError
    | Some full =>
      let m := if full then msg f else firstn 24 (msg f) in
      let h := hdr f in
      nmod (fun n => set_fb n (mkFrame (mkHeader (n_addr n) (to_node h) (frame_id h) (message_type h) (reserved h)) m)) ;;;
      if negb (traffic_direct =? 56) then     (* AUTO_ROUTING = 0o70 *)
        let st := if to_node h =? traffic_direct then S_PHYSICAL
                  else if to_node h =? NET_MULTICAST then S_MULTICAST else S_LOGICAL in
        write_ B FUEL traffic_direct st
      else write_ B FUEL (to_node h) S_NORMAL
    end.

  (* multicast(message, message_type, level) ; message_type already an int *)
  Definition net_multicast (m : list N) (ty : Z) (level : option Z) : NM bool :=
    n <- nget ;;
    match validate_len n (length m) with
    | None => nraise ValueError
    | Some full =>
      let m := if full then m else firstn 24 m in
      let lvl := match level with None => n_lvl n | Some l => Z.min 4 (Z.max l 0) end in
      nmod (fun n => let h := fb_hdr n in
                     set_fb n (mkFrame (mkHeader (n_addr n) NET_MULTICAST (frame_id h) (IntT (Z.land ty 255)) (reserved h)) m)) ;;;
      write_ B FUEL (Z.of_N (lvl_2_addr (Z.to_N lvl))) S_MULTICAST
    end.

  Definition set_node_address (v : Z) : NM unit :=
    if valid_z v then begin B v else nret tt.

  Definition set_multicast_level (l : Z) : NM unit :=
    let lvl := Z.min 4 (Z.max l 0) in
    nmod (fun n => set_lvl n lvl) ;;;
    rf (set_listen B false) ;;;
    n <- nget ;;
    a <- pipe_addr_of n (Z.of_N (lvl_2_addr (Z.to_N lvl))) 0 ;;
    rf (open_rx_pipe B 0 a) ;;;
    rf (set_listen B true).

  Definition set_fragmentation (en : bool) : NM (bus := bus) unit :=
    n <- nget ;;
    if Bool.eqb en (n_frag n) then nret tt
    else
      nmod (fun n =>
              let q' := match n_queue n, en with
                        | Plain q, true => Frag (to_frag q)
                        | Frag q, false => Plain (to_plain q)
                        | q, _ => q
                        end in
              set_flags (set_queue n q') (n_relay n) en (n_allow_mc n) (n_ret_sys n) (n_parenthood n)
                        (if en then 144 else 24)).

  Definition q_base (n : node) : queue := st_base (n_queue n).
  Definition q_dequeue : NM (bus := bus) (option frame) :=
    n <- nget ;;
    let '(o, b') := dequeue (q_base n) in
    nmod (fun n => set_queue n (match n_queue n with
                                | Plain _ => Plain b'
                                | Frag q => Frag (mkFQ b' (cache q))
                                end)) ;;; nret o.

End Api.

(* ---- runner ---- *)
Definition put_node (n : node) : list Z :=
  [n_addr n; n_mask n; n_mask_inv n; n_lvl n; n_parent n; n_ppipe n; zbool (n_relay n); zbool (n_frag n);
   n_tx_timeout n; n_route_timeout n; zbool (n_allow_mc n); zbool (n_ret_sys n); zbool (n_parenthood n); n_max_len n]
  ++ (match n_queue n with Plain _ => [0] | Frag _ => [1] end)
  ++ [qmax (st_base (n_queue n)); Z.of_nat (length (qframes (st_base (n_queue n))))]
  ++ flat_map put_frame (qframes (st_base (n_queue n)))
  ++ put_frame (n_fb n)
  ++ [n_id n; Z.of_nat (length (n_dhcp n))] ++ flat_map (fun kv => [fst kv; snd kv]) (n_dhcp n)
  ++ [zbool (n_do_dhcp n)].

Definition outn {A bus} (pr : A -> list Z) (x : result A * node * bus) : list Z * node * bus :=
  match x with
  | (Ok a, n, w) => (0 :: pr a, n, w)
  | (Exn e, n, w) => ([exn_code e], n, w)
  end.

Definition pr_optz (o : option Z) : list Z := match o with None => [0] | Some z => [1; z] end.

Definition kind_of (z : Z) : nkind :=
  if z =? 0 then KRouting else if z =? 1 then KNetwork else if z =? 2 then KMeshNode else KMesh.
Definition is_mesh_master_class (k : nkind) : bool := match k with KMesh => true | _ => false end.

Fixpoint take_pairs (n : nat) (s : list Z) : list (Z * Z) * list Z :=
  match n with
  | O => ([], s)
  | S k => match s with
           | a :: b :: t => let '(l, r) := take_pairs k t in ((a, b) :: l, r)
           | _ => ([], s)
           end
  end.

Section Call.
Context {bus : Type} (B : busops bus).
Definition node_call_g (k : nkind) (code : Z) (s : list Z) (n : node) (w : bus)
  : option (list Z * node * bus * list Z) :=
  let r0 {A} (pr : A -> list Z) (m : NM (bus := bus) A) (rest : list Z) :=
      let '(o, n', w') := outn pr (m n w) in Some (o, n', w', rest) in
  let mc := is_mesh_master_class k in
  match code, s with
  | 100, t => r0 pr_z (update_of B k) t
  | 101, t => match take_frame t with
              | Some (f, td :: r) => r0 pr_bool (net_write B f td) r
              | _ => None
              end
  | 102, t => match take_bytes t with
              | Some (m, ty :: r) =>
                match take_optZ r with
                | Some (lv, r2) => r0 pr_bool (net_multicast B m ty lv) r2
                | None => None
                end
              | _ => None
              end
  | 103, z :: t => r0 pr_unit (set_node_address B z) t
  | 104, z :: t => r0 pr_unit (set_multicast_level B z) t
  | 105, b :: t => r0 pr_unit (nmod (fun n => set_flags n (boolz b && n_allow_mc n) (n_frag n) (n_allow_mc n)
                                                       (n_ret_sys n) (n_parenthood n) (n_max_len n))) t
  | 106, b :: t => r0 pr_unit (set_fragmentation (boolz b)) t
  | 107, b :: t => r0 pr_unit (nmod (fun n => set_flags n (n_relay n) (n_frag n) (boolz b) (n_ret_sys n)
                                                       (n_parenthood n) (n_max_len n))) t
  | 108, t => r0 put_optframe q_dequeue t
  | 109, t => r0 put_optframe (fun n w => (Ok (peek (q_base n)), n, w)) t
  | 110, t => r0 pr_bool (fun n w => (Ok (negb (Nat.eqb (qlen (q_base n)) 0)), n, w)) t
  | 111, a :: b :: t => r0 pr_unit (nmod (fun n => set_timeouts n a b)) t
  | 112, b :: t => r0 pr_unit (nmod (fun n => set_flags n (n_relay n) (n_frag n) (n_allow_mc n) (boolz b)
                                                       (n_parenthood n) (n_max_len n))) t
  | 113, z :: t => r0 pr_unit (nmod (fun n => set_queue n (match n_queue n with
                                                           | Plain q => Plain (set_max q z)
                                                           | Frag q => Frag (mkFQ (set_max (base q) z) (cache q))
                                                           end))) t
  | 120, i :: ty :: t => match take_bytes t with
                         | Some (m, fid :: r) => r0 pr_bool (mesh_send B mc i ty m fid) r
                         | _ => None
                         end
  | 121, a :: ty :: t => match take_bytes t with
                         | Some (m, fid :: r) => r0 pr_bool (mesh_write B a ty m fid) r
                         | _ => None
                         end
  | 122, tmo :: t => r0 pr_optz (renew_address B mc tmo) t
  | 123, t => r0 pr_bool (release_address_node B) t
  | 124, t => match take_optZ t with Some (a, r) => r0 pr_z (lookup_address B mc a) r | None => None end
  | 125, t => match take_optZ t with Some (a, r) => r0 pr_z (lookup_node_id B mc a) r | None => None end
  | 126, at_ :: pm :: fid :: t => r0 pr_bool (check_connection B mc (Z.to_nat at_) (boolz pm) fid) t
  | 127, z :: t => r0 pr_unit (set_node_id B z) t
  | 128, b :: t => r0 pr_unit (nmod (fun n => set_flags n (n_relay n) (n_frag n) (n_allow_mc n) (n_ret_sys n)
                                                       (boolz b) (n_max_len n))) t
  | 129, a :: t =>   (* RF24Mesh.release_address(address) *)
    if a =? 0 then r0 pr_bool (release_address_node B) t
    else r0 pr_bool (fun n w => let '(r, d') := release_addr (n_dhcp n) a in
                                (Ok r, set_mesh n (n_id n) d' (n_do_dhcp n), w)) t
  | 130, i :: a :: ba :: t =>
    r0 pr_unit (nmod (fun n => set_mesh n (n_id n) (set_address (n_dhcp n) i a (boolz ba)) (n_do_dhcp n))) t
  | 131, fmt :: cnt :: t =>   (* load_dhcp: fmt 0 = json pairs, 1 = binary bytes *)
    if fmt =? 0 then
      let '(ps, r) := take_pairs (Z.to_nat cnt) t in
      r0 pr_unit (nmod (fun n => set_mesh n (n_id n) (load_json ps (n_dhcp n)) (n_do_dhcp n))) r
    else
      match takeZ (Z.to_nat cnt) t with
      | Some (bs, r) =>
        r0 pr_unit (nmod (fun n => set_mesh n (n_id n) (load_bin (length bs) (map Z.to_N bs) (n_dhcp n)) (n_do_dhcp n))) r
      | None => None
      end
  | 132, t =>   (* save_dhcp(as_bin=True): the file bytes *)
    r0 put_bytes (fun n w => match save_bin (n_dhcp n) with
                             | Ok b => (Ok b, n, w)
                             | Exn e => (Exn e, n, w)
                             end) t
  | _, _ => None
  end.
End Call.

Definition node_call (me : nat) := node_call_g (WB me).

Fixpoint set_nth_nobj (l : list (nat * nkind * node)) (i : nat) (v : nat * nkind * node) :=
  match l, i with
  | [], _ => []
  | _ :: t, O => v :: t
  | x :: t, S k => x :: set_nth_nobj t k v
  end.

Fixpoint nrun_ops (fuel : nat) (s : list Z) (objs : list (nat * nkind * node)) (cur : nat) (w : world) : list Z :=
  match fuel with
  | O => [-9]
  | S k =>
    match s with
    | [] => [-2]
    | 90 :: n :: t =>
      let '(fs, r) := take_fates (Z.to_nat n) t in
      nrun_ops k r objs cur (mkWorld (radios w) fs (air w) (clock w))
    | 91 :: i :: p :: t =>
      match take_bytes t with
      | Some (b, r) =>
        nrun_ops k r objs cur (set_radio w (Z.to_nat i) (inject (get_radio w (Z.to_nat i)) (Z.to_N p) b))
      | None => [-3]
      end
    | 92 :: o :: t => nrun_ops k t objs (Z.to_nat o) w
    | 93 :: t =>
      (-4) :: Z.of_nat (length (air w)) :: flat_map put_airlog (air w)
      ++ nrun_ops k t objs cur (mkWorld (radios w) (oracle w) [] (clock w))
    | 94 :: ns :: t => nrun_ops k t objs cur (tick w (Z.to_N ns))      (* idle time *)
    | code :: t =>
      let '(me, kd, n) := nth cur objs (0%nat, KNetwork, node0 0) in
      match node_call me kd code t n w with
      | None => [-3; code]
      | Some (o, n', w', rest) =>
        (-1) :: o ++ (-5) :: Z.of_N (clock w') :: snap_all w' ++ (-6) :: dump_drv (n_rf n') ++ (-7) :: put_node n'
        ++ nrun_ops k rest (set_nth_nobj objs cur (me, kd, n')) cur w'
      end
    end
  end.

(* objects: (radio, kind, arg, fid) each; constructed in order *)
Fixpoint nconstruct_all (specs : list (Z * Z * Z * Z)) (w : world)
  : list (nat * nkind * node) * world * list Z :=
  match specs with
  | [] => ([], w, [])
  | (ri, kd, arg, fid) :: t =>
    let me := Z.to_nat ri in
    let '(o, n, w1) := outn pr_unit (construct_node (WB me) (kind_of kd) arg fid (node0 fid) w) in
    let '(rest, w2, outs) := nconstruct_all t w1 in
    ((me, kind_of kd, n) :: rest, w2, o ++ outs)
  end.

Fixpoint take_specs (n : nat) (s : list Z) : list (Z * Z * Z * Z) * list Z :=
  match n with
  | O => ([], s)
  | S k => match s with
           | a :: b :: c :: d :: t => let '(l, r) := take_specs k t in ((a, b, c, d) :: l, r)
           | _ => ([], s)
           end
  end.

(* request: nradios plus_1.. nobjects (radio kind arg fid)* ops... *)
Definition run_net (req : list Z) : list Z :=
  match req with
  | nr :: t =>
    match takeZ (Z.to_nat nr) t with
    | Some (plus, no :: t2) =>
      let '(specs, ops) := take_specs (Z.to_nat no) t2 in
      let w0 := new_world (map boolz plus) [] in
      let '(objs, w1, couts) := nconstruct_all specs w0 in
      couts ++ (-5) :: Z.of_N (clock w1) :: snap_all w1
      ++ flat_map (fun o => (-7) :: put_node (snd o)) objs
      ++ nrun_ops (length ops + 1) ops objs 0 w1
    | _ => [-3]
    end
  | [] => [-3]
  end.

(* DhcpFacts.v -- the master's lease table (Net/Mesh.v: dict_set, dict_del, set_address,
   release_addr, dhcp_pick, save_bin/load_bin/load_json) keeps "one address, one ID". *)
From Coq Require Import ZArith NArith List Bool Lia.
From NRF Require Import Base.Sweep Drv.RF24 Net.Addr Net.AddrFacts Net.Mesh.
Import ListNotations.
Local Open Scope Z_scope.

Definition keys (d : list (Z * Z)) : list Z := map fst d.

(* every ID holds one lease; no address is held by two IDs *)
Definition Inj (d : list (Z * Z)) : Prop :=
  NoDup (keys d) /\ forall k1 k2 v, In (k1, v) d -> In (k2, v) d -> k1 = k2.

Definition fresh_for (d : list (Z * Z)) (k v : Z) : Prop := forall k', In (k', v) d -> k' = k.

Lemma in_keys k v d : In (k, v) d -> In k (keys d).
Proof. intro H. apply in_map_iff. exists (k, v). auto. Qed.

Lemma keys_dict_set d k v x : In x (keys (dict_set d k v)) -> x = k \/ In x (keys d).
Proof.
  induction d as [|[k' v'] t IH]; cbn [dict_set keys map fst In].
  - intros [H|[]]. auto.
  - destruct (k' =? k) eqn:E; cbn [keys map fst In].
    + apply Z.eqb_eq in E. intros [H|H]; auto.
    + intros [H|H]; auto. destruct (IH H); auto.
Qed.

Lemma nodup_dict_set d k v : NoDup (keys d) -> NoDup (keys (dict_set d k v)).
Proof.
  induction d as [|[k' v'] t IH]; cbn [dict_set keys map fst]; intro H.
  - constructor; [intros []|constructor].
  - inversion H as [|? ? Hn Ht]; subst.
    destruct (k' =? k) eqn:E; cbn [keys map fst].
    + apply Z.eqb_eq in E. subst. constructor; assumption.
    + constructor; [|apply IH; assumption].
      intro Hin. apply keys_dict_set in Hin. destruct Hin as [->|Hin]; [|exact (Hn Hin)].
      rewrite Z.eqb_refl in E. discriminate.
Qed.

Lemma in_dict_set d k v k' v' :
  NoDup (keys d) -> In (k', v') (dict_set d k v) -> (k' = k /\ v' = v) \/ (k' <> k /\ In (k', v') d).
Proof.
  induction d as [|[k0 v0] t IH]; cbn [dict_set keys map fst In]; intros Hn H.
  - destruct H as [H|[]]. injection H as <- <-. auto.
  - inversion Hn as [|? ? Hn0 Ht]; subst.
    destruct (k0 =? k) eqn:E; cbn [In] in H.
    + apply Z.eqb_eq in E. subst k0. destruct H as [H|H].
      * injection H as <- <-. auto.
      * right. split; [|auto]. intros ->. apply Hn0. exact (in_keys _ _ _ H).
    + apply Z.eqb_neq in E. destruct H as [H|H].
      * injection H as <- <-. right. auto.
      * destruct (IH Ht H) as [?|[? ?]]; auto.
Qed.

Lemma in_dict_set_new d k v : In (k, v) (dict_set d k v).
Proof.
  induction d as [|[k0 v0] t IH]; cbn [dict_set In]; auto.
  destruct (k0 =? k); cbn [In]; auto.
Qed.

Lemma in_dict_set_old d k v k' v' : k' <> k -> In (k', v') d -> In (k', v') (dict_set d k v).
Proof.
  intros Hne. induction d as [|[k0 v0] t IH]; cbn [dict_set In]; [intros []|].
  destruct (k0 =? k) eqn:E; cbn [In]; intros [H|H]; auto.
  apply Z.eqb_eq in E. injection H as -> _. contradiction.
Qed.

Lemma keys_dict_del d k x : In x (keys (dict_del d k)) -> In x (keys d).
Proof.
  induction d as [|[k0 v0] t IH]; cbn [dict_del keys map fst In]; auto.
  destruct (k0 =? k); cbn [keys map fst In]; auto. intros [H|H]; auto.
Qed.

Lemma nodup_dict_del d k : NoDup (keys d) -> NoDup (keys (dict_del d k)).
Proof.
  induction d as [|[k0 v0] t IH]; cbn [dict_del keys map fst]; intro H; [constructor|].
  inversion H as [|? ? Hn Ht]; subst. destruct (k0 =? k); cbn [keys map fst]; auto.
  constructor; auto. intro Hin. apply Hn. exact (keys_dict_del _ _ _ Hin).
Qed.

Lemma in_dict_del d k k' v' :
  NoDup (keys d) -> In (k', v') (dict_del d k) -> k' <> k /\ In (k', v') d.
Proof.
  induction d as [|[k0 v0] t IH]; cbn [dict_del keys map fst In]; intros Hn H; [destruct H|].
  inversion Hn as [|? ? Hn0 Ht]; subst.
  destruct (k0 =? k) eqn:E.
  - apply Z.eqb_eq in E. subst k0. split; auto. intros ->. apply Hn0. exact (in_keys _ _ _ H).
  - apply Z.eqb_neq in E. destruct H as [H|H].
    + injection H as <- <-. auto.
    + destruct (IH Ht H). auto.
Qed.

Lemma in_dict_del_old d k k' v' : k' <> k -> In (k', v') d -> In (k', v') (dict_del d k).
Proof.
  intros Hne. induction d as [|[k0 v0] t IH]; cbn [dict_del In]; [intros []|].
  destruct (k0 =? k) eqn:E; cbn [In]; intros [H|H]; auto.
  apply Z.eqb_eq in E. injection H as -> _. contradiction.
Qed.

Lemma find_val_some d v k : dict_find_val d v = Some k -> In (k, v) d.
Proof.
  induction d as [|[k0 v0] t IH]; cbn [dict_find_val In]; [discriminate|].
  destruct (v0 =? v) eqn:E.
  - apply Z.eqb_eq in E. intros H. injection H as <-. subst. auto.
  - auto.
Qed.

Lemma find_val_none d v : dict_find_val d v = None -> forall k, ~ In (k, v) d.
Proof.
  induction d as [|[k0 v0] t IH]; cbn [dict_find_val In]; intros H k; [tauto|].
  destruct (v0 =? v) eqn:E; [discriminate|]. apply Z.eqb_neq in E.
  intros [Hx|Hx]; [injection Hx as _ Hv; contradiction|exact (IH H k Hx)].
Qed.

(* ---- one step of each table operation keeps the table one-to-one ---- *)
Lemma inj_dict_set d k v : Inj d -> fresh_for d k v -> Inj (dict_set d k v).
Proof.
  intros [Hn Hi] Hf. split; [apply nodup_dict_set; exact Hn|].
  intros k1 k2 w H1 H2.
  apply in_dict_set in H1; [|exact Hn]. apply in_dict_set in H2; [|exact Hn].
  destruct H1 as [[-> ->]|[Hk1 H1]], H2 as [[-> Hw]|[Hk2 H2]].
  - reflexivity.
  - symmetry. exact (Hf _ H2).
  - subst w. exact (Hf _ H1).
  - exact (Hi _ _ _ H1 H2).
Qed.

Lemma inj_dict_del d k : Inj d -> Inj (dict_del d k).
Proof.
  intros [Hn Hi]. split; [apply nodup_dict_del; exact Hn|].
  intros k1 k2 w H1 H2. apply in_dict_del in H1; [|exact Hn]. apply in_dict_del in H2; [|exact Hn].
  exact (Hi _ _ _ (proj2 H1) (proj2 H2)).
Qed.

Lemma inj_set_address_by_addr d k v : Inj d -> Inj (set_address d k v true).
Proof.
  intros HI. unfold set_address. destruct (dict_find_val d v) as [k0|] eqn:E.
  - apply inj_dict_set; [apply inj_dict_del; exact HI|].
    intros k' Hin. destruct HI as [Hn Hi]. apply in_dict_del in Hin; [|exact Hn].
    destruct Hin as [Hne Hin]. exfalso. apply Hne. exact (Hi _ _ _ Hin (find_val_some _ _ _ E)).
  - apply inj_dict_set; [exact HI|]. intros k' Hin. exfalso. exact (find_val_none _ _ E _ Hin).
Qed.

Lemma inj_set_address_by_id d k v : Inj d -> fresh_for d k v -> Inj (set_address d k v false).
Proof. intros. unfold set_address. apply inj_dict_set; assumption. Qed.

Lemma inj_release d a : Inj d -> Inj (snd (release_addr d a)).
Proof.
  intro HI. unfold release_addr. destruct (dict_find_val d a); cbn [snd]; [apply inj_dict_del|]; exact HI.
Qed.

(* a released address is no longer leased *)
Lemma release_frees d a : Inj d -> forall k, ~ In (k, a) (snd (release_addr d a)).
Proof.
  intros [Hn Hi] k. unfold release_addr. destruct (dict_find_val d a) as [k0|] eqn:E; cbn [snd].
  - intro Hin. apply in_dict_del in Hin; [|exact Hn]. destruct Hin as [Hne Hin].
    apply Hne. exact (Hi _ _ _ Hin (find_val_some _ _ _ E)).
  - exact (find_val_none _ _ E k).
Qed.

(* the other leases are untouched by a release *)
Lemma release_keeps d a k v : Inj d -> v <> a -> In (k, v) d -> In (k, v) (snd (release_addr d a)).
Proof.
  intros [Hn Hi] Hne Hin. unfold release_addr. destruct (dict_find_val d a) as [k0|] eqn:E; cbn [snd]; [|exact Hin].
  apply in_dict_del_old; [|exact Hin]. intros ->.
  pose proof (find_val_some _ _ _ E) as H0.
  assert (Hk : NoDup (keys d)) by exact Hn.
  (* k0 holds a and v: two leases for one ID *)
  clear - Hk H0 Hin Hne. induction d as [|[k1 v1] t IH]; [destruct Hin|].
  cbn [keys map fst] in Hk. inversion Hk as [|? ? Hn1 Ht]; subst.
  destruct H0 as [H0|H0], Hin as [Hin|Hin].
  - injection H0 as E1 E2. injection Hin as E3 E4. apply Hne. rewrite <- E4. exact E2.
  - injection H0 as -> _. apply Hn1. exact (in_keys _ _ _ Hin).
  - injection Hin as -> _. apply Hn1. exact (in_keys _ _ _ H0).
  - exact (IH Hin H0 Ht).
Qed.

(* ---- the candidate scan ---- *)
Lemma dhcp_pick_some d rid i via sh a :
  dhcp_pick d rid i via sh = Some a ->
  a <> 2340 /\ fresh_for d rid a /\
  exists j, (1 <= j <= i)%nat /\ a = Z.lor via (Z.shiftl (Z.of_nat j) sh).
Proof.
  induction i as [|i IH]; cbn [dhcp_pick]; [discriminate|].
  set (na := Z.lor via (Z.shiftl (Z.of_nat (S i)) sh)).
  destruct (na =? 2340) eqn:E1.
  - intro H. destruct (IH H) as (A & B & j & Hj & C). repeat split; auto. exists j. split; [lia|exact C].
  - destruct (existsb _ d) eqn:E2.
    + intro H. destruct (IH H) as (A & B & j & Hj & C). repeat split; auto. exists j. split; [lia|exact C].
    + intro H. injection H as <-. apply Z.eqb_neq in E1. split; [exact E1|]. split.
      * intros k' Hin. destruct (Z.eq_dec k' rid) as [|Hne]; [assumption|]. exfalso.
        assert (Hx : existsb (fun kv => (snd kv =? na) && negb (fst kv =? rid)) d = true).
        { apply existsb_exists. exists (k', na). split; [exact Hin|]. cbn [fst snd].
          rewrite Z.eqb_refl. apply Z.eqb_neq in Hne. rewrite Hne. reflexivity. }
        rewrite Hx in E2. discriminate.
      * exists (S i). split; [lia|reflexivity].
Qed.

(* nothing is leased only when every child slot is the unassigned address or held by another ID *)
Lemma dhcp_pick_none d rid i via sh :
  dhcp_pick d rid i via sh = None ->
  forall j, (1 <= j <= i)%nat ->
    let a := Z.lor via (Z.shiftl (Z.of_nat j) sh) in
    a = 2340 \/ exists k, k <> rid /\ In (k, a) d.
Proof.
  induction i as [|i IH]; cbn [dhcp_pick]; intros H j Hj; [lia|].
  set (na := Z.lor via (Z.shiftl (Z.of_nat (S i)) sh)) in *.
  destruct (na =? 2340) eqn:E1.
  - destruct (Nat.eq_dec j (S i)) as [->|Hne]; [left; apply Z.eqb_eq; exact E1|]. apply IH; [exact H|lia].
  - destruct (existsb _ d) eqn:E2; [|discriminate].
    destruct (Nat.eq_dec j (S i)) as [->|Hne]; [|apply IH; [exact H|lia]].
    right. apply existsb_exists in E2. destruct E2 as ([k v] & Hin & Hb). cbn [fst snd] in Hb.
    apply andb_prop in Hb. destruct Hb as [Hv Hk]. apply Z.eqb_eq in Hv. subst v.
    exists k. split; [|exact Hin]. apply negb_true_iff in Hk. apply Z.eqb_neq. exact Hk.
Qed.

(* one served request: pick + set_address by ID *)
Lemma inj_dhcp_step d rid i via sh a :
  Inj d -> dhcp_pick d rid i via sh = Some a -> Inj (set_address d rid a false).
Proof.
  intros HI H. apply inj_set_address_by_id; [exact HI|]. exact (proj1 (proj2 (dhcp_pick_some _ _ _ _ _ _ H))).
Qed.

(* ---- the candidates are valid children of the relaying node (finite sweep over the 12-bit vias) ---- *)
Definition childb (via : Z) (j : Z) : bool :=
  let lvl := level_of 8 via in
  let a := Z.lor via (Z.shiftl j (3 * lvl)) in
  negb (is_address_valid (Z.to_N via)) || negb (lvl <=? 3) || (via =? 64) || (via =? 8) || (via =? 512)
  || (is_address_valid (Z.to_N a) && negb (a =? 0) && (Z.of_N (parent_of (Z.to_N a)) =? via)
      && negb (a =? 64) && negb (a =? 8) && negb (a =? 512)).

Lemma child_sweep : forallb (fun via => forallb (childb via) [1; 2; 3; 4; 5]) (map Z.of_nat (seq 0 4096)) = true.
Proof. vm_compute. reflexivity. Qed.

Lemma child_valid via j :
  0 <= via < 4096 -> 1 <= j <= 5 -> childb via j = true.
Proof.
  intros Hv Hj.
  pose proof (sweepZ (fun via => forallb (childb via) [1; 2; 3; 4; 5]) 4096 child_sweep via) as H.
  assert (Hb : 0 <= via < Z.of_nat 4096) by lia. specialize (H Hb). cbv beta in H.
  rewrite forallb_forall in H. apply H.
  assert (j = 1 \/ j = 2 \/ j = 3 \/ j = 4 \/ j = 5) as [->|[->|[->|[->| ->]]]] by lia; cbn [In]; auto 6.
Qed.

(* ---- persistence ---- *)
Lemma inj_load_json pairs : forall d, Inj d -> Inj (load_json pairs d).
Proof.
  induction pairs as [|[k v] t IH]; cbn [load_json]; intros d HI; [exact HI|].
  apply IH. apply inj_set_address_by_addr. exact HI.
Qed.

Lemma inj_load_bin fuel : forall buf d, Inj d -> Inj (load_bin fuel buf d).
Proof.
  induction fuel as [|f IH]; cbn [load_bin]; intros buf d HI; [exact HI|].
  destruct buf as [|i [|p [|lo [|hi t]]]]; try exact HI.
  apply IH. apply inj_set_address_by_addr. exact HI.
Qed.

(* loading a saved table into an empty one gives the table back, entry for entry and in order *)
Definition in_range (d : list (Z * Z)) : Prop :=
  forall k v, In (k, v) d -> 0 <= k <= 255 /\ 0 <= v <= 65535.

Lemma dict_set_fresh_app d k v : ~ In k (keys d) -> dict_set d k v = d ++ [(k, v)].
Proof.
  induction d as [|[k0 v0] t IH]; cbn [dict_set keys map fst In app]; intro H; [reflexivity|].
  destruct (k0 =? k) eqn:E; [apply Z.eqb_eq in E; tauto|]. rewrite IH; [reflexivity|tauto].
Qed.

Lemma find_val_none_iff d v : (forall k, ~ In (k, v) d) -> dict_find_val d v = None.
Proof.
  induction d as [|[k0 v0] t IH]; cbn [dict_find_val In]; intro H; [reflexivity|].
  destruct (v0 =? v) eqn:E.
  - apply Z.eqb_eq in E. subst. exfalso. apply (H k0). auto.
  - apply IH. intros k Hin. apply (H k). auto.
Qed.

Lemma set_by_addr_fresh d k v :
  ~ In k (keys d) -> (forall k', ~ In (k', v) d) -> set_address d k v true = d ++ [(k, v)].
Proof.
  intros Hk Hv. unfold set_address. rewrite (find_val_none_iff _ _ Hv). apply dict_set_fresh_app. exact Hk.
Qed.

Lemma save_bin_ok d : in_range d -> exists bytes, save_bin d = Ok bytes /\ length bytes = (4 * length d)%nat.
Proof.
  induction d as [|[k v] t IH]; intro Hr.
  - exists []. split; reflexivity.
  - destruct (Hr k v (or_introl eq_refl)) as [Hk Hv].
    destruct IH as (bs & E & L). { intros k' v' Hin. apply Hr. right. exact Hin. }
    unfold save_bin in *. cbn fix beta iota.
    replace ((0 <=? k) && (k <=? 255)) with true by lia.
    replace ((0 <=? v) && (v <=? 65535)) with true by lia. cbn [negb].
    rewrite E. eexists. split; [reflexivity|]. cbn [length]. lia.
Qed.

Lemma load_save_roundtrip_gen d :
  forall acc bytes fuel,
    in_range d -> Inj (acc ++ d) -> save_bin d = Ok bytes -> (length d <= fuel)%nat ->
    load_bin fuel bytes acc = acc ++ d.
Proof.
  induction d as [|[k v] t IH]; intros acc bytes fuel Hr HI E Hf.
  - unfold save_bin in E. injection E as <-. rewrite app_nil_r. destruct fuel; reflexivity.
  - destruct (Hr k v (or_introl eq_refl)) as [Hk Hv].
    assert (Hr' : in_range t) by (intros k' v' Hin; apply Hr; right; exact Hin).
    destruct (save_bin_ok t Hr') as (bs & Et & _).
    unfold save_bin in E, Et. cbn fix beta iota in E.
    replace ((0 <=? k) && (k <=? 255)) with true in E by lia.
    replace ((0 <=? v) && (v <=? 65535)) with true in E by lia. cbn [negb] in E.
    rewrite Et in E. injection E as <-.
    destruct fuel as [|f]; [cbn [length] in Hf; lia|]. cbn [load_bin].
    replace (Z.of_N (Z.to_N k)) with k by lia.
    replace (Z.of_N (Z.to_N (v mod 256)) + 256 * Z.of_N (Z.to_N (v / 256))) with v
      by (rewrite !Z2N.id by (try apply Z.mod_pos_bound; try apply Z.div_pos; lia);
          pose proof (Z.div_mod v 256); lia).
    destruct HI as [Hn Hi].
    assert (Hkfresh : ~ In k (keys acc)).
    { unfold keys in Hn. rewrite map_app in Hn. cbn [map fst] in Hn.
      apply NoDup_remove_2 in Hn. intro Hin. apply Hn. apply in_or_app. left. exact Hin. }
    assert (Hvfresh : forall k', ~ In (k', v) acc).
    { intros k' Hin.
      assert (k' = k) as -> by (apply (Hi k' k v); apply in_or_app; [left; exact Hin|right; left; reflexivity]).
      apply Hkfresh. exact (in_keys _ _ _ Hin). }
    rewrite (set_by_addr_fresh acc k v Hkfresh Hvfresh).
    rewrite (IH (acc ++ [(k, v)]) bs f Hr').
    + rewrite <- app_assoc. reflexivity.
    + rewrite <- app_assoc. cbn [app]. split; assumption.
    + unfold save_bin. exact Et.
    + cbn [length] in Hf. lia.
Qed.

Theorem load_save_roundtrip d bytes :
  in_range d -> Inj d -> save_bin d = Ok bytes -> load_bin (length d) bytes [] = d.
Proof. intros Hr HI E. exact (load_save_roundtrip_gen d [] bytes (length d) Hr HI E (le_n _)). Qed.

Theorem load_json_roundtrip d : Inj d -> load_json d [] = d.
Proof.
  intro HI. change d with ([] ++ d) at 2. change (Inj d) with (Inj ([] ++ d)) in HI.
  generalize dependent (@nil (Z * Z)). induction d as [|[k v] t IH]; intros acc HI; cbn [load_json].
  - rewrite app_nil_r. reflexivity.
  - destruct HI as [Hn Hi].
    assert (Hkfresh : ~ In k (keys acc)).
    { unfold keys in Hn. rewrite map_app in Hn. cbn [map fst] in Hn.
      apply NoDup_remove_2 in Hn. intro Hin. apply Hn. apply in_or_app. left. exact Hin. }
    assert (Hvfresh : forall k', ~ In (k', v) acc).
    { intros k' Hin.
      assert (k' = k) as -> by (apply (Hi k' k v); apply in_or_app; [left; exact Hin|right; left; reflexivity]).
      apply Hkfresh. exact (in_keys _ _ _ Hin). }
    rewrite (set_by_addr_fresh acc k v Hkfresh Hvfresh).
    rewrite (IH (acc ++ [(k, v)])); [rewrite <- app_assoc; reflexivity|].
    rewrite <- app_assoc. cbn [app]. split; assumption.
Qed.

(* ---- histories: what the master's update()/API do to the table, event by event
   (the monadic master in Net/Mesh.v calls exactly these functions on n_dhcp; the
   differential run compares the table after every call) ---- *)
Inductive event :=
| Request (rid via : Z) (direct : bool)     (* MESH_ADDR_REQUEST with reserved = rid, relayed by via / direct *)
| Release (a : Z)                           (* MESH_ADDR_RELEASE frame or release_address(a) *)
| LoadJson (pairs : list (Z * Z))
| LoadBin (bytes : list N).

Definition table_step (d : list (Z * Z)) (e : event) : list (Z * Z) :=
  match e with
  | Request rid via direct =>
    let via' := if direct then 0 else via in
    let sh := if direct then 0 else 3 * level_of 8 via in
    match dhcp_pick d rid (if direct then 5 else 4) via' sh with
    | Some a => set_address d rid a false
    | None => d
    end
  | Release a => snd (release_addr d a)
  | LoadJson pairs => load_json pairs d
  | LoadBin bytes => load_bin (length bytes) bytes d
  end.

Lemma inj_table_step d e : Inj d -> Inj (table_step d e).
Proof.
  intro HI. destruct e as [rid via direct|a|pairs|bytes]; cbn [table_step].
  - destruct (dhcp_pick _ _ _ _ _) eqn:E; [exact (inj_dhcp_step _ _ _ _ _ _ HI E)|exact HI].
  - apply inj_release. exact HI.
  - apply inj_load_json. exact HI.
  - apply inj_load_bin. exact HI.
Qed.

Lemma inj_nil : Inj [].
Proof. split; [constructor|intros ? ? ? []]. Qed.

Theorem inj_history evs : forall d, Inj d -> Inj (fold_left table_step evs d).
Proof.
  induction evs as [|e t IH]; cbn [fold_left]; intros d HI; [exact HI|].
  apply IH. apply inj_table_step. exact HI.
Qed.

(* what a served request hands out *)
Theorem request_lease (d : list (Z * Z)) (rid via : Z) (direct : bool) (a : Z) :
  0 <= via < 4096 -> is_address_valid (Z.to_N via) = true -> level_of 8 via <= 3 ->
  via <> 64 -> via <> 8 -> via <> 512 ->
  dhcp_pick d rid (if direct then 5%nat else 4%nat) (if direct then 0 else via)
            (if direct then 0 else 3 * level_of 8 via) = Some a ->
  let base := if direct then 0 else via in
  a <> 0 /\ a <> 2340 /\ is_address_valid (Z.to_N a) = true /\ Z.of_N (parent_of (Z.to_N a)) = base
  /\ a <> 64 /\ a <> 8 /\ a <> 512
  /\ fresh_for d rid a.
Proof.
  intros Hv Hval Hlvl H64 H8 H512 Hp base.
  destruct (dhcp_pick_some _ _ _ _ _ _ Hp) as (Hd & Hf & j & Hj & Ha).
  assert (Hc : childb base (Z.of_nat j) = true).
  { apply child_valid; [destruct direct; unfold base; lia|destruct direct; lia]. }
  assert (Hb : a = Z.lor base (Z.shiftl (Z.of_nat j) (3 * level_of 8 base))).
  { unfold base. destruct direct; [exact Ha|exact Ha]. }
  unfold childb in Hc. rewrite <- Hb in Hc.
  assert (Hvb : is_address_valid (Z.to_N base) = true) by (unfold base; destruct direct; [reflexivity|exact Hval]).
  assert (Hlb : (level_of 8 base <=? 3) = true) by (unfold base; destruct direct; [reflexivity|apply Z.leb_le; exact Hlvl]).
  rewrite Hvb, Hlb in Hc. cbn [negb orb] in Hc.
  assert (Hn : (base =? 64) = false /\ (base =? 8) = false /\ (base =? 512) = false).
  { unfold base. destruct direct; [repeat split; reflexivity|]. repeat split; apply Z.eqb_neq; assumption. }
  destruct Hn as (N1 & N2 & N3). rewrite N1, N2, N3 in Hc. cbn [orb] in Hc.
  repeat (apply andb_prop in Hc; destruct Hc as [Hc ?]).
  repeat match goal with H : negb (_ =? _) = true |- _ => apply negb_true_iff in H; apply Z.eqb_neq in H end.
  match goal with H : (_ =? base) = true |- _ => apply Z.eqb_eq in H end.
  repeat split; assumption.
Qed.

(* ---- lookups on the master's table (Net/Mesh.v get_address) ---- *)
Lemma dict_get_in d k v : NoDup (keys d) -> (dict_get d k = Some v <-> In (k, v) d).
Proof.
  induction d as [|[k0 v0] t IH]; cbn [dict_get keys map fst In]; intro Hn.
  - split; [discriminate|intros []].
  - inversion Hn as [|? ? Hn0 Ht]; subst. destruct (k0 =? k) eqn:E.
    + apply Z.eqb_eq in E. subst k0. split.
      * intro H. injection H as <-. auto.
      * intros [H|H]; [injection H as <-; reflexivity|]. exfalso. apply Hn0. exact (in_keys _ _ _ H).
    + apply Z.eqb_neq in E. rewrite (IH Ht). split; [auto|]. intros [H|H]; [injection H as -> _; contradiction|exact H].
Qed.

(* lookup_address on the master: the leased address, or -2 exactly when the ID holds no lease *)
Theorem lookup_address_spec d id :
  Inj d -> (forall a, In (id, a) d -> get_address d id true = a)
           /\ ((forall a, ~ In (id, a) d) -> get_address d id true = -2).
Proof.
  intros [Hn _]. unfold get_address. split.
  - intros a Hin. apply (dict_get_in d id a Hn) in Hin. rewrite Hin. reflexivity.
  - intro Hno. destruct (dict_get d id) as [a|] eqn:E; [|reflexivity].
    exfalso. apply (Hno a). apply (dict_get_in d id a Hn). exact E.
Qed.

(* lookup_node_id on the master: the ID holding the address, or -2 exactly when nobody holds it *)
Theorem lookup_node_id_spec d a :
  Inj d -> (forall id, In (id, a) d -> get_address d a false = id)
           /\ ((forall id, ~ In (id, a) d) -> get_address d a false = -2).
Proof.
  intros [Hn Hi]. unfold get_address. split.
  - intros id Hin. destruct (dict_find_val d a) as [k|] eqn:E.
    + exact (Hi _ _ _ (find_val_some _ _ _ E) Hin).
    + exfalso. exact (find_val_none _ _ E _ Hin).
  - intro Hno. destruct (dict_find_val d a) as [k|] eqn:E; [|reflexivity].
    exfalso. exact (Hno k (find_val_some _ _ _ E)).
Qed.

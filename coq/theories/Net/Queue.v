(* Queue.v -- model of network/structs.py: FrameQueue and FrameQueueFrag, and of the
   fragmentation setter's move between the two classes (mixins.py:279-288).
   Results are option: None = the Python code raises (TypeError from packing a header
   whose message_type is an empty str).  Model only: no proofs here. *)
From Coq Require Import ZArith NArith List Bool.
From NRF Require Import Net.Header.
Import ListNotations.
Local Open Scope Z_scope.

Record queue := mkQ { qmax : Z; qframes : list frame }.

Definition empty_queue : queue := mkQ 6 [].

Definition mtype_eqb (a b : mtype) : bool :=
  match a, b with
  | IntT x, IntT y => x =? y
  | _, _ => false   (* stored copies are always ints *)
  end.

(* frm.header.from_node == f.header.from_node and frame_id == and message_type == *)
Definition same_key (a b : header) : bool :=
  (from_node a =? from_node b) && (frame_id a =? frame_id b)
  && mtype_eqb (message_type a) (message_type b).

Definition copy_frame (f : frame) : option frame :=
  match mask_hdr (hdr f) with
  | None => None
  | Some h => Some (mkFrame h (msg f))
  end.

(* FrameQueue.enqueue:
     if self.max_queue_size <= len(self._queue): return False
     new_frame = copy through pack/unpack
     for frm in self._queue: if same (from_node, frame_id, message_type): return False
     self._queue.append(new_frame); return True                                   *)
Definition enqueue (q : queue) (f : frame) : option (bool * queue) :=
  if qmax q <=? Z.of_nat (length (qframes q)) then Some (false, q)
  else match copy_frame f with
       | None => None
       | Some nf =>
         if existsb (fun g => same_key (hdr g) (hdr nf)) (qframes q) then Some (false, q)
         else Some (true, mkQ (qmax q) (qframes q ++ [nf]))
       end.

Definition peek (q : queue) : option frame := hd_error (qframes q).

Definition dequeue (q : queue) : option frame * queue :=
  match qframes q with
  | [] => (None, q)
  | f :: t => (Some f, mkQ (qmax q) t)
  end.

Definition qlen (q : queue) : nat := length (qframes q).

Definition set_max (q : queue) (m : Z) : queue := mkQ m (qframes q).

(* ---- FrameQueueFrag ---- cache = None: no message is being assembled
   (the code marks that with _frags.header.from_node = None) *)
Record fragq := mkFQ { base : queue; cache : option frame }.

Definition empty_fragq : fragq := mkFQ empty_queue None.

Definition is_frag_type (t : mtype) : bool :=
  match t with
  | IntT z => (z =? MSG_FRAG_FIRST) || (z =? MSG_FRAG_MORE) || (z =? MSG_FRAG_LAST)
  | StrT _ => false
  end.

Definition is_type (t : mtype) (v : Z) : bool :=
  match t with IntT z => z =? v | StrT _ => false end.

(* result: (returned bool, new queue, caller's frame type rewritten to EXT_DATA?) *)
Definition frag_enqueue (q : fragq) (f : frame) : option (bool * fragq * bool) :=
  let h := hdr f in
  if is_frag_type (message_type h) then
    if is_type (message_type h) MSG_FRAG_FIRST then
      match copy_frame f with
      | None => None
      | Some c => Some (true, mkFQ (base q) (Some c), false)
      end
    else
      match cache q with
      | None => Some (false, q, false)
      | Some c =>
        let ch := hdr c in
        if (from_node h =? from_node ch) && (to_node h =? to_node ch)
           && (frame_id h =? frame_id ch)
        then
          let last := is_type (message_type h) MSG_FRAG_LAST in
          if (negb last && negb (reserved ch - 1 =? reserved h))
             || (last && (2 <? reserved ch))
          then Some (false, q, false)
          else
            match mask_hdr h with
            | None => None
            | Some mh =>
              let body := msg c ++ msg f in
              if last then
                let ext := reserved h =? NETWORK_EXT_DATA in
                let done := mkFrame (mkHeader (from_node mh) (to_node mh) (frame_id mh)
                                              (IntT (reserved h)) (reserved mh)) body in
                match enqueue (base q) done with
                | None => None
                | Some (r, b') => Some (r, mkFQ b' None, ext)
                end
              else Some (true, mkFQ (base q) (Some (mkFrame mh body)), false)
            end
        else Some (false, q, false)
      end
  else
    match enqueue (base q) f with
    | None => None
    | Some (r, b') => Some (r, mkFQ b' (cache q), false)
    end.

(* fragmentation setter: FrameQueueFrag(queue) / FrameQueue(queue) move constructor:
   dequeue everything from the old queue into the new one, copy max_queue_size; a new
   FrameQueueFrag starts with an empty cache *)
Definition to_frag (q : queue) : fragq := mkFQ (mkQ (qmax q) (qframes q)) None.
Definition to_plain (q : fragq) : queue := mkQ (qmax (base q)) (qframes (base q)).

(* AddrFacts.v -- proofs about Net/Addr.v used by Props/C04.v and Props/C15.v. *)
From Coq Require Import NArith PeanoNat List Bool Lia.
From NRF Require Import Net.Addr.
Import ListNotations.
Local Open Scope N_scope.

(* ------------------------------------------------------------------ generic *)
Lemma forallb_In {A} (f : A -> bool) l x : forallb f l = true -> In x l -> f x = true.
Proof. intros H Hin. rewrite forallb_forall in H. auto. Qed.

Fixpoint memN (a : N) (l : list N) : bool :=
  match l with [] => false | h :: t => (a =? h) || memN a t end.

Lemma memN_In a l : memN a l = true <-> In a l.
Proof.
  induction l as [|h t IH]; simpl; [split; [discriminate|tauto]|].
  rewrite orb_true_iff, N.eqb_eq, IH. split; intros [H|H]; auto.
Qed.

(* the list 0,1,...,n-1 as N, built without big nat literals *)
Fixpoint nrange_pos (p : positive) (start : N) : list N :=
  match p with
  | xH => [start]
  | xO q => nrange_pos q start ++ nrange_pos q (start + Npos q)
  | xI q => start :: nrange_pos q (start + 1) ++ nrange_pos q (start + 1 + Npos q)
  end.

Lemma nrange_pos_In p : forall start x, start <= x < start + Npos p -> In x (nrange_pos p start).
Proof.
  induction p as [q IH|q IH|]; intros start x Hx; simpl.
  - destruct (N.eq_dec x start) as [->|Hne]; [left; reflexivity|right].
    apply in_or_app.
    destruct (N.lt_ge_cases x (start + 1 + Npos q)) as [Hlt|Hge].
    + left. apply IH. lia.
    + right. apply IH. lia.
  - apply in_or_app.
    destruct (N.lt_ge_cases x (start + Npos q)) as [Hlt|Hge].
    + left. apply IH. lia.
    + right. apply IH. lia.
  - left. lia.
Qed.

Definition below (n : N) : list N :=
  match n with N0 => [] | Npos p => nrange_pos p 0 end.

Lemma below_In n x : x < n -> In x (below n).
Proof. destruct n as [|p]; [lia|]. intros H. apply nrange_pos_In. lia. Qed.

Lemma forallb_below (f : N -> bool) n :
  forallb f (below n) = true -> forall x, x < n -> f x = true.
Proof. intros H x Hx. eapply forallb_In; eauto using below_In. Qed.

(* ------------------------------------------------------------------ validity *)
Definition reservedb (a : N) : bool := (a =? 64) || (a =? 8) || (a =? 512).

(* boolean form of "at most four octal digits, each in 1..5" (0 has no digits) *)
Definition node_specb (a : N) : bool :=
  let ds := digits_of 8 a in
  Nat.leb (length ds) 4 && forallb (fun d => (1 <=? d) && (d <=? 5)) ds.

Lemma valid_loop_step f a cnt :
  valid_loop (S f) a cnt = true ->
  a = 0 \/ (cnt <= digit_limit /\ valid_loop f (N.shiftr a 3) (cnt + 1) = true).
Proof.
  cbn [valid_loop]. destruct (a =? 0) eqn:E0; [rewrite N.eqb_eq in E0; auto|].
  destruct (negb _ || _) eqn:E1; [discriminate|].
  rewrite orb_false_iff in E1. destruct E1 as [_ E1]. rewrite N.ltb_ge in E1. auto.
Qed.

Lemma shiftr_zero_lt a k : N.shiftr a k = 0 -> a < 2 ^ k.
Proof.
  rewrite N.shiftr_div_pow2. intros H.
  apply N.div_small_iff in H; [exact H|]. apply N.pow_nonzero. lia.
Qed.

(* the loop accepts nothing of five or more octal digits *)
Lemma valid_loop_small a : valid_loop 8 a 0 = true -> a < 4096.
Proof.
  unfold digit_limit in *.
  intros H.
  apply valid_loop_step in H. destruct H as [->|[_ H]]; [lia|].
  apply valid_loop_step in H. destruct H as [H|[_ H]];
    [apply shiftr_zero_lt in H; change (2^3) with 8 in H; lia|].
  apply valid_loop_step in H. rewrite N.shiftr_shiftr in H. destruct H as [H|[_ H]];
    [apply shiftr_zero_lt in H; change (2^(3+3)) with 64 in H; lia|].
  apply valid_loop_step in H. rewrite N.shiftr_shiftr in H. destruct H as [H|[_ H]];
    [apply shiftr_zero_lt in H; change (2^(3+3+3)) with 512 in H; lia|].
  apply valid_loop_step in H. rewrite N.shiftr_shiftr in H. destruct H as [H|[Hc _]];
    [apply shiftr_zero_lt in H; change (2^(3+3+3+3)) with 4096 in H; lia|].
  unfold digit_limit in Hc. simpl in Hc. lia.
Qed.

Lemma digits_of_long a : 4096 <= a -> (4 < length (digits_of 8 a))%nat.
Proof.
  intros H.
  assert (Hs : forall k, k <= 12 -> N.shiftr a k <> 0).
  { intros k Hk E. apply shiftr_zero_lt in E.
    assert (2 ^ k <= 2 ^ 12) by (apply N.pow_le_mono_r; lia).
    change (2 ^ 12) with 4096 in *. lia. }
  assert (E0 : forall k, k <= 12 -> (N.shiftr a k =? 0) = false)
    by (intros; apply N.eqb_neq; auto).
  cbn [digits_of].
  pose proof (E0 0) as H0. rewrite N.shiftr_0_r in H0. rewrite H0 by lia.
  rewrite (E0 3) by lia. rewrite !N.shiftr_shiftr.
  rewrite (E0 (3+3)) by lia. rewrite (E0 (3+3+3)) by lia. rewrite (E0 (3+3+3+3)) by lia.
  cbn [length]. lia.
Qed.

Lemma valid_small_eq :
  forallb (fun a => Bool.eqb (is_address_valid a) (node_specb a || reservedb a)) (below 4096) = true.
Proof. vm_compute. reflexivity. Qed.

Lemma valid_spec_bool a : is_address_valid a = node_specb a || reservedb a.
Proof.
  destruct (N.lt_ge_cases a 4096) as [Hlt|Hge].
  - apply eqb_prop. exact (forallb_below _ _ valid_small_eq a Hlt).
  - assert (Hr : reservedb a = false).
    { unfold reservedb. repeat rewrite orb_false_iff. repeat split; apply N.eqb_neq; lia. }
    assert (Hn : node_specb a = false).
    { unfold node_specb. apply digits_of_long in Hge.
      destruct (Nat.leb _ 4) eqn:E; [apply Nat.leb_le in E; lia|reflexivity]. }
    rewrite Hr, Hn. simpl.
    destruct (is_address_valid a) eqn:E; [|reflexivity].
    unfold is_address_valid in E. unfold reservedb in Hr.
    unfold NETWORK_MULTICAST_ADDR, NETWORK_MULTICAST_ADDR_LVL_2, NETWORK_MULTICAST_ADDR_LVL_4 in E.
    rewrite Hr in E. apply valid_loop_small in E. lia.
Qed.

(* all_nodes is exactly the set described by node_specb *)
Lemma all_nodes_spec_small :
  forallb (fun a => Bool.eqb (memN a all_nodes) (node_specb a)) (below 4096) = true.
Proof. vm_compute. reflexivity. Qed.

Lemma all_nodes_lt : forallb (fun a => a <? 4096) all_nodes = true.
Proof. vm_compute. reflexivity. Qed.

Lemma all_nodes_spec a : In a all_nodes <-> node_specb a = true.
Proof.
  rewrite <- memN_In.
  destruct (N.lt_ge_cases a 4096) as [Hlt|Hge].
  - pose proof (forallb_below _ _ all_nodes_spec_small a Hlt) as H.
    apply eqb_prop in H. rewrite H. tauto.
  - split; intros H.
    + apply memN_In in H. pose proof (forallb_In _ _ _ all_nodes_lt H) as H1.
      apply N.ltb_lt in H1. lia.
    + unfold node_specb in H. apply digits_of_long in Hge.
      apply andb_true_iff in H. destruct H as [H _]. apply Nat.leb_le in H. lia.
Qed.

(* digit-list characterisation of node_specb, for every natural number *)
Lemma of_digits_digits_of f a : a < 2 ^ (3 * N.of_nat f) -> of_digits (digits_of f a) = a.
Proof.
  revert a. induction f as [|f IH]; intros a Ha.
  - simpl in *. lia.
  - cbn [digits_of]. destruct (a =? 0) eqn:E; [apply N.eqb_eq in E; subst; reflexivity|].
    cbn [of_digits]. rewrite IH.
    + rewrite N.shiftr_div_pow2. change (2 ^ 3) with 8.
      replace (N.land a 7) with (a mod 8).
      * pose proof (N.div_mod a 8). lia.
      * change 7 with (N.ones 3). rewrite N.land_ones. reflexivity.
    + rewrite N.shiftr_div_pow2. change (2^3) with 8.
      replace (3 * N.of_nat (S f)) with (3 + 3 * N.of_nat f) in Ha by lia.
      rewrite N.pow_add_r in Ha. change (2^3) with 8 in Ha.
      apply N.div_lt_upper_bound; lia.
Qed.

Lemma digits_of_of_digits ds f :
  Forall (fun d => 1 <= d <= 7) ds -> (length ds <= f)%nat -> digits_of f (of_digits ds) = ds.
Proof.
  revert f. induction ds as [|d t IH]; intros f HF Hl.
  - destruct f; reflexivity.
  - destruct f as [|f]; [simpl in Hl; lia|].
    inversion HF as [|? ? Hd Ht]; subst.
    cbn [of_digits digits_of].
    destruct (d + 8 * of_digits t =? 0) eqn:E; [apply N.eqb_eq in E; lia|].
    f_equal.
    + change 7 with (N.ones 3). rewrite N.land_ones. change (2^3) with 8.
      replace (d + 8 * of_digits t) with (d + of_digits t * 8) by lia.
      rewrite N.mod_add by lia. apply N.mod_small. lia.
    + rewrite N.shiftr_div_pow2. change (2^3) with 8.
      replace (d + 8 * of_digits t) with (d + of_digits t * 8) by lia.
      rewrite N.div_add by lia.
      rewrite (N.div_small d 8) by lia. rewrite N.add_0_l.
      apply IH; [assumption|simpl in Hl; lia].
Qed.

Theorem node_spec_digits a :
  node_specb a = true <->
  exists ds, (length ds <= 4)%nat /\ Forall (fun d => 1 <= d <= 5) ds /\ a = of_digits ds.
Proof.
  split.
  - intros H. unfold node_specb in H. apply andb_true_iff in H. destruct H as [Hl Hf].
    exists (digits_of 8 a). split; [apply Nat.leb_le; exact Hl|]. split.
    + apply Forall_forall. intros d Hd. rewrite forallb_forall in Hf. specialize (Hf d Hd).
      apply andb_true_iff in Hf. destruct Hf as [H1 H2].
      apply N.leb_le in H1. apply N.leb_le in H2. lia.
    + symmetry. apply of_digits_digits_of.
      destruct (N.lt_ge_cases a 4096) as [Hlt|Hge].
      * change (2 ^ (3 * N.of_nat 8)) with 16777216. lia.
      * apply digits_of_long in Hge. apply Nat.leb_le in Hl. lia.
  - intros (ds & Hl & HF & ->). unfold node_specb.
    rewrite digits_of_of_digits.
    + apply andb_true_iff. split; [apply Nat.leb_le; exact Hl|].
      apply forallb_forall. intros d Hd. rewrite Forall_forall in HF. specialize (HF d Hd).
      apply andb_true_iff. split; apply N.leb_le; lia.
    + eapply Forall_impl; [|exact HF]. simpl. intros; lia.
    + lia.
Qed.

(* C15 (third sentence): the validity predicate, for every natural number *)
Theorem valid_iff a :
  is_address_valid a = true <->
  In a all_nodes \/ a = 64 \/ a = 8 \/ a = 512.
Proof.
  rewrite valid_spec_bool, orb_true_iff, all_nodes_spec.
  unfold reservedb. rewrite !orb_true_iff, !N.eqb_eq. tauto.
Qed.

Theorem valid_iff_digits a :
  is_address_valid a = true <->
  (exists ds, (length ds <= 4)%nat /\ Forall (fun d => 1 <= d <= 5) ds /\ a = of_digits ds)
  \/ a = 64 \/ a = 8 \/ a = 512.
Proof. rewrite valid_iff, all_nodes_spec, node_spec_digits. tauto. Qed.

(* fuel is never the reason for a `false` *)
Lemma valid_loop_fuel a : valid_loop 8 a 0 = valid_loop 9 a 0.
Proof.
  destruct (N.lt_ge_cases a 4096) as [Hlt|Hge].
  - assert (H : forallb (fun a => Bool.eqb (valid_loop 8 a 0) (valid_loop 9 a 0)) (below 4096) = true)
      by (vm_compute; reflexivity).
    apply eqb_prop. exact (forallb_below _ _ H a Hlt).
  - destruct (valid_loop 8 a 0) eqn:E8; [apply valid_loop_small in E8; lia|].
    destruct (valid_loop 9 a 0) eqn:E9; [|reflexivity].
    exfalso.
    (* same argument as valid_loop_small, one more unit of fuel *)
    apply valid_loop_step in E9. destruct E9 as [->|[_ H]]; [lia|].
    apply valid_loop_step in H. destruct H as [H|[_ H]];
      [apply shiftr_zero_lt in H; change (2^3) with 8 in H; lia|].
    apply valid_loop_step in H. rewrite N.shiftr_shiftr in H. destruct H as [H|[_ H]];
      [apply shiftr_zero_lt in H; change (2^(3+3)) with 64 in H; lia|].
    apply valid_loop_step in H. rewrite N.shiftr_shiftr in H. destruct H as [H|[_ H]];
      [apply shiftr_zero_lt in H; change (2^(3+3+3)) with 512 in H; lia|].
    apply valid_loop_step in H. rewrite N.shiftr_shiftr in H. destruct H as [H|[Hc _]];
      [apply shiftr_zero_lt in H; change (2^(3+3+3+3)) with 4096 in H; lia|].
    unfold digit_limit in Hc. simpl in Hc. lia.
Qed.

Example valid_examples :
  is_address_valid 0 = true /\ is_address_valid 2340 = true /\ is_address_valid 64 = true
  /\ is_address_valid 4681 = false /\ is_address_valid 37449 = false /\ is_address_valid 56 = false.
Proof. vm_compute. repeat split. Qed.

(* QueueRun.v -- executable history runner for FrameQueue / FrameQueueFrag /
   the fragmentation toggle (used by C06, C12).  Model-side glue: no proofs. *)
From Coq Require Import ZArith NArith List Bool.
From NRF Require Import Base.Wire Net.Header Net.Queue.
Import ListNotations.
Local Open Scope Z_scope.

Inductive qop :=
| QEnq (f : frame)
| QDeq | QPeek | QLen
| QSetMax (m : Z)
| QToggle (frag : bool).

(* mtype on the wire: 0 z = IntT z ; 1 n c1..cn = StrT *)
Definition take_mtype (s : list Z) : option (mtype * list Z) :=
  match s with
  | 0 :: z :: t => Some (IntT z, t)
  | 1 :: n :: t => match takeZ (Z.to_nat n) t with
                   | Some (l, r) => Some (StrT l, r)
                   | None => None
                   end
  | _ => None
  end.

Definition take_frame (s : list Z) : option (frame * list Z) :=
  match s with
  | f :: t :: i :: r1 =>
    match take_mtype r1 with
    | Some (mt, rs :: r2) =>
      match take_bytes r2 with
      | Some (m, r3) => Some (mkFrame (mkHeader f t i mt rs) m, r3)
      | None => None
      end
    | _ => None
    end
  | _ => None
  end.

Fixpoint take_qops (fuel : nat) (s : list Z) : list qop :=
  match fuel with
  | O => []
  | S k =>
    match s with
    | 1 :: t => match take_frame t with
                | Some (f, r) => QEnq f :: take_qops k r
                | None => []
                end
    | 2 :: t => QDeq :: take_qops k t
    | 3 :: t => QPeek :: take_qops k t
    | 4 :: t => QLen :: take_qops k t
    | 5 :: m :: t => QSetMax m :: take_qops k t
    | 6 :: b :: t => QToggle (boolz b) :: take_qops k t
    | _ => []
    end
  end.

Definition put_mtype (t : mtype) : list Z :=
  match t with IntT z => [0; z] | StrT l => 1 :: Z.of_nat (length l) :: l end.

Definition put_frame (f : frame) : list Z :=
  let h := hdr f in
  [from_node h; to_node h; frame_id h] ++ put_mtype (message_type h) ++ [reserved h]
  ++ put_bytes (msg f).

Definition put_optframe (o : option frame) : list Z :=
  match o with None => [0] | Some f => 1 :: put_frame f end.

(* state: the node's queue attribute is either a FrameQueue or a FrameQueueFrag *)
Inductive qstate := Plain (q : queue) | Frag (q : fragq).

Definition st_base (s : qstate) : queue :=
  match s with Plain q => q | Frag q => base q end.

(* one step: new state and the observation (first int: 0 ok-false, 1 ok-true,
   2 raised TypeError; for enqueue a second int says whether the caller's frame type
   was rewritten to NETWORK_EXT_DATA) *)
Definition qstep (s : qstate) (o : qop) : qstate * list Z :=
  match o with
  | QEnq f =>
    match s with
    | Plain q => match enqueue q f with
                 | None => (s, [2; 0])
                 | Some (r, q') => (Plain q', [zbool r; 0])
                 end
    | Frag q => match frag_enqueue q f with
                | None => (s, [2; 0])
                | Some (r, q', ext) => (Frag q', [zbool r; zbool ext])
                end
    end
  | QDeq =>
    match s with
    | Plain q => let '(o, q') := dequeue q in (Plain q', put_optframe o)
    | Frag q => let '(o, b') := dequeue (base q) in (Frag (mkFQ b' (cache q)), put_optframe o)
    end
  | QPeek => (s, put_optframe (peek (st_base s)))
  | QLen => (s, [Z.of_nat (qlen (st_base s))])
  | QSetMax m =>
    match s with
    | Plain q => (Plain (set_max q m), [])
    | Frag q => (Frag (mkFQ (set_max (base q) m) (cache q)), [])
    end
  | QToggle b =>
    match s, b with
    | Plain q, true => (Frag (to_frag q), [])
    | Frag q, false => (Plain (to_plain q), [])
    | _, _ => (s, [])
    end
  end.

Fixpoint qrun (s : qstate) (ops : list qop) : list Z :=
  match ops with
  | [] => [Z.of_nat (qlen (st_base s)); qmax (st_base s)]
  | o :: t => let '(s', obs) := qstep s o in (-1) :: obs ++ qrun s' t
  end.

(* request: frag0 ops... *)
Definition run_queue (req : list Z) : list Z :=
  match req with
  | b :: t =>
    let s0 := if boolz b then Frag empty_fragq else Plain empty_queue in
    qrun s0 (take_qops (length t) t)
  | [] => []
  end.

(* QueueFacts.v -- proofs about the FrameQueue model (property C12). *)
From Coq Require Import ZArith NArith List Bool Lia.
From NRF Require Import Base.Wire Net.Header Net.Queue Net.QueueRun.
Import ListNotations.
Local Open Scope Z_scope.

(* the duplicate key of a stored (masked) header *)
Definition hkey (h : header) : Z * Z * option Z :=
  (from_node h, frame_id h, match message_type h with IntT z => Some z | StrT _ => None end).

Definition int_typed (f : frame) : Prop := exists z, message_type (hdr f) = IntT z.

Lemma copy_frame_int f c : copy_frame f = Some c -> int_typed c.
Proof.
  unfold copy_frame, mask_hdr. destruct (type_code _); [|discriminate].
  intros H; inversion H; subst; cbn. eexists; reflexivity.
Qed.

Lemma copy_frame_msg f c : copy_frame f = Some c -> msg c = msg f.
Proof.
  unfold copy_frame. destruct (mask_hdr _); [|discriminate]. intros H; inversion H; reflexivity.
Qed.

Lemma same_key_hkey a b :
  (exists z, message_type a = IntT z) -> (exists z, message_type b = IntT z) ->
  same_key a b = true <-> hkey a = hkey b.
Proof.
  intros [x Hx] [y Hy]. unfold same_key, hkey, mtype_eqb. rewrite Hx, Hy.
  rewrite !andb_true_iff, !Z.eqb_eq. split.
  - intros [[H1 H2] H3]. congruence.
  - intros H. inversion H. auto.
Qed.

Definition stored_ok (q : queue) : Prop := Forall int_typed (qframes q).
Definition keys (q : queue) : list (Z * Z * option Z) := map (fun f => hkey (hdr f)) (qframes q).

Lemma existsb_same_key q nf :
  stored_ok q -> int_typed nf ->
  existsb (fun g => same_key (hdr g) (hdr nf)) (qframes q) = true <-> In (hkey (hdr nf)) (keys q).
Proof.
  intros Hs Hn. unfold keys. rewrite existsb_exists, in_map_iff. split.
  - intros [g [Hg Hk]]. exists g. split; [|exact Hg].
    apply same_key_hkey in Hk; [congruence| |exact Hn].
    unfold stored_ok in Hs. rewrite Forall_forall in Hs. exact (Hs g Hg).
  - intros [g [Hk Hg]]. exists g. split; [exact Hg|].
    apply same_key_hkey; [| exact Hn | congruence].
    unfold stored_ok in Hs. rewrite Forall_forall in Hs. exact (Hs g Hg).
Qed.

(* ---- the specification of one enqueue (the property's second sentence) ---- *)
Lemma enqueue_spec q f r q' :
  stored_ok q -> enqueue q f = Some (r, q') ->
  exists c, copy_frame f = Some c \/ (r = false /\ qmax q <= Z.of_nat (qlen q)) .
Proof.
  intros _ H. unfold enqueue in H.
  destruct (qmax q <=? Z.of_nat (length (qframes q))) eqn:E.
  - injection H as Hr Hq. subst r q'. exists f. right. split; [reflexivity|]. apply Z.leb_le in E. exact E.
  - destruct (copy_frame f) as [c|]; [|discriminate]. exists c. left; reflexivity.
Qed.

Lemma enqueue_true q f q' :
  stored_ok q -> enqueue q f = Some (true, q') ->
  exists c, copy_frame f = Some c
    /\ Z.of_nat (qlen q) < qmax q
    /\ ~ In (hkey (hdr c)) (keys q)
    /\ q' = mkQ (qmax q) (qframes q ++ [c]).
Proof.
  intros Hs H. unfold enqueue in H.
  destruct (qmax q <=? Z.of_nat (length (qframes q))) eqn:E; [discriminate|].
  destruct (copy_frame f) as [c|] eqn:Ec; [|discriminate].
  destruct (existsb _ _) eqn:Ex; [discriminate|].
  injection H as Hq. subst q'. exists c. repeat split.
  - apply Z.leb_gt in E. exact E.
  - intros Hin. apply (existsb_same_key q c Hs (copy_frame_int _ _ Ec)) in Hin. congruence.
Qed.

Lemma enqueue_false q f q' :
  stored_ok q -> enqueue q f = Some (false, q') ->
  q' = q /\ (qmax q <= Z.of_nat (qlen q)
             \/ exists c, copy_frame f = Some c /\ In (hkey (hdr c)) (keys q)).
Proof.
  intros Hs H. unfold enqueue in H.
  destruct (qmax q <=? Z.of_nat (length (qframes q))) eqn:E.
  - injection H as Hq. subst q'. split; [reflexivity|]. left. apply Z.leb_le in E. exact E.
  - destruct (copy_frame f) as [c|] eqn:Ec; [|discriminate].
    destruct (existsb _ _) eqn:Ex; [|discriminate].
    injection H as Hq. subst q'. split; [reflexivity|]. right. exists c. split; [reflexivity|].
    apply (existsb_same_key q c Hs (copy_frame_int _ _ Ec)). exact Ex.
Qed.

(* enqueue answers true exactly when there is room and the key is new *)
Lemma enqueue_iff q f c :
  stored_ok q -> copy_frame f = Some c ->
  exists r q', enqueue q f = Some (r, q')
    /\ (r = true <-> (Z.of_nat (qlen q) < qmax q /\ ~ In (hkey (hdr c)) (keys q))).
Proof.
  intros Hs Hc. unfold enqueue.
  destruct (qmax q <=? Z.of_nat (length (qframes q))) eqn:E.
  - eexists _, _. split; [reflexivity|]. apply Z.leb_le in E. unfold qlen. split; [discriminate|lia].
  - rewrite Hc. apply Z.leb_gt in E.
    destruct (existsb _ _) eqn:Ex; eexists _, _; (split; [reflexivity|]).
    + apply (existsb_same_key q c Hs (copy_frame_int _ _ Hc)) in Ex.
      split; [discriminate|]. intros [_ H]. contradiction.
    + split; [|reflexivity]. intros _. split; [exact E|].
      intros Hin. apply (existsb_same_key q c Hs (copy_frame_int _ _ Hc)) in Hin. congruence.
Qed.

(* ---- invariants of the queue ---- *)
Definition QInv (q : queue) : Prop := stored_ok q /\ NoDup (keys q).

Lemma QInv_empty : QInv empty_queue.
Proof. split; [constructor|constructor]. Qed.

Lemma NoDup_snoc {A} (l : list A) x : NoDup l -> ~ In x l -> NoDup (l ++ [x]).
Proof.
  intros Hn Hx. induction l as [|y l IH]; cbn.
  - constructor; [intros []|constructor].
  - inversion Hn; subst. constructor.
    + rewrite in_app_iff. intros [H|[H|[]]]; [contradiction|]. subst. apply Hx. left; reflexivity.
    + apply IH; [assumption|]. intros H. apply Hx. right; exact H.
Qed.

Lemma enqueue_inv q f r q' : QInv q -> enqueue q f = Some (r, q') -> QInv q'.
Proof.
  intros [Hs Hn] H. destruct r.
  - destruct (enqueue_true q f q' Hs H) as [c [Hc [_ [Hk Hq]]]]. subst q'. split.
    + unfold stored_ok in *. cbn. apply Forall_app. split; [exact Hs|].
      constructor; [exact (copy_frame_int _ _ Hc)|constructor].
    + unfold keys in *. cbn. rewrite map_app. cbn. apply NoDup_snoc; assumption.
  - destruct (enqueue_false q f q' Hs H) as [Hq _]. subst. split; assumption.
Qed.

Lemma dequeue_inv q o q' : QInv q -> dequeue q = (o, q') -> QInv q'.
Proof.
  intros [Hs Hn] H. unfold dequeue in H. destruct (qframes q) as [|f t] eqn:E.
  - inversion H; subst. split; assumption.
  - inversion H; subst. unfold stored_ok, keys in *. rewrite E in *. cbn in *.
    inversion Hs; inversion Hn; subst. split; assumption.
Qed.

Lemma set_max_inv q m : QInv q -> QInv (set_max q m).
Proof. intros H; exact H. Qed.

(* capacity: an enqueue never takes the queue above max when it was not above before *)
Lemma enqueue_bounded q f r q' :
  stored_ok q -> enqueue q f = Some (r, q') ->
  qmax q' = qmax q /\
  (Z.of_nat (qlen q) <= qmax q -> Z.of_nat (qlen q') <= qmax q') /\
  (qmax q <= Z.of_nat (qlen q) -> q' = q).
Proof.
  intros Hs H. destruct r.
  - destruct (enqueue_true q f q' Hs H) as [c [_ [Hl [_ Hq]]]]. subst q'. cbn. split; [reflexivity|].
    unfold qlen in *. cbn. rewrite app_length. cbn. split; lia.
  - destruct (enqueue_false q f q' Hs H) as [Hq _]. subst. auto.
Qed.

(* ---- histories: ghost-instrumented run over the node's queue attribute ----
   acc = copies accepted so far (in order), out = frames handed out by dequeue *)
Definition not_frag (f : frame) : Prop := is_frag_type (message_type (hdr f)) = false.

Definition hist_ok (ops : list qop) : Prop :=
  Forall (fun o => match o with QEnq f => not_frag f | _ => True end) ops.

Lemma frag_enqueue_plain q f :
  not_frag f ->
  frag_enqueue q f =
  match enqueue (base q) f with
  | None => None
  | Some (r, b') => Some (r, mkFQ b' (cache q), false)
  end.
Proof. intros H. unfold frag_enqueue. unfold not_frag in H. rewrite H. reflexivity. Qed.

Record ghost := mkG { g_st : qstate; g_acc : list frame; g_out : list frame }.

Definition gstep (g : ghost) (o : qop) : ghost :=
  let s' := fst (qstep (g_st g) o) in
  match o with
  | QEnq f =>
    match copy_frame f with
    | Some c =>
      if Nat.ltb (qlen (st_base (g_st g))) (qlen (st_base s'))
      then mkG s' (g_acc g ++ [c]) (g_out g) else mkG s' (g_acc g) (g_out g)
    | None => mkG s' (g_acc g) (g_out g)
    end
  | QDeq =>
    match qframes (st_base (g_st g)) with
    | f :: _ => mkG s' (g_acc g) (g_out g ++ [f])
    | [] => mkG s' (g_acc g) (g_out g)
    end
  | _ => mkG s' (g_acc g) (g_out g)
  end.

Definition grun (g : ghost) (ops : list qop) : ghost := fold_left gstep ops g.

Definition GInv (g : ghost) : Prop :=
  QInv (st_base (g_st g)) /\ g_acc g = g_out g ++ qframes (st_base (g_st g)).

Lemma qstep_enq_base s f :
  not_frag f ->
  st_base (fst (qstep s (QEnq f))) =
  match enqueue (st_base s) f with
  | Some (_, q') => q'
  | None => st_base s
  end.
Proof.
  intros Hf. destruct s as [q|q]; cbn.
  - destruct (enqueue q f) as [[r q']|]; reflexivity.
  - rewrite (frag_enqueue_plain q f Hf). destruct (enqueue (base q) f) as [[r q']|]; reflexivity.
Qed.

Lemma gstep_inv g o :
  (match o with QEnq f => not_frag f | _ => True end) -> GInv g -> GInv (gstep g o).
Proof.
  intros Ho [Hq Ha]. destruct o as [f| | | |m|b]; unfold gstep.
  - (* enqueue *)
    pose proof (qstep_enq_base (g_st g) f Ho) as Hb.
    remember (fst (qstep (g_st g) (QEnq f))) as s' eqn:Es'. clear Es'.
    destruct (enqueue (st_base (g_st g)) f) as [[r q']|] eqn:E.
    + pose proof (enqueue_inv _ _ _ _ Hq E) as Hq'.
      destruct Hq as [Hs Hn]. destruct r.
      * destruct (enqueue_true _ _ _ Hs E) as [c [Hc [_ [_ Hq2]]]]. rewrite Hc, Hb.
        assert (Hlt : Nat.ltb (qlen (st_base (g_st g))) (qlen q') = true).
        { apply Nat.ltb_lt. rewrite Hq2. unfold qlen. cbn [qframes]. rewrite app_length; cbn. lia. }
        rewrite Hlt. split; cbn; rewrite Hb; [exact Hq'|].
        rewrite Hq2. cbn. rewrite Ha, <- app_assoc. reflexivity.
      * destruct (enqueue_false _ _ _ Hs E) as [Hq2 _]. rewrite Hq2 in Hb.
        destruct (copy_frame f) as [c|]; [rewrite Hb, Nat.ltb_irrefl|];
          (split; cbn; rewrite Hb; [split; assumption|exact Ha]).
    + assert (Hc : copy_frame f = None).
      { unfold enqueue in E. destruct (_ <=? _); [discriminate|].
        destruct (copy_frame f); [destruct (existsb _ _); discriminate|reflexivity]. }
      rewrite Hc. split; cbn; rewrite Hb; assumption.
  - (* dequeue *)
    destruct (g_st g) as [q|q] eqn:Es; cbn in *.
    + unfold dequeue. destruct (qframes q) as [|f t] eqn:E; cbn.
      * split; cbn; [exact Hq| rewrite E; exact Ha].
      * split; cbn.
        -- apply (dequeue_inv q (Some f) _ Hq). unfold dequeue. rewrite E. reflexivity.
        -- rewrite Ha, <- app_assoc. reflexivity.
    + unfold dequeue. destruct (qframes (base q)) as [|f t] eqn:E; cbn.
      * split; cbn; [exact Hq| rewrite E; exact Ha].
      * split; cbn.
        -- apply (dequeue_inv (base q) (Some f) _ Hq). unfold dequeue. rewrite E. reflexivity.
        -- rewrite Ha, <- app_assoc. reflexivity.
  - split; cbn; assumption.
  - split; cbn; assumption.
  - destruct (g_st g) as [q|q]; cbn in *; split; cbn; assumption.
  - destruct (g_st g) as [q|q]; destruct b; cbn in *; split; cbn; try assumption.
Qed.

Lemma grun_inv ops : forall g, hist_ok ops -> GInv g -> GInv (grun g ops).
Proof.
  induction ops as [|o ops IH]; intros g Hh Hg; [exact Hg|].
  inversion Hh; subst. cbn. apply IH; [assumption|]. apply gstep_inv; assumption.
Qed.

Definition g0 (frag : bool) : ghost :=
  mkG (if frag then Frag empty_fragq else Plain empty_queue) [] [].

Lemma GInv_g0 b : GInv (g0 b).
Proof. destruct b; split; cbn; try apply QInv_empty; reflexivity. Qed.

(* FIFO: everything accepted comes out in acceptance order, each exactly once *)
Theorem fifo_history b ops :
  hist_ok ops ->
  let g := grun (g0 b) ops in
  g_acc g = g_out g ++ qframes (st_base (g_st g)) /\ NoDup (keys (st_base (g_st g))).
Proof.
  intros Hh g. destruct (grun_inv ops (g0 b) Hh (GInv_g0 b)) as [[_ Hn] Ha]. split; assumption.
Qed.

(* the fragmentation toggle keeps the frames, their order and max_queue_size *)
Lemma toggle_keeps s b :
  qframes (st_base (fst (qstep s (QToggle b)))) = qframes (st_base s)
  /\ qmax (st_base (fst (qstep s (QToggle b)))) = qmax (st_base s).
Proof. destruct s as [q|q]; destruct b; cbn; split; reflexivity. Qed.

(* non-vacuity: a concrete history *)
Example fifo_example :
  let f k := mkFrame (mkHeader k 0 10 (IntT 65) 0) [1%N] in
  let g := grun (g0 true) [QEnq (f 1); QEnq (f 2); QEnq (f 1); QDeq; QToggle false; QEnq (f 3)] in
  g_out g = [f 1] /\ qframes (st_base (g_st g)) = [f 2; f 3].
Proof. vm_compute. split; reflexivity. Qed.

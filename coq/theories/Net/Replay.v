(* Replay.v -- the node model on a recorded bus.  In a concurrent run (corr/des.py) every real
   node talks to its own radio of the extracted world while the others do the same; what one
   node saw on its bus (SPI bytes out and in, CE writes, clock readings, sleeps) is recorded.
   The node model is a deterministic function of what its bus answers, so running it on the
   recording must issue the same bus operations, return the same results and end in the same
   node state as the implementation did -- for whatever interleaving produced the recording.
   Model only (executable); no proofs here. *)
From Coq Require Import ZArith NArith List Bool.
From NRF Require Import Base.Wire Env.Radio Env.World Drv.RF24 Drv.RF24Run Net.Header Net.Queue Net.QueueRun
  Net.Node Net.Mesh Net.NodeRun.
Import ListNotations.
Local Open Scope Z_scope.

Inductive tev := TSpi (out inp : list N) | TCe (v : bool) | TNow (t : N) | TSleep (ns : N).

(* t_bad: position of the first bus operation that differs from the recording *)
Record tape := mkTape { t_rest : list tev; t_pos : Z; t_bad : option Z; t_last : N }.

Fixpoint nlist_eqb (a b : list N) : bool :=
  match a, b with
  | [], [] => true
  | x :: a', y :: b' => N.eqb x y && nlist_eqb a' b'
  | _, _ => false
  end.

(* MOSI matches the recording: same command byte and length; the data bytes too unless the radio
   ignores them (Env/RadioFacts.v spi_data_irrelevant) *)
Definition mosi_eqb (rec m : list N) : bool :=
  match rec, m with
  | [], [] => true
  | c1 :: d1, c2 :: d2 => N.eqb c1 c2 && (if mosi_data_matters c1 then nlist_eqb d1 d2 else Nat.eqb (length d1) (length d2))
  | _, _ => false
  end.

Definition diverge (t : tape) : tape :=
  mkTape [] (t_pos t) (match t_bad t with Some p => Some p | None => Some (t_pos t) end) (t_last t).
Definition advance (t : tape) (r : list tev) : tape := mkTape r (t_pos t + 1) None (t_last t).

(* after a divergence the clock runs fast (one second per reading) so that every timed wait of
   the model ends; the run is reported as diverged anyway *)
Definition RB : busops tape :=
  mkBus tape
    (fun t m => match t_bad t, t_rest t with
                | None, TSpi out inp :: r => if mosi_eqb out m then (advance t r, inp)
                                             else (diverge t, map (fun _ => 0%N) m)
                | _, _ => (diverge t, map (fun _ => 0%N) m)
                end)
    (fun t v => match t_bad t, t_rest t with
                | None, TCe v' :: r => if Bool.eqb v v' then advance t r else diverge t
                | _, _ => diverge t
                end)
    (fun t => match t_bad t, t_rest t with
              | None, TNow x :: r => (mkTape r (t_pos t + 1) None x, x)
              | _, _ => let t' := diverge t in
                        let x := (t_last t' + 1000000000)%N in
                        (mkTape [] (t_pos t') (t_bad t') x, x)
              end)
    (fun t ns => match t_bad t, t_rest t with
                 | None, TSleep ns' :: r => if N.eqb ns ns' then advance t r else diverge t
                 | _, _ => diverge t
                 end).

(* accumulator versions: recordings have 10^5..10^6 events *)
Fixpoint take_tape (n : nat) (s : list Z) (acc : list tev) : option (list tev * list Z) :=
  match n with
  | O => Some (rev' acc, s)
  | S k =>
    match s with
    | 0 :: t =>
      match take_bytes t with
      | Some (out, t1) =>
        match take_bytes t1 with
        | Some (inp, t2) => take_tape k t2 (TSpi out inp :: acc)
        | None => None
        end
      | None => None
      end
    | 1 :: v :: t => take_tape k t (TCe (negb (v =? 0)) :: acc)
    | 2 :: x :: t => take_tape k t (TNow (Z.to_N x) :: acc)
    | 3 :: x :: t => take_tape k t (TSleep (Z.to_N x) :: acc)
    | _ => None
    end
  end.

Definition tape_status (t : tape) : list Z :=
  [-8; Z.of_nat (length (t_rest t)); t_pos t; match t_bad t with Some p => p | None => -1 end].

(* ops: 95 = dump node and driver shadow; anything else = an API call (Net/NodeRun.v codes).
   acc holds the output so far, reversed. *)
Fixpoint replay_ops (fuel : nat) (k : nkind) (s : list Z) (n : node) (t : tape) (acc : list Z) : list Z :=
  match fuel with
  | O => rev' ((-9) :: acc)
  | S f =>
    match s with
    | [] => rev' (rev_append (tape_status t) ((-2) :: acc))
    | 95 :: r => replay_ops f k r n t (rev_append (dump_drv (n_rf n) ++ put_node n) ((-7) :: acc))
    | code :: r =>
      match node_call_g RB k code r n t with
      | None => rev' (code :: (-3) :: acc)
      | Some (o, n', t', rest) => replay_ops f k rest n' t' (rev_append o ((-1) :: acc))
      end
    end
  end.

(* request: kind arg fid ntape tape... ops... *)
Definition run_replay (req : list Z) : list Z :=
  match req with
  | kd :: arg :: fid :: nt :: r =>
    match take_tape (Z.to_nat nt) r [] with
    | None => [-3]
    | Some (tp, ops) =>
      let '(o, n, t) := outn pr_unit (construct_node RB (kind_of kd) arg fid (node0 fid) (mkTape tp 0 None 0)) in
      replay_ops (length ops + 1) (kind_of kd) ops n t (rev' o)
    end
  | _ => [-3]
  end.

(* PipeFacts.v -- C04: pipe-address injectivity for ARBITRARY distinct prefix/suffix
   bytes (through index patterns), hardware shape, level addresses. *)
From Coq Require Import NArith PeanoNat List Bool Lia.
From NRF Require Import Net.Addr Net.AddrFacts.
Import ListNotations.
Local Open Scope N_scope.

(* ---- pipe addresses ---- *)
Definition pat_code (p : pat) : N := match p with None => 0 | Some i => i + 1 end.
Definition pats_code (ps : list pat) : N := fold_right (fun p acc => pat_code p + 8 * acc) 0 ps.

Definition pipes15 : list N := [1; 2; 3; 4; 5].
Definition pipes05 : list N := [0; 1; 2; 3; 4; 5].
Definition levels04 : list N := [0; 1; 2; 3; 4].

(* the (node, pipe) pairs somebody listens on *)
Definition keys (allow_mc : bool) : list (N * N) :=
  if allow_mc
  then flat_map (fun a => map (fun p => (a, p)) pipes15) all_nodes
       ++ map (fun l => (lvl_2_addr l, 0)) levels04
  else flat_map (fun a => map (fun p => (a, p)) pipes05) all_nodes.

Definition pat_ok (p : pat) : bool := match p with None => true | Some i => i <? 6 end.

Definition key_pattern (mc : bool) (k : N * N) : option (list pat) :=
  pipe_pattern mc (fst k) (snd k).

Definition key_ok (mc : bool) (k : N * N) : bool :=
  match key_pattern mc k with
  | Some ps => Nat.eqb (length ps) 5 && forallb pat_ok ps
  | None => false
  end.

Definition key_code (mc : bool) (k : N * N) : N :=
  match key_pattern mc k with Some ps => pats_code ps | None => 0 end.

Fixpoint nodupN (l : list N) : bool :=
  match l with [] => true | h :: t => negb (memN h t) && nodupN t end.

Lemma keys_ok mc : forallb (key_ok mc) (keys mc) = true.
Proof. destruct mc; vm_compute; reflexivity. Qed.

Lemma keys_codes_nodup mc : nodupN (map (key_code mc) (keys mc)) = true.
Proof. destruct mc; vm_compute; reflexivity. Qed.

Lemma nodupN_NoDup l : nodupN l = true -> NoDup l.
Proof.
  induction l as [|h t IH]; simpl; intros H; [constructor|].
  apply andb_true_iff in H. destruct H as [H1 H2]. constructor; [|auto].
  intros Hin. apply memN_In in Hin. rewrite Hin in H1. discriminate.
Qed.

Lemma NoDup_map_inj {A B} (f : A -> B) l x y :
  NoDup (map f l) -> In x l -> In y l -> f x = f y -> x = y.
Proof.
  induction l as [|h t IH]; simpl; intros Hnd Hx Hy E; [tauto|].
  inversion Hnd as [|? ? Hnin Hnd']; subst.
  destruct Hx as [->|Hx], Hy as [->|Hy]; auto.
  - exfalso. apply Hnin. rewrite E. apply in_map. assumption.
  - exfalso. apply Hnin. rewrite <- E. apply in_map. assumption.
Qed.

Lemma pat_code_inj p q : pat_ok p = true -> pat_ok q = true -> pat_code p = pat_code q -> p = q.
Proof. destruct p, q; unfold pat_code; intros _ _ H; try lia; [f_equal; lia|reflexivity]. Qed.

Lemma pats_code_cons p ps : pats_code (p :: ps) = pat_code p + 8 * pats_code ps.
Proof. reflexivity. Qed.

Lemma pats_code_inj ps qs :
  length ps = length qs -> forallb pat_ok ps = true -> forallb pat_ok qs = true ->
  pats_code ps = pats_code qs -> ps = qs.
Proof.
  revert qs. induction ps as [|p ps IH]; destruct qs as [|q qs];
    cbn [length forallb]; try discriminate; auto.
  rewrite !pats_code_cons.
  intros Hl Hp Hq E. apply andb_true_iff in Hp. apply andb_true_iff in Hq.
  destruct Hp as [Hp Hps], Hq as [Hq Hqs].
  assert (Hb : forall r, pat_ok r = true -> pat_code r < 8).
  { intros [i|]; unfold pat_code, pat_ok; intros H; [apply N.ltb_lt in H|]; lia. }
  pose proof (Hb p Hp). pose proof (Hb q Hq).
  assert (pat_code p = pat_code q /\ pats_code ps = pats_code qs) as [E1 E2] by lia.
  f_equal; [apply pat_code_inj; assumption|apply IH; auto].
Qed.

(* distinct bytes: looking bytes up is injective on patterns *)
Section Bytes.
  Context (prefix : N) (suffix : list N).
  Context (Hnd : NoDup (prefix :: suffix)) (Hlen : length suffix = 6%nat).

  Lemma lookup_pat_inj p q :
    pat_ok p = true -> pat_ok q = true ->
    lookup_pat prefix suffix p = lookup_pat prefix suffix q -> p = q.
  Proof.
    inversion Hnd as [|? ? Hnin Hnd']; subst.
    destruct p as [i|], q as [j|]; simpl; intros Hp Hq E; auto.
    - apply N.ltb_lt in Hp. apply N.ltb_lt in Hq. f_equal.
      assert (N.to_nat i = N.to_nat j).
      { apply (proj1 (NoDup_nth suffix 0) Hnd'); [lia|lia|exact E]. }
      lia.
    - exfalso. apply Hnin. rewrite <- E. apply nth_In. apply N.ltb_lt in Hp. lia.
    - exfalso. apply Hnin. rewrite E. apply nth_In. apply N.ltb_lt in Hq. lia.
  Qed.

  Lemma map_lookup_inj ps qs :
    length ps = length qs -> forallb pat_ok ps = true -> forallb pat_ok qs = true ->
    map (lookup_pat prefix suffix) ps = map (lookup_pat prefix suffix) qs -> ps = qs.
  Proof.
    revert qs. induction ps as [|p ps IH]; destruct qs as [|q qs]; simpl; try discriminate; auto.
    intros Hl Hp Hq E. apply andb_true_iff in Hp. apply andb_true_iff in Hq.
    destruct Hp as [Hp Hps], Hq as [Hq Hqs]. inversion E as [[E1 E2]].
    f_equal; [apply lookup_pat_inj; assumption|apply IH; auto].
  Qed.

  (* C04: no two listened-on (node, pipe) pairs share a physical address *)
  Theorem pipe_address_injective mc k1 k2 :
    In k1 (keys mc) -> In k2 (keys mc) ->
    pipe_address prefix suffix mc (fst k1) (snd k1) = pipe_address prefix suffix mc (fst k2) (snd k2) ->
    k1 = k2.
  Proof.
    intros H1 H2 E.
    pose proof (forallb_In _ _ _ (keys_ok mc) H1) as O1.
    pose proof (forallb_In _ _ _ (keys_ok mc) H2) as O2.
    unfold key_ok, key_pattern in O1, O2. unfold pipe_address in E.
    destruct (pipe_pattern mc (fst k1) (snd k1)) as [ps|] eqn:P1; [|discriminate].
    destruct (pipe_pattern mc (fst k2) (snd k2)) as [qs|] eqn:P2; [|discriminate].
    apply andb_true_iff in O1. apply andb_true_iff in O2.
    destruct O1 as [L1 F1], O2 as [L2 F2].
    apply Nat.eqb_eq in L1. apply Nat.eqb_eq in L2.
    inversion E as [E'].
    apply map_lookup_inj in E'; [|congruence|assumption|assumption].
    apply (NoDup_map_inj (key_code mc) (keys mc)); auto.
    - apply nodupN_NoDup. apply keys_codes_nodup.
    - unfold key_code, key_pattern. rewrite P1, P2. congruence.
  Qed.

  (* every listened-on pair has a well-formed 5-byte address *)
  Theorem pipe_address_defined mc k :
    In k (keys mc) -> exists bs, pipe_address prefix suffix mc (fst k) (snd k) = Some bs /\ length bs = 5%nat.
  Proof.
    intros H. pose proof (forallb_In _ _ _ (keys_ok mc) H) as O.
    unfold key_ok, key_pattern in O. unfold pipe_address.
    destruct (pipe_pattern mc (fst k) (snd k)) as [ps|]; [|discriminate].
    apply andb_true_iff in O. destruct O as [L _]. apply Nat.eqb_eq in L.
    eexists. split; [reflexivity|]. rewrite map_length. assumption.
  Qed.
End Bytes.

(* pipes 1..5 of a node differ only in their first byte (hardware requirement) *)
Definition hw_shape_ok (mc : bool) (a : N) : bool :=
  match pipe_pattern mc a 1 with
  | Some (_ :: t1) =>
    forallb (fun p => match pipe_pattern mc a p with
                      | Some (_ :: t) => N.eqb (pats_code t) (pats_code t1) && forallb pat_ok t
                                         && Nat.eqb (length t) 4
                      | _ => false end) pipes15
  | _ => false
  end.

Lemma hw_shape_all mc : forallb (hw_shape_ok mc) all_nodes = true.
Proof. destruct mc; vm_compute; reflexivity. Qed.

Theorem hw_shape prefix suffix mc a p q :
  In a all_nodes -> In p pipes15 -> In q pipes15 ->
  exists x y t, pipe_address prefix suffix mc a p = Some (x :: t)
             /\ pipe_address prefix suffix mc a q = Some (y :: t).
Proof.
  intros Ha Hp Hq. pose proof (forallb_In _ _ _ (hw_shape_all mc) Ha) as H.
  unfold hw_shape_ok in H.
  destruct (pipe_pattern mc a 1) as [[|h1 t1]|] eqn:E1; try discriminate.
  pose proof (forallb_In _ _ _ H Hp) as H1. pose proof (forallb_In _ _ _ H Hq) as H2.
  cbv beta in H1, H2. unfold pipe_address.
  destruct (pipe_pattern mc a p) as [[|hp tp]|]; try discriminate.
  destruct (pipe_pattern mc a q) as [[|hq tq]|]; try discriminate.
  repeat (apply andb_true_iff in H1; destruct H1 as [H1 ?]).
  repeat (apply andb_true_iff in H2; destruct H2 as [H2 ?]).
  apply N.eqb_eq in H1. apply N.eqb_eq in H2.
  assert (tp = tq).
  { apply pats_code_inj; try assumption; [|congruence].
    match goal with A : Nat.eqb (length tp) 4 = true, B : Nat.eqb (length tq) 4 = true |- _ =>
      apply Nat.eqb_eq in A; apply Nat.eqb_eq in B; congruence end. }
  subst tq. simpl. eauto.
Qed.

(* with multicast on, the pipe-0 address a node opens in _begin is its level's shared
   address: the very address multicast() to that level resolves to *)
Lemma level_pipe0_all :
  forallb (fun a => match pipe_pattern true a 0,
                          pipe_pattern true (lvl_2_addr (N.of_nat (length (digits_of 8 a)))) 0 with
                    | Some x, Some y => N.eqb (pats_code x) (pats_code y) && forallb pat_ok x
                                        && forallb pat_ok y && Nat.eqb (length x) (length y)
                    | _, _ => false end) all_nodes = true.
Proof. vm_compute. reflexivity. Qed.

Theorem level_pipe0 prefix suffix a :
  In a all_nodes ->
  pipe_address prefix suffix true a 0 =
  pipe_address prefix suffix true (lvl_2_addr (N.of_nat (length (digits_of 8 a)))) 0.
Proof.
  intros Ha. pose proof (forallb_In _ _ _ level_pipe0_all Ha) as H. cbv beta in H.
  unfold pipe_address.
  destruct (pipe_pattern true a 0) as [x|]; [|discriminate H].
  destruct (pipe_pattern true (lvl_2_addr _) 0) as [y|]; [|discriminate H].
  repeat (apply andb_true_iff in H; destruct H as [H ?]).
  apply N.eqb_eq in H.
  f_equal. f_equal. apply pats_code_inj; auto.
  match goal with A : Nat.eqb _ _ = true |- _ => apply Nat.eqb_eq in A; exact A end.
Qed.

(* lvl_2_addr L has exactly L octal digits, for the five levels *)
Lemma lvl_2_addr_level :
  forallb (fun l => Nat.eqb (length (digits_of 8 (lvl_2_addr l))) (N.to_nat l)) levels04 = true.
Proof. vm_compute. reflexivity. Qed.

Example keys_nonempty : length (keys true) = 3910%nat /\ length (keys false) = 4686%nat.
Proof. vm_compute. split; reflexivity. Qed.

(* Ble.v -- model of fake_ble.py: the bit/byte codecs (swap_bits, reverse_bits, chunk, whitener,
   crc24_ble), FakeBLE's advertising state (BLE channel index, RF_CH, name, show_pa_level, MAC,
   PA level), _make_payload/len_available/advertise, and the receive path (available(): de-whiten,
   length/CRC validation, QueueElement parsing; read()).  What RF24.send()/read() do with the 32
   bytes is the RF24 model's business (Drv/RF24.v); here advertise yields the 32 bytes handed to
   W_TX_PAYLOAD and receive takes the 32 bytes read from the RX FIFO.  Model only; no proofs. *)
From Coq Require Import ZArith NArith List Bool.
Import ListNotations.
Local Open Scope N_scope.

(* ---- bit and byte codecs ---- *)
Fixpoint swap_loop (n : nat) (orig rev : N) : N :=
  match n with
  | O => rev
  | S k => swap_loop k (N.shiftr orig 1) (N.lor (N.shiftl rev 1) (N.land orig 1))
  end.
Definition swap_bits (x : N) : N := swap_loop 8 (N.land x 255) 0.
Definition reverse_bits (l : list N) : list N := map swap_bits l.

Definition chunk (buf : list N) (ty : N) : list N := (N.of_nat (length buf) + 1) :: N.land ty 255 :: buf.

(* one byte of whitener(): 8 rounds of (coef, byte, mask) *)
Fixpoint wh_bits (n : nat) (coef byte mask : N) : N * N :=
  match n with
  | O => (coef, byte)
  | S k =>
    if N.odd coef then wh_bits k (N.shiftr (N.lxor coef 136) 1) (N.lxor byte mask) (N.shiftl mask 1)
    else wh_bits k (N.shiftr coef 1) byte (N.shiftl mask 1)
  end.
Fixpoint whitener (buf : list N) (coef : N) : list N :=
  match buf with
  | [] => []
  | b :: t => let '(c', b') := wh_bits 8 coef b 1 in b' :: whitener t c'
  end.

(* crc24_ble(data): MSB-first over bit-swapped bytes, masked to 24 bits after each byte *)
Fixpoint crc_bits (n : nat) (crc : N) : N :=
  match n with
  | O => crc
  | S k => crc_bits k (if N.testbit crc 23 then N.lxor (N.shiftl crc 1) 1627 else N.shiftl crc 1)
  end.
Definition crc_byte (crc b : N) : N :=
  N.land (crc_bits 8 (N.lxor crc (N.shiftl (swap_bits b) 16))) 16777215.
Definition crc24_ble (data : list N) : list N :=
  let crc := fold_left crc_byte data 5592405 in
  reverse_bits [N.land (N.shiftr crc 16) 255; N.land (N.shiftr crc 8) 255; N.land crc 255].

(* ---- FakeBLE's advertising state ---- *)
Inductive bexn := BValueError | BStructError | BIndexError | BOverflowError.
Inductive bres (A : Type) := BOk (a : A) | BExn (e : bexn).
Arguments BOk {A}. Arguments BExn {A}.

Inductive ditem :=
| DRaw (b : list N)
| DTemp (b : list N)          (* TemperatureServiceData._data *)
| DBatt (b : list N)          (* BatteryServiceData._data *)
| DUrl (ty : list N) (b : list N).   (* UrlServiceData._type (uuid, 0x10, power) and _data *)

(* ---- service data values ---- *)
(* TemperatureServiceData: 24-bit two's complement mantissa (hundredths of a degree), little endian,
   then the exponent byte 0xFE *)
Definition temp_encode (centi : Z) : list N :=
  let m := (centi mod 16777216)%Z in
  [Z.to_N (m mod 256); Z.to_N ((m / 256) mod 256); Z.to_N (m / 65536); 254].
Definition temp_centi (b : list N) : Z :=
  let m := (Z.of_N (nth 0 b 0%N) + 256 * Z.of_N (nth 1 b 0%N) + 65536 * Z.of_N (nth 2 b 0%N))%Z in
  if (128 <=? nth 2 b 0%N)%N then (m - 16777216)%Z else m.

Record element := mkElem { e_mac : list N; e_name : option (list N); e_pa : option Z; e_data : list ditem }.

Record bst := mkB {
  curr_freq : N;               (* index into BLE_FREQ: BLE channel 37 + curr_freq *)
  channel : N;                 (* RF24._channel, and RF_CH of the radio *)
  show_dbm : bool;
  name : option (list N);
  mac : list N;
  pa : Z;                      (* RF24.pa_level: -18, -12, -6, 0 *)
  rx_queue : list element }.

Definition BLE_FREQ (i : N) : N := if i =? 0 then 2 else if i =? 1 then 26 else 80.
Definition is_ble_freq (v : Z) : bool := ((v =? 2) || (v =? 26) || (v =? 80))%Z.

(* state right after FakeBLE.__init__: _curr_freq = 2, then hop_channel() *)
Definition hop (s : bst) : bst :=
  let f := if curr_freq s <? 2 then curr_freq s + 1 else curr_freq s - 2 in
  mkB f (BLE_FREQ f) (show_dbm s) (name s) (mac s) (pa s) (rx_queue s).
Definition init_bst (mac0 : list N) : bst := hop (mkB 2 76 false None mac0 0%Z []).

(* channel setter: ignores anything that is not a BLE frequency; _curr_freq = BLE_FREQ.index(value) (fix C18) *)
Definition set_channel (s : bst) (v : Z) : bst :=
  if is_ble_freq v then
    mkB (if (v =? 2)%Z then 0 else if (v =? 26)%Z then 1 else 2) (Z.to_N v) (show_dbm s) (name s) (mac s) (pa s) (rx_queue s)
  else s.

Definition set_name (s : bst) (n : option (list N)) : bres bst :=
  match n with
  | Some b => if Nat.ltb (18 - (if show_dbm s then 3 else 0)) (length b) then BExn BValueError
              else BOk (mkB (curr_freq s) (channel s) (show_dbm s) n (mac s) (pa s) (rx_queue s))
  | None => BOk (mkB (curr_freq s) (channel s) (show_dbm s) None (mac s) (pa s) (rx_queue s))
  end.
Definition set_show (s : bst) (en : bool) : bres bst :=
  if en && match name s with Some b => Nat.ltb 16 (length b) | None => false end then BExn BValueError
  else BOk (mkB (curr_freq s) (channel s) en (name s) (mac s) (pa s) (rx_queue s)).
Definition set_mac (s : bst) (m : list N) : bst :=      (* a bytes object of >= 6 bytes *)
  mkB (curr_freq s) (channel s) (show_dbm s) (name s) m (pa s) (rx_queue s).
Definition set_pa (s : bst) (v : Z) : bst :=
  mkB (curr_freq s) (channel s) (show_dbm s) (name s) (mac s) v (rx_queue s).
(* __exit__ *)
Definition ble_exit (s : bst) : bst :=
  mkB (curr_freq s) (channel s) false None (mac s) (pa s) (rx_queue s).

Definition name_length (s : bst) : Z :=
  match name s with None => 0 | Some b => Z.of_nat (length b) + 2 end%Z.
Definition len_available (s : bst) (hyp : nat) : Z :=
  (18 - name_length s - (if show_dbm s then 3 else 0) - Z.of_nat hyp)%Z.

Definition whiten (s : bst) (data : list N) : list N := whitener data (N.lor (curr_freq s + 37) 64).

Definition byte_of_signed (v : Z) : N := Z.to_N (v mod 256).

(* _make_payload(payload) *)
Definition make_payload (s : bst) (payload : list N) : bres (list N) :=
  if (len_available s (length payload) <? 0)%Z then BExn BValueError
  else
    let pl_size := (9 + Z.of_nat (length payload) + name_length s + (if show_dbm s then 3 else 0))%Z in
    if negb ((0 <=? pl_size) && (pl_size <=? 255))%Z then BExn BValueError    (* bytes([0x42, pl_size]) *)
    else
      let buf := [66; Z.to_N pl_size] ++ mac s ++ chunk [5] 1
                 ++ (if show_dbm s then chunk [byte_of_signed (pa s)] 10 else [])
                 ++ (match name s with Some b => chunk b 8 | None => [] end)
                 ++ payload in
      BOk (buf ++ crc24_ble buf).

(* advertise(): `chunks` is the concatenation the caller's argument amounts to
   (chunk(buf, data_type) for a non-empty bytes argument, the joined list elements otherwise).
   Result: the buffer handed to RF24.send(). *)
Definition advertise (s : bst) (payload : list N) : bres (list N) :=
  match make_payload s payload with
  | BOk p => BOk (reverse_bits (whiten s p))
  | BExn e => BExn e
  end.

(* RF24.send() with static 32-byte payloads: pad with zeros / truncate *)
Definition pad32 (b : list N) : list N := firstn 32 (b ++ repeat 0 (32 - length b)).

(* ---- receive path ---- *)
Definition sub (b : list N) (i j : nat) : list N := firstn (j - i) (skipn i b).   (* b[i:j] *)
Definition byte_at (b : list N) (i : nat) : N := nth i b 0.

Definition signed8 (x : N) : Z := if x <? 128 then Z.of_N x else (Z.of_N x - 256)%Z.

(* _decode_data_struct(buf): Some updated element (True), None (False: unsupported) *)
Definition decode_struct (e : element) (buf : list N) : bres (option element) :=
  let t := byte_at buf 0 in
  if negb ((t =? 22) || (t =? 10) || (t =? 8) || (t =? 9)) then BOk None
  else if (t =? 22) && Nat.ltb (length buf) 3 then BOk None     (* too short for a UUID: kept raw (fix C19) *)
  else
    let e1 := if (t =? 10) && Nat.eqb (length buf) 2
              then mkElem (e_mac e) (e_name e) (Some (signed8 (byte_at buf 1))) (e_data e) else e in
    let e2 := if (t =? 8) || (t =? 9) then mkElem (e_mac e1) (Some (skipn 1 buf)) (e_pa e1) (e_data e1) else e1 in
    if t =? 22 then
      if Nat.ltb (length buf) 3 then BExn BStructError          (* struct.unpack("<H", buf[1:3]) *)
      else
        let uuid := byte_at buf 1 + 256 * byte_at buf 2 in
        let item :=
          if uuid =? 6153 then DTemp (skipn 3 buf)
          else if uuid =? 6159 then DBatt (skipn 3 buf)
          else if uuid =? 65194 then DUrl ([170; 254; 16] ++ sub buf 4 5) (skipn 5 buf)
          else DRaw buf in
        BOk (Some (mkElem (e_mac e2) (e_name e2) (e_pa e2) (e_data e2 ++ [item])))
    else BOk (Some e2).

(* QueueElement.__init__: the while loop, i from 8 *)
Fixpoint parse_loop (fuel : nat) (buffer : list N) (end_ i : nat) (e : element) : bres element :=
  match fuel with
  | O => BOk e
  | S k =>
    if Nat.ltb i end_ then
      let size := N.to_nat (byte_at buffer i) in
      if Nat.ltb end_ (size + i + 1) || Nat.ltb end_ (i + 1) || Nat.eqb size 0 then
        BOk (mkElem (e_mac e) (e_name e) (e_pa e) (e_data e ++ [DRaw (sub buffer i end_)]))
      else
        match decode_struct e (sub buffer (i + 1) (i + 1 + size)) with
        | BExn x => BExn x
        | BOk (Some e') => parse_loop k buffer end_ (i + 1 + size) e'
        | BOk None =>
          parse_loop k buffer end_ (i + 1 + size)
                     (mkElem (e_mac e) (e_name e) (e_pa e) (e_data e ++ [DRaw (sub buffer i (i + 1 + size))]))
        end
    else BOk e
  end.
Definition parse_element (buffer : list N) : bres element :=
  parse_loop 40 buffer (N.to_nat (byte_at buffer 1) + 2) 8 (mkElem (sub buffer 2 8) None None []).

(* available() once a 32-byte payload has been read from the RX FIFO *)
Definition receive (s : bst) (raw : list N) : bres bst :=
  let cache := whiten s (reverse_bits raw) in
  let end_ := (N.to_nat (byte_at cache 1) + 2)%nat in
  let cache' := firstn (end_ + 3) cache in
  if Nat.ltb end_ 30 && (if list_eq_dec N.eq_dec (sub cache' end_ (end_ + 3)) (crc24_ble (firstn end_ cache')) then true else false)
  then match parse_element cache' with
       | BOk e => BOk (mkB (curr_freq s) (channel s) (show_dbm s) (name s) (mac s) (pa s) (rx_queue s ++ [e]))
       | BExn x => BExn x
       end
  else BOk s.

Definition ble_read (s : bst) : option element * bst :=
  match rx_queue s with
  | [] => (None, s)
  | e :: t => (Some e, mkB (curr_freq s) (channel s) (show_dbm s) (name s) (mac s) (pa s) t)
  end.

(* BleFacts.v -- facts about the FakeBLE model's codecs (Ble/Ble.v). *)
From Coq Require Import ZArith NArith List Bool Lia.
From NRF Require Import Base.Sweep Ble.Ble.
Import ListNotations.
Local Open Scope N_scope.

Definition bytes (l : list N) : Prop := Forall (fun b => b < 256) l.

(* ---- bit reversal ---- *)
Lemma swap_bits_sweep : forallb (fun x => (swap_bits (swap_bits x) =? x) && (swap_bits x <? 256)) (map N.of_nat (seq 0 256)) = true.
Proof. vm_compute. reflexivity. Qed.

Lemma swap_bits_invol x : x < 256 -> swap_bits (swap_bits x) = x.
Proof.
  intro H. pose proof (sweepN _ 256 swap_bits_sweep x) as S. cbv beta in S.
  assert (Hx : x < N.of_nat 256) by (change (N.of_nat 256) with 256; exact H).
  specialize (S Hx). apply andb_prop in S. apply N.eqb_eq. exact (proj1 S).
Qed.

Lemma swap_bits_byte x : swap_bits x < 256.
Proof.
  unfold swap_bits. set (y := N.land x 255).
  assert (Hy : y < 256).
  { unfold y. change 255 with (N.ones 8). rewrite N.land_ones. apply N.mod_lt. discriminate. }
  assert (E : swap_loop 8 y 0 = swap_bits y).
  { unfold swap_bits. f_equal. change 255 with (N.ones 8). rewrite N.land_ones. rewrite N.mod_small; [reflexivity|exact Hy]. }
  rewrite E.
  pose proof (sweepN _ 256 swap_bits_sweep y) as S. cbv beta in S.
  assert (Hx : y < N.of_nat 256) by (change (N.of_nat 256) with 256; exact Hy).
  specialize (S Hx). apply andb_prop in S. apply N.ltb_lt. exact (proj2 S).
Qed.

Lemma reverse_bits_invol l : bytes l -> reverse_bits (reverse_bits l) = l.
Proof.
  unfold reverse_bits. induction 1 as [|x l Hx Hl IH]; cbn [map]; [reflexivity|].
  rewrite swap_bits_invol by exact Hx. rewrite IH. reflexivity.
Qed.

Lemma reverse_bits_bytes l : bytes (reverse_bits l).
Proof. unfold reverse_bits, bytes. apply Forall_forall. intros y Hy. apply in_map_iff in Hy. destruct Hy as (x & <- & _). apply swap_bits_byte. Qed.

Lemma reverse_bits_length l : length (reverse_bits l) = length l.
Proof. apply map_length. Qed.

(* ---- whitening: XOR with a key stream that depends on the coefficient only ---- *)
Definition ks (c : N) : N := snd (wh_bits 8 c 0 1).     (* key-stream byte *)
Definition nc (c : N) : N := fst (wh_bits 8 c 0 1).     (* coefficient after one byte *)

Definition wh_ok (c b : N) : bool :=
  let '(c', b') := wh_bits 8 c b 1 in (c' =? nc c) && (b' =? N.lxor b (ks c)) && (c' <? 256) && (b' <? 256).

Lemma wh_sweep : forallb (fun c => forallb (wh_ok c) (map N.of_nat (seq 0 256))) (map N.of_nat (seq 0 256)) = true.
Proof. vm_compute. reflexivity. Qed.

Lemma wh_byte c b : c < 256 -> b < 256 ->
  wh_bits 8 c b 1 = (nc c, N.lxor b (ks c)) /\ nc c < 256 /\ N.lxor b (ks c) < 256.
Proof.
  intros Hc Hb.
  pose proof (sweepN _ 256 wh_sweep c) as S. cbv beta in S.
  assert (Hc' : c < N.of_nat 256) by (change (N.of_nat 256) with 256; exact Hc).
  specialize (S Hc'). pose proof (sweepN _ 256 S b) as T.
  assert (Hb' : b < N.of_nat 256) by (change (N.of_nat 256) with 256; exact Hb).
  specialize (T Hb'). unfold wh_ok in T. destruct (wh_bits 8 c b 1) as [c' b'].
  repeat (apply andb_prop in T; destruct T as [T ?]).
  apply N.eqb_eq in T. repeat match goal with H : (_ =? _) = true |- _ => apply N.eqb_eq in H end.
  repeat match goal with H : (_ <? _) = true |- _ => apply N.ltb_lt in H end.
  subst. auto.
Qed.

Lemma whitener_length l : forall c, length (whitener l c) = length l.
Proof. induction l as [|b t IH]; intro c; cbn [whitener]; [reflexivity|]. destruct (wh_bits 8 c b 1). cbn [length]. rewrite IH. reflexivity. Qed.

Lemma whitener_bytes l : forall c, c < 256 -> bytes l -> bytes (whitener l c).
Proof.
  induction l as [|b t IH]; intros c Hc Hl; cbn [whitener]; [constructor|].
  inversion Hl as [|? ? Hb Ht]; subst.
  destruct (wh_byte c b Hc Hb) as (E & Hn & Hx). rewrite E. constructor; [exact Hx|apply IH; assumption].
Qed.

(* whitening twice with the same coefficient is the identity: de-whitening = whitening *)
Theorem whitener_invol l : forall c, c < 256 -> bytes l -> whitener (whitener l c) c = l.
Proof.
  induction l as [|b t IH]; intros c Hc Hl; cbn [whitener]; [reflexivity|].
  inversion Hl as [|? ? Hb Ht]; subst.
  destruct (wh_byte c b Hc Hb) as (E & Hn & Hx). rewrite E. cbn [whitener].
  destruct (wh_byte c (N.lxor b (ks c)) Hc Hx) as (E2 & _ & _). rewrite E2.
  rewrite N.lxor_assoc, N.lxor_nilpotent, N.lxor_0_r. rewrite IH by assumption. reflexivity.
Qed.

(* whitening is a stream operation: a prefix of the input gives the prefix of the output *)
Lemma whitener_app a : forall b c, exists c', whitener (a ++ b) c = whitener a c ++ whitener b c'.
Proof.
  induction a as [|x t IH]; intros b c; cbn [app whitener]; [exists c; reflexivity|].
  destruct (wh_bits 8 c x 1) as [c1 x1]. destruct (IH b c1) as (c' & E). exists c'. rewrite E. reflexivity.
Qed.

Lemma whitener_firstn a b c : firstn (length a) (whitener (a ++ b) c) = whitener a c.
Proof.
  destruct (whitener_app a b c) as (c' & E). rewrite E.
  rewrite <- (whitener_length a c). rewrite firstn_app, Nat.sub_diag, firstn_all. cbn [firstn]. apply app_nil_r.
Qed.

Lemma whiten_coef_byte s : curr_freq s <= 2 -> N.lor (curr_freq s + 37) 64 < 256.
Proof.
  intro H. assert (curr_freq s = 0 \/ curr_freq s = 1 \/ curr_freq s = 2) as [->|[->| ->]] by lia; vm_compute; reflexivity.
Qed.

(* ---- crc ---- *)
Lemma crc24_length d : length (crc24_ble d) = 3%nat.
Proof. reflexivity. Qed.

Lemma crc24_bytes d : bytes (crc24_ble d).
Proof. unfold crc24_ble. apply reverse_bits_bytes. Qed.

(* ---- _make_payload / len_available / advertise ---- *)
Local Open Scope Z_scope.

Definition name_ok (s : bst) : Prop := match name s with Some b => (length b <= 18)%nat | None => True end.

Lemma name_length_bounds s : name_ok s -> 0 <= name_length s <= 20.
Proof. unfold name_ok, name_length. destruct (name s); lia. Qed.

Lemma chunk_length b t : length (chunk b t) = (length b + 2)%nat.
Proof. unfold chunk. cbn [length]. lia. Qed.

(* advertise() raises exactly when the packet would not fit: the result exists iff len_available >= 0 *)
Theorem make_payload_fits s payload :
  name_ok s ->
  (exists p, make_payload s payload = BOk p) <-> 0 <= len_available s (length payload).
Proof.
  intro Hn. pose proof (name_length_bounds s Hn) as Hb. unfold make_payload.
  destruct (len_available s (length payload) <? 0) eqn:E.
  - apply Z.ltb_lt in E. split; [intros (p & H); discriminate|lia].
  - apply Z.ltb_ge in E. split; [intros _; exact E|intros _].
    unfold len_available in E.
    replace ((0 <=? 9 + Z.of_nat (length payload) + name_length s + (if show_dbm s then 3 else 0)) &&
             (9 + Z.of_nat (length payload) + name_length s + (if show_dbm s then 3 else 0) <=? 255)) with true
      by (destruct (show_dbm s); lia).
    change (negb true) with false. cbv iota. eexists. reflexivity.
Qed.

Lemma BOk_inj {A} (a b : A) : BOk a = BOk b -> a = b.
Proof. intro H. injection H. auto. Qed.

(* shape of the packet: header 0x42, length byte = everything between it and the CRC, the MAC, the flags
   field, the optional fields, the caller's chunks verbatim, then the 3 CRC bytes; 32 - len_available bytes in all *)
Theorem make_payload_shape s payload p :
  length (mac s) = 6%nat -> name_ok s ->
  make_payload s payload = BOk p ->
  exists body,
    body = mac s ++ [2; 1; 5]%N
           ++ (if show_dbm s then [2; 10; byte_of_signed (pa s)]%N else [])
           ++ (match name s with Some b => (N.of_nat (length b) + 1)%N :: 8%N :: b | None => [] end)
           ++ payload
    /\ p = 66%N :: N.of_nat (length body) :: body ++ crc24_ble (66%N :: N.of_nat (length body) :: body)
    /\ Z.of_nat (length p) = 32 - len_available s (length payload).
Proof.
  intros Hm Hn H. pose proof (name_length_bounds s Hn) as Hb. unfold make_payload in H.
  destruct (len_available s (length payload) <? 0) eqn:E; [discriminate|]. apply Z.ltb_ge in E.
  unfold len_available in E.
  replace ((0 <=? 9 + Z.of_nat (length payload) + name_length s + (if show_dbm s then 3 else 0)) &&
           (9 + Z.of_nat (length payload) + name_length s + (if show_dbm s then 3 else 0) <=? 255)) with true in H
    by (destruct (show_dbm s); lia).
  change (negb true) with false in H. cbv iota in H. apply BOk_inj in H. subst p.
  eexists. split; [reflexivity|].
  set (body := mac s ++ [2; 1; 5]%N ++ _ ++ _ ++ payload).
  assert (HL : Z.of_nat (length body) = 9 + Z.of_nat (length payload) + name_length s + (if show_dbm s then 3 else 0)).
  { unfold body. rewrite !app_length, Hm. unfold name_length.
    destruct (show_dbm s), (name s); cbn [length]; lia. }
  assert (Ebuf : [66%N; Z.to_N (9 + Z.of_nat (length payload) + name_length s + (if show_dbm s then 3 else 0))]
                 ++ mac s ++ chunk [5%N] 1
                 ++ (if show_dbm s then chunk [byte_of_signed (pa s)] 10 else [])
                 ++ match name s with Some b => chunk b 8 | None => [] end ++ payload
                 = 66%N :: N.of_nat (length body) :: body).
  { cbn [app]. apply f_equal. apply f_equal2; [lia|]. unfold body.
    change (chunk [5%N] 1) with [2; 1; 5]%N.
    change (chunk [byte_of_signed (pa s)] 10) with [2; 10; byte_of_signed (pa s)]%N.
    destruct (name s) as [b|]; [change (chunk b 8) with ((N.of_nat (length b) + 1)%N :: 8%N :: b)|]; reflexivity. }
  cbv zeta. rewrite Ebuf. split; [reflexivity|].
  rewrite app_length. cbn [length]. rewrite crc24_length. unfold len_available. lia.
Qed.

(* ---- the receive path ---- *)
Local Open Scope N_scope.

Lemma decode_struct_total e buf : exists r, decode_struct e buf = BOk r.
Proof.
  unfold decode_struct.
  destruct (negb _) eqn:E1; [eexists; reflexivity|].
  destruct ((byte_at buf 0 =? 22) && Nat.ltb (length buf) 3) eqn:E2; [eexists; reflexivity|].
  destruct (byte_at buf 0 =? 22) eqn:E3; [|eexists; reflexivity].
  cbn [andb] in E2. rewrite E2. eexists; reflexivity.
Qed.

Lemma parse_loop_total fuel : forall buffer end_ i e, exists r, parse_loop fuel buffer end_ i e = BOk r.
Proof.
  induction fuel as [|k IH]; intros buffer end_ i e; cbn [parse_loop]; [eexists; reflexivity|].
  destruct (Nat.ltb i end_); [|eexists; reflexivity].
  destruct (_ || _ || _); [eexists; reflexivity|].
  destruct (decode_struct_total e (sub buffer (i + 1) (i + 1 + N.to_nat (byte_at buffer i)))) as (r & ->).
  destruct r; apply IH.
Qed.

Lemma decode_struct_mac e buf e' : decode_struct e buf = BOk (Some e') -> e_mac e' = e_mac e.
Proof.
  unfold decode_struct. cbv zeta.
  repeat match goal with |- context [if ?c then _ else _] => destruct c end;
    intro H; try discriminate; apply BOk_inj in H; injection H as <-; reflexivity.
Qed.

Lemma parse_loop_mac fuel : forall buffer end_ i e r, parse_loop fuel buffer end_ i e = BOk r -> e_mac r = e_mac e.
Proof.
  induction fuel as [|k IH]; intros buffer end_ i e r; cbn [parse_loop]; [intro H; apply BOk_inj in H; subst; reflexivity|].
  destruct (Nat.ltb i end_); [|intro H; apply BOk_inj in H; subst; reflexivity].
  destruct (_ || _ || _); [intro H; apply BOk_inj in H; subst; reflexivity|].
  destruct (decode_struct e _) as [[e'|]|x] eqn:D; [| |discriminate].
  - intro H. rewrite (IH _ _ _ _ _ H). exact (decode_struct_mac _ _ _ D).
  - intro H. rewrite (IH _ _ _ _ _ H). reflexivity.
Qed.

(* available() never raises: for EVERY received payload (any bytes, any length) the receive step is defined *)
Theorem receive_total s raw : exists s', receive s raw = BOk s'.
Proof.
  unfold receive. destruct (_ && _); [|eexists; reflexivity].
  unfold parse_element.
  match goal with |- context [parse_loop ?f ?b ?e ?i ?el] => destruct (parse_loop_total f b e i el) as (r & ->) end.
  eexists; reflexivity.
Qed.

(* what is not queued leaves the state alone; what is queued passed the length and CRC-24 tests *)
Theorem receive_cases s raw s' :
  receive s raw = BOk s' ->
  s' = s \/
  (let cache := whiten s (reverse_bits raw) in
   let end_ := (N.to_nat (byte_at cache 1) + 2)%nat in
   (end_ < 30)%nat /\ sub (firstn (end_ + 3) cache) end_ (end_ + 3) = crc24_ble (firstn end_ (firstn (end_ + 3) cache))
   /\ exists e, parse_element (firstn (end_ + 3) cache) = BOk e /\ rx_queue s' = rx_queue s ++ [e]).
Proof.
  unfold receive. cbv zeta.
  destruct (Nat.ltb _ 30) eqn:E1; cbn [andb]; [|intro H; apply BOk_inj in H; auto].
  destruct (list_eq_dec _ _ _) as [Ec|]; [|intro H; apply BOk_inj in H; auto].
  destruct (parse_element _) as [e|x] eqn:P; [|discriminate].
  intro H. apply BOk_inj in H. subst s'. right. split; [apply Nat.ltb_lt; exact E1|]. split; [exact Ec|].
  exists e. split; reflexivity.
Qed.

Lemma reverse_bits_app a b : reverse_bits (a ++ b) = reverse_bits a ++ reverse_bits b.
Proof. apply map_app. Qed.

Lemma firstn_app_exact {A} (a b : list A) : firstn (length a) (a ++ b) = a.
Proof. rewrite firstn_app, Nat.sub_diag, firstn_all. cbn [firstn]. apply app_nil_r. Qed.

Lemma skipn_app_exact {A} (a b : list A) : skipn (length a) (a ++ b) = b.
Proof. induction a as [|x t IH]; cbn [length skipn app]; auto. Qed.

Lemma pad32_short x : (length x <= 32)%nat -> pad32 x = x ++ repeat 0 (32 - length x).
Proof.
  intro H. unfold pad32.
  assert (L : length (x ++ repeat 0 (32 - length x)) = 32%nat) by (rewrite app_length, repeat_length; lia).
  rewrite <- L at 1. apply firstn_all.
Qed.

(* A packet advertised on a BLE channel and received by an object on the same channel passes the length and
   CRC tests and is queued as ONE element carrying the sender's MAC. *)
Theorem advertised_is_queued s s' payload f :
  length (mac s) = 6%nat -> name_ok s -> bytes (mac s) -> bytes payload ->
  match name s with Some b => bytes b | None => True end ->
  curr_freq s <= 2 -> curr_freq s' = curr_freq s ->
  advertise s payload = BOk f ->
  exists e, receive s' (pad32 f) = BOk (mkB (curr_freq s') (channel s') (show_dbm s') (name s') (mac s') (pa s') (rx_queue s' ++ [e]))
            /\ e_mac e = mac s.
Proof.
  intros Hm Hn Bm Bp Bn Hf Hc Ha.
  unfold advertise in Ha. destruct (make_payload s payload) as [p|] eqn:MP; [|discriminate].
  apply BOk_inj in Ha. subst f.
  destruct (make_payload_shape s payload p Hm Hn MP) as (body & Eb & Ep & Len).
  assert (Hfit : (0 <= len_available s (length payload))%Z) by (apply (make_payload_fits s payload Hn); eexists; exact MP).
  assert (Lp : (length p <= 32)%nat) by lia.
  set (c := N.lor (curr_freq s + 37) 64).
  assert (Hcb : c < 256) by (apply whiten_coef_byte; exact Hf).
  assert (Bbody : bytes body).
  { subst body. unfold bytes. rewrite !Forall_app. repeat split; try assumption.
    - repeat constructor.
    - destruct (show_dbm s); [|constructor]. repeat constructor. unfold byte_of_signed.
      pose proof (Z.mod_pos_bound (pa s) 256). lia.
    - revert Hn Bn. unfold name_ok. destruct (name s) as [b|]; intros Hn Bn; [|constructor].
      constructor; [lia|]. constructor; [lia|]. exact Bn. }
  assert (Lb : (length body <= 27)%nat).
  { rewrite Ep in Lp. cbn [length] in Lp. rewrite app_length, crc24_length in Lp. lia. }
  assert (Bp' : bytes p).
  { rewrite Ep. constructor; [lia|]. constructor; [lia|]. unfold bytes. rewrite Forall_app. split; [exact Bbody|apply crc24_bytes]. }
  unfold receive, whiten. rewrite Hc. fold c.
  rewrite pad32_short by (rewrite reverse_bits_length, whitener_length; exact Lp).
  rewrite reverse_bits_app, reverse_bits_invol by (apply whitener_bytes; assumption).
  destruct (whitener_app (whitener p c) (reverse_bits (repeat 0 (32 - length (reverse_bits (whitener p c))))) c) as (c' & ->).
  rewrite whitener_invol by assumption.
  set (tail := whitener _ c').
  assert (Eend : (N.to_nat (byte_at (p ++ tail) 1) + 2)%nat = (length body + 2)%nat).
  { rewrite Ep. cbn [app byte_at nth]. lia. }
  rewrite Eend.
  assert (Ecut : firstn (length body + 2 + 3) (p ++ tail) = p).
  { replace (length body + 2 + 3)%nat with (length p) by (rewrite Ep; cbn [length]; rewrite app_length, crc24_length; lia).
    apply firstn_app_exact. }
  rewrite Ecut.
  replace (Nat.ltb (length body + 2) 30) with true by (symmetry; apply Nat.ltb_lt; lia).
  set (hd := 66 :: N.of_nat (length body) :: body) in *.
  assert (Ep' : p = hd ++ crc24_ble hd) by exact Ep.
  assert (En : (length body + 2)%nat = length hd) by (unfold hd; cbn [length]; lia).
  assert (Ehead : firstn (length body + 2) p = hd).
  { rewrite En, Ep'. apply firstn_app_exact. }
  assert (Ecrc : sub p (length body + 2) (length body + 2 + 3) = crc24_ble (firstn (length body + 2) p)).
  { rewrite Ehead. unfold sub. rewrite En. rewrite Ep' at 1. rewrite skipn_app_exact.
    replace (length hd + 3 - length hd)%nat with (length (crc24_ble hd)) by (rewrite crc24_length; lia).
    apply firstn_all. }
  destruct (list_eq_dec N.eq_dec _ _) as [_|Hne]; [|exfalso; exact (Hne Ecrc)].
  cbn [andb].
  unfold parse_element.
  destruct (parse_loop_total 40 p (N.to_nat (byte_at p 1) + 2) 8 (mkElem (sub p 2 8) None None [])) as (e & Pe).
  rewrite Pe. exists e. split; [reflexivity|].
  rewrite (parse_loop_mac _ _ _ _ _ _ Pe). cbn [e_mac].
  rewrite Ep, Eb. unfold sub. cbn [skipn].
  replace (8 - 2)%nat with (length (mac s)) by (rewrite Hm; reflexivity).
  rewrite <- app_assoc. apply firstn_app_exact.
Qed.

(* ---- the whitening channel follows the tuned frequency ---- *)
Definition Sync (s : bst) : Prop := curr_freq s <= 2 /\ channel s = BLE_FREQ (curr_freq s).

Inductive chop := OHop | OSetChannel (v : Z) | OExit | OSetName (n : option (list N)) | OSetShow (b : bool)
                | OSetMac (m : list N) | OSetPa (v : Z).
Definition chstep (s : bst) (o : chop) : bst :=
  match o with
  | OHop => hop s
  | OSetChannel v => set_channel s v
  | OExit => ble_exit s
  | OSetName n => match set_name s n with BOk s' => s' | BExn _ => s end
  | OSetShow b => match set_show s b with BOk s' => s' | BExn _ => s end
  | OSetMac m => set_mac s m
  | OSetPa v => set_pa s v
  end.

Lemma sync_init m : Sync (init_bst m).
Proof. unfold Sync, init_bst, hop. cbn. split; [lia|reflexivity]. Qed.

Lemma sync_step s o : Sync s -> Sync (chstep s o).
Proof.
  intros [H1 H2]. destruct o as [|v| |n|b|m|v]; cbn [chstep].
  - unfold Sync, hop. cbn [curr_freq channel]. destruct (curr_freq s <? 2) eqn:E;
      [apply N.ltb_lt in E|apply N.ltb_ge in E]; split; try reflexivity; lia.
  - unfold set_channel, is_ble_freq. destruct ((v =? 2) || (v =? 26) || (v =? 80))%Z eqn:E; [|split; assumption].
    unfold Sync. cbn [curr_freq channel].
    destruct (v =? 2)%Z eqn:E2; [apply Z.eqb_eq in E2; subst; split; [lia|reflexivity]|].
    destruct (v =? 26)%Z eqn:E3; [apply Z.eqb_eq in E3; subst; split; [lia|reflexivity]|].
    cbn [orb] in E. apply Z.eqb_eq in E. subst. split; [lia|reflexivity].
  - split; assumption.
  - unfold set_name. destruct n as [b|]; [destruct (Nat.ltb _ _)|]; split; assumption.
  - unfold set_show. destruct (_ && _); split; assumption.
  - split; assumption.
  - split; assumption.
Qed.

Theorem sync_history ops : forall s, Sync s -> Sync (fold_left chstep ops s).
Proof. induction ops as [|o t IH]; cbn [fold_left]; intros s H; [exact H|]. apply IH. apply sync_step. exact H. Qed.

(* the whitening coefficient is the one of the BLE channel at the tuned frequency *)
Definition ble_channel_of_rf (rf : N) : N := if rf =? 2 then 37 else if rf =? 26 then 38 else 39.
Lemma sync_coef s : Sync s -> N.lor (curr_freq s + 37) 64 = N.lor (ble_channel_of_rf (channel s)) 64.
Proof.
  intros [H1 H2]. rewrite H2. unfold BLE_FREQ, ble_channel_of_rf.
  assert (curr_freq s = 0 \/ curr_freq s = 1 \/ curr_freq s = 2) as [->|[->| ->]] by lia; reflexivity.
Qed.

(* ---- temperature mantissa ---- *)
Local Open Scope Z_scope.
Theorem temp_roundtrip c : -8388608 <= c < 8388608 -> temp_centi (temp_encode c) = c.
Proof.
  intro H. unfold temp_centi, temp_encode. cbn [nth].
  set (m := c mod 16777216).
  assert (Hm : 0 <= m < 16777216) by (apply Z.mod_pos_bound; lia).
  assert (P1 : 0 <= m mod 256) by (apply Z.mod_pos_bound; lia).
  assert (P2 : 0 <= (m / 256) mod 256) by (apply Z.mod_pos_bound; lia).
  assert (P3 : 0 <= m / 65536) by (apply Z.div_pos; lia).
  rewrite !Z2N.id by assumption.
  assert (E : m mod 256 + 256 * ((m / 256) mod 256) + 65536 * (m / 65536) = m).
  { pose proof (Z.div_mod m 256). pose proof (Z.div_mod (m / 256) 256).
    assert (D : m / 256 / 256 = m / 65536) by (rewrite Z.div_div by lia; reflexivity). lia. }
  rewrite E.
  assert (Hhi : (128 <=? Z.to_N (m / 65536))%N = (8388608 <=? m)).
  { destruct (8388608 <=? m) eqn:E1.
    - apply Z.leb_le in E1. apply N.leb_le. assert (128 <= m / 65536) by (apply Z.div_le_lower_bound; lia). lia.
    - apply Z.leb_gt in E1. apply N.leb_gt. assert (m / 65536 < 128) by (apply Z.div_lt_upper_bound; lia). lia. }
  rewrite Hhi. unfold m.
  destruct (8388608 <=? c mod 16777216) eqn:E1.
  - apply Z.leb_le in E1. assert (c < 0).
    { destruct (Z_lt_ge_dec c 0); [assumption|]. rewrite Z.mod_small in E1; lia. }
    assert (c mod 16777216 = c + 16777216); [|lia].
    symmetry. apply Z.mod_unique_pos with (-1); lia.
  - apply Z.leb_gt in E1. assert (0 <= c).
    { destruct (Z_lt_ge_dec c 0); [|lia]. assert (c mod 16777216 = c + 16777216); [|lia].
      symmetry. apply Z.mod_unique_pos with (-1); lia. }
    apply Z.mod_small. lia.
Qed.

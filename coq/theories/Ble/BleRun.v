(* BleRun.v -- int-stream runner for the FakeBLE model (correspondence harness). *)
From Coq Require Import ZArith NArith List Bool.
From NRF Require Import Base.Wire Ble.Ble.
Import ListNotations.
Local Open Scope Z_scope.

Definition bexn_code (e : bexn) : Z :=
  match e with BValueError => 1 | BIndexError => 2 | BStructError => 6 | BOverflowError => 10 end.
Definition put_optbytes (o : option (list N)) : list Z :=
  match o with None => [0] | Some b => 1 :: put_bytes b end.
Definition put_item (d : ditem) : list Z :=
  match d with
  | DRaw b => 0 :: put_bytes b
  | DTemp b => 1 :: put_bytes b ++ [if Nat.ltb (length b) 3 then 0 else temp_centi b]
  | DBatt b => 2 :: put_bytes b
  | DUrl t b => 3 :: put_bytes t ++ put_bytes b
  end.
Definition put_elem (e : element) : list Z :=
  put_bytes (e_mac e) ++ put_optbytes (e_name e)
  ++ (match e_pa e with None => [0] | Some v => [1; v] end)
  ++ Z.of_nat (length (e_data e)) :: flat_map put_item (e_data e).
Definition put_bst (s : bst) : list Z :=
  [Z.of_N (curr_freq s); Z.of_N (channel s); (if show_dbm s then 1 else 0)] ++ put_optbytes (name s)
  ++ put_bytes (mac s) ++ [pa s; Z.of_nat (length (rx_queue s))].

Fixpoint ble_ops (fuel : nat) (ops : list Z) (s : bst) : list Z :=
  match fuel with
  | O => [-9]
  | S k =>
    let continue (o : list Z) (s' : bst) (rest : list Z) := (-1) :: o ++ (-5) :: put_bst s' ++ ble_ops k rest s' in
    match ops with
    | [] => [-2]
    | 1 :: t => continue [0] (hop s) t
    | 2 :: v :: t => continue [0] (set_channel s v) t
    | 3 :: 0 :: t => match set_name s None with BOk s' => continue [0] s' t | BExn e => continue [bexn_code e] s t end
    | 3 :: 1 :: t =>
      match take_bytes t with
      | Some (b, r) => match set_name s (Some b) with BOk s' => continue [0] s' r | BExn e => continue [bexn_code e] s r end
      | None => [-3]
      end
    | 4 :: b :: t => match set_show s (negb (b =? 0)) with BOk s' => continue [0] s' t | BExn e => continue [bexn_code e] s t end
    | 5 :: t => match take_bytes t with Some (b, r) => continue [0] (set_mac s b) r | None => [-3] end
    | 6 :: v :: t => continue [0] (set_pa s v) t
    | 7 :: t => continue [0] (ble_exit s) t
    | 8 :: n :: t => continue [0; len_available s (Z.to_nat n)] s t
    | 9 :: t =>
      match take_bytes t with
      | Some (b, r) => match advertise s b with
                       | BOk p => continue (0 :: put_bytes (pad32 p)) s r
                       | BExn e => continue [bexn_code e] s r
                       end
      | None => [-3]
      end
    | 10 :: t =>
      match take_bytes t with
      | Some (b, r) => match receive s b with
                       | BOk s' => continue [0; (if Nat.eqb (length (rx_queue s')) 0 then 0 else 1)] s' r
                       | BExn e => continue [bexn_code e] s r
                       end
      | None => [-3]
      end
    | 12 :: c :: t => continue (0 :: put_bytes (temp_encode c)) s t
    | 11 :: t => let '(o, s') := ble_read s in
                 continue (match o with None => [0; 0] | Some e => 0 :: 1 :: put_elem e end) s' t
    | _ => [-3]
    end
  end.

(* request: mac bytes, ops *)
Definition run_ble (req : list Z) : list Z :=
  match take_bytes req with
  | Some (m, ops) => let s := init_bst m in (-5) :: put_bst s ++ ble_ops (length ops + 1) ops s
  | None => [-3]
  end.

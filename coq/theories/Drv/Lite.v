(* Lite.v -- model of rf24_lite.py (class RF24 of the lite driver), generic in its bus like
   Drv/RF24.v.  The lite driver keeps only two pieces of state: the STATUS byte of the last SPI
   transfer (self._status) and the pipe-0 reading address (self._pipe0_read_addr); they live in
   the fields d_in0 and d_pipe0_read_addr of the driver record so that the monad, the SPI
   primitives and the run/dump infrastructure of the full driver are shared.  Everything else is
   read from the radio each time.  Model only; no proofs here. *)
From Coq Require Import ZArith NArith List Bool.
From NRF Require Import Env.Radio Env.World Drv.RF24.
Import ListNotations.
Local Open Scope Z_scope.

Section LiteDriver.
  Context {bus : Type} (B : busops bus).
  Notation "x <- m ;; f" := (bind m (fun x => f)) (at level 61, m at next level, right associativity).
  Notation "m ;;; f" := (bind m (fun _ => f)) (at level 61, right associativity).
  Notation M := (M (bus := bus)).

  Definition l_reg_read (reg : Z) : M Z := reg_read B reg.
  Definition l_reg_read_bytes (reg : Z) (n : nat) : M (list N) := reg_read_bytes B reg n.
  Definition l_reg_write_bytes (reg : Z) (buf : list N) : M unit := reg_write_bytes B reg buf.
  Definition l_reg_write (reg value : Z) : M unit := reg_write B reg value.
  Definition l_command (c : Z) : M unit := command B c.

  Definition status : M Z := d <- get ;; ret (Z.of_N (d_in0 d)).
  Definition set_p0 (a : option (list N)) : M unit :=
    modify (fun d => mkDrv (d_in0 d) (d_config d) (d_rf_setup d) (d_open_pipes d) (d_dyn_pl d) (d_aa d)
                            (d_features d) (d_retry_setup d) (d_channel d) (d_addr_len d) (d_pl_len d)
                            (d_pipe0 d) (d_pipe1 d) (d_pipes25 d) (d_tx_address d) a (d_is_plus d)).
  Definition st_pipe_z (st : Z) : Z := Z.land (Z.shiftr st 1) 7.
  Definition zb (b : bool) : Z := if b then 1 else 0.

  Definition l_flush_rx : M unit := l_command 226.
  Definition l_flush_tx : M unit := l_command 225.
  Definition l_update : M bool := l_command 255 ;;; ret true.
  Definition l_clear_status_flags (dr ds df : bool) : M unit :=
    l_reg_write 7 (Z.lor (Z.lor (Z.shiftl (zb dr) 6) (Z.shiftl (zb ds) 5)) (Z.shiftl (zb df) 4)).

  Definition l_set_channel (chnl : Z) : M unit :=
    if negb ((0 <=? chnl) && (chnl <=? 125)) then raise ValueError else l_reg_write 5 chnl.
  Definition l_get_channel : M Z := l_reg_read 5.

  Definition l_set_payload_length (len : Z) : M unit :=
    let v := Z.max 1 (Z.min 32 len) in
    l_reg_write 17 v ;;; l_reg_write 18 v ;;; l_reg_write 19 v ;;; l_reg_write 20 v ;;; l_reg_write 21 v ;;; l_reg_write 22 v.
  Definition l_get_payload_length : M Z := l_reg_read 17.

  Definition l_construct : M unit :=
    put init_drv ;;;
    l_reg_write 0 14 ;;;
    c <- l_reg_read 0 ;;
    if negb (Z.land c 3 =? 2) then raise RuntimeError
    else
      set_ce B false ;;;
      l_reg_write 3 3 ;;; l_reg_write 6 7 ;;; l_reg_write 2 0 ;;; l_reg_write 28 63 ;;; l_reg_write 1 63 ;;;
      l_reg_write 29 5 ;;; l_reg_write 4 95 ;;;
      set_p0 None ;;;
      l_set_channel 76 ;;; l_set_payload_length 32 ;;;
      l_flush_rx ;;; l_flush_tx ;;; l_clear_status_flags true true true.

  Definition l_get_address_length : M Z := r <- l_reg_read 3 ;; ret (r + 2).
  Definition l_set_address_length (len : Z) : M unit :=
    l_reg_write 3 (if (3 <=? len) && (len <=? 5) then len - 2 else 0).

  Definition l_open_tx_pipe (addr : list N) : M unit :=
    l_reg_write_bytes 10 addr ;;; l_reg_write_bytes 16 addr.

  Definition l_close_rx_pipe (p : Z) : M unit :=
    if (p <? 0) || (5 <? p) then raise ValueError
    else
      (if p =? 0 then set_p0 None else ret tt) ;;;      (* a closed pipe 0 is forgotten (fix C20) *)
      op <- l_reg_read 2 ;;
      if Z.testbit op p then l_reg_write 2 (Z.land op (Z.lnot (Z.shiftl 1 p))) else ret tt.

  Definition l_open_rx_pipe (p : Z) (addr : list N) : M unit :=
    if negb ((0 <=? p) && (p <=? 5)) then raise ValueError
    else match addr with
         | [] => raise ValueError
         | a0 :: _ =>
           (if p <? 2 then
              (if p =? 0 then set_p0 (Some addr) else ret tt) ;;;
              l_reg_write_bytes (10 + p) addr
            else l_reg_write (10 + p) (Z.of_N a0)) ;;;
           op <- l_reg_read 2 ;;
           l_reg_write 2 (Z.lor op (Z.shiftl 1 p))
         end.

  Definition l_get_listen : M bool := c <- l_reg_read 0 ;; ret (Z.land c 3 =? 3).
  Definition l_set_listen (is_rx : bool) : M unit :=
    set_ce B false ;;;
    c <- l_reg_read 0 ;;
    l_reg_write 0 (Z.lor (Z.land c 252) (2 + zb is_rx)) ;;;
    (if is_rx then
       set_ce B true ;;;
       d <- get ;;
       match d_pipe0_read_addr d with
       | Some a => l_reg_write_bytes 10 a
       | None => l_close_rx_pipe 0
       end
     else
       f <- l_reg_read 29 ;;
       (if Z.land f 6 =? 6 then l_flush_tx else ret tt) ;;;
       op <- l_reg_read 2 ;;
       l_reg_write 2 (Z.lor op 1)) ;;;
    sleep B 100000.

  Definition l_available : M bool :=
    l_update ;;; st <- status ;; ret (st_pipe_z st <? 6).

  Definition l_any : M Z :=
    f <- l_reg_read 29 ;;
    st <- status ;;
    if negb (Z.land f 4 =? 0) && (st_pipe_z st <? 6) then l_reg_read 96
    else
      st <- status ;;
      if st_pipe_z st <? 6 then l_reg_read (17 + st_pipe_z st) else ret 0.

  Definition l_read (length : option Z) : M (option (list N)) :=
    sz <- match length with Some l => ret l | None => l_any end ;;
    if sz =? 0 then ret None
    else if sz <? 0 then raise ValueError       (* bytearray(negative) *)
    else
      r <- l_reg_read_bytes 97 (Z.to_nat sz) ;;
      l_clear_status_flags true false false ;;;
      ret (Some r).

  Definition l_fifo (about_tx : bool) (check_empty : option bool) : M Z :=
    f <- l_reg_read 23 ;;
    match check_empty with
    | None => ret (Z.shiftr (Z.land f (if about_tx then 48 else 3)) (if about_tx then 4 else 0))
    | Some ce => ret (zb (negb (Z.land f (Z.shiftl (2 - zb ce) (if about_tx then 4 else 0)) =? 0)))
    end.

  Definition l_get_dynamic_payloads : M bool := f <- l_reg_read 29 ;; ret (Z.land f 4 =? 4).
  Definition l_set_dynamic_payloads (en : bool) : M unit :=
    f <- l_reg_read 29 ;;
    l_reg_write 29 (Z.lor (Z.land f 3) (Z.shiftl (zb en) 2)) ;;;
    l_reg_write 28 (if en then 63 else 0).

  (* write(buf, ask_no_ack, write_only) *)
  Definition l_write (buf : list N) (ask_no_ack write_only : bool) : M bool :=
    if Nat.eqb (length buf) 0 || Nat.ltb 32 (length buf) then raise ValueError
    else
      l_clear_status_flags true true true ;;;
      st <- status ;;
      if negb (Z.land st 1 =? 0) then ret false
      else
        config <- l_reg_read 0 ;;
        (if negb (Z.land config 3 =? 2) then l_reg_write 0 (Z.lor (Z.land config 124) 2) ;;; sleep B 150000 else ret tt) ;;;
        dyn <- l_get_dynamic_payloads ;;
        buf' <- (if dyn then ret buf
                 else pl <- l_get_payload_length ;;
                      ret (firstn (Z.to_nat pl) (buf ++ repeat 0%N (Z.to_nat pl - length buf)))) ;;
        l_reg_write_bytes (Z.lor 160 (Z.shiftl (zb ask_no_ack) 4)) buf' ;;;
        (if write_only then ret tt else set_ce B true) ;;;
        st <- status ;;
        ret (Z.land st 16 =? 0).

  (* while not self._status & 0x30: self.update() *)
  Fixpoint l_wait (fuel : nat) : M unit :=
    match fuel with
    | O => raise OutOfFuel
    | S k => st <- status ;; if Z.land st 48 =? 0 then l_update ;;; l_wait k else ret tt
    end.

  Definition sr_truthy (r : sendres) : bool :=
    match r with
    | SBool b => b
    | SPayload (Some p) => negb (Nat.eqb (length p) 0)
    | SPayload None => false
    end.

  Definition l_resend (send_only : bool) (fuel : nat) : M sendres :=
    e <- l_fifo true (Some true) ;;
    if negb (e =? 0) then ret (SBool false)
    else
      set_ce B false ;;;
      st <- status ;;
      (if negb send_only && (st_pipe_z st <? 6) then l_flush_rx else ret tt) ;;;
      l_clear_status_flags true true true ;;;
      set_ce B true ;;;
      l_update ;;;                      (* refresh the cached status (fix C20) *)
      l_wait fuel ;;;
      st <- status ;;
      if (Z.land st 96 =? 96) && negb send_only then r <- l_read None ;; ret (SPayload r)
      else ret (SBool (negb (Z.land st 32 =? 0))).

  Fixpoint l_retry (n : nat) (force_retry : Z) (result : sendres) (send_only : bool) (fuel : nat) : M sendres :=
    match n with
    | O => ret result
    | S k =>
      if negb (force_retry =? 0) && negb (sr_truthy result) then
        r <- l_resend send_only fuel ;; l_retry k (force_retry - 1) r send_only fuel
      else ret result
    end.

  (* send(buf, ...) for one buffer; the list form is l_send_list *)
  Definition l_send_one (buf : list N) (ask_no_ack : bool) (force_retry : Z) (send_only : bool) (fuel : nat) : M sendres :=
    set_ce B false ;;;
    st <- status ;;
    (if negb (Z.land st 16 =? 0) || negb (Z.land st 1 =? 0) then l_flush_tx else ret tt) ;;;
    st <- status ;;
    (if negb send_only && (st_pipe_z st <? 6) then l_flush_rx else ret tt) ;;;
    l_write buf ask_no_ack false ;;;
    l_wait fuel ;;;
    st <- status ;;
    r <- l_retry (Z.to_nat (Z.max 0 force_retry)) force_retry (SBool (negb (Z.land st 32 =? 0))) send_only fuel ;;
    st <- status ;;
    match r with
    | SBool true => if (Z.land st 96 =? 96) && negb send_only then p <- l_read None ;; ret (SPayload p) else ret r
    | _ => ret r        (* `result is True`: a forced resend() has already fetched its ACK payload (fix C20) *)
    end.

  Fixpoint l_send_each (bufs : list (list N)) (ask_no_ack : bool) (force_retry : Z) (send_only : bool) (fuel : nat)
    : M (list sendres) :=
    match bufs with
    | [] => ret []
    | b :: t => r <- l_send_one b ask_no_ack force_retry send_only fuel ;;
                rs <- l_send_each t ask_no_ack force_retry send_only fuel ;; ret (r :: rs)
    end.
  Definition l_send_list (bufs : list (list N)) (ask_no_ack : bool) (force_retry : Z) (send_only : bool) (fuel : nat)
    : M (list sendres) :=
    set_ce B false ;;; l_send_each bufs ask_no_ack force_retry send_only fuel.

  Definition l_interrupt_config (dr ds df : bool) : M unit :=
    c <- l_reg_read 0 ;;
    l_reg_write 0 (Z.lor (Z.land c 15)
                         (Z.lor (Z.lor (Z.shiftl (zb (negb dr)) 6) (Z.shiftl (zb (negb df)) 4)) (Z.shiftl (zb (negb ds)) 5))).

  Definition l_get_arc : M Z := r <- l_reg_read 4 ;; ret (Z.land r 15).
  Definition l_set_arc (cnt : Z) : M unit :=
    r <- l_reg_read 4 ;; l_reg_write 4 (Z.lor (Z.land r 240) (Z.max 0 (Z.min cnt 15))).
  Definition l_get_ard : M Z := r <- l_reg_read 4 ;; ret (Z.shiftr (Z.land r 240) 4 * 250 + 250).
  Definition l_set_ard (delta : Z) : M unit :=
    let dl := Z.max 250 (Z.min delta 4000) in
    r <- l_reg_read 4 ;; l_reg_write 4 (Z.lor (Z.land r 15) (Z.shiftl ((dl - 250) / 250) 4)).

  Definition l_get_ack : M bool :=
    f <- l_reg_read 29 ;;
    if Z.land f 6 =? 6 then d <- l_reg_read 28 ;; ret (negb (d =? 0)) else ret false.
  Definition l_set_ack (en : bool) : M unit :=
    f <- l_reg_read 29 ;;
    let features := Z.land f 5 in
    (if en then l_reg_write 28 63 else ret tt) ;;;
    l_reg_write 29 (Z.lor (if en then Z.lor features 4 else features) (if en then 2 else 0)).

  Definition l_load_ack (buf : list N) (p : Z) : M bool :=
    if (0 <=? p) && (p <=? 5) && negb (Nat.eqb (length buf) 0) && Nat.leb (length buf) 32 then
      f <- l_reg_read 29 ;;
      (if Z.land f 2 =? 0 then l_set_ack true else ret tt) ;;;
      st <- status ;;
      if Z.land st 1 =? 0 then l_reg_write_bytes (Z.lor 168 p) buf ;;; ret true else ret false
    else ret false.

  Definition l_get_data_rate : M Z :=
    r <- l_reg_read 6 ;;
    let s := Z.land r 40 in ret (if s =? 0 then 1 else if s =? 8 then 2 else 250).
  Definition l_set_data_rate (speed : Z) : M unit :=
    let s := if speed =? 1 then 0 else if speed =? 2 then 8 else 32 in
    r <- l_reg_read 6 ;; l_reg_write 6 (Z.lor (Z.land r 215) s).

  Definition l_get_power : M bool := c <- l_reg_read 0 ;; ret (negb (Z.land c 2 =? 0)).
  Definition l_set_power (on : bool) : M unit :=
    c <- l_reg_read 0 ;; l_reg_write 0 (Z.lor (Z.land c 125) (Z.shiftl (zb on) 1)) ;;; sleep B 150000.

  Definition l_get_pa_level : M Z := r <- l_reg_read 6 ;; ret ((3 - Z.shiftr (Z.land r 6) 1) * -6).
  Definition l_set_pa_level (pwr : Z) : M unit :=
    if negb ((pwr =? -18) || (pwr =? -12) || (pwr =? -6) || (pwr =? 0)) then raise ValueError
    else r <- l_reg_read 6 ;; l_reg_write 6 (Z.lor (Z.lor (Z.land r 248) ((3 - pwr / -6) * 2)) 1).

  Definition l_rpd : M bool := r <- l_reg_read 9 ;; ret (negb (r =? 0)).
End LiteDriver.

(* RF24.v -- model of circuitpython_nrf24l01/rf24.py (class RF24), method by method:
   same branches, same order of SPI transfers, same exceptions.  Every method is a
   state-monad computation over (driver shadow state, world); it talks to radio number
   `me` of the world only through World.w_spi / World.w_ce, exactly as the Python code
   talks to the chip only through its SPI bus and CE pin.
   Python ints are Z, bytes are N.  time.sleep / monotonic_ns are not modelled (an
   exchange is atomic in World.v); polling loops carry fuel and raise OutOfFuel when it
   runs out (excluded by the theorems).  Model only: no proofs here. *)
From Coq Require Import ZArith NArith List Bool.
From NRF Require Import Env.Radio Env.World.
Import ListNotations.
Local Open Scope Z_scope.

Inductive exn := ValueError | IndexError | TypeError | RuntimeError | NotImplementedError
               | StructError | AttributeError | OutOfFuel.

Inductive result (A : Type) := Ok (a : A) | Exn (e : exn).
Arguments Ok {A} a. Arguments Exn {A} e.

(* Python-level argument values the configuration API accepts *)
Inductive pyval := PInt (z : Z) | PBool (b : bool) | PList (l : list pyval) | PNone
                 | PBytes (b : list N) | PStr.

Record drv := mkDrv {
  d_in0 : N;                 (* self._in[0]: STATUS shifted out by the last transfer *)
  d_config : Z; d_rf_setup : Z; d_open_pipes : Z; d_dyn_pl : Z; d_aa : Z; d_features : Z;
  d_retry_setup : Z; d_channel : Z; d_addr_len : Z;
  d_pl_len : list Z;         (* 6 entries *)
  d_pipe0 : list N; d_pipe1 : list N;   (* self._pipes[0], [1]: 5-byte bytearrays *)
  d_pipes25 : list Z;        (* self._pipes[2..5]: ints *)
  d_tx_address : list N;
  d_pipe0_read_addr : option (list N);
  d_is_plus : bool
}.

(* what the driver can do to the outside world: one CSN-framed SPI transfer, the CE pin *)
Record busops (bus : Type) := mkBus {
  b_spi : bus -> list N -> bus * list N;
  b_ce : bus -> bool -> bus;
  b_now : bus -> bus * N;          (* time.monotonic_ns() *)
  b_sleep : bus -> N -> bus }.     (* time.sleep(), in ns *)
Arguments b_spi {bus}. Arguments b_ce {bus}. Arguments b_now {bus}. Arguments b_sleep {bus}.

(* radio number `me` of a world as a bus *)
Definition WB (me : nat) : busops world :=
  mkBus world (fun w m => w_spi w me m) (fun w v => w_ce w me v) w_now w_sleep.

Section Driver.
  Context {bus : Type} (B : busops bus).

  Definition M (A : Type) := drv -> bus -> result A * drv * bus.
  Definition ret {A} (a : A) : M A := fun d w => (Ok a, d, w).
  Definition raise {A} (e : exn) : M A := fun d w => (Exn e, d, w).
  Definition bind {A B} (m : M A) (f : A -> M B) : M B :=
    fun d w => match m d w with
               | (Ok a, d', w') => f a d' w'
               | (Exn e, d', w') => (Exn e, d', w')
               end.
  Notation "x <- m ;; f" := (bind m (fun x => f)) (at level 61, m at next level, right associativity).
  Notation "m ;;; f" := (bind m (fun _ => f)) (at level 61, right associativity).
  Definition get : M drv := fun d w => (Ok d, d, w).
  Definition put (d' : drv) : M unit := fun _ w => (Ok tt, d', w).
  Definition modify (f : drv -> drv) : M unit := fun d w => (Ok tt, f d, w).

  (* one SPI transfer: MISO[0] lands in self._in[0] *)
  Definition xfer (mosi : list N) : M (list N) :=
    fun d w =>
      let '(w', miso) := b_spi B w mosi in
      let d' := mkDrv (hd 0%N miso) (d_config d) (d_rf_setup d) (d_open_pipes d) (d_dyn_pl d) (d_aa d)
                      (d_features d) (d_retry_setup d) (d_channel d) (d_addr_len d) (d_pl_len d)
                      (d_pipe0 d) (d_pipe1 d) (d_pipes25 d) (d_tx_address d) (d_pipe0_read_addr d)
                      (d_is_plus d) in
      (Ok miso, d', w').
  Definition set_ce (v : bool) : M unit := fun d w => (Ok tt, d, b_ce B w v).
  Definition now : M N := fun d w => let '(w', t) := b_now B w in (Ok t, d, w').
  Definition sleep (ns : N) : M unit := fun d w => (Ok tt, d, b_sleep B w ns).
  (* delta_time = time.monotonic_ns() - start_timer
     if delta_time < 150000: time.sleep((150000 - delta_time) / 1000000000) *)
  Definition listen_delay (start : N) : M unit :=
    t <- now ;;
    let delta := (t - start)%N in
    if (delta <? 150000)%N then sleep (150000 - delta)%N else ret tt.

  (* self._out[i] = value raises ValueError unless 0 <= value <= 255 *)
  Definition as_byte (v : Z) : M N :=
    if (0 <=? v) && (v <=? 255) then ret (Z.to_N v) else raise ValueError.

  (* ---- register primitives (rf24.py:161-205) ---- *)
  Definition reg_read (reg : Z) : M Z :=
    r <- as_byte reg ;; miso <- xfer [r; 0%N] ;; ret (Z.of_N (nth 1 miso 0%N)).
  Definition reg_read_bytes (reg : Z) (n : nat) : M (list N) :=
    r <- as_byte reg ;; miso <- xfer (r :: repeat 0%N n) ;; ret (tl miso).
  Definition reg_write_bytes (reg : Z) (buf : list N) : M unit :=
    r <- as_byte (Z.lor 32 reg) ;; xfer (r :: buf) ;;; ret tt.
  Definition reg_write (reg : Z) (value : Z) : M unit :=
    r <- as_byte (Z.lor (if reg =? 80 then 0 else 32) reg) ;;
    v <- as_byte value ;; xfer [r; v] ;;; ret tt.
  Definition command (c : Z) : M unit := r <- as_byte c ;; xfer [r] ;;; ret tt.

  (* ---- field updates ---- *)
  Definition upd_config v d := mkDrv (d_in0 d) v (d_rf_setup d) (d_open_pipes d) (d_dyn_pl d) (d_aa d) (d_features d) (d_retry_setup d) (d_channel d) (d_addr_len d) (d_pl_len d) (d_pipe0 d) (d_pipe1 d) (d_pipes25 d) (d_tx_address d) (d_pipe0_read_addr d) (d_is_plus d).
  Definition upd_rf_setup v d := mkDrv (d_in0 d) (d_config d) v (d_open_pipes d) (d_dyn_pl d) (d_aa d) (d_features d) (d_retry_setup d) (d_channel d) (d_addr_len d) (d_pl_len d) (d_pipe0 d) (d_pipe1 d) (d_pipes25 d) (d_tx_address d) (d_pipe0_read_addr d) (d_is_plus d).
  Definition upd_open_pipes v d := mkDrv (d_in0 d) (d_config d) (d_rf_setup d) v (d_dyn_pl d) (d_aa d) (d_features d) (d_retry_setup d) (d_channel d) (d_addr_len d) (d_pl_len d) (d_pipe0 d) (d_pipe1 d) (d_pipes25 d) (d_tx_address d) (d_pipe0_read_addr d) (d_is_plus d).
  Definition upd_dyn_pl v d := mkDrv (d_in0 d) (d_config d) (d_rf_setup d) (d_open_pipes d) v (d_aa d) (d_features d) (d_retry_setup d) (d_channel d) (d_addr_len d) (d_pl_len d) (d_pipe0 d) (d_pipe1 d) (d_pipes25 d) (d_tx_address d) (d_pipe0_read_addr d) (d_is_plus d).
  Definition upd_aa v d := mkDrv (d_in0 d) (d_config d) (d_rf_setup d) (d_open_pipes d) (d_dyn_pl d) v (d_features d) (d_retry_setup d) (d_channel d) (d_addr_len d) (d_pl_len d) (d_pipe0 d) (d_pipe1 d) (d_pipes25 d) (d_tx_address d) (d_pipe0_read_addr d) (d_is_plus d).
  Definition upd_features v d := mkDrv (d_in0 d) (d_config d) (d_rf_setup d) (d_open_pipes d) (d_dyn_pl d) (d_aa d) v (d_retry_setup d) (d_channel d) (d_addr_len d) (d_pl_len d) (d_pipe0 d) (d_pipe1 d) (d_pipes25 d) (d_tx_address d) (d_pipe0_read_addr d) (d_is_plus d).
  Definition upd_retry v d := mkDrv (d_in0 d) (d_config d) (d_rf_setup d) (d_open_pipes d) (d_dyn_pl d) (d_aa d) (d_features d) v (d_channel d) (d_addr_len d) (d_pl_len d) (d_pipe0 d) (d_pipe1 d) (d_pipes25 d) (d_tx_address d) (d_pipe0_read_addr d) (d_is_plus d).
  Definition upd_channel v d := mkDrv (d_in0 d) (d_config d) (d_rf_setup d) (d_open_pipes d) (d_dyn_pl d) (d_aa d) (d_features d) (d_retry_setup d) v (d_addr_len d) (d_pl_len d) (d_pipe0 d) (d_pipe1 d) (d_pipes25 d) (d_tx_address d) (d_pipe0_read_addr d) (d_is_plus d).
  Definition upd_addr_len v d := mkDrv (d_in0 d) (d_config d) (d_rf_setup d) (d_open_pipes d) (d_dyn_pl d) (d_aa d) (d_features d) (d_retry_setup d) (d_channel d) v (d_pl_len d) (d_pipe0 d) (d_pipe1 d) (d_pipes25 d) (d_tx_address d) (d_pipe0_read_addr d) (d_is_plus d).
  Definition upd_pl_len v d := mkDrv (d_in0 d) (d_config d) (d_rf_setup d) (d_open_pipes d) (d_dyn_pl d) (d_aa d) (d_features d) (d_retry_setup d) (d_channel d) (d_addr_len d) v (d_pipe0 d) (d_pipe1 d) (d_pipes25 d) (d_tx_address d) (d_pipe0_read_addr d) (d_is_plus d).
  Definition upd_pipe0 v d := mkDrv (d_in0 d) (d_config d) (d_rf_setup d) (d_open_pipes d) (d_dyn_pl d) (d_aa d) (d_features d) (d_retry_setup d) (d_channel d) (d_addr_len d) (d_pl_len d) v (d_pipe1 d) (d_pipes25 d) (d_tx_address d) (d_pipe0_read_addr d) (d_is_plus d).
  Definition upd_pipe1 v d := mkDrv (d_in0 d) (d_config d) (d_rf_setup d) (d_open_pipes d) (d_dyn_pl d) (d_aa d) (d_features d) (d_retry_setup d) (d_channel d) (d_addr_len d) (d_pl_len d) (d_pipe0 d) v (d_pipes25 d) (d_tx_address d) (d_pipe0_read_addr d) (d_is_plus d).
  Definition upd_pipes25 v d := mkDrv (d_in0 d) (d_config d) (d_rf_setup d) (d_open_pipes d) (d_dyn_pl d) (d_aa d) (d_features d) (d_retry_setup d) (d_channel d) (d_addr_len d) (d_pl_len d) (d_pipe0 d) (d_pipe1 d) v (d_tx_address d) (d_pipe0_read_addr d) (d_is_plus d).
  Definition upd_tx_address v d := mkDrv (d_in0 d) (d_config d) (d_rf_setup d) (d_open_pipes d) (d_dyn_pl d) (d_aa d) (d_features d) (d_retry_setup d) (d_channel d) (d_addr_len d) (d_pl_len d) (d_pipe0 d) (d_pipe1 d) (d_pipes25 d) v (d_pipe0_read_addr d) (d_is_plus d).
  Definition upd_p0read v d := mkDrv (d_in0 d) (d_config d) (d_rf_setup d) (d_open_pipes d) (d_dyn_pl d) (d_aa d) (d_features d) (d_retry_setup d) (d_channel d) (d_addr_len d) (d_pl_len d) (d_pipe0 d) (d_pipe1 d) (d_pipes25 d) (d_tx_address d) v (d_is_plus d).
  Definition upd_is_plus v d := mkDrv (d_in0 d) (d_config d) (d_rf_setup d) (d_open_pipes d) (d_dyn_pl d) (d_aa d) (d_features d) (d_retry_setup d) (d_channel d) (d_addr_len d) (d_pl_len d) (d_pipe0 d) (d_pipe1 d) (d_pipes25 d) (d_tx_address d) (d_pipe0_read_addr d) v.

  Definition zb (b : bool) : Z := if b then 1 else 0.
  Definition truthy (z : Z) : bool := negb (z =? 0).
  Definition st_bit (d : drv) (mask : N) : bool := negb (N.land (d_in0 d) mask =? 0)%N.
  Definition st_pipe (d : drv) : N := N.land (N.shiftr (d_in0 d) 1) 7.

  (* buf[i] = val for i, val in enumerate(address): IndexError when address is longer *)
  Definition overlay_into (address old : list N) : M (list N) :=
    if Nat.leb (length address) (length old)
    then ret (address ++ skipn (length address) old) else raise IndexError.

  (* ---- status / FIFO accessors ---- *)
  Definition update : M bool := command 255 ;;; ret true.
  Definition clear_status_flags (dr ds df : bool) : M unit :=
    reg_write 7 (Z.lor (Z.lor (Z.shiftl (zb dr) 6) (Z.shiftl (zb ds) 5)) (Z.shiftl (zb df) 4)).
  Definition flush_rx : M unit := command 226.
  Definition flush_tx : M unit := command 225.
  Definition available : M bool :=
    update ;;; d <- get ;; ret (N.ltb (st_pipe d) 6).
  Definition pl_len_at (d : drv) (i : nat) : Z := nth i (d_pl_len d) 0.
  Definition any : M Z :=
    last_dyn <- reg_read 96 ;;
    d <- get ;;
    if N.ltb (st_pipe d) 6 then
      if truthy (Z.land (d_features d) 4) then ret last_dyn
      else ret (pl_len_at d (N.to_nat (st_pipe d)))
    else ret 0.
  (* read(length=None): None is modelled as the empty option *)
  Definition read (length : option Z) : M (option (list N)) :=
    n <- match length with Some l => ret l | None => any end ;;
    if n =? 0 then ret None
    else
      (* negative or > 96 lengths make the slice arithmetic of _reg_read_bytes misbehave;
         the API documents 1..32, the model covers 1..96 and raises otherwise *)
      if (0 <? n) && (n <=? 96) then
        b <- reg_read_bytes 97 (Z.to_nat n) ;;
        clear_status_flags true false false ;;; ret (Some b)
      else raise ValueError.
  Definition tx_full_attr : M bool := d <- get ;; ret (st_bit d 1).
  Definition pipe_attr : M (option N) :=
    d <- get ;; ret (if N.leb (st_pipe d) 5 then Some (st_pipe d) else None).
  Definition irq_dr : M bool := d <- get ;; ret (st_bit d 64).
  Definition irq_ds : M bool := d <- get ;; ret (st_bit d 32).
  Definition irq_df : M bool := d <- get ;; ret (st_bit d 16).
  Definition fifo (about_tx : bool) (check_empty : option bool) : M Z :=
    f <- reg_read 23 ;;
    match check_empty with
    | None => ret (Z.shiftr (Z.land f (if about_tx then 48 else 3)) (4 * zb about_tx))
    | Some ce => ret (zb (truthy (Z.land f (Z.shiftl (2 - zb ce) (4 * zb about_tx)))))
    end.
  Definition last_tx_arc : M Z := v <- reg_read 8 ;; ret (Z.land v 15).
  Definition rpd : M bool := v <- reg_read 9 ;; ret (truthy v).
  Definition interrupt_config (dr ds df : bool) : M unit :=
    c <- reg_read 0 ;;
    let c1 := Z.lor (Z.land c 15) (Z.shiftl (zb (negb dr)) 6) in
    let c2 := Z.lor c1 (Z.lor (Z.shiftl (zb (negb df)) 4) (Z.shiftl (zb (negb ds)) 5)) in
    modify (upd_config c2) ;;; reg_write 0 c2.

  (* ---- addresses and pipes ---- *)
  Definition get_address_length : M Z :=
    v <- reg_read 3 ;; modify (upd_addr_len (v + 2)) ;;; ret (v + 2).
  Definition set_address_length (len : Z) : M unit :=
    let a := if (3 <=? len) && (len <=? 5) then len else 2 in
    modify (upd_addr_len a) ;;; reg_write 3 (a - 2).

  Definition bytes_eqb := list_eqb.
  Definition opt_bytes_neq (o : option (list N)) (b : list N) : bool :=
    match o with None => true | Some a => negb (bytes_eqb a b) end.

  Definition open_tx_pipe (address : list N) : M unit :=
    d <- get ;;
    ta <- overlay_into address (d_tx_address d) ;;
    modify (upd_tx_address ta) ;;; reg_write_bytes 16 address ;;;
    d <- get ;;
    (if negb (bytes_eqb (d_pipe0 d) (d_tx_address d)) && truthy (Z.land (d_aa d) 1) then
       p0 <- overlay_into (d_tx_address d) (d_pipe0 d) ;;
       modify (upd_pipe0 p0) ;;; reg_write_bytes 10 (d_tx_address d)
     else ret tt) ;;;
    d <- get ;;
    if truthy (Z.land (d_aa d) 1) && negb (truthy (Z.land (d_config d) 1))
       && negb (truthy (Z.land (d_open_pipes d) 1)) then
      let v := Z.lor (d_open_pipes d) 1 in
      modify (upd_open_pipes v) ;;; reg_write 2 v
    else ret tt.

  Definition close_rx_pipe (pipe : Z) : M unit :=
    if (pipe <? 0) || (5 <? pipe) then raise IndexError
    else
      op <- reg_read 2 ;;
      let v := Z.land op (Z.lnot (Z.shiftl 1 pipe)) in
      modify (upd_open_pipes v) ;;;
      (if pipe =? 0 then modify (upd_p0read None) else ret tt) ;;;
      reg_write 2 v.

  Definition open_rx_pipe (pipe : Z) (address : list N) : M unit :=
    if negb ((0 <=? pipe) && (pipe <=? 5)) then raise IndexError
    else match address with
    | [] => raise ValueError
    | a0 :: _ =>
      (if pipe <? 2 then
         d <- get ;;
         (if pipe =? 0 then
            p <- overlay_into address (d_pipe0 d) ;; modify (upd_pipe0 p) ;;; modify (upd_p0read (Some p))
          else p <- overlay_into address (d_pipe1 d) ;; modify (upd_pipe1 p)) ;;;
         reg_write_bytes (10 + pipe) address
       else
         d <- get ;;
         modify (upd_pipes25 (firstn (Z.to_nat (pipe - 2)) (d_pipes25 d) ++ [Z.of_N a0]
                              ++ skipn (Z.to_nat (pipe - 2) + 1) (d_pipes25 d))) ;;;
         reg_write (10 + pipe) (Z.of_N a0)) ;;;
      op <- reg_read 2 ;;
      let v := Z.lor op (Z.shiftl 1 pipe) in
      modify (upd_open_pipes v) ;;; reg_write 2 v
    end.

  (* address(index): -1 (or any negative) = TX address *)
  Definition address (index : Z) : M (list N) :=
    if 5 <? index then raise IndexError
    else
      d <- get ;;
      if index <? 0 then ret (d_tx_address d)
      else if index =? 0 then ret (d_pipe0 d)
      else if index =? 1 then ret (d_pipe1 d)
      else
        b <- as_byte (nth (Z.to_nat (index - 2)) (d_pipes25 d) 0) ;;   (* bytes([x]) *)
        ret (b :: tl (d_pipe1 d)).

  (* ---- power and role ---- *)
  Definition get_power : M bool :=
    c <- reg_read 0 ;; modify (upd_config c) ;;; ret (truthy (Z.land c 2)).
  Definition set_power (on : bool) : M unit :=
    c <- reg_read 0 ;;
    let v := Z.lor (Z.land c 125) (Z.shiftl (zb on) 1) in
    modify (upd_config v) ;;; reg_write 0 v ;;; sleep 150000.
  Definition get_listen : M bool :=
    p <- get_power ;; d <- get ;; ret (p && truthy (Z.land (d_config d) 1)).
  Definition set_listen (is_rx : bool) : M unit :=
    set_ce false ;;;
    d <- get ;;
    let c := Z.lor (Z.land (d_config d) 252) (2 + zb is_rx) in
    modify (upd_config c) ;;; reg_write 0 c ;;;
    start <- now ;;
    (if is_rx then
      set_ce true ;;;
      d <- get ;;
      match d_pipe0_read_addr d with
      | Some a =>
        if negb (bytes_eqb a (d_pipe0 d)) then
          p <- overlay_into a (d_pipe0 d) ;; modify (upd_pipe0 p) ;;; reg_write_bytes 10 a
        else ret tt
      | None =>
        if truthy (Z.land (d_open_pipes d) 1) then
          let v := Z.land (d_open_pipes d) 62 in
          modify (upd_open_pipes v) ;;; reg_write 2 v
        else ret tt
      end
    else
      d <- get ;;
      (if (Z.land (d_features d) 6 =? 6) && truthy (Z.land (Z.land (d_aa d) (d_dyn_pl d)) 1)
       then flush_tx else ret tt) ;;;
      d <- get ;;
      if truthy (Z.land (d_aa d) 1) && negb (truthy (Z.land (d_open_pipes d) 1)) then
        let v := Z.lor (d_open_pipes d) 1 in
        modify (upd_open_pipes v) ;;; reg_write 2 v
      else ret tt) ;;;
    listen_delay start.

  (* ---- payload length / dynamic payloads / auto-ack ---- *)
  Definition set_nth_z (l : list Z) (i : nat) (v : Z) : list Z :=
    firstn i l ++ [v] ++ skipn (i + 1) l.

  (* payload_length = [v0..] : pipes with val <= 0 or index > 5 are skipped *)
  Fixpoint pl_list_loop (vals : list Z) (i : nat) : M unit :=
    match vals with
    | [] => ret tt
    | v :: t =>
      (if Nat.ltb i 6 && (0 <? v) then
         let x := Z.min 32 v in
         d <- get ;; modify (upd_pl_len (set_nth_z (d_pl_len d) i x)) ;;;
         reg_write (17 + Z.of_nat i) x
       else ret tt) ;;; pl_list_loop t (S i)
    end.
  Definition set_payload_length_attr (length : pyval) : M unit :=
    match length with
    | PInt z => pl_list_loop (repeat (Z.max 1 z) 6) 0
    | PBool b => pl_list_loop (repeat (Z.max 1 (zb b)) 6) 0   (* bool is an int *)
    | PList l =>
      (fix conv (l : list pyval) (acc : list Z) : M unit :=
         match l with
         | [] => pl_list_loop (rev acc) 0
         | PInt z :: t => conv t (z :: acc)
         | PBool b :: t => conv t (zb b :: acc)
         | _ => raise TypeError
         end) l []
    | _ => raise ValueError
    end.
  Definition get_payload_length_attr : M Z := d <- get ;; ret (pl_len_at d 0).
  (* set_payload_length(length, pipe_number): Python list indexing for pipe_number *)
  Definition py_index (n : Z) (i : Z) : option nat :=
    if (0 <=? i) && (i <? n) then Some (Z.to_nat i)
    else if (i <? 0) && (0 <=? i + n) then Some (Z.to_nat (i + n))
    else None.
  Definition set_payload_length (length : Z) (pipe : option Z) : M unit :=
    match pipe with
    | None => set_payload_length_attr (PInt length)
    | Some p =>
      if negb ((0 <=? p) && (p <=? 5)) then raise IndexError
      else
        let x := Z.max 1 (Z.min 32 length) in
        d <- get ;; modify (upd_pl_len (set_nth_z (d_pl_len d) (Z.to_nat p) x)) ;;;
        reg_write (17 + p) x
    end.
  Definition get_payload_length (pipe : Z) : M Z :=
    if negb ((0 <=? pipe) && (pipe <=? 5)) then raise IndexError
    else
      v <- reg_read (17 + pipe) ;;
      d <- get ;; modify (upd_pl_len (set_nth_z (d_pl_len d) (Z.to_nat pipe) v)) ;;; ret v.

  (* the per-pipe list form shared by dynamic_payloads and auto_ack:
       for i, val in enumerate(enable): if i < 6 and val >= 0: bit i := bool(val) *)
  Fixpoint bits_loop (vals : list pyval) (i : nat) (acc : Z) : result Z :=
    match vals with
    | [] => Ok acc
    | v :: t =>
      match v with
      | PInt z =>
        bits_loop t (S i)
          (if Nat.ltb i 6 && (0 <=? z)
           then Z.lor (Z.land acc (Z.lnot (Z.shiftl 1 (Z.of_nat i)))) (Z.shiftl (zb (truthy z)) (Z.of_nat i))
           else acc)
      | PBool b =>
        bits_loop t (S i)
          (if Nat.ltb i 6
           then Z.lor (Z.land acc (Z.lnot (Z.shiftl 1 (Z.of_nat i)))) (Z.shiftl (zb b) (Z.of_nat i))
           else acc)
      | _ => Exn TypeError
      end
    end.

  Definition set_dynamic_payloads_attr (enable : pyval) : M unit :=
    f <- reg_read 29 ;; modify (upd_features f) ;;;
    (match enable with
     | PBool b => modify (upd_dyn_pl (if b then 63 else 0))
     | PInt z => modify (upd_dyn_pl (Z.land 63 z))
     | PList l =>
       cur <- reg_read 28 ;; modify (upd_dyn_pl cur) ;;;
       match bits_loop l 0 cur with
       | Ok v => modify (upd_dyn_pl v)
       | Exn e => raise e
       end
     | _ => raise ValueError
     end) ;;;
    d <- get ;;
    let f' := Z.lor (Z.land (d_features d) 3) (Z.shiftl (zb (truthy (d_dyn_pl d))) 2) in
    modify (upd_features f') ;;; reg_write 29 f' ;;; reg_write 28 (d_dyn_pl d).
  Definition get_dynamic_payloads_attr : M Z :=
    v <- reg_read 28 ;; modify (upd_dyn_pl v) ;;; ret v.
  Definition set_dynamic_payloads (enable : bool) (pipe : option Z) : M unit :=
    match pipe with
    | None => set_dynamic_payloads_attr (PBool enable)
    | Some p =>
      if (0 <=? p) && (p <=? 5) then
        cur <- reg_read 28 ;;
        let v := Z.land cur (Z.lnot (Z.shiftl 1 p)) in
        modify (upd_dyn_pl v) ;;;
        set_dynamic_payloads_attr (PInt (Z.lor v (Z.shiftl (zb enable) p)))
      else raise IndexError
    end.
  Definition get_dynamic_payloads (pipe : Z) : M bool :=
    if (0 <=? pipe) && (pipe <=? 5) then
      v <- get_dynamic_payloads_attr ;; ret (truthy (Z.land v (Z.shiftl 1 pipe)))
    else raise IndexError.

  Definition set_auto_ack_attr (enable : pyval) : M unit :=
    (match enable with
     | PBool b => modify (upd_aa (if b then 63 else 0))
     | PInt z => modify (upd_aa (Z.land 63 z))
     | PList l =>
       cur <- reg_read 1 ;; modify (upd_aa cur) ;;;
       match bits_loop l 0 cur with
       | Ok v => modify (upd_aa v)
       | Exn e => raise e
       end
     | _ => raise ValueError
     end) ;;;
    d <- get ;; reg_write 1 (d_aa d).
  Definition get_auto_ack_attr : M Z := v <- reg_read 1 ;; modify (upd_aa v) ;;; ret v.
  Definition set_auto_ack (enable : bool) (pipe : option Z) : M unit :=
    match pipe with
    | None => set_auto_ack_attr (PBool enable)
    | Some p =>
      if (0 <=? p) && (p <=? 5) then
        cur <- reg_read 1 ;;
        let v := Z.land cur (Z.lnot (Z.shiftl 1 p)) in
        modify (upd_aa v) ;;; set_auto_ack_attr (PInt (Z.lor v (Z.shiftl (zb enable) p)))
      else raise IndexError
    end.
  Definition get_auto_ack (pipe : Z) : M bool :=
    if (0 <=? pipe) && (pipe <=? 5) then
      v <- get_auto_ack_attr ;; ret (truthy (Z.land v (Z.shiftl 1 pipe)))
    else raise IndexError.

  Definition ack_enabled (d : drv) : bool :=
    (Z.land (d_features d) 6 =? 6) && truthy (Z.land (Z.land (d_aa d) (d_dyn_pl d)) 1).
  Definition get_ack : M bool :=
    a <- reg_read 1 ;; modify (upd_aa a) ;;;
    p <- reg_read 28 ;; modify (upd_dyn_pl p) ;;;
    f <- reg_read 29 ;; modify (upd_features f) ;;;
    d <- get ;; ret (ack_enabled d).
  Definition set_ack (enable : bool) : M unit :=
    (if enable then
       set_auto_ack true (Some 0) ;;;
       d <- get ;;
       let p := Z.lor (Z.land (d_dyn_pl d) 62) 1 in
       modify (upd_dyn_pl p) ;;; reg_write 28 p ;;;
       d <- get ;; modify (upd_features (Z.lor (d_features d) 4))
     else ret tt) ;;;
    d <- get ;;
    let f := Z.lor (Z.land (d_features d) 5) (Z.shiftl (zb enable) 1) in
    modify (upd_features f) ;;; reg_write 29 f.
  Definition load_ack (buf : list N) (pipe : Z) : M bool :=
    if (pipe <? 0) || (5 <? pipe) then raise IndexError
    else if Nat.eqb (length buf) 0 || Nat.ltb 32 (length buf) then raise ValueError
    else
      d <- get ;;
      (if negb (ack_enabled d) then set_ack true else ret tt) ;;;
      d <- get ;;
      if negb (st_bit d 1) then reg_write_bytes (Z.lor 168 pipe) buf ;;; ret true
      else ret false.
  Definition get_allow_ask_no_ack : M bool :=
    f <- reg_read 29 ;; modify (upd_features f) ;;; ret (truthy (Z.land f 1)).
  Definition set_allow_ask_no_ack (enable : bool) : M unit :=
    f <- reg_read 29 ;;
    let v := Z.lor (Z.land f 6) (zb enable) in
    modify (upd_features v) ;;; reg_write 29 v.

  (* ---- RF setup ---- *)
  Definition get_data_rate : M Z :=
    v <- reg_read 6 ;; modify (upd_rf_setup v) ;;;
    let b := Z.land v 40 in
    ret (if b =? 0 then 1 else if b =? 8 then 2 else 250).
  Definition set_data_rate (speed : Z) : M unit :=
    if negb ((speed =? 1) || (speed =? 2) || (speed =? 250)) then raise ValueError
    else
      let s := if speed =? 1 then 0 else if speed =? 2 then 8 else 32 in
      v <- reg_read 6 ;;
      let x := Z.lor (Z.land v 215) s in
      modify (upd_rf_setup x) ;;; reg_write 6 x.
  Definition get_channel : M Z := reg_read 5.
  Definition set_channel (ch : Z) : M unit :=
    if negb ((0 <=? ch) && (ch <=? 125)) then raise ValueError
    else modify (upd_channel ch) ;;; reg_write 5 ch.
  Definition get_crc : M Z :=
    c <- reg_read 0 ;; modify (upd_config c) ;;;
    a <- reg_read 1 ;; modify (upd_aa a) ;;;
    if truthy a then ret (if truthy (Z.land c 4) then 2 else 1)
    else ret (Z.max 0 (Z.shiftr (Z.land c 12) 2 - 1)).
  Definition set_crc (length : Z) : M unit :=
    let l := Z.min 2 (Z.max 0 length) in
    let bits := if l =? 0 then 0 else Z.shiftl (l + 1) 2 in
    d <- get ;;
    let c := Z.lor (Z.land (d_config d) 115) bits in
    modify (upd_config c) ;;; reg_write 0 c.
  Definition get_pa_level : M Z :=
    v <- reg_read 6 ;; modify (upd_rf_setup v) ;;;
    ret ((3 - Z.shiftr (Z.land v 6) 1) * -6).
  Definition valid_pa (p : Z) : bool := (p =? -18) || (p =? -12) || (p =? -6) || (p =? 0).
  (* pa_level = power | (power, lna) *)
  Definition set_pa_level (power : pyval) : M unit :=
    let '(lna, pw) :=
        match power with
        | PList (PInt p :: PInt l :: _) => (truthy l, Some p)
        | PList (PInt p :: PBool l :: _) => (l, Some p)
        | PList (PBool p :: PInt l :: _) => (truthy l, Some (zb p))
        | PList (PBool p :: PBool l :: _) => (l, Some (zb p))
        | PInt p => (true, Some p)
        | PBool p => (true, Some (zb p))
        | _ => (true, None)
        end in
    match pw with
    | None => raise ValueError
    | Some p =>
      if negb (valid_pa p) then raise ValueError
      else
        let pwr := (3 - p / -6) * 2 in
        d <- get ;;
        let v := Z.lor (Z.lor (Z.land (d_rf_setup d) 248) pwr) (zb lna) in
        modify (upd_rf_setup v) ;;; reg_write 6 v
    end.
  Definition get_is_lna_enabled : M bool :=
    v <- reg_read 6 ;; modify (upd_rf_setup v) ;;; ret (truthy (Z.land v 1)).

  (* ---- auto retries ---- *)
  Definition get_arc : M Z :=
    v <- reg_read 4 ;; modify (upd_retry v) ;;; ret (Z.land v 15).
  Definition set_arc (count : Z) : M unit :=
    let c := Z.max 0 (Z.min count 15) in
    d <- get ;;
    let v := Z.lor (Z.land (d_retry_setup d) 240) c in
    modify (upd_retry v) ;;; reg_write 4 v.
  Definition get_ard : M Z :=
    v <- reg_read 4 ;; modify (upd_retry v) ;;; ret (Z.shiftr (Z.land v 240) 4 * 250 + 250).
  Definition ard_bits (delta : Z) : Z :=
    Z.shiftl ((Z.max 250 (Z.min delta 4000) - 250) / 250) 4.
  Definition set_ard (delta : Z) : M unit :=
    d <- get ;;
    let v := Z.lor (Z.land (d_retry_setup d) 15) (ard_bits delta) in
    modify (upd_retry v) ;;; reg_write 4 v.
  Definition set_auto_retries (delay count : Z) : M unit :=
    let v := Z.lor (ard_bits delay) (Z.max 0 (Z.min count 15)) in
    modify (upd_retry v) ;;; reg_write 4 v.
  Definition get_auto_retries : M (Z * Z) :=
    a <- get_ard ;; d <- get ;; ret (a, Z.land (d_retry_setup d) 15).

  (* ---- context manager ---- *)
  Fixpoint enter_pl (i : nat) (n : nat) : M unit :=
    match n with
    | O => ret tt
    | S k =>
      d <- get ;;
      (if Nat.ltb i 2 then
         reg_write_bytes (10 + Z.of_nat i) (if Nat.eqb i 0 then d_pipe0 d else d_pipe1 d)
       else reg_write (10 + Z.of_nat i) (nth (i - 2) (d_pipes25 d) 0)) ;;;
      set_payload_length (pl_len_at d i) (Some (Z.of_nat i)) ;;;
      enter_pl (S i) k
    end.
  Definition enter : M unit :=
    set_ce false ;;;
    d <- get ;;
    let c := Z.lor (d_config d) 2 in
    modify (upd_config c) ;;; reg_write 0 c ;;;
    reg_write 6 (d_rf_setup d) ;;;
    reg_write 2 (d_open_pipes d) ;;;
    reg_write 28 (d_dyn_pl d) ;;;
    reg_write 1 (d_aa d) ;;;
    reg_write 29 (d_features d) ;;;
    reg_write 4 (d_retry_setup d) ;;;
    enter_pl 0 6 ;;;
    d <- get ;;
    reg_write_bytes 16 (d_tx_address d) ;;;
    reg_write 5 (d_channel d) ;;;
    reg_write 3 (d_addr_len d - 2).
  Definition exit : M unit :=
    set_ce false ;;;
    d <- get ;;
    let c := Z.land (d_config d) 125 in
    modify (upd_config c) ;;; reg_write 0 c ;;; sleep 150000.

  (* ---- constructor (rf24.py:60-121) ---- *)
  Definition init_drv : drv :=
    mkDrv 0%N 14 7 0 63 63 5 95 76 5 (repeat 32 6) (repeat 0%N 5) (repeat 0%N 5) (repeat 0 4)
          (repeat 0%N 5) None false.
  Definition construct : M unit :=
    put init_drv ;;;
    set_ce false ;;;
    reg_write 0 14 ;;;
    c <- reg_read 0 ;;
    if negb (c =? 14) then raise RuntimeError
    else
      p0 <- reg_read_bytes 10 5 ;; modify (upd_pipe0 p0) ;;;
      p1 <- reg_read_bytes 11 5 ;; modify (upd_pipe1 p1) ;;;
      a <- reg_read 12 ;; b <- reg_read 13 ;; c2 <- reg_read 14 ;; e <- reg_read 15 ;;
      modify (upd_pipes25 [a; b; c2; e]) ;;;
      f0 <- reg_read 29 ;;
      reg_write 80 115 ;;;
      f1 <- reg_read 29 ;;
      (if f0 =? f1 then modify (upd_is_plus true)
       else if f1 =? 0 then reg_write 80 115 else ret tt) ;;;
      ta <- reg_read_bytes 16 5 ;; modify (upd_tx_address ta) ;;;
      enter ;;; flush_rx ;;; flush_tx ;;; clear_status_flags true true true ;;; exit.

  (* ---- transmitting ---- *)
  (* write(buf, ask_no_ack, write_only); the caller's buffer is not part of this model
     (aliasing of the caller's bytearray is decided by the correspondence check) *)
  Definition norm_payload (d : drv) (buf : list N) : result (list N) :=
    if negb (truthy (Z.land (d_dyn_pl d) 1)) then
      let pl := pl_len_at d 0 in
      Ok (firstn (Z.to_nat pl) (buf ++ repeat 0%N (Z.to_nat pl - length buf)))
    else if Nat.eqb (length buf) 0 || Nat.ltb 32 (length buf) then Exn ValueError
    else Ok buf.
  Definition write (buf : list N) (ask_no_ack write_only : bool) : M bool :=
    d <- get ;;
    match norm_payload d buf with
    | Exn e => raise e
    | Ok b =>
      clear_status_flags true true true ;;;
      d <- get ;;
      if st_bit d 1 then ret false
      else
        reg_write_bytes (Z.lor 160 (Z.shiftl (zb ask_no_ack) 4)) b ;;;
        (if write_only then ret tt else set_ce true) ;;; ret true
    end.

  (* while not self._in[0] & 0x30: self.update() *)
  Fixpoint wait_flags (fuel : nat) : M unit :=
    d <- get ;;
    if st_bit d 48 then ret tt
    else match fuel with
         | O => raise OutOfFuel
         | S k => update ;;; wait_flags k
         end.

  Inductive sendres := SBool (b : bool) | SPayload (p : option (list N)).

  Definition resend (send_only : bool) (fuel : nat) : M sendres :=
    e <- fifo true (Some true) ;;
    if truthy e then ret (SBool false)
    else
      set_ce false ;;;
      d <- get ;;
      (if negb send_only && N.ltb (st_pipe d) 6 then flush_rx else ret tt) ;;;     (* (status >> 1) & 7 < 6  (fix C02) *)
      clear_status_flags true true true ;;;
      set_ce true ;;;
      update ;;;
      wait_flags fuel ;;;
      d <- get ;;
      let result := st_bit d 32 in
      if result && st_bit d 64 && negb send_only then
        p <- read None ;; ret (SPayload p)
      else ret (SBool result).

  Fixpoint force_retries (n : nat) (send_only : bool) (fuel : nat) (cur : sendres) : M sendres :=
    match n with
    | O => ret cur
    | S k =>
      match cur with
      | SBool false =>
        r <- resend send_only fuel ;; force_retries k send_only fuel r
      | SPayload None =>      (* `not None` is true as well *)
        r <- resend send_only fuel ;; force_retries k send_only fuel r
      | _ => ret cur
      end
    end.

  Definition send (buf : list N) (ask_no_ack : bool) (force_retry : nat) (send_only : bool)
             (fuel : nat) : M sendres :=
    set_ce false ;;;
    d <- get ;;
    (if st_bit d 16 || st_bit d 1 then flush_tx else ret tt) ;;;
    d <- get ;;
    (if negb send_only && N.ltb (st_pipe d) 6 then flush_rx else ret tt) ;;;
    write buf ask_no_ack false ;;;
    wait_flags fuel ;;;
    d <- get ;;
    r <- force_retries force_retry send_only fuel (SBool (st_bit d 32)) ;;
    d <- get ;;
    match r with
    | SBool true =>
      if (N.land (d_in0 d) 96 =? 96)%N && negb send_only then
        p <- read None ;; ret (SPayload p)
      else ret r
    | _ => ret r
    end.

  Fixpoint send_list (bufs : list (list N)) (ask_no_ack : bool) (force_retry : nat)
           (send_only : bool) (fuel : nat) : M (list sendres) :=
    match bufs with
    | [] => ret []
    | b :: t =>
      r <- send b ask_no_ack force_retry send_only fuel ;;
      rs <- send_list t ask_no_ack force_retry send_only fuel ;;
      ret (r :: rs)
    end.

End Driver.

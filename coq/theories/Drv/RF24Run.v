(* RF24Run.v -- int-stream runner for the RF24 driver model on the world model: decodes
   an operation sequence, runs it, prints result + radio snapshots + driver shadow after
   every call.  Model-side glue: no proofs. *)
From Coq Require Import ZArith NArith List Bool.
From NRF Require Import Base.Wire Env.Radio Env.World Drv.RF24.
Import ListNotations.
Local Open Scope Z_scope.

(* ---- snapshots ---- *)
Definition put_nbytes (b : list N) : list Z := put_bytes b.

Definition snap_radio (r : radio) : list Z :=
  map (fun a => Z.of_N (hd 0%N (read_reg r (N.of_nat a) 1))) (seq 0 30)
  ++ map Z.of_N (addr_p0 r) ++ map Z.of_N (addr_p1 r) ++ map Z.of_N (addr_tx r)
  ++ [zbool (ce r); zbool (irq_asserted r)]
  ++ Z.of_nat (length (rx_fifo r)) :: flat_map (fun e => Z.of_N (fst e) :: put_nbytes (snd e)) (rx_fifo r)
  ++ Z.of_nat (length (tx_fifo r))
     :: flat_map (fun e => (match tx_kind e with TxNormal => 0 | TxNoAck => 1
                                            | TxAckPl p => 10 + Z.of_N p end)
                           :: put_nbytes (tx_data e)) (tx_fifo r).

Definition put_optbytesZ (o : option (list N)) : list Z :=
  match o with None => [0] | Some b => 1 :: put_nbytes b end.

Definition dump_drv (d : drv) : list Z :=
  [Z.of_N (d_in0 d); d_config d; d_rf_setup d; d_open_pipes d; d_dyn_pl d; d_aa d; d_features d;
   d_retry_setup d; d_channel d; d_addr_len d] ++ d_pl_len d
  ++ put_nbytes (d_pipe0 d) ++ put_nbytes (d_pipe1 d) ++ d_pipes25 d ++ put_nbytes (d_tx_address d)
  ++ put_optbytesZ (d_pipe0_read_addr d) ++ [zbool (d_is_plus d)].

Definition put_airlog (l : airlog) : list Z :=
  [Z.of_nat (l_from l)] ++ put_nbytes (l_addr l) ++ put_nbytes (l_data l)
  ++ [zbool (l_noack l); Z.of_N (l_attempts l); zbool (l_ok l); Z.of_nat (length (l_receivers l))]
  ++ flat_map (fun e => [Z.of_nat (fst e); Z.of_N (snd e)]) (l_receivers l).

(* ---- decoding ---- *)
Fixpoint take_pyval (fuel : nat) (s : list Z) : option (pyval * list Z) :=
  match fuel with
  | O => None
  | S k =>
    match s with
    | 0 :: z :: t => Some (PInt z, t)
    | 1 :: b :: t => Some (PBool (boolz b), t)
    | 2 :: n :: t =>
      (fix items (m : nat) (s : list Z) (acc : list pyval) : option (pyval * list Z) :=
         match m with
         | O => Some (PList (rev acc), s)
         | S m' => match take_pyval k s with
                   | Some (v, r) => items m' r (v :: acc)
                   | None => None
                   end
         end) (Z.to_nat n) t []
    | 3 :: t => Some (PNone, t)
    | 4 :: t => match take_bytes t with Some (b, r) => Some (PBytes b, r) | None => None end
    | 5 :: t => Some (PStr, t)
    | _ => None
    end
  end.

Definition take_optZ (s : list Z) : option (option Z * list Z) :=
  match s with
  | 0 :: t => Some (None, t)
  | 1 :: z :: t => Some (Some z, t)
  | _ => None
  end.

Definition exn_code (e : exn) : Z :=
  match e with
  | ValueError => 1 | IndexError => 2 | TypeError => 3 | RuntimeError => 4
  | NotImplementedError => 5 | StructError => 6 | AttributeError => 7 | OutOfFuel => 9
  end.

(* uniform result printing *)
Definition outp {A} (pr : A -> list Z) (x : result A * drv * world) : list Z * drv * world :=
  match x with
  | (Ok a, d, w) => (0 :: pr a, d, w)
  | (Exn e, d, w) => ([exn_code e], d, w)
  end.
Definition pr_unit (_ : unit) : list Z := [].
Definition pr_bool (b : bool) : list Z := [zbool b].
Definition pr_z (z : Z) : list Z := [z].
Definition pr_bytes (b : list N) : list Z := put_nbytes b.
Definition pr_optbytes (o : option (list N)) : list Z := put_optbytesZ o.
Definition pr_sendres (r : sendres) : list Z :=
  match r with
  | SBool b => [0; zbool b]
  | SPayload o => 1 :: put_optbytesZ o
  end.

Definition FUEL : nat := 4.

(* one API call of object (me, d) *)
Definition api_call (me : nat) (code : Z) (s : list Z) (d : drv) (w : world)
  : option (list Z * drv * world * list Z) :=
  let r0 {A} (pr : A -> list Z) (m : M A) (rest : list Z) :=
      let '(o, d', w') := outp pr (m d w) in Some (o, d', w', rest) in
  match code, s with
  | 1, z :: t => r0 pr_unit (set_channel (WB me) z) t
  | 2, t => r0 pr_z (get_channel (WB me)) t
  | 3, z :: t => r0 pr_unit (set_data_rate (WB me) z) t
  | 4, t => r0 pr_z (get_data_rate (WB me)) t
  | 5, t => match take_pyval 4 t with Some (v, r) => r0 pr_unit (set_pa_level (WB me) v) r | None => None end
  | 6, t => r0 pr_z (get_pa_level (WB me)) t
  | 7, t => r0 pr_bool (get_is_lna_enabled (WB me)) t
  | 8, z :: t => r0 pr_unit (set_crc (WB me) z) t
  | 9, t => r0 pr_z (get_crc (WB me)) t
  | 10, z :: t => r0 pr_unit (set_address_length (WB me) z) t
  | 11, t => r0 pr_z (get_address_length (WB me)) t
  | 12, z :: t => r0 pr_unit (set_ard (WB me) z) t
  | 13, t => r0 pr_z (get_ard (WB me)) t
  | 14, z :: t => r0 pr_unit (set_arc (WB me) z) t
  | 15, t => r0 pr_z (get_arc (WB me)) t
  | 16, a :: b :: t => r0 pr_unit (set_auto_retries (WB me) a b) t
  | 17, t => r0 (fun p => [fst p; snd p]) (get_auto_retries (WB me)) t
  | 18, t => match take_pyval 4 t with Some (v, r) => r0 pr_unit (set_auto_ack_attr (WB me) v) r | None => None end
  | 19, t => r0 pr_z (get_auto_ack_attr (WB me)) t
  | 20, b :: t => match take_optZ t with Some (p, r) => r0 pr_unit (set_auto_ack (WB me) (boolz b) p) r | None => None end
  | 21, z :: t => r0 pr_bool (get_auto_ack (WB me) z) t
  | 22, t => match take_pyval 4 t with Some (v, r) => r0 pr_unit (set_dynamic_payloads_attr (WB me) v) r | None => None end
  | 23, t => r0 pr_z (get_dynamic_payloads_attr (WB me)) t
  | 24, b :: t => match take_optZ t with Some (p, r) => r0 pr_unit (set_dynamic_payloads (WB me) (boolz b) p) r | None => None end
  | 25, z :: t => r0 pr_bool (get_dynamic_payloads (WB me) z) t
  | 26, t => match take_pyval 4 t with Some (v, r) => r0 pr_unit (set_payload_length_attr (WB me) v) r | None => None end
  | 27, t => r0 pr_z get_payload_length_attr t
  | 28, z :: t => match take_optZ t with Some (p, r) => r0 pr_unit (set_payload_length (WB me) z p) r | None => None end
  | 29, z :: t => r0 pr_z (get_payload_length (WB me) z) t
  | 30, b :: t => r0 pr_unit (set_ack (WB me) (boolz b)) t
  | 31, t => r0 pr_bool (get_ack (WB me)) t
  | 32, b :: t => r0 pr_unit (set_allow_ask_no_ack (WB me) (boolz b)) t
  | 33, t => r0 pr_bool (get_allow_ask_no_ack (WB me)) t
  | 34, a :: b :: c :: t => r0 pr_unit (interrupt_config (WB me) (boolz a) (boolz b) (boolz c)) t
  | 35, b :: t => r0 pr_unit (set_power (WB me) (boolz b)) t
  | 36, t => r0 pr_bool (get_power (WB me)) t
  | 37, b :: t => r0 pr_unit (set_listen (WB me) (boolz b)) t
  | 38, t => r0 pr_bool (get_listen (WB me)) t
  | 39, z :: t => match take_bytes t with Some (a, r) => r0 pr_unit (open_rx_pipe (WB me) z a) r | None => None end
  | 40, z :: t => r0 pr_unit (close_rx_pipe (WB me) z) t
  | 41, t => match take_bytes t with Some (a, r) => r0 pr_unit (open_tx_pipe (WB me) a) r | None => None end
  | 42, z :: t => r0 pr_bytes (address z) t
  | 43, t => r0 pr_unit (enter (WB me)) t
  | 44, t => r0 pr_unit (exit (WB me)) t
  | 45, t => match take_bytes t with
             | Some (a, z :: r) => r0 pr_bool (load_ack (WB me) a z) r
             | _ => None
             end
  | 46, t => r0 pr_bool (update (WB me)) t
  | 47, t => r0 pr_bool (available (WB me)) t
  | 48, t => r0 pr_z (any (WB me)) t
  | 49, t => match take_optZ t with Some (l, r) => r0 pr_optbytes (read (WB me) l) r | None => None end
  | 50, t => r0 (fun o => match o with None => [0] | Some p => [1; Z.of_N p] end) pipe_attr t
  | 51, t => r0 pr_bool tx_full_attr t
  | 52, t => r0 pr_bool irq_dr t
  | 53, t => r0 pr_bool irq_ds t
  | 54, t => r0 pr_bool irq_df t
  | 55, a :: b :: c :: t => r0 pr_unit (clear_status_flags (WB me) (boolz a) (boolz b) (boolz c)) t
  | 56, a :: t => match take_optZ t with
                  | Some (ce, r) => r0 pr_z (fifo (WB me) (boolz a) (option_map boolz ce)) r
                  | None => None
                  end
  | 57, t => r0 pr_unit (flush_rx (WB me)) t
  | 58, t => r0 pr_unit (flush_tx (WB me)) t
  | 59, t => r0 pr_z (last_tx_arc (WB me)) t
  | 60, t => match take_bytes t with
             | Some (b, na :: wo :: r) => r0 pr_bool (write (WB me) b (boolz na) (boolz wo)) r
             | _ => None
             end
  | 61, t => match take_bytes t with
             | Some (b, na :: fr :: so :: r) =>
               r0 pr_sendres (send (WB me) b (boolz na) (Z.to_nat fr) (boolz so) FUEL) r
             | _ => None
             end
  | 62, so :: t => r0 pr_sendres (resend (WB me) (boolz so) FUEL) t
  | 63, n :: t =>
    (fix bufs (m : nat) (s : list Z) (acc : list (list N)) :=
       match m with
       | O => match s with
              | na :: fr :: so :: r =>
                r0 (fun l => Z.of_nat (length l) :: flat_map pr_sendres l)
                   (send_list (WB me) (rev acc) (boolz na) (Z.to_nat fr) (boolz so) FUEL) r
              | _ => None
              end
       | S m' => match take_bytes s with
                 | Some (b, r) => bufs m' r (b :: acc)
                 | None => None
                 end
       end) (Z.to_nat n) t []
  | 64, t => r0 pr_bool (rpd (WB me)) t
  | 65, b :: t => r0 pr_unit (set_ce (WB me) (boolz b)) t
  | _, _ => None
  end.

(* ---- the run: objects = list of (radio index, driver state) ---- *)
Fixpoint take_fates (n : nat) (s : list Z) : list fate * list Z :=
  match n with
  | O => ([], s)
  | S k => match s with
           | [] => ([], [])
           | x :: t => let '(l, r) := take_fates k t in
                       ((if x =? 0 then Delivered else if x =? 1 then PacketLost else AckLost) :: l, r)
           end
  end.

Definition inject (r : radio) (p : N) (d : list N) : radio :=
  if 3 <=? Z.of_nat (length (rx_fifo r)) then r
  else with_flags (with_fifos r (rx_fifo r ++ [(p, d)]) (tx_fifo r)) (N.lor (flags r) 64).

Fixpoint set_nth_obj (l : list (nat * drv)) (i : nat) (v : nat * drv) : list (nat * drv) :=
  match l, i with
  | [], _ => []
  | _ :: t, O => v :: t
  | x :: t, S k => x :: set_nth_obj t k v
  end.

Definition snap_all (w : world) : list Z := flat_map snap_radio (radios w).

Fixpoint run_ops (fuel : nat) (s : list Z) (objs : list (nat * drv)) (cur : nat) (w : world) : list Z :=
  match fuel with
  | O => [-9]
  | S k =>
    match s with
    | [] => [-2]
    | 90 :: n :: t =>                     (* replace the loss oracle *)
      let '(fs, r) := take_fates (Z.to_nat n) t in
      run_ops k r objs cur (mkWorld (radios w) fs (air w) (clock w))
    | 91 :: i :: p :: t =>                (* inject a received payload into radio i *)
      match take_bytes t with
      | Some (b, r) =>
        run_ops k r objs cur
                (set_radio w (Z.to_nat i) (inject (get_radio w (Z.to_nat i)) (Z.to_N p) b))
      | None => [-3]
      end
    | 92 :: o :: t => run_ops k t objs (Z.to_nat o) w      (* select the acting object *)
    | 93 :: t =>                          (* dump and clear the air log *)
      (-4) :: Z.of_nat (length (air w)) :: flat_map put_airlog (air w)
      ++ run_ops k t objs cur (mkWorld (radios w) (oracle w) [] (clock w))
    | code :: t =>
      let '(me, d) := nth cur objs (0%nat, init_drv) in
      match api_call me code t d w with
      | None => [-3; code]
      | Some (o, d', w', rest) =>
        (-1) :: o ++ (-5) :: Z.of_N (clock w') :: snap_all w' ++ (-6) :: dump_drv d'
        ++ run_ops k rest (set_nth_obj objs cur (me, d')) cur w'
      end
    end
  end.

(* request: nradios plus_1..plus_n  nobjects radio_1..radio_m  ops... ;
   every object is constructed (RF24.__init__) in order before the first op *)
Fixpoint construct_all (objs : list nat) (w : world) : list (nat * drv) * world * list Z :=
  match objs with
  | [] => ([], w, [])
  | me :: t =>
    let '(o, d, w1) := outp pr_unit (construct (WB me) init_drv w) in
    let '(rest, w2, outs) := construct_all t w1 in
    ((me, d) :: rest, w2, o ++ outs)
  end.

Definition run_rf24 (req : list Z) : list Z :=
  match req with
  | nr :: t =>
    match takeZ (Z.to_nat nr) t with
    | Some (plus, no :: t2) =>
      match takeZ (Z.to_nat no) t2 with
      | Some (ro, ops) =>
        let w0 := new_world (map boolz plus) [] in
        let '(objs, w1, couts) := construct_all (map Z.to_nat ro) w0 in
        couts ++ (-5) :: Z.of_N (clock w1) :: snap_all w1 ++ (-6) :: flat_map (fun o => dump_drv (snd o)) objs
        ++ run_ops (length ops + 1) ops objs 0 w1
      | None => [-3]
      end
    | _ => [-3]
    end
  | [] => [-3]
  end.

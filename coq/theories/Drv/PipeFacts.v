(* PipeFacts.v -- RX/TX switching and pipe 0 at configuration level (property C08). *)
From Coq Require Import ZArith NArith Arith List Bool Lia.
From NRF Require Import Base.Sweep Env.Radio Env.RadioFacts Env.World Env.WorldFacts Env.CfgFacts
     Drv.RF24 Drv.RF24Sim Drv.RF24SimOps Drv.CfgEval Drv.CtxFacts.
Import ListNotations.
Local Open Scope Z_scope.

(* the part of "cached view = radio" that the pipe-0 logic relies on *)
Definition PInv (d : drv) (c : cfg) : Prop :=
  WfC c /\ DrvOk d
  /\ d_pipe0 d = c_p0 c /\ d_tx_address d = c_tx c
  /\ Z.of_N (creg c 2) = d_open_pipes d /\ Z.of_N (creg c 1) = d_aa d /\ Z.of_N (creg c 0) = d_config d
  /\ (forall img, d_pipe0_read_addr d = Some img ->
        length img = 5%nat /\ N.testbit (creg c 2) 0 = true).

Lemma byte_lor_land_252 v b : byte_z v -> 0 <= Z.lor (Z.land v 252) (2 + zb b) <= 255.
Proof.
  intros H. apply range_of_bool. destruct b; cbn [zb Z.add].
  - exact (sweep_byte (fun v => (0 <=? Z.lor (Z.land v 252) 3) && (Z.lor (Z.land v 252) 3 <=? 255))
                      ltac:(vm_compute; reflexivity) v H).
  - exact (sweep_byte (fun v => (0 <=? Z.lor (Z.land v 252) 2) && (Z.lor (Z.land v 252) 2 <=? 255))
                      ltac:(vm_compute; reflexivity) v H).
Qed.

(* CONFIG after the role switch: PWR_UP set, PRIM_RX = is_rx *)
Lemma config_role_bits v b : byte_z v ->
  N.land (N.land (Z.to_N (Z.lor (Z.land v 252) (2 + zb b))) 127) 3 = (if b then 3 else 2)%N.
Proof.
  intros H. destruct b; cbn [zb Z.add]; apply N.eqb_eq.
  - exact (sweep_byte (fun v => (N.land (N.land (Z.to_N (Z.lor (Z.land v 252) 3)) 127) 3 =? 3)%N)
                      ltac:(vm_compute; reflexivity) v H).
  - exact (sweep_byte (fun v => (N.land (N.land (Z.to_N (Z.lor (Z.land v 252) 2)) 127) 3 =? 2)%N)
                      ltac:(vm_compute; reflexivity) v H).
Qed.

Lemma land62_bit0 v : byte_z v -> N.testbit (N.land (Z.to_N (Z.land v 62)) 63) 0 = false.
Proof.
  intros H. apply negb_true_iff.
  exact (sweep_byte (fun v => negb (N.testbit (N.land (Z.to_N (Z.land v 62)) 63) 0))
                    ltac:(vm_compute; reflexivity) v H).
Qed.

Lemma land62_byte v : byte_z v -> 0 <= Z.land v 62 <= 255.
Proof.
  intros H. apply range_of_bool.
  exact (sweep_byte (fun v => (0 <=? Z.land v 62) && (Z.land v 62 <=? 255)) ltac:(vm_compute; reflexivity) v H).
Qed.

Lemma bit0_of_truthy n : (n < 256)%N ->
  truthy (Z.land (Z.of_N n) 1) = N.testbit n 0.
Proof.
  intros H. apply eqb_true_iff.
  exact (sweep_byteN (fun n => Bool.eqb (truthy (Z.land (Z.of_N n) 1)) (N.testbit n 0))
                     ltac:(vm_compute; reflexivity) n H).
Qed.

Lemma overlay_full (a old : list N) : length a = length old -> overlay a old = a.
Proof.
  intros H. unfold overlay. rewrite skipn_all2 by lia. rewrite app_nil_r.
  rewrite <- H. apply firstn_all.
Qed.

Lemma overlay_into_full {bus} (a old : list N) (d : drv) (b : bus) :
  length a = length old -> overlay_into a old d b = (Ok a, d, b).
Proof.
  intros H. unfold overlay_into. rewrite H, Nat.leb_refl. unfold ret.
  rewrite skipn_all2 by lia. rewrite app_nil_r. reflexivity.
Qed.

Local Opaque bind reg_write reg_write_bytes reg_read command xfer Z.lor Z.land N.land.

(* registers are bytes *)
Definition RegsByte (c : cfg) : Prop := forall a, (creg c a < 256)%N.

(* ---- entering RX mode ---- *)
Theorem listen_true_c d c : PInv d c -> RegsByte c ->
  exists d' c', set_listen CB true d c = (Ok tt, d', c')
    /\ c_ce c' = true
    /\ N.land (creg c' 0) 3 = 3%N
    /\ match d_pipe0_read_addr d with
       | Some img => c_p0 c' = img /\ N.testbit (creg c' 2) 0 = true
       | None => N.testbit (creg c' 2) 0 = false
       end
    /\ c_tx c' = c_tx c /\ c_p1 c' = c_p1 c.
Proof.
  intros (Hw&Hd&Hp0&Htx&Hop&Haa&Hcf&Hrd) Hb.
  pose proof Hw as (W1&W2&W3&W4&W5).
  pose proof Hd as (D1&D2&D3&D4&D5&D6&D7&D8&D9&D10&D11&D12&D13&D14&D15).
  unfold set_listen.
  mstep side. mstep side. mstep side.
  erewrite bind_ok; [|apply reg_write_c; [lia|apply byte_lor_land_252; exact D1]]. cbv beta.
  mstep side. cbv iota.
  rewrite !bind_assoc.
  mstep side. mstep side.
  cbn [d_pipe0_read_addr upd_config upd_in0 d_pipe0 d_open_pipes b_ce b_now CB fst snd].
  set (c1 := cset_ce (cwrite (cset_ce c false) (Z.to_N 0) [Z.to_N (Z.lor (Z.land (d_config d) 252) (2 + zb true))]) true).
  assert (Hc1_0 : N.land (creg c1 0) 3 = 3%N).
  { unfold c1. unfold cwrite. cbn [Z.to_N].
    change (0 =? R_RX_ADDR_P0)%N with false. change (0 =? R_RX_ADDR_P1)%N with false.
    change (0 =? R_TX_ADDR)%N with false. change (0 =? R_STATUS)%N with false.
    change (0 =? R_DYNPD)%N with false. change (0 =? R_FEATURE)%N with false.
    change (0 =? R_RF_CH)%N with false. cbn [orb andb]. change (wmask 0) with 127%N.
    change (127 =? 0)%N with false. cbv iota.
    change (creg (cset_ce ?x true) 0) with (creg x 0).
    rewrite creg_cset_same by (cbn; lia). apply (config_role_bits _ true). exact D1. }
  assert (Hc1_2 : creg c1 2 = creg c 2).
  { unfold c1. unfold cwrite. cbn [Z.to_N].
    change (0 =? R_RX_ADDR_P0)%N with false. change (0 =? R_RX_ADDR_P1)%N with false.
    change (0 =? R_TX_ADDR)%N with false. change (0 =? R_STATUS)%N with false.
    change (0 =? R_DYNPD)%N with false. change (0 =? R_FEATURE)%N with false.
    change (0 =? R_RF_CH)%N with false. cbn [orb andb]. change (wmask 0) with 127%N.
    change (127 =? 0)%N with false. cbv iota.
    change (creg (cset_ce ?x true) 2) with (creg x 2).
    rewrite creg_cset_other by discriminate. reflexivity. }
  assert (Hc1_a : c_p0 c1 = c_p0 c /\ c_p1 c1 = c_p1 c /\ c_tx c1 = c_tx c /\ c_ce c1 = true
                  /\ length (c_sregs c1) = 30%nat).
  { unfold c1. unfold cwrite. cbn [Z.to_N].
    change (0 =? R_RX_ADDR_P0)%N with false. change (0 =? R_RX_ADDR_P1)%N with false.
    change (0 =? R_TX_ADDR)%N with false. change (0 =? R_STATUS)%N with false.
    change (0 =? R_DYNPD)%N with false. change (0 =? R_FEATURE)%N with false.
    change (0 =? R_RF_CH)%N with false. cbn [orb andb]. change (wmask 0) with 127%N.
    change (127 =? 0)%N with false. cbv iota. cbn. rewrite set_nth_length. auto. }
  destruct Hc1_a as (A0&A1&A2&A3&A4).
  clearbody c1.
  destruct (d_pipe0_read_addr d) as [img|] eqn:Er.
  - destruct (Hrd img eq_refl) as [Hl Hbit].
    unfold bytes_eqb. destruct (list_eqb img (d_pipe0 d)) eqn:Eq; cbn [negb].
    + (* already on the user's address *)
      mstep side. rewrite listen_delay_c.
      eexists _, _. split; [reflexivity|].
      assert (img = d_pipe0 d).
      { clear -Eq. revert Eq. generalize (d_pipe0 d). induction img as [|x t IH]; intros [|y s] H; try discriminate; [reflexivity|].
        cbn in H. apply andb_true_iff in H. destruct H as [H1 H2]. apply N.eqb_eq in H1. subst. f_equal. apply IH. exact H2. }
      split; [exact A3|]. split; [exact Hc1_0|]. split; [split; [congruence|rewrite Hc1_2; exact Hbit]|].
      split; [exact A2|exact A1].
    + rewrite !bind_assoc.
      erewrite bind_ok; [|apply overlay_into_full; rewrite Hl, D11; reflexivity]. cbv beta.
      rewrite ?bind_assoc. mstep side. rewrite ?bind_assoc.
      erewrite bind_ok; [|apply reg_write_bytes_c; lia]. cbv beta. rewrite listen_delay_c.
      eexists _, _. split; [reflexivity|].
      unfold cwrite. destruct img as [|i0 it]; [discriminate|].
      change (Z.to_N 10 =? R_RX_ADDR_P0)%N with true. cbv iota.
      cbn [cset_addrs c_ce c_p0 c_p1 c_tx]. unfold creg in *. cbn [c_sregs cset_addrs].
      rewrite overlay_full by (rewrite A0, W2; exact Hl).
      repeat split; try assumption; try congruence.
  - destruct (truthy (Z.land (d_open_pipes d) 1)) eqn:Eo.
    + rewrite !bind_assoc. mstep side. rewrite ?bind_assoc.
      erewrite bind_ok; [|apply reg_write_c; [lia|apply land62_byte; exact D3]]. cbv beta. rewrite listen_delay_c.
      eexists _, _. split; [reflexivity|].
      unfold cwrite. cbn [Z.to_N].
      change (2 =? R_RX_ADDR_P0)%N with false. change (2 =? R_RX_ADDR_P1)%N with false.
      change (2 =? R_TX_ADDR)%N with false. change (2 =? R_STATUS)%N with false.
      change (2 =? R_DYNPD)%N with false. change (2 =? R_FEATURE)%N with false.
      change (2 =? R_RF_CH)%N with false. cbn [orb andb]. change (wmask 2) with 63%N.
      change (63 =? 0)%N with false. cbv iota.
      repeat split; try assumption.
      * rewrite creg_cset_other by discriminate. exact Hc1_0.
      * rewrite creg_cset_same by (rewrite A4; cbn; lia). apply land62_bit0. exact D3.
    + mstep side. rewrite listen_delay_c.
      eexists _, _. split; [reflexivity|].
      repeat split; try assumption.
      rewrite Hc1_2. rewrite <- bit0_of_truthy by apply Hb. rewrite Hop. exact Eo.
Qed.

(* ---- open_tx_pipe: pipe 0 follows the complete TX address when auto-ack is on ---- *)
Lemma lor1_byte v : byte_z v -> 0 <= Z.lor v 1 <= 255.
Proof.
  intros H. apply range_of_bool.
  exact (sweep_byte (fun v => (0 <=? Z.lor v 1) && (Z.lor v 1 <=? 255)) ltac:(vm_compute; reflexivity) v H).
Qed.

Lemma lor1_bit0 v : byte_z v -> N.testbit (N.land (Z.to_N (Z.lor v 1)) 63) 0 = true.
Proof.
  intros H.
  exact (sweep_byte (fun v => N.testbit (N.land (Z.to_N (Z.lor v 1)) 63) 0) ltac:(vm_compute; reflexivity) v H).
Qed.

Lemma list_eqb_eq a b : list_eqb a b = true <-> a = b.
Proof.
  revert b. induction a as [|x t IH]; intros [|y s]; cbn; split; intros H; try discriminate; try reflexivity.
  - apply andb_true_iff in H. destruct H as [H1 H2]. apply N.eqb_eq in H1. apply IH in H2. congruence.
  - inversion H; subst. rewrite N.eqb_refl. cbn. apply IH. reflexivity.
Qed.

Lemma overlay_prefix (a old : list N) : (length a <= length old)%nat ->
  overlay a old = a ++ skipn (length a) old /\ firstn (length a) (overlay a old) = a.
Proof.
  intros H. unfold overlay.
  assert (E : firstn (length old) (a ++ skipn (length a) old) = a ++ skipn (length a) old).
  { apply firstn_all2. rewrite app_length, skipn_length. lia. }
  rewrite E. split; [reflexivity|].
  rewrite firstn_app, Nat.sub_diag, firstn_O, app_nil_r. apply firstn_all.
Qed.

Theorem open_tx_pipe_c d c a : PInv d c -> RegsByte c -> (1 <= length a <= 5)%nat ->
  exists d' c', open_tx_pipe CB a d c = (Ok tt, d', c')
    /\ c_tx c' = overlay a (c_tx c)
    /\ firstn (length a) (c_tx c') = a
    /\ (N.testbit (creg c 1) 0 = true ->
          c_p0 c' = c_tx c'
          /\ (N.testbit (creg c 0) 0 = false -> N.testbit (creg c' 2) 0 = true))
    /\ creg c' 0 = creg c 0 /\ creg c' 1 = creg c 1 /\ c_ce c' = c_ce c.
Proof.
  intros (Hw&Hd&Hp0&Htx&Hop&Haa&Hcf&Hrd) Hb Hlen.
  pose proof Hw as (W1&W2&W3&W4&W5).
  pose proof Hd as (D1&D2&D3&D4&D5&D6&D7&D8&D9&D10&D11&D12&D13&D14&D15).
  destruct (overlay_prefix a (c_tx c) ltac:(lia)) as [Ov1 Ov2].
  unfold open_tx_pipe.
  mstep side.
  assert (Hov : overlay_into a (d_tx_address d) d c = (Ok (overlay a (c_tx c)), d, c)).
  { unfold overlay_into. replace (Nat.leb (length a) (length (d_tx_address d))) with true
      by (symmetry; apply Nat.leb_le; lia). rewrite Ov1, Htx. reflexivity. }
  erewrite bind_ok; [|exact Hov]. cbv beta.
  mstep side. mstep side. mstep side.
  cbn [d_pipe0 d_tx_address d_aa upd_tx_address upd_in0].
  set (tx' := overlay a (c_tx c)).
  assert (Ltx : length tx' = 5%nat) by (unfold tx'; rewrite overlay_length; exact W4).
  assert (Hbit_aa : truthy (Z.land (d_aa d) 1) = N.testbit (creg c 1) 0).
  { rewrite <- Haa. apply bit0_of_truthy. apply Hb. }
  assert (Hbit_cf : truthy (Z.land (d_config d) 1) = N.testbit (creg c 0) 0).
  { rewrite <- Hcf. apply bit0_of_truthy. apply Hb. }
  assert (Hbit_op : truthy (Z.land (d_open_pipes d) 1) = N.testbit (creg c 2) 0).
  { rewrite <- Hop. apply bit0_of_truthy. apply Hb. }
  assert (Hda : exists a0 at_, a = a0 :: at_).
  { destruct a as [|a0 at_]; [cbn in Hlen; lia|eauto]. }
  destruct Hda as [a0 [at_ Ea]].
  (* configuration after the TX_ADDR write *)
  assert (Hc1 : cwrite c (Z.to_N 16) a = cset_addrs c (c_p0 c) (c_p1 c) tx').
  { subst a. unfold cwrite. change (Z.to_N 16 =? R_RX_ADDR_P0)%N with false.
    change (Z.to_N 16 =? R_RX_ADDR_P1)%N with false. change (Z.to_N 16 =? R_TX_ADDR)%N with true.
    reflexivity. }
  rewrite Hc1.
  destruct (N.testbit (creg c 1) 0) eqn:Ebaa.
  - (* auto-ack on pipe 0 *)
    rewrite Hbit_aa.
    destruct (negb (bytes_eqb (d_pipe0 d) tx')) eqn:Eneq; cbn [andb].
    + rewrite !bind_assoc.
      erewrite bind_ok; [|apply overlay_into_full; rewrite Ltx, D11; reflexivity]. cbv beta.
      rewrite ?bind_assoc. mstep side. rewrite ?bind_assoc.
      erewrite bind_ok; [|apply reg_write_bytes_c; lia]. cbv beta.
      mstep side.
      cbn [d_aa d_config d_open_pipes d_pipe0 d_tx_address upd_pipe0 upd_in0 upd_tx_address upd_open_pipes].
      rewrite Hbit_aa, Hbit_cf, Hbit_op. cbn [andb].
      assert (Hc2 : cwrite (cset_addrs c (c_p0 c) (c_p1 c) tx') (Z.to_N 10) tx'
                    = cset_addrs c tx' (c_p1 c) tx').
      { unfold cwrite. destruct tx' as [|t0 tt]; [discriminate|].
        change (Z.to_N 10 =? R_RX_ADDR_P0)%N with true. cbv iota.
        cbn [cset_addrs c_p0 c_p1 c_tx]. rewrite overlay_full by (rewrite W2; exact Ltx). reflexivity. }
      rewrite Hc2.
      destruct (N.testbit (creg c 0) 0) eqn:Ecf; cbn [negb andb].
      * eexists _, _. split; [reflexivity|]. cbn [cset_addrs c_tx c_p0 c_ce].
        repeat split; try assumption; try reflexivity; try (intros; discriminate).
      * destruct (N.testbit (creg c 2) 0) eqn:Eop; cbn [negb].
        -- eexists _, _. split; [reflexivity|]. cbn [cset_addrs c_tx c_p0 c_ce].
           repeat split; try assumption; try reflexivity; try (intros _; exact Eop).
        -- mstep side. rewrite reg_write_c by (try lia; apply lor1_byte; exact D3).
           eexists _, _. split; [reflexivity|].
           unfold cwrite. cbn [Z.to_N].
           change (2 =? R_RX_ADDR_P0)%N with false. change (2 =? R_RX_ADDR_P1)%N with false.
           change (2 =? R_TX_ADDR)%N with false. change (2 =? R_STATUS)%N with false.
           change (2 =? R_DYNPD)%N with false. change (2 =? R_FEATURE)%N with false.
           change (2 =? R_RF_CH)%N with false. cbn [orb andb]. change (wmask 2) with 63%N.
           change (63 =? 0)%N with false. cbv iota.
           cbn [cset cset_addrs c_tx c_p0 c_ce c_sregs].
           repeat split; try assumption; try reflexivity; try congruence.
           all: try (intros _); unfold creg; cbn [c_sregs cset cset_addrs Z.to_N N.to_nat Pos.to_nat Pos.iter_op Nat.add];
             first [ rewrite nth_set_nth_same by (rewrite W1; cbn; lia); apply lor1_bit0; exact D3
                   | apply nth_set_nth_other; discriminate ].
    + (* pipe 0 already holds the complete TX address *)
      apply negb_false_iff in Eneq. apply list_eqb_eq in Eneq.
      mstep side. mstep side.
      cbn [d_aa d_config d_open_pipes d_pipe0 d_tx_address upd_pipe0 upd_in0 upd_tx_address upd_open_pipes].
      rewrite Hbit_aa, Hbit_cf, Hbit_op. cbn [andb].
      destruct (N.testbit (creg c 0) 0) eqn:Ecf; cbn [negb andb].
      * eexists _, _. split; [reflexivity|]. cbn [cset_addrs c_tx c_p0 c_ce].
        repeat split; try assumption; try reflexivity; try congruence; try (intros; discriminate).
      * destruct (N.testbit (creg c 2) 0) eqn:Eop; cbn [negb].
        -- eexists _, _. split; [reflexivity|]. cbn [cset_addrs c_tx c_p0 c_ce].
           repeat split; try assumption; try reflexivity; try congruence; try (intros _; exact Eop).
        -- mstep side. rewrite reg_write_c by (try lia; apply lor1_byte; exact D3).
           eexists _, _. split; [reflexivity|].
           unfold cwrite. cbn [Z.to_N].
           change (2 =? R_RX_ADDR_P0)%N with false. change (2 =? R_RX_ADDR_P1)%N with false.
           change (2 =? R_TX_ADDR)%N with false. change (2 =? R_STATUS)%N with false.
           change (2 =? R_DYNPD)%N with false. change (2 =? R_FEATURE)%N with false.
           change (2 =? R_RF_CH)%N with false. cbn [orb andb]. change (wmask 2) with 63%N.
           change (63 =? 0)%N with false. cbv iota.
           cbn [cset cset_addrs c_tx c_p0 c_ce c_sregs].
           repeat split; try assumption; try reflexivity; try congruence.
           all: try (intros _); unfold creg; cbn [c_sregs cset cset_addrs Z.to_N N.to_nat Pos.to_nat Pos.iter_op Nat.add];
             first [ rewrite nth_set_nth_same by (rewrite W1; cbn; lia); apply lor1_bit0; exact D3
                   | apply nth_set_nth_other; discriminate ].
  - (* auto-ack off on pipe 0: only TX_ADDR is written *)
    rewrite Hbit_aa. rewrite andb_false_r. mstep side. mstep side.
    cbn [d_aa d_config d_open_pipes d_pipe0 d_tx_address upd_pipe0 upd_in0 upd_tx_address upd_open_pipes]. rewrite Hbit_aa. cbn [andb].
    eexists _, _. split; [reflexivity|]. cbn [cset_addrs c_tx c_p0 c_ce].
    repeat split; try assumption; try reflexivity; try (intros; discriminate).
Qed.

(* ---- transfer to worlds ---- *)
Definition PInvW (me : nat) (d : drv) (w : world) : Prop :=
  (me < length (radios w))%nat /\ PInv d (cview (get_radio w me)) /\ RegsByte (cview (get_radio w me)).

Theorem listen_true_world me d w : PInvW me d w ->
  exists d1 w1, set_listen (WB me) true d w = (Ok tt, d1, w1)
    /\ let c1 := cview (get_radio w1 me) in
       c_ce c1 = true
       /\ N.land (creg c1 0) 3 = 3%N
       /\ match d_pipe0_read_addr d with
          | Some img => c_p0 c1 = img /\ N.testbit (creg c1 2) 0 = true
          | None => N.testbit (creg c1 2) 0 = false
          end
       /\ c_tx c1 = c_tx (cview (get_radio w me))
       /\ (forall j, j <> me -> cview (get_radio w1 j) = cview (get_radio w j)).
Proof.
  intros (Hme&Hp&Hb).
  destruct (listen_true_c d _ Hp Hb) as [d' [c' [He [H1 [H2 [H3 [H4 H5]]]]]]].
  destruct (sim_run me _ _ d w (sim_set_listen me true) Hme _ _ _ He) as [d1 [w1 [E [Hd [Hc [Hf _]]]]]].
  exists d1, w1. split; [exact E|]. cbv zeta. rewrite Hc. repeat split; assumption.
Qed.

Theorem open_tx_pipe_world me d w a : PInvW me d w -> (1 <= length a <= 5)%nat ->
  exists d1 w1, open_tx_pipe (WB me) a d w = (Ok tt, d1, w1)
    /\ let c := cview (get_radio w me) in
       let c1 := cview (get_radio w1 me) in
       firstn (length a) (c_tx c1) = a
       /\ c_tx c1 = overlay a (c_tx c)
       /\ (N.testbit (creg c 1) 0 = true ->
             c_p0 c1 = c_tx c1
             /\ (N.testbit (creg c 0) 0 = false -> N.testbit (creg c1 2) 0 = true))
       /\ c_ce c1 = c_ce c
       /\ (forall j, j <> me -> cview (get_radio w1 j) = cview (get_radio w j)).
Proof.
  intros (Hme&Hp&Hb) Hl.
  destruct (open_tx_pipe_c d _ a Hp Hb Hl) as [d' [c' [He [H1 [H2 [H3 [H4 [H5 H6]]]]]]]].
  destruct (sim_run me _ _ d w (sim_open_tx_pipe me a) Hme _ _ _ He) as [d1 [w1 [E [Hd [Hc [Hf _]]]]]].
  exists d1, w1. split; [exact E|]. cbv zeta. rewrite Hc. repeat split; try assumption.
  - apply H3. assumption.
  - apply H3; assumption.
Qed.

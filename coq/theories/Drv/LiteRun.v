(* LiteRun.v -- runner for worlds that mix full RF24 objects (Drv/RF24.v) and lite objects
   (Drv/Lite.v): same op codes and encodings as Drv/RF24Run.v for the API the two share. *)
From Coq Require Import ZArith NArith List Bool.
From NRF Require Import Base.Wire Env.Radio Env.World Drv.RF24 Drv.RF24Run Drv.Lite.
Import ListNotations.
Local Open Scope Z_scope.

Definition LFUEL : nat := 400.   (* polls of one wait loop; an exchange is atomic, so 1 suffices when the radio answers *)

Definition pyval_z (v : pyval) : option Z :=
  match v with PInt z => Some z | PBool b => Some (if b then 1 else 0) | _ => None end.

Definition lite_call (me : nat) (code : Z) (s : list Z) (d : drv) (w : world)
  : option (list Z * drv * world * list Z) :=
  let r0 {A} (pr : A -> list Z) (m : M A) (rest : list Z) :=
      let '(o, d', w') := outp pr (m d w) in Some (o, d', w', rest) in
  let B := WB me in
  match code, s with
  | 1, z :: t => r0 pr_unit (l_set_channel B z) t
  | 2, t => r0 pr_z (l_get_channel B) t
  | 3, z :: t => r0 pr_unit (l_set_data_rate B z) t
  | 4, t => r0 pr_z (l_get_data_rate B) t
  | 5, t => match take_pyval 4 t with
            | Some (v, r) => match pyval_z v with Some z => r0 pr_unit (l_set_pa_level B z) r | None => None end
            | None => None
            end
  | 6, t => r0 pr_z (l_get_pa_level B) t
  | 10, z :: t => r0 pr_unit (l_set_address_length B z) t
  | 11, t => r0 pr_z (l_get_address_length B) t
  | 12, z :: t => r0 pr_unit (l_set_ard B z) t
  | 13, t => r0 pr_z (l_get_ard B) t
  | 14, z :: t => r0 pr_unit (l_set_arc B z) t
  | 15, t => r0 pr_z (l_get_arc B) t
  | 22, t => match take_pyval 4 t with
             | Some (v, r) => match pyval_z v with Some z => r0 pr_unit (l_set_dynamic_payloads B (negb (z =? 0))) r | None => None end
             | None => None
             end
  | 23, t => r0 pr_bool (l_get_dynamic_payloads B) t
  | 26, t => match take_pyval 4 t with
             | Some (v, r) => match pyval_z v with Some z => r0 pr_unit (l_set_payload_length B z) r | None => None end
             | None => None
             end
  | 27, t => r0 pr_z (l_get_payload_length B) t
  | 30, b :: t => r0 pr_unit (l_set_ack B (boolz b)) t
  | 31, t => r0 pr_bool (l_get_ack B) t
  | 34, a :: b :: c :: t => r0 pr_unit (l_interrupt_config B (boolz a) (boolz b) (boolz c)) t
  | 35, b :: t => r0 pr_unit (l_set_power B (boolz b)) t
  | 36, t => r0 pr_bool (l_get_power B) t
  | 37, b :: t => r0 pr_unit (l_set_listen B (boolz b)) t
  | 38, t => r0 pr_bool (l_get_listen B) t
  | 39, z :: t => match take_bytes t with Some (a, r) => r0 pr_unit (l_open_rx_pipe B z a) r | None => None end
  | 40, z :: t => r0 pr_unit (l_close_rx_pipe B z) t
  | 41, t => match take_bytes t with Some (a, r) => r0 pr_unit (l_open_tx_pipe B a) r | None => None end
  | 45, t => match take_bytes t with
             | Some (a, z :: r) => r0 pr_bool (l_load_ack B a z) r
             | _ => None
             end
  | 46, t => r0 pr_bool (l_update B) t
  | 47, t => r0 pr_bool (l_available B) t
  | 48, t => r0 pr_z (l_any B) t
  | 49, t => match take_optZ t with Some (l, r) => r0 pr_optbytes (l_read B l) r | None => None end
  | 50, t => r0 (fun o : option Z => match o with None => [0] | Some p => [1; p] end)
                (bind status (fun st => ret (if st_pipe_z st <? 6 then Some (st_pipe_z st) else None))) t
  | 51, t => r0 pr_bool (bind status (fun st => ret (negb (Z.land st 1 =? 0)))) t
  | 52, t => r0 pr_bool (bind status (fun st => ret (negb (Z.land st 64 =? 0)))) t
  | 53, t => r0 pr_bool (bind status (fun st => ret (negb (Z.land st 32 =? 0)))) t
  | 54, t => r0 pr_bool (bind status (fun st => ret (negb (Z.land st 16 =? 0)))) t
  | 55, a :: b :: c :: t => r0 pr_unit (l_clear_status_flags B (boolz a) (boolz b) (boolz c)) t
  | 56, a :: t => match take_optZ t with
                  | Some (ce, r) => r0 pr_z (l_fifo B (boolz a) (option_map boolz ce)) r
                  | None => None
                  end
  | 57, t => r0 pr_unit (l_flush_rx B) t
  | 58, t => r0 pr_unit (l_flush_tx B) t
  | 60, t => match take_bytes t with
             | Some (b, na :: wo :: r) => r0 pr_bool (l_write B b (boolz na) (boolz wo)) r
             | _ => None
             end
  | 61, t => match take_bytes t with
             | Some (b, na :: fr :: so :: r) => r0 pr_sendres (l_send_one B b (boolz na) fr (boolz so) LFUEL) r
             | _ => None
             end
  | 62, so :: t => r0 pr_sendres (l_resend B (boolz so) LFUEL) t
  | 63, n :: t =>
    (fix bufs (m : nat) (s : list Z) (acc : list (list N)) :=
       match m with
       | O => match s with
              | na :: fr :: so :: r =>
                r0 (fun l => Z.of_nat (length l) :: flat_map pr_sendres l)
                   (l_send_list B (rev acc) (boolz na) fr (boolz so) LFUEL) r
              | _ => None
              end
       | S m' => match take_bytes s with
                 | Some (b, r) => bufs m' r (b :: acc)
                 | None => None
                 end
       end) (Z.to_nat n) t []
  | 64, t => r0 pr_bool (l_rpd B) t
  | _, _ => None
  end.

Definition dump_lite (d : drv) : list Z := Z.of_N (d_in0 d) :: put_optbytesZ (d_pipe0_read_addr d).

(* objects: (radio, is_lite, state) *)
Definition mobj := (nat * bool * drv)%type.
Fixpoint set_nth_mobj (l : list mobj) (i : nat) (v : mobj) : list mobj :=
  match l, i with
  | [], _ => []
  | _ :: t, O => v :: t
  | x :: t, S k => x :: set_nth_mobj t k v
  end.

Fixpoint mrun_ops (fuel : nat) (s : list Z) (objs : list mobj) (cur : nat) (w : world) : list Z :=
  match fuel with
  | O => [-9]
  | S k =>
    match s with
    | [] => [-2]
    | 90 :: n :: t =>
      let '(fs, r) := take_fates (Z.to_nat n) t in
      mrun_ops k r objs cur (mkWorld (radios w) fs (air w) (clock w))
    | 91 :: i :: p :: t =>
      match take_bytes t with
      | Some (b, r) => mrun_ops k r objs cur (set_radio w (Z.to_nat i) (inject (get_radio w (Z.to_nat i)) (Z.to_N p) b))
      | None => [-3]
      end
    | 92 :: o :: t => mrun_ops k t objs (Z.to_nat o) w
    | 93 :: t =>
      (-4) :: Z.of_nat (length (air w)) :: flat_map put_airlog (air w)
      ++ mrun_ops k t objs cur (mkWorld (radios w) (oracle w) [] (clock w))
    | code :: t =>
      let '(me, lite, d) := nth cur objs (0%nat, false, init_drv) in
      match (if lite then lite_call me code t d w else api_call me code t d w) with
      | None => [-3; code]
      | Some (o, d', w', rest) =>
        (-1) :: o ++ (-5) :: Z.of_N (clock w') :: snap_all w' ++ (-6) :: (if lite then dump_lite d' else dump_drv d')
        ++ mrun_ops k rest (set_nth_mobj objs cur (me, lite, d')) cur w'
      end
    end
  end.

Fixpoint mconstruct_all (objs : list (nat * bool)) (w : world) : list mobj * world * list Z :=
  match objs with
  | [] => ([], w, [])
  | (me, lite) :: t =>
    let '(o, d, w1) := outp pr_unit ((if lite then l_construct (WB me) else construct (WB me)) init_drv w) in
    let '(rest, w2, outs) := mconstruct_all t w1 in
    ((me, lite, d) :: rest, w2, o ++ outs)
  end.

Fixpoint take_mobjs (n : nat) (s : list Z) : list (nat * bool) * list Z :=
  match n with
  | O => ([], s)
  | S k => match s with
           | r :: l :: t => let '(os, rest) := take_mobjs k t in ((Z.to_nat r, negb (l =? 0)) :: os, rest)
           | _ => ([], s)
           end
  end.

(* request: nradios plus_1..plus_n  nobjects (radio is_lite)*  ops... *)
Definition run_mixed (req : list Z) : list Z :=
  match req with
  | nr :: t =>
    match takeZ (Z.to_nat nr) t with
    | Some (plus, no :: t2) =>
      let '(specs, ops) := take_mobjs (Z.to_nat no) t2 in
      let w0 := new_world (map boolz plus) [] in
      let '(objs, w1, couts) := mconstruct_all specs w0 in
      couts ++ (-5) :: Z.of_N (clock w1) :: snap_all w1
      ++ (-6) :: flat_map (fun o : mobj => if snd (fst o) then dump_lite (snd o) else dump_drv (snd o)) objs
      ++ mrun_ops (length ops + 1) ops objs 0 w1
    | _ => [-3]
    end
  | [] => [-3]
  end.

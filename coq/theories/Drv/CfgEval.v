(* CfgEval.v -- evaluation lemmas for the driver running on the configuration-level bus
   CB: register primitives as equations, register-file algebra. *)
From Coq Require Import ZArith NArith Arith List Bool Lia.
From NRF Require Import Base.Sweep Env.Radio Env.RadioFacts Env.World Env.WorldFacts Env.CfgFacts
     Drv.RF24 Drv.RF24Sim.
Import ListNotations.
Local Open Scope Z_scope.

(* well-formed configuration record (what reset_radio and every write preserve) *)
Definition WfC (c : cfg) : Prop :=
  length (c_sregs c) = 30%nat /\ length (c_p0 c) = 5%nat /\ length (c_p1 c) = 5%nat
  /\ length (c_tx c) = 5%nat /\ c_act c = true.

Lemma set_nth_length l : forall i v, length (set_nth l i v) = length l.
Proof.
  induction l as [|x t IH]; intros i v; [reflexivity|].
  destruct i; cbn; [reflexivity|]. rewrite IH. reflexivity.
Qed.

Lemma nth_set_nth_same l : forall i v, (i < length l)%nat -> nth i (set_nth l i v) 0%N = v.
Proof.
  induction l as [|x t IH]; intros i v Hi; cbn in *; [lia|].
  destruct i; [reflexivity|]. apply IH. lia.
Qed.

Lemma nth_set_nth_other l : forall i j v, i <> j -> nth j (set_nth l i v) 0%N = nth j l 0%N.
Proof.
  induction l as [|x t IH]; intros i j v Hij; [destruct i; reflexivity|].
  destruct i, j; cbn; try reflexivity; [contradiction|]. apply IH. congruence.
Qed.

Lemma creg_cset_same c a v : (N.to_nat a < length (c_sregs c))%nat -> creg (cset c a v) a = v.
Proof. intros H. unfold creg, cset. cbn. apply nth_set_nth_same. exact H. Qed.

Lemma creg_cset_other c a b v : a <> b -> creg (cset c a v) b = creg c b.
Proof.
  intros H. unfold creg, cset. cbn. apply nth_set_nth_other. intros E. apply H. lia.
Qed.

Lemma overlay_length new old : length (overlay new old) = length old.
Proof.
  unfold overlay. rewrite firstn_length, app_length, skipn_length. lia.
Qed.

Lemma WfC_cset c a v : WfC c -> WfC (cset c a v).
Proof.
  intros (H1&H2&H3&H4&H5). unfold WfC, cset. cbn. rewrite set_nth_length. auto.
Qed.

Lemma WfC_cwrite c a data : WfC c -> WfC (cwrite c a data).
Proof.
  intros H. unfold cwrite. destruct data as [|v t]; [exact H|].
  repeat match goal with
         | |- context [if ?b then _ else _] => destruct b
         end; try exact H; try (apply WfC_cset; exact H);
    destruct H as (H1&H2&H3&H4&H5); unfold WfC, cset_addrs; cbn; rewrite ?overlay_length; auto.
Qed.

Lemma WfC_cset_ce c v : WfC c -> WfC (cset_ce c v).
Proof. intros H. exact H. Qed.

(* ---- primitives on CB as equations ---- *)
Lemma xfer_c mosi d c :
  xfer CB mosi d c = (Ok (0%N :: snd (cspi c mosi)), upd_in0 0 d, fst (cspi c mosi)).
Proof. unfold xfer. cbn [b_spi CB]. destruct (cspi c mosi). reflexivity. Qed.

Lemma reg_write_c reg v d c : 0 <= reg < 32 -> 0 <= v <= 255 ->
  reg_write CB reg v d c = (Ok tt, upd_in0 0 d, cwrite c (Z.to_N reg) [Z.to_N v]).
Proof.
  intros Hr Hv. unfold reg_write.
  replace (reg =? 80) with false by (symmetry; apply Z.eqb_neq; lia). cbv iota.
  rewrite (@as_byte_ok cfg) by (apply lor32_range; exact Hr).
  unfold bind at 1. unfold ret at 1.
  rewrite (@as_byte_ok cfg) by exact Hv. unfold bind at 1. unfold ret at 1.
  unfold bind. rewrite xfer_c. unfold ret.
  assert (E : Z.lor 32 reg = 32 + reg).
  { apply Z.eqb_eq. apply (sweepZ (fun r => Z.lor 32 r =? 32 + r) 32); [vm_compute; reflexivity|lia]. }
  rewrite E. unfold cspi.
  replace (Z.to_N (32 + reg) <? 32)%N with false by (symmetry; apply N.ltb_ge; lia).
  replace (Z.to_N (32 + reg) <? 64)%N with true by (symmetry; apply N.ltb_lt; lia).
  cbn [fst]. replace (Z.to_N (32 + reg) - 32)%N with (Z.to_N reg) by lia. reflexivity.
Qed.

Lemma reg_write_bytes_c reg buf d c : 0 <= reg < 32 ->
  reg_write_bytes CB reg buf d c = (Ok tt, upd_in0 0 d, cwrite c (Z.to_N reg) buf).
Proof.
  intros Hr. unfold reg_write_bytes.
  rewrite (@as_byte_ok cfg) by (apply lor32_range; exact Hr).
  unfold bind at 1. unfold ret at 1. unfold bind. rewrite xfer_c. unfold ret.
  assert (E : Z.lor 32 reg = 32 + reg).
  { apply Z.eqb_eq. apply (sweepZ (fun r => Z.lor 32 r =? 32 + r) 32); [vm_compute; reflexivity|lia]. }
  rewrite E. unfold cspi.
  replace (Z.to_N (32 + reg) <? 32)%N with false by (symmetry; apply N.ltb_ge; lia).
  replace (Z.to_N (32 + reg) <? 64)%N with true by (symmetry; apply N.ltb_lt; lia).
  cbn [fst]. replace (Z.to_N (32 + reg) - 32)%N with (Z.to_N reg) by lia. reflexivity.
Qed.

Lemma reg_read_c reg d c : 0 <= reg < 32 ->
  reg_read CB reg d c = (Ok (Z.of_N (hd 0%N (cread c (Z.to_N reg) 1))), upd_in0 0 d, c).
Proof.
  intros Hr. unfold reg_read.
  rewrite (@as_byte_ok cfg) by lia.
  unfold bind at 1. unfold ret at 1. unfold bind. rewrite xfer_c. unfold ret, cspi.
  replace (Z.to_N reg <? 32)%N with true by (symmetry; apply N.ltb_lt; lia).
  cbn [fst snd length nth]. f_equal. f_equal. f_equal.
  destruct (cread c (Z.to_N reg) 1); reflexivity.
Qed.

(* reading a plain single-byte register gives its stored value *)
Definition plain (a : N) : bool :=
  negb ((a =? R_RX_ADDR_P0) || (a =? R_RX_ADDR_P1) || (a =? R_TX_ADDR) || (a =? R_DYNPD) || (a =? R_FEATURE))%N.

Lemma cread_plain c a : plain a = true -> cread c a 1 = [creg c a].
Proof.
  unfold plain, cread. intros H. apply negb_true_iff in H.
  repeat (apply orb_false_iff in H; destruct H as [H ?]).
  rewrite H. repeat match goal with E : (_ =? _)%N = false |- _ => rewrite E; clear E end.
  reflexivity.
Qed.

Lemma cread_feature c a : WfC c -> (a = R_DYNPD \/ a = R_FEATURE) -> cread c a 1 = [creg c a].
Proof.
  intros (_&_&_&_&Hact) [-> | ->]; unfold cread; cbn; rewrite Hact; reflexivity.
Qed.

Lemma command_c x d c : 64 <= x <= 255 -> x <> 80 ->
  command CB x d c = (Ok tt, upd_in0 0 d, c).
Proof.
  intros Hx Hn. unfold command. rewrite (@as_byte_ok cfg) by lia.
  unfold bind at 1. unfold ret at 1. unfold bind. rewrite xfer_c. unfold ret, cspi.
  replace (Z.to_N x <? 32)%N with false by (symmetry; apply N.ltb_ge; lia).
  replace (Z.to_N x <? 64)%N with false by (symmetry; apply N.ltb_ge; lia).
  replace (Z.to_N x =? 80)%N with false by (symmetry; apply N.eqb_neq; lia).
  reflexivity.
Qed.

Lemma listen_delay_c s d c : listen_delay CB s d c = (Ok tt, d, c).
Proof.
  unfold listen_delay, bind, now, sleep, ret. cbn [b_now b_sleep CB].
  destruct (_ <? _)%N; reflexivity.
Qed.

Lemma set_ce_c v d c : set_ce CB v d c = (Ok tt, d, cset_ce c v).
Proof. reflexivity. Qed.

(* ---- stepping through monadic code on CB ---- *)
Lemma bind_ok {A B} (m : M (bus := cfg) A) (f : A -> M B) d c a d1 c1 :
  m d c = (Ok a, d1, c1) -> bind m f d c = f a d1 c1.
Proof. intros H. unfold bind. rewrite H. reflexivity. Qed.

Lemma bind_exn {A B} (m : M (bus := cfg) A) (f : A -> M B) d c e d1 c1 :
  m d c = (Exn e, d1, c1) -> bind m f d c = (Exn e, d1, c1).
Proof. intros H. unfold bind. rewrite H. reflexivity. Qed.

Lemma bind_assoc {A B C} (m : M (bus := cfg) A) (f : A -> M B) (g : B -> M C) d c :
  bind (bind m f) g d c = bind m (fun a => bind (f a) g) d c.
Proof. unfold bind. destruct (m d c) as [[[a|e] d1] c1]; reflexivity. Qed.

Ltac msolve side :=
  match goal with
  | |- get _ _ = _ => reflexivity
  | |- modify _ _ _ = _ => reflexivity
  | |- put _ _ _ = _ => reflexivity
  | |- ret _ _ _ = _ => reflexivity
  | |- set_ce _ _ _ _ = _ => reflexivity
  | |- sleep _ _ _ _ = _ => reflexivity
  | |- now _ _ _ = _ => reflexivity
  | |- listen_delay _ _ _ _ = _ => apply listen_delay_c
  | |- reg_write _ _ _ _ _ = _ => apply reg_write_c; side
  | |- reg_write_bytes _ _ _ _ _ = _ => apply reg_write_bytes_c; side
  | |- reg_read _ _ _ _ = _ => apply reg_read_c; side
  | |- command _ _ _ _ = _ => apply command_c; side
  end.

Ltac mstep side := rewrite ?bind_assoc; erewrite bind_ok; [ | msolve side ]; cbv beta.

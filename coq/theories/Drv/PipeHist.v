(* PipeHist.v -- property C08 over HISTORIES: the invariant that C08_rx_entry / C08_tx_ack_path assume (the
   object's cached view of CONFIG / EN_AA / EN_RXADDR / RX_ADDR_P0 / TX_ADDR equals the radio, and a remembered
   pipe-0 reading address means pipe 0 is enabled) is preserved by every call of the property's alphabet, so that the
   statements hold after ANY sequence of open_rx_pipe(0, a), close_rx_pipe(0), open_tx_pipe(a), auto_ack = bool and
   listen = bool, by induction on the sequence. *)
From Coq Require Import ZArith NArith Arith List Bool Lia.
From NRF Require Import Base.Sweep Env.Radio Env.RadioFacts Env.World Env.WorldFacts Env.CfgFacts
     Drv.RF24 Drv.RF24Sim Drv.RF24SimOps Drv.CfgEval Drv.CtxFacts Drv.PipeFacts.
Import ListNotations.
Local Open Scope Z_scope.

(* PInv plus: the three registers the pipe-0 logic rewrites from cached copies hold no reserved bits *)
Definition HInv (d : drv) (c : cfg) : Prop :=
  PInv d c /\ (creg c 0 < 128)%N /\ (creg c 1 < 64)%N /\ (creg c 2 < 64)%N.

(* ---- the configuration record under single writes ---- *)
Lemma cwrite_r0 c v : cwrite c 0 [v] = cset c 0 (N.land v 127).
Proof. reflexivity. Qed.
Lemma cwrite_r1 c v : cwrite c 1 [v] = cset c 1 (N.land v 63).
Proof. reflexivity. Qed.
Lemma cwrite_r2 c v : cwrite c 2 [v] = cset c 2 (N.land v 63).
Proof. reflexivity. Qed.
Lemma cwrite_p0 c a0 at_ : cwrite c 10 (a0 :: at_) = cset_addrs c (overlay (a0 :: at_) (c_p0 c)) (c_p1 c) (c_tx c).
Proof. reflexivity. Qed.
Lemma cwrite_tx c a0 at_ : cwrite c 16 (a0 :: at_) = cset_addrs c (c_p0 c) (c_p1 c) (overlay (a0 :: at_) (c_tx c)).
Proof. reflexivity. Qed.

Lemma creg_cset_addrs c p0 p1 tx a : creg (cset_addrs c p0 p1 tx) a = creg c a.
Proof. reflexivity. Qed.
Lemma creg_cset_ce c v a : creg (cset_ce c v) a = creg c a.
Proof. reflexivity. Qed.

Lemma RegsByte_cset c a v : RegsByte c -> (v < 256)%N -> RegsByte (cset c a v).
Proof.
  intros H Hv b. destruct (N.eq_dec a b) as [<-|Hn].
  - unfold creg, cset. cbn [c_sregs].
    destruct (Nat.ltb (N.to_nat a) (length (c_sregs c))) eqn:E.
    + apply Nat.ltb_lt in E. rewrite nth_set_nth_same by exact E. exact Hv.
    + apply Nat.ltb_ge in E. rewrite nth_overflow; [lia|]. rewrite set_nth_length. exact E.
  - rewrite creg_cset_other by exact Hn. apply H.
Qed.

Lemma land127_lt v : (N.land v 127 < 128)%N.
Proof. change 127%N with (N.ones 7). rewrite N.land_ones. apply N.mod_lt. discriminate. Qed.
Lemma land63_lt v : (N.land v 63 < 64)%N.
Proof. change 63%N with (N.ones 6). rewrite N.land_ones. apply N.mod_lt. discriminate. Qed.
Lemma land_small v m : (v < 2 ^ m)%N -> N.land v (N.ones m) = v.
Proof. intros H. rewrite N.land_ones. apply N.mod_small. exact H. Qed.

(* deq-invariance *)
Lemma PInv_deq d d' c : deq d d' -> PInv d' c -> PInv d c.
Proof.
  intros He (Hw&Hd&Hp0&Htx&Hop&Haa&Hcf&Hrd).
  destruct (deq_fields _ _ He) as (E1&E2&E3&E4&E5&E6&E7&E8&E9&E10&E11&E12&E13&E14&E15&E16).
  unfold PInv. split; [exact Hw|]. split.
  { unfold DrvOk in *. rewrite E1, E2, E3, E4, E5, E6, E7, E8, E9, E10, E11, E12, E13, E14. exact Hd. }
  rewrite E1, E3, E5, E11, E14, E15. repeat split; try assumption; eapply Hrd; eassumption.
Qed.

(* ---- byte facts by sweep ---- *)
Lemma sw64 (P : N -> bool) : forallb P (map N.of_nat (seq 0 64)) = true -> forall n, (n < 64)%N -> P n = true.
Proof. intros H n Hn. apply (sweepN P 64 H). exact Hn. Qed.
Lemma sw128 (P : N -> bool) : forallb P (map N.of_nat (seq 0 128)) = true -> forall n, (n < 128)%N -> P n = true.
Proof. intros H n Hn. apply (sweepN P 128 H). exact Hn. Qed.

Ltac bools H :=
  repeat match type of H with
         | (_ && _ = true) => let A := fresh "B" in apply andb_true_iff in H; destruct H as [H A]; bools A
         end.

(* what a cached copy v written to a 6-bit register reads back as *)
Definition rt63 (v : Z) : bool :=
  (0 <=? v) && (v <=? 255) && (v <? 64) && (Z.of_N (N.land (Z.to_N v) 63) =? v).
Definition rt127 (v : Z) : bool :=
  (0 <=? v) && (v <=? 255) && (v <? 128) && (Z.of_N (N.land (Z.to_N v) 127) =? v).

Lemma rt63_use v : rt63 v = true -> 0 <= v <= 255 /\ Z.of_N (N.land (Z.to_N v) 63) = v /\ (N.land (Z.to_N v) 63 < 64)%N.
Proof. unfold rt63. intros H. bools H. split; [lia|]. split; [lia|]. apply land63_lt. Qed.
Lemma rt127_use v : rt127 v = true -> 0 <= v <= 255 /\ Z.of_N (N.land (Z.to_N v) 127) = v /\ (N.land (Z.to_N v) 127 < 128)%N.
Proof. unfold rt127. intros H. bools H. split; [lia|]. split; [lia|]. apply land127_lt. Qed.

Lemma clear0_fact n : (n < 64)%N ->
  let v := Z.land (Z.of_N n) (Z.lnot (Z.shiftl 1 0)) in
  rt63 v = true /\ N.testbit (N.land (Z.to_N v) 63) 0 = false.
Proof.
  intros Hn. cbv zeta.
  pose proof (sw64 (fun n => let v := Z.land (Z.of_N n) (Z.lnot (Z.shiftl 1 0)) in
                             rt63 v && negb (N.testbit (N.land (Z.to_N v) 63) 0))
                   ltac:(vm_compute; reflexivity) n Hn) as H.
  cbv zeta beta in H. apply andb_true_iff in H. destruct H as [H1 H2]. apply negb_true_iff in H2. auto.
Qed.

Lemma set0_fact n : (n < 64)%N ->
  let v := Z.lor (Z.of_N n) 1 in
  rt63 v = true /\ N.testbit (N.land (Z.to_N v) 63) 0 = true.
Proof.
  intros Hn. cbv zeta.
  pose proof (sw64 (fun n => let v := Z.lor (Z.of_N n) 1 in rt63 v && N.testbit (N.land (Z.to_N v) 63) 0)
                   ltac:(vm_compute; reflexivity) n Hn) as H.
  cbv zeta beta in H. apply andb_true_iff in H. exact H.
Qed.

Lemma and62_fact n : (n < 64)%N ->
  let v := Z.land (Z.of_N n) 62 in
  rt63 v = true /\ N.testbit (N.land (Z.to_N v) 63) 0 = false.
Proof.
  intros Hn. cbv zeta.
  pose proof (sw64 (fun n => let v := Z.land (Z.of_N n) 62 in rt63 v && negb (N.testbit (N.land (Z.to_N v) 63) 0))
                   ltac:(vm_compute; reflexivity) n Hn) as H.
  cbv zeta beta in H. apply andb_true_iff in H. destruct H as [H1 H2]. apply negb_true_iff in H2. auto.
Qed.

Lemma role_fact n b : (n < 128)%N ->
  let v := Z.lor (Z.land (Z.of_N n) 252) (2 + zb b) in
  rt127 v = true /\ N.land (N.land (Z.to_N v) 127) 3 = (if b then 3 else 2)%N
  /\ N.testbit (N.land (Z.to_N v) 127) 0 = b.
Proof.
  intros Hn. cbv zeta.
  pose proof (sw128 (fun n => forallb (fun b => let v := Z.lor (Z.land (Z.of_N n) 252) (2 + zb b) in
                       rt127 v && (N.land (N.land (Z.to_N v) 127) 3 =? (if b then 3 else 2))%N
                       && Bool.eqb (N.testbit (N.land (Z.to_N v) 127) 0) b) [true; false])
                   ltac:(vm_compute; reflexivity) n Hn) as H.
  cbv beta in H. rewrite forallb_forall in H. specialize (H b ltac:(destruct b; cbn; auto)).
  cbv zeta in H. apply andb_true_iff in H. destruct H as [H H3]. apply andb_true_iff in H. destruct H as [H1 H2].
  apply N.eqb_eq in H2. apply Bool.eqb_prop in H3. auto.
Qed.


(* sweeps for the other pipes *)
Lemma clearp_fact n p : (n < 64)%N -> 1 <= p <= 5 ->
  let v := Z.land (Z.of_N n) (Z.lnot (Z.shiftl 1 p)) in
  rt63 v = true /\ N.testbit (N.land (Z.to_N v) 63) 0 = N.testbit n 0.
Proof.
  intros Hn Hp. cbv zeta.
  pose proof (sw64 (fun n => forallb (fun p => let v := Z.land (Z.of_N n) (Z.lnot (Z.shiftl 1 p)) in
                       rt63 v && Bool.eqb (N.testbit (N.land (Z.to_N v) 63) 0) (N.testbit n 0)) [1; 2; 3; 4; 5])
                   ltac:(vm_compute; reflexivity) n Hn) as H.
  cbv beta in H. rewrite forallb_forall in H.
  assert (Hin : In p [1; 2; 3; 4; 5]) by (cbn; lia).
  specialize (H p Hin). cbv zeta in H. apply andb_true_iff in H. destruct H as [H1 H2].
  apply Bool.eqb_prop in H2. auto.
Qed.
Lemma setp_fact n p : (n < 64)%N -> 1 <= p <= 5 ->
  let v := Z.lor (Z.of_N n) (Z.shiftl 1 p) in
  rt63 v = true /\ N.testbit (N.land (Z.to_N v) 63) 0 = N.testbit n 0.
Proof.
  intros Hn Hp. cbv zeta.
  pose proof (sw64 (fun n => forallb (fun p => let v := Z.lor (Z.of_N n) (Z.shiftl 1 p) in
                       rt63 v && Bool.eqb (N.testbit (N.land (Z.to_N v) 63) 0) (N.testbit n 0)) [1; 2; 3; 4; 5])
                   ltac:(vm_compute; reflexivity) n Hn) as H.
  cbv beta in H. rewrite forallb_forall in H.
  assert (Hin : In p [1; 2; 3; 4; 5]) by (cbn; lia).
  specialize (H p Hin). cbv zeta in H. apply andb_true_iff in H. destruct H as [H1 H2].
  apply Bool.eqb_prop in H2. auto.
Qed.

(* bit 0 of a cached byte = bit 0 of the register it mirrors *)
Lemma bit0_cached n : (n < 256)%N -> truthy (Z.land (Z.of_N n) 1) = N.testbit n 0.
Proof. intros H. apply bit0_of_truthy. exact H. Qed.

(* ---- projections of an updated driver record ---- *)
Ltac dsimp := cbn [d_in0 d_config d_rf_setup d_open_pipes d_dyn_pl d_aa d_features d_retry_setup d_channel d_addr_len
                   d_pl_len d_pipe0 d_pipe1 d_pipes25 d_tx_address d_pipe0_read_addr d_is_plus
                   upd_in0 upd_config upd_rf_setup upd_open_pipes upd_dyn_pl upd_aa upd_features upd_retry upd_channel
                   upd_addr_len upd_pl_len upd_pipe0 upd_pipe1 upd_pipes25 upd_tx_address upd_p0read upd_is_plus] in *.
Lemma DrvOk_intro d :
  byte_z (d_config d) -> byte_z (d_rf_setup d) -> byte_z (d_open_pipes d) -> byte_z (d_dyn_pl d) ->
  byte_z (d_aa d) -> byte_z (d_features d) -> byte_z (d_retry_setup d) -> byte_z (d_channel d) ->
  byte_z (d_addr_len d - 2) -> length (d_pl_len d) = 6%nat ->
  length (d_pipe0 d) = 5%nat -> length (d_pipe1 d) = 5%nat -> length (d_tx_address d) = 5%nat ->
  length (d_pipes25 d) = 4%nat -> Forall byte_z (d_pipes25 d) -> DrvOk d.
Proof. unfold DrvOk. intuition. Qed.
Ltac dsimpg := cbn [d_in0 d_config d_rf_setup d_open_pipes d_dyn_pl d_aa d_features d_retry_setup d_channel d_addr_len
                   d_pl_len d_pipe0 d_pipe1 d_pipes25 d_tx_address d_pipe0_read_addr d_is_plus
                   upd_in0 upd_config upd_rf_setup upd_open_pipes upd_dyn_pl upd_aa upd_features upd_retry upd_channel
                   upd_addr_len upd_pl_len upd_pipe0 upd_pipe1 upd_pipes25 upd_tx_address upd_p0read upd_is_plus].
Ltac drvok := apply DrvOk_intro; dsimpg;
  first [ assumption
        | match goal with H : 0 <= ?v <= 255 |- byte_z ?v => exact H end
        | congruence ].
Ltac csimp := cbn [c_sregs c_p0 c_p1 c_tx c_ce c_act c_plus cset cset_addrs cset_ce] in *.

Local Opaque bind reg_write reg_write_bytes reg_read command xfer Z.lor Z.land N.land Z.lnot Z.shiftl.

Lemma creg_cset_same' c a v : WfC c -> (a < 30)%N -> creg (cset c a v) a = v.
Proof. intros (W1&_) Ha. apply creg_cset_same. rewrite W1. lia. Qed.

Lemma hinv_regs d c : HInv d c ->
  d_config d = Z.of_N (creg c 0) /\ d_aa d = Z.of_N (creg c 1) /\ d_open_pipes d = Z.of_N (creg c 2).
Proof. intros ((_&_&_&_&Hop&Haa&Hcf&_)&_). auto. Qed.

(* side conditions: literal ranges by computation, cached bytes from the hypotheses; lia only as a last resort
   (it is slow in the large contexts below) *)
Ltac rng := split; [let X := fresh in intro X; discriminate X | first [reflexivity | let X := fresh in intro X; discriminate X]].
Ltac sd := first [ rng
                 | match goal with H : 0 <= ?v <= 255 |- 0 <= ?v <= 255 => exact H end
                 | match goal with H : byte_z ?v |- 0 <= ?v <= 255 => exact H end
                 | lia ].
Lemma land63_lt256 v : (N.land v 63 < 256)%N.
Proof. pose proof (land63_lt v). lia. Qed.
Lemma land127_lt256 v : (N.land v 127 < 256)%N.
Proof. pose proof (land127_lt v). lia. Qed.
Ltac lt256 := first [apply land63_lt256 | apply land127_lt256].

(* ---- close_rx_pipe(0) ---- *)
Lemma close0_inv d c : HInv d c ->
  exists d' c', close_rx_pipe CB 0 d c = (Ok tt, d', c')
    /\ HInv d' c' /\ d_pipe0_read_addr d' = None
    /\ c_ce c' = c_ce c /\ c_p0 c' = c_p0 c /\ c_tx c' = c_tx c.
Proof.
  intros H. pose proof H as ((Hw&Hd&Hp0&Htx&Hop&Haa&Hcf&Hrd)&B0&B1&B2).
  pose proof Hd as (D1&D2&D3&D4&D5&D6&D7&D8&D9&D10&D11&D12&D13&D14&D15).
  unfold close_rx_pipe. change ((0 <? 0) || (5 <? 0)) with false. cbv iota.
  mstep sd. change (Z.to_N 2) with 2%N. rewrite (cread_plain c 2) by reflexivity. cbn [hd].
  destruct (clear0_fact _ B2) as [F1 F2]. cbv zeta in F1, F2.
  destruct (rt63_use _ F1) as (R1&R2&R3).
  mstep sd. change (0 =? 0) with true. cbv iota. mstep sd.
  rewrite reg_write_c by (first [rng|exact R1]).
  eexists _, _. split; [reflexivity|].
  change (Z.to_N 2) with 2%N. rewrite cwrite_r2.
  set (v := Z.land (Z.of_N (creg c 2)) (Z.lnot (Z.shiftl 1 0))) in *.
  split; [|dsimp; csimp; auto].
  assert (Hw' : WfC (cset c 2 (N.land (Z.to_N v) 63))) by (apply WfC_cset; exact Hw).
  split; [|].
  - unfold PInv. dsimp. split; [exact Hw'|]. split; [drvok|].
    rewrite creg_cset_same' by (try exact Hw; reflexivity).
    rewrite !creg_cset_other by discriminate. csimp.
    repeat split; try assumption; try (intros; discriminate).
  - rewrite creg_cset_same' by (try exact Hw; reflexivity). rewrite !creg_cset_other by discriminate. auto.
Qed.

(* a tactic for "HInv of the state after writes to registers 0/1/2 and the address registers" *)
Ltac regs_norm Hw :=
  repeat first [ rewrite creg_cset_addrs | rewrite creg_cset_ce
               | rewrite creg_cset_same' by (first [exact Hw | assumption | reflexivity])
               | rewrite creg_cset_other by discriminate ].

(* ---- auto_ack = bool ---- *)
Lemma autoack_inv d c b : HInv d c ->
  exists d' c', set_auto_ack_attr CB (PBool b) d c = (Ok tt, d', c')
    /\ HInv d' c' /\ d_pipe0_read_addr d' = d_pipe0_read_addr d
    /\ c_ce c' = c_ce c /\ c_p0 c' = c_p0 c /\ c_tx c' = c_tx c
    /\ creg c' 0 = creg c 0 /\ creg c' 2 = creg c 2.
Proof.
  intros H. pose proof H as ((Hw&Hd&Hp0&Htx&Hop&Haa&Hcf&Hrd)&B0&B1&B2).
  pose proof Hd as (D1&D2&D3&D4&D5&D6&D7&D8&D9&D10&D11&D12&D13&D14&D15).
  unfold set_auto_ack_attr. mstep sd. mstep sd. dsimp.
  assert (R : rt63 (if b then 63 else 0) = true) by (destruct b; vm_compute; reflexivity).
  destruct (rt63_use _ R) as (R1&R2&R3).
  rewrite reg_write_c by (first [rng|exact R1]).
  eexists _, _. split; [reflexivity|].
  change (Z.to_N 1) with 1%N. rewrite cwrite_r1.
  set (v := if b then 63 else 0) in *.
  assert (Hw' : WfC (cset c 1 (N.land (Z.to_N v) 63))) by (apply WfC_cset; exact Hw).
  split; [|dsimp; csimp; regs_norm Hw; repeat split; try reflexivity; try assumption].
  split; [|regs_norm Hw; auto].
  unfold PInv. dsimp. split; [exact Hw'|]. split; [drvok|].
  regs_norm Hw. csimp. repeat split; try assumption; try (eapply Hrd; eassumption).
Qed.

(* ---- open_rx_pipe(0, a) ---- *)
Lemma set0_fact' n : (n < 64)%N ->
  let v := Z.lor (Z.of_N n) (Z.shiftl 1 0) in
  rt63 v = true /\ N.testbit (N.land (Z.to_N v) 63) 0 = true.
Proof. exact (set0_fact n). Qed.

Lemma openrx0_inv d c a : HInv d c -> (1 <= length a <= 5)%nat ->
  exists d' c', open_rx_pipe CB 0 a d c = (Ok tt, d', c')
    /\ HInv d' c' /\ d_pipe0_read_addr d' = Some (c_p0 c')
    /\ c_p0 c' = overlay a (c_p0 c) /\ firstn (length a) (c_p0 c') = a
    /\ c_ce c' = c_ce c /\ c_tx c' = c_tx c /\ creg c' 0 = creg c 0 /\ creg c' 1 = creg c 1.
Proof.
  intros H Hl. pose proof H as ((Hw&Hd&Hp0&Htx&Hop&Haa&Hcf&Hrd)&B0&B1&B2).
  pose proof Hw as (W1&W2&W3&W4&W5).
  pose proof Hd as (D1&D2&D3&D4&D5&D6&D7&D8&D9&D10&D11&D12&D13&D14&D15).
  destruct a as [|a0 at_]; [cbn in Hl; lia|].
  destruct (overlay_prefix (a0 :: at_) (c_p0 c) ltac:(rewrite W2; lia)) as [Ov1 Ov2].
  unfold open_rx_pipe.
  change (negb ((0 <=? 0) && (0 <=? 5))) with false. cbv iota.
  change (0 <? 2) with true. cbv iota. change (0 =? 0) with true. cbv iota.
  mstep sd.
  assert (Hov : overlay_into (a0 :: at_) (d_pipe0 d) d c = (Ok (overlay (a0 :: at_) (c_p0 c)), d, c)).
  { unfold overlay_into. replace (Nat.leb (length (a0 :: at_)) (length (d_pipe0 d))) with true
      by (symmetry; apply Nat.leb_le; lia). rewrite Ov1, Hp0. reflexivity. }
  rewrite !bind_assoc. erewrite bind_ok; [|exact Hov]. cbv beta.
  mstep sd. mstep sd. change (10 + 0) with 10. mstep sd.
  mstep sd. change (Z.to_N 2) with 2%N. change (Z.to_N 10) with 10%N.
  rewrite cwrite_p0. rewrite (cread_plain _ 2) by reflexivity. cbn [hd]. rewrite creg_cset_addrs.
  destruct (set0_fact' _ B2) as [F1 F2]. cbv zeta in F1, F2.
  destruct (rt63_use _ F1) as (R1&R2&R3).
  mstep sd. rewrite reg_write_c by (first [rng|exact R1]).
  eexists _, _. split; [reflexivity|].
  change (Z.to_N 2) with 2%N. rewrite cwrite_r2.
  set (v := Z.lor (Z.of_N (creg c 2)) (Z.shiftl 1 0)) in *.
  set (p := overlay (a0 :: at_) (c_p0 c)) in *.
  assert (Lp : length p = 5%nat) by (unfold p; rewrite overlay_length; exact W2).
  assert (Hw1 : WfC (cset_addrs c p (c_p1 c) (c_tx c))) by (unfold WfC; csimp; auto).
  assert (Hw' : WfC (cset (cset_addrs c p (c_p1 c) (c_tx c)) 2 (N.land (Z.to_N v) 63))) by (apply WfC_cset; exact Hw1).
  split; [|dsimp; csimp; regs_norm Hw1; repeat split; try reflexivity; try assumption].
  split; [|regs_norm Hw1; auto].
  unfold PInv. dsimp. split; [exact Hw'|]. split; [drvok|].
  regs_norm Hw1. csimp. repeat split; try assumption; try congruence.
  all: intros img Hi; inversion Hi; subst; auto.
Qed.

Ltac rdfin Hrd := match goal with Hx : _ = Some ?i |- _ => destruct (Hrd _ Hx) as [? ?]; first [assumption|congruence] end.

(* ---- listen = b ---- *)
Lemma listen_inv d c b : HInv d c ->
  exists d' c', set_listen CB b d c = (Ok tt, d', c')
    /\ HInv d' c' /\ d_pipe0_read_addr d' = d_pipe0_read_addr d
    /\ c_ce c' = b /\ N.land (creg c' 0) 3 = (if b then 3 else 2)%N
    /\ c_tx c' = c_tx c /\ creg c' 1 = creg c 1
    /\ (b = true -> match d_pipe0_read_addr d with
                    | Some img => c_p0 c' = img /\ N.testbit (creg c' 2) 0 = true
                    | None => N.testbit (creg c' 2) 0 = false
                    end)
    /\ (b = false -> c_p0 c' = c_p0 c
                     /\ (N.testbit (creg c 1) 0 = true -> N.testbit (creg c' 2) 0 = true)).
Proof.
  intros H. pose proof H as ((Hw&Hd&Hp0&Htx&Hop&Haa&Hcf&Hrd)&B0&B1&B2).
  pose proof Hw as (W1&W2&W3&W4&W5).
  pose proof Hd as (D1&D2&D3&D4&D5&D6&D7&D8&D9&D10&D11&D12&D13&D14&D15).
  destruct (role_fact _ b B0) as (F1&F2&F3). cbv zeta in F1, F2, F3.
  destruct (rt127_use _ F1) as (R1&R2&R3).
  unfold set_listen. mstep sd. mstep sd. rewrite <- Hcf. mstep sd.
  erewrite bind_ok; [|apply reg_write_c; [rng|exact R1]]. cbv beta.
  mstep sd. change (Z.to_N 0) with 0%N. rewrite cwrite_r0. cbn [b_ce b_now b_sleep CB fst snd].
  set (cv := Z.lor (Z.land (Z.of_N (creg c 0)) 252) (2 + zb b)) in *.
  set (c1 := cset (cset_ce c false) 0 (N.land (Z.to_N cv) 127)).
  assert (Hwc : WfC (cset_ce c false)) by (apply WfC_cset_ce; exact Hw).
  assert (Hw1 : WfC c1) by (apply WfC_cset; exact Hwc).
  assert (C0 : creg c1 0 = N.land (Z.to_N cv) 127) by (unfold c1; regs_norm Hwc; reflexivity).
  assert (C1 : creg c1 1 = creg c 1) by (unfold c1; regs_norm Hwc; reflexivity).
  assert (C2 : creg c1 2 = creg c 2) by (unfold c1; regs_norm Hwc; reflexivity).
  assert (CA : c_p0 c1 = c_p0 c /\ c_p1 c1 = c_p1 c /\ c_tx c1 = c_tx c) by (unfold c1; csimp; auto).
  destruct CA as (CA0&CA1&CA2).
  assert (CE1 : c_ce c1 = false) by (unfold c1; reflexivity).
  assert (Hbit_aa : truthy (Z.land (d_aa d) 1) = N.testbit (creg c 1) 0) by (rewrite <- Haa; apply bit0_cached; lia).
  assert (Hbit_op : truthy (Z.land (d_open_pipes d) 1) = N.testbit (creg c 2) 0) by (rewrite <- Hop; apply bit0_cached; lia).
  clearbody c1.
  destruct b; cbv iota.
  - (* entering RX mode *)
    mstep sd. mstep sd. dsimp. cbn [b_ce b_now b_sleep CB fst snd].
    destruct (d_pipe0_read_addr d) as [img|] eqn:Er.
    + destruct (Hrd img eq_refl) as [Hl Hbit].
      assert (Hrd' : forall i, d_pipe0_read_addr d = Some i -> length i = 5%nat /\ N.testbit (creg c 2) 0 = true)
        by (intros i Hi; rewrite Er in Hi; apply Hrd; exact Hi).
      unfold bytes_eqb. destruct (list_eqb img (d_pipe0 d)) eqn:Eq; cbn [negb].
      * apply list_eqb_eq in Eq.
        mstep sd. rewrite listen_delay_c.
        eexists _, _. split; [reflexivity|]. dsimp. csimp.
        split; [|repeat split; try assumption; try congruence; try discriminate; regs_norm Hw1; try congruence].
        split; [|regs_norm Hw1; rewrite C0, C1, C2; auto].
        unfold PInv. dsimp. split; [apply WfC_cset_ce; exact Hw1|]. split; [drvok|].
        regs_norm Hw1. csimp. rewrite C0, C1, C2, R2, CA0, CA2. repeat split; try assumption.
        all: rdfin Hrd'.
      * rewrite !bind_assoc.
        erewrite bind_ok; [|apply overlay_into_full; rewrite Hl, D11; reflexivity]. cbv beta.
        mstep sd. mstep sd. rewrite listen_delay_c.
        eexists _, _. split; [reflexivity|]. dsimp.
        destruct img as [|i0 it]; [discriminate|].
        change (Z.to_N 10) with 10%N. rewrite cwrite_p0. csimp.
        rewrite overlay_full by (rewrite CA0, W2; exact Hl).
        split; [|repeat split; try assumption; try congruence; try discriminate; regs_norm Hw1; try congruence].
        split; [|regs_norm Hw1; rewrite C0, C1, C2; auto].
        unfold PInv. dsimp. split; [unfold WfC in *; csimp; intuition|]. split; [drvok|].
        regs_norm Hw1. csimp. rewrite C0, C1, C2, R2, CA2. repeat split; try assumption.
        all: rdfin Hrd'.
    + rewrite Hbit_op. destruct (N.testbit (creg c 2) 0) eqn:Eo.
      * destruct (and62_fact _ B2) as [G1 G2]. cbv zeta in G1, G2. destruct (rt63_use _ G1) as (S1&S2&S3).
        rewrite !bind_assoc. mstep sd. rewrite <- Hop.
        erewrite bind_ok; [|apply reg_write_c; [rng|exact S1]]. cbv beta. rewrite listen_delay_c.
        eexists _, _. split; [reflexivity|]. dsimp.
        change (Z.to_N 2) with 2%N. rewrite cwrite_r2.
        assert (Hw2 : WfC (cset_ce c1 true)) by (apply WfC_cset_ce; exact Hw1).
        split; [|repeat split; try assumption; try congruence; try discriminate; csimp; regs_norm Hw2; try congruence].
        split; [|regs_norm Hw2; rewrite C0, C1; auto].
        unfold PInv. dsimp. split; [apply WfC_cset; exact Hw2|]. split; [drvok|].
        regs_norm Hw2. csimp. rewrite C0, C1, R2, CA0, CA2. repeat split; try assumption; try discriminate; try congruence.
      * mstep sd. rewrite listen_delay_c.
        eexists _, _. split; [reflexivity|]. dsimp. csimp.
        split; [|repeat split; try assumption; try congruence; try discriminate; regs_norm Hw1; try congruence].
        split; [|regs_norm Hw1; rewrite C0, C1, C2; auto].
        unfold PInv. dsimp. split; [apply WfC_cset_ce; exact Hw1|]. split; [drvok|].
        regs_norm Hw1. csimp. rewrite C0, C1, C2, R2, CA0, CA2. repeat split; try assumption; try discriminate; try congruence.
  - (* entering TX mode *)
    mstep sd. dsimp.
    assert (Hfl : forall (dd : drv) (cc : cfg),
      (if (Z.land (d_features d) 6 =? 6) && truthy (Z.land (Z.land (d_aa d) (d_dyn_pl d)) 1)
       then flush_tx CB else ret tt) dd cc
      = (Ok tt, (if (Z.land (d_features d) 6 =? 6) && truthy (Z.land (Z.land (d_aa d) (d_dyn_pl d)) 1)
                 then upd_in0 0 dd else dd), cc)).
    { intros dd cc. destruct ((Z.land (d_features d) 6 =? 6) && truthy (Z.land (Z.land (d_aa d) (d_dyn_pl d)) 1)).
      - unfold flush_tx. apply command_c; [rng|discriminate].
      - reflexivity. }
    rewrite !bind_assoc. erewrite bind_ok; [|apply Hfl]. cbv beta.
    set (dx := if (Z.land (d_features d) 6 =? 6) && truthy (Z.land (Z.land (d_aa d) (d_dyn_pl d)) 1) then _ else _).
    assert (Ex : deq dx (upd_config cv d)).
    { unfold dx. destruct (_ && _); [|apply deq_in0]. eapply deq_trans; [apply deq_in0|apply deq_in0]. }
    destruct (deq_fields _ _ Ex) as (E1&E2&E3&E4&E5&E6&E7&E8&E9&E10&E11&E12&E13&E14&E15&E16). dsimp.
    mstep sd. rewrite E5, E3, Hbit_aa, Hbit_op.
    destruct (N.testbit (creg c 1) 0) eqn:Ea; cbn [andb];
      [destruct (N.testbit (creg c 2) 0) eqn:Eo; cbn [negb]|].
    + mstep sd. rewrite listen_delay_c.
      eexists _, _. split; [reflexivity|].
      assert (Hpx : PInv dx c1).
      { eapply PInv_deq; [exact Ex|]. unfold PInv. dsimp. split; [exact Hw1|]. split; [drvok|].
        rewrite C0, C1, C2, R2, CA0, CA2. repeat split; try assumption; eapply Hrd; eassumption. }
      split; [split; [exact Hpx|rewrite C0, C1, C2; auto]|].
      repeat split; try assumption; try congruence; try discriminate.
      all: try (intros _; rewrite C2; exact Eo).
    + destruct (set0_fact _ B2) as [G1 G2]. cbv zeta in G1, G2. destruct (rt63_use _ G1) as (S1&S2&S3).
      rewrite !bind_assoc. mstep sd. rewrite <- Hop.
      erewrite bind_ok; [|apply reg_write_c; [rng|exact S1]]. cbv beta. rewrite listen_delay_c.
      eexists _, _. split; [reflexivity|].
      change (Z.to_N 2) with 2%N. rewrite cwrite_r2.
      split; [|dsimp; repeat split; try assumption; try congruence; try discriminate; csimp; regs_norm Hw1; try congruence].
      split; [|regs_norm Hw1; rewrite C0, C1; auto].
      eapply PInv_deq; [apply deq_in0|]. eapply PInv_deq with (d' := upd_open_pipes (Z.lor (Z.of_N (creg c 2)) 1) (upd_config cv d)).
      { unfold deq in *. dsimp. destruct dx; destruct d; cbn in *. inversion Ex; subst. reflexivity. }
      unfold PInv. dsimp. split; [apply WfC_cset; exact Hw1|]. split; [drvok|].
      regs_norm Hw1. csimp. rewrite C0, C1, R2, CA0, CA2. repeat split; try assumption.
      all: rdfin Hrd.
    + mstep sd. rewrite listen_delay_c.
      eexists _, _. split; [reflexivity|].
      assert (Hpx : PInv dx c1).
      { eapply PInv_deq; [exact Ex|]. unfold PInv. dsimp. split; [exact Hw1|]. split; [drvok|].
        rewrite C0, C1, C2, R2, CA0, CA2. repeat split; try assumption; eapply Hrd; eassumption. }
      split; [split; [exact Hpx|rewrite C0, C1, C2; auto]|].
      repeat split; try assumption; try congruence; try discriminate.
Qed.

(* ---- open_tx_pipe(a) ---- *)
Lemma opentx_inv d c a : HInv d c -> (1 <= length a <= 5)%nat ->
  exists d' c', open_tx_pipe CB a d c = (Ok tt, d', c')
    /\ HInv d' c' /\ d_pipe0_read_addr d' = d_pipe0_read_addr d
    /\ c_tx c' = overlay a (c_tx c) /\ firstn (length a) (c_tx c') = a
    /\ c_ce c' = c_ce c /\ creg c' 0 = creg c 0 /\ creg c' 1 = creg c 1
    /\ (N.testbit (creg c 1) 0 = true ->
          c_p0 c' = c_tx c' /\ (N.testbit (creg c 0) 0 = false -> N.testbit (creg c' 2) 0 = true))
    /\ (N.testbit (creg c 1) 0 = false -> c_p0 c' = c_p0 c /\ creg c' 2 = creg c 2).
Proof.
  intros H Hlen. pose proof H as ((Hw&Hd&Hp0&Htx&Hop&Haa&Hcf&Hrd)&B0&B1&B2).
  pose proof Hw as (W1&W2&W3&W4&W5).
  pose proof Hd as (D1&D2&D3&D4&D5&D6&D7&D8&D9&D10&D11&D12&D13&D14&D15).
  destruct (overlay_prefix a (c_tx c) ltac:(lia)) as [Ov1 Ov2].
  destruct a as [|a0 at_]; [cbn in Hlen; lia|].
  unfold open_tx_pipe. mstep sd.
  assert (Hov : overlay_into (a0 :: at_) (d_tx_address d) d c = (Ok (overlay (a0 :: at_) (c_tx c)), d, c)).
  { unfold overlay_into. replace (Nat.leb (length (a0 :: at_)) (length (d_tx_address d))) with true
      by (symmetry; apply Nat.leb_le; lia). rewrite Ov1, Htx. reflexivity. }
  erewrite bind_ok; [|exact Hov]. cbv beta.
  mstep sd. mstep sd. mstep sd. dsimp.
  change (Z.to_N 16) with 16%N. rewrite cwrite_tx.
  set (tx' := overlay (a0 :: at_) (c_tx c)) in *.
  assert (Ltx : length tx' = 5%nat) by (unfold tx'; rewrite overlay_length; exact W4).
  assert (Hbit_aa : truthy (Z.land (d_aa d) 1) = N.testbit (creg c 1) 0) by (rewrite <- Haa; apply bit0_cached; lia).
  assert (Hbit_cf : truthy (Z.land (d_config d) 1) = N.testbit (creg c 0) 0) by (rewrite <- Hcf; apply bit0_cached; lia).
  assert (Hbit_op : truthy (Z.land (d_open_pipes d) 1) = N.testbit (creg c 2) 0) by (rewrite <- Hop; apply bit0_cached; lia).
  (* the last step: open pipe 0 if auto-ack, TX mode and closed -- on a state (dd, cc) that satisfies the invariant *)
  assert (Last : forall dd cc, HInv dd cc ->
            d_aa dd = d_aa d -> d_config dd = d_config d -> d_open_pipes dd = d_open_pipes d ->
            creg cc 0 = creg c 0 -> creg cc 1 = creg c 1 -> creg cc 2 = creg c 2 ->
            exists d' c',
              (if truthy (Z.land (d_aa dd) 1) && negb (truthy (Z.land (d_config dd) 1))
                  && negb (truthy (Z.land (d_open_pipes dd) 1))
               then bind (modify (upd_open_pipes (Z.lor (d_open_pipes dd) 1)))
                         (fun _ => reg_write CB 2 (Z.lor (d_open_pipes dd) 1))
               else ret tt) dd cc = (Ok tt, d', c')
              /\ HInv d' c' /\ d_pipe0_read_addr d' = d_pipe0_read_addr dd
              /\ c_p0 c' = c_p0 cc /\ c_tx c' = c_tx cc /\ c_ce c' = c_ce cc
              /\ creg c' 0 = creg c 0 /\ creg c' 1 = creg c 1
              /\ (N.testbit (creg c 1) 0 = true -> N.testbit (creg c 0) 0 = false -> N.testbit (creg c' 2) 0 = true)
              /\ (N.testbit (creg c 1) 0 = false -> creg c' 2 = creg c 2)).
  { intros dd cc HI Ea Ec Eo C0 C1 C2. rewrite Ea, Ec, Eo, Hbit_aa, Hbit_cf, Hbit_op.
    pose proof HI as ((Hw2&Hd2&Hp2&Htx2&Hop2&Haa2&Hcf2&Hrd2)&B02&B12&B22).
    destruct (N.testbit (creg c 1) 0) eqn:Eaa; cbn [andb];
      [destruct (N.testbit (creg c 0) 0) eqn:Ecf; cbn [negb andb];
        [|destruct (N.testbit (creg c 2) 0) eqn:Eop; cbn [negb]]|].
    - eexists _, _. split; [reflexivity|]. split; [exact HI|]. repeat split; try assumption; try reflexivity; try discriminate.
    - eexists _, _. split; [reflexivity|]. split; [exact HI|]. repeat split; try assumption; try reflexivity; try discriminate.
      intros _ _. rewrite C2. exact Eop.
    - destruct (set0_fact _ B2) as [G1 G2]. cbv zeta in G1, G2. destruct (rt63_use _ G1) as (S1&S2&S3).
      mstep sd. rewrite <- Hop. rewrite reg_write_c by (first [rng|exact S1]).
      eexists _, _. split; [reflexivity|].
      change (Z.to_N 2) with 2%N. rewrite cwrite_r2.
      split; [|dsimp; csimp; regs_norm Hw2; repeat split; try assumption; try reflexivity; try discriminate].
      split; [|regs_norm Hw2; auto].
      eapply PInv_deq; [apply deq_in0|].
      unfold PInv. dsimp. split; [apply WfC_cset; exact Hw2|].
      split; [pose proof Hd2 as (X1&X2&X3&X4&X5&X6&X7&X8&X9&X10&X11&X12&X13&X14&X15); drvok|].
      regs_norm Hw2. csimp. repeat split; try assumption. all: try rdfin Hrd2. all: try (intros _ _; exact G2).
    - eexists _, _. split; [reflexivity|]. split; [exact HI|]. repeat split; try assumption; try reflexivity; try discriminate. intros _; exact C2. }
  destruct (N.testbit (creg c 1) 0) eqn:Ebaa.
  - rewrite Hbit_aa.
    destruct (negb (bytes_eqb (d_pipe0 d) tx')) eqn:Eneq; cbn [andb].
    + rewrite !bind_assoc.
      erewrite bind_ok; [|apply overlay_into_full; rewrite Ltx, D11; reflexivity]. cbv beta.
      mstep sd. mstep sd. mstep sd.
      destruct tx' as [|t0 tt_] eqn:Etx; [discriminate|].
      change (Z.to_N 10) with 10%N. rewrite cwrite_p0. csimp.
      rewrite overlay_full by (rewrite W2; exact Ltx). rewrite <- Etx in *.
      set (dd := upd_in0 0 (upd_pipe0 tx' (upd_in0 0 (upd_tx_address tx' d)))).
      set (cc := cset_addrs (cset_addrs c (c_p0 c) (c_p1 c) tx') tx' (c_p1 c) tx').
      assert (HI : HInv dd cc).
      { unfold dd, cc. split; [|rewrite !creg_cset_addrs; auto].
        eapply PInv_deq; [apply deq_in0|]. unfold PInv. dsimp. split; [unfold WfC; csimp; auto|]. split; [drvok|].
        rewrite !creg_cset_addrs. csimp. repeat split; try assumption. all: rdfin Hrd. }
      destruct (Last dd cc HI eq_refl eq_refl eq_refl eq_refl eq_refl eq_refl)
        as (d'&c'&E&HI'&Er&P0&PT&PC&Q0&Q1&Q2&Q3).
      exists d', c'. split; [exact E|]. split; [exact HI'|].
      rewrite Er, P0, PT, PC. unfold dd, cc. dsimp. csimp.
      repeat split; try assumption; try reflexivity; try discriminate. exact (Q2 eq_refl).
    + apply negb_false_iff in Eneq. apply list_eqb_eq in Eneq.
      mstep sd. mstep sd.
      set (dd := upd_in0 0 (upd_tx_address tx' d)).
      set (cc := cset_addrs c (c_p0 c) (c_p1 c) tx').
      assert (HI : HInv dd cc).
      { unfold dd, cc. split; [|rewrite !creg_cset_addrs; auto].
        eapply PInv_deq; [apply deq_in0|]. unfold PInv. dsimp. split; [unfold WfC; csimp; auto|]. split; [drvok|].
        rewrite !creg_cset_addrs. csimp. repeat split; try assumption. all: rdfin Hrd. }
      destruct (Last dd cc HI eq_refl eq_refl eq_refl eq_refl eq_refl eq_refl)
        as (d'&c'&E&HI'&Er&P0&PT&PC&Q0&Q1&Q2&Q3).
      exists d', c'. split; [exact E|]. split; [exact HI'|].
      rewrite Er, P0, PT, PC. unfold dd, cc. dsimp. csimp.
      repeat split; try assumption; try reflexivity; try discriminate; try congruence. exact (Q2 eq_refl).
  - rewrite Hbit_aa. rewrite andb_false_r. mstep sd. mstep sd.
    set (dd := upd_in0 0 (upd_tx_address tx' d)).
    set (cc := cset_addrs c (c_p0 c) (c_p1 c) tx').
    assert (HI : HInv dd cc).
    { unfold dd, cc. split; [|rewrite !creg_cset_addrs; auto].
      eapply PInv_deq; [apply deq_in0|]. unfold PInv. dsimp. split; [unfold WfC; csimp; auto|]. split; [drvok|].
      rewrite !creg_cset_addrs. csimp. repeat split; try assumption. all: rdfin Hrd. }
    destruct (Last dd cc HI eq_refl eq_refl eq_refl eq_refl eq_refl eq_refl)
      as (d'&c'&E&HI'&Er&P0&PT&PC&Q0&Q1&Q2&Q3).
    exists d', c'. split; [exact E|]. split; [exact HI'|].
    rewrite Er, P0, PT, PC. unfold dd, cc. dsimp. csimp.
    repeat split; try assumption; try reflexivity; try discriminate. apply Q3. reflexivity.
Qed.

Lemma Forall_firstn' {A} (P : A -> Prop) : forall n l, Forall P l -> Forall P (firstn n l).
Proof. induction n as [|n IH]; intros [|x t] H; cbn; try constructor; inversion H; subst; auto. Qed.
Lemma Forall_skipn' {A} (P : A -> Prop) : forall n l, Forall P l -> Forall P (skipn n l).
Proof. induction n as [|n IH]; intros [|x t] H; cbn; try constructor; inversion H; subst; auto. Qed.

(* ---- close_rx_pipe(p), open_rx_pipe(p, a) for the other pipes: pipe 0 and the TX address are not involved ---- *)
Lemma closeN_inv d c p : HInv d c -> 1 <= p <= 5 ->
  exists d' c', close_rx_pipe CB p d c = (Ok tt, d', c')
    /\ HInv d' c' /\ d_pipe0_read_addr d' = d_pipe0_read_addr d
    /\ c_ce c' = c_ce c /\ c_p0 c' = c_p0 c /\ c_tx c' = c_tx c.
Proof.
  intros H Hp. pose proof H as ((Hw&Hd&Hp0&Htx&Hop&Haa&Hcf&Hrd)&B0&B1&B2).
  pose proof Hd as (D1&D2&D3&D4&D5&D6&D7&D8&D9&D10&D11&D12&D13&D14&D15).
  unfold close_rx_pipe.
  replace ((p <? 0) || (5 <? p)) with false by (symmetry; apply orb_false_iff; split; [apply Z.ltb_ge|apply Z.ltb_ge]; lia).
  cbv iota. mstep sd. change (Z.to_N 2) with 2%N. rewrite (cread_plain c 2) by reflexivity. cbn [hd].
  destruct (clearp_fact _ p B2 Hp) as [F1 F2]. cbv zeta in F1, F2.
  destruct (rt63_use _ F1) as (R1&R2&R3).
  mstep sd. replace (p =? 0) with false by (symmetry; apply Z.eqb_neq; lia). cbv iota. mstep sd.
  rewrite reg_write_c by (first [rng|exact R1]).
  eexists _, _. split; [reflexivity|].
  change (Z.to_N 2) with 2%N. rewrite cwrite_r2.
  set (v := Z.land (Z.of_N (creg c 2)) (Z.lnot (Z.shiftl 1 p))) in *.
  split; [|dsimp; csimp; repeat split; reflexivity].
  split; [|regs_norm Hw; auto].
  unfold PInv. dsimp. split; [apply WfC_cset; exact Hw|]. split; [drvok|].
  regs_norm Hw. csimp. repeat split; try assumption.
  all: match goal with Hx : _ = Some ?i |- _ => destruct (Hrd _ Hx) as [? Hbit]; first [assumption|rewrite F2; exact Hbit] end.
Qed.

Lemma openrxN_inv d c p a : HInv d c -> 1 <= p <= 5 -> (1 <= length a <= 5)%nat -> (hd 0%N a < 256)%N ->
  exists d' c', open_rx_pipe CB p a d c = (Ok tt, d', c')
    /\ HInv d' c' /\ d_pipe0_read_addr d' = d_pipe0_read_addr d
    /\ c_ce c' = c_ce c /\ c_p0 c' = c_p0 c /\ c_tx c' = c_tx c.
Proof.
  intros H Hp Hl Ha. pose proof H as ((Hw&Hd&Hp0&Htx&Hop&Haa&Hcf&Hrd)&B0&B1&B2).
  pose proof Hw as (W1&W2&W3&W4&W5).
  pose proof Hd as (D1&D2&D3&D4&D5&D6&D7&D8&D9&D10&D11&D12&D13&D14&D15).
  destruct a as [|a0 at_]; [cbn in Hl; lia|]. cbn [hd] in Ha.
  destruct (setp_fact _ p B2 Hp) as [F1 F2]. cbv zeta in F1, F2.
  destruct (rt63_use _ F1) as (R1&R2&R3).
  unfold open_rx_pipe.
  replace (negb ((0 <=? p) && (p <=? 5))) with false
    by (symmetry; apply negb_false_iff; apply andb_true_iff; split; apply Z.leb_le; lia).
  cbv iota.
  (* the tail of the call, on any state that satisfies the invariant and has the registers 0..2 of c *)
  assert (Tail : forall dd cc, HInv dd cc -> creg cc 2 = creg c 2 ->
            exists d' c', bind (reg_read CB 2) (fun op => let v := Z.lor op (Z.shiftl 1 p) in
                            bind (modify (upd_open_pipes v)) (fun _ => reg_write CB 2 v)) dd cc = (Ok tt, d', c')
              /\ HInv d' c' /\ d_pipe0_read_addr d' = d_pipe0_read_addr dd
              /\ c_ce c' = c_ce cc /\ c_p0 c' = c_p0 cc /\ c_tx c' = c_tx cc).
  { intros dd cc HI C2. pose proof HI as ((Hw2&Hd2&Hp2&Htx2&Hop2&Haa2&Hcf2&Hrd2)&B02&B12&B22).
    pose proof Hd2 as (X1&X2&X3&X4&X5&X6&X7&X8&X9&X10&X11&X12&X13&X14&X15).
    mstep sd. change (Z.to_N 2) with 2%N. rewrite (cread_plain cc 2) by reflexivity. cbn [hd]. cbv zeta. rewrite C2.
    mstep sd. rewrite reg_write_c by (first [rng|exact R1]).
    eexists _, _. split; [reflexivity|]. change (Z.to_N 2) with 2%N. rewrite cwrite_r2.
    split; [|dsimp; csimp; repeat split; reflexivity].
    split; [|regs_norm Hw2; auto].
    unfold PInv. dsimp. split; [apply WfC_cset; exact Hw2|]. split; [drvok|].
    regs_norm Hw2. csimp. repeat split; try assumption.
    all: match goal with Hx : _ = Some ?i |- _ => destruct (Hrd2 _ Hx) as [? Hbit]; first [assumption|rewrite F2, <- C2; exact Hbit] end. }
  destruct (p <? 2) eqn:Ep2.
  - (* pipe 1 *)
    assert (p = 1) by (apply Z.ltb_lt in Ep2; lia). subst p.
    mstep sd. change (1 =? 0) with false. cbv iota. rewrite !bind_assoc.
    assert (Hov : overlay_into (a0 :: at_) (d_pipe1 d) d c = (Ok (overlay (a0 :: at_) (d_pipe1 d)), d, c)).
    { unfold overlay_into. replace (Nat.leb (length (a0 :: at_)) (length (d_pipe1 d))) with true
        by (symmetry; apply Nat.leb_le; lia).
      destruct (overlay_prefix (a0 :: at_) (d_pipe1 d) ltac:(lia)) as [Ov1 _]. rewrite Ov1. reflexivity. }
    erewrite bind_ok; [|exact Hov]. cbv beta.
    mstep sd. change (10 + 1) with 11. mstep sd. change (Z.to_N 11) with 11%N.
    assert (Hc1 : cwrite c 11 (a0 :: at_) = cset_addrs c (c_p0 c) (overlay (a0 :: at_) (c_p1 c)) (c_tx c)) by reflexivity.
    rewrite Hc1.
    set (dd := upd_in0 0 (upd_pipe1 (overlay (a0 :: at_) (d_pipe1 d)) d)).
    set (cc := cset_addrs c (c_p0 c) (overlay (a0 :: at_) (c_p1 c)) (c_tx c)).
    assert (HI : HInv dd cc).
    { unfold dd, cc. split; [|rewrite !creg_cset_addrs; auto].
      eapply PInv_deq; [apply deq_in0|]. unfold PInv. dsimp.
      split; [unfold WfC; csimp; rewrite overlay_length; auto|].
      split; [apply DrvOk_intro; dsimpg; first [assumption | rewrite overlay_length; assumption]|].
      rewrite !creg_cset_addrs. csimp. repeat split; try assumption. all: rdfin Hrd. }
    destruct (Tail dd cc HI eq_refl) as (d'&c'&E&HI'&Er&PC&P0&PT).
    exists d', c'. split; [exact E|]. split; [exact HI'|]. rewrite Er, PC, P0, PT. unfold dd, cc. dsimp. csimp.
    repeat split; reflexivity.
  - (* pipes 2..5 *)
    apply Z.ltb_ge in Ep2.
    mstep sd. mstep sd.
    assert (Hb : 0 <= Z.of_N a0 <= 255) by lia.
    mstep sd. 
    set (dd := upd_in0 0 (upd_pipes25 (firstn (Z.to_nat (p - 2)) (d_pipes25 d) ++ [Z.of_N a0]
                                       ++ skipn (Z.to_nat (p - 2) + 1) (d_pipes25 d)) d)).
    set (cc := cwrite c (Z.to_N (10 + p)) [Z.to_N (Z.of_N a0)]).
    assert (Hcc : cc = cset c (Z.to_N (10 + p)) (N.land (Z.to_N (Z.of_N a0)) 255)).
    { unfold cc. assert (Hc : p = 2 \/ p = 3 \/ p = 4 \/ p = 5) by lia.
      destruct Hc as [->|[->|[->| ->]]]; reflexivity. }
    assert (Hne : Z.to_N (10 + p) <> 0%N /\ Z.to_N (10 + p) <> 1%N /\ Z.to_N (10 + p) <> 2%N) by lia.
    destruct Hne as (N0&N1&N2).
    assert (HI : HInv dd cc).
    { rewrite Hcc. unfold dd. split; [|rewrite !creg_cset_other by assumption; auto].
      eapply PInv_deq; [apply deq_in0|]. unfold PInv. dsimp.
      split; [apply WfC_cset; exact Hw|].
      split.
      { apply DrvOk_intro; dsimpg; try assumption.
        - rewrite !app_length, firstn_length, skipn_length. cbn [length]. rewrite D14. lia.
        - apply Forall_app. split; [apply Forall_firstn'; exact D15|].
          apply Forall_app. split; [constructor; [exact Hb|constructor]|apply Forall_skipn'; exact D15]. }
      rewrite !creg_cset_other by assumption. csimp. repeat split; try assumption. all: rdfin Hrd. }
    assert (C2 : creg cc 2 = creg c 2) by (rewrite Hcc; apply creg_cset_other; assumption).
    destruct (Tail dd cc HI C2) as (d'&c'&E&HI'&Er&PC&P0&PT).
    exists d', c'. split; [exact E|]. split; [exact HI'|]. rewrite Er, PC, P0, PT. rewrite Hcc. unfold dd. dsimp. csimp.
    repeat split; reflexivity.
Qed.

Local Transparent bind.

(* ================= histories ================= *)
Inductive pop :=
| OpOpenRx (p : Z) (a : list N)   (* open_rx_pipe(p, a) *)
| OpCloseRx (p : Z)               (* close_rx_pipe(p) *)
| OpOpenTx (a : list N)           (* open_tx_pipe(a) *)
| OpListen (b : bool)             (* listen = b *)
| OpAutoAck (b : bool).           (* auto_ack = b *)

(* calls the driver accepts: pipes 0..5, 1..5 address bytes (for pipes 2..5 only the first byte is used; it has to
   be a byte) *)
Definition pop_ok (o : pop) : Prop :=
  match o with
  | OpOpenRx p a => 0 <= p <= 5 /\ (1 <= length a <= 5)%nat /\ (p = 0 \/ (hd 0%N a < 256)%N)
  | OpCloseRx p => 0 <= p <= 5
  | OpOpenTx a => (1 <= length a <= 5)%nat
  | _ => True
  end.

Definition run_pop {bus} (B : busops bus) (o : pop) : M unit :=
  match o with
  | OpOpenRx p a => open_rx_pipe B p a
  | OpCloseRx p => close_rx_pipe B p
  | OpOpenTx a => open_tx_pipe B a
  | OpListen b => set_listen B b
  | OpAutoAck b => set_auto_ack_attr B (PBool b)
  end.

(* ghost state, independent of the driver: the complete register image of RX_ADDR_P0 right after the user's last
   open_rx_pipe(0, a); None if the user never opened pipe 0 or has closed it *)
Definition ghost (o : pop) (g : option (list N)) (c : cfg) : option (list N) :=
  match o with
  | OpOpenRx p a => if p =? 0 then Some (overlay a (c_p0 c)) else g
  | OpCloseRx p => if p =? 0 then None else g
  | _ => g
  end.

(* what C08 demands of one call (c: radio configuration before, c': after) *)
Definition post (o : pop) (g : option (list N)) (c c' : cfg) : Prop :=
  match o with
  | OpListen true =>
      c_ce c' = true /\ N.land (creg c' 0) 3 = 3%N
      /\ match g with
         | Some img => c_p0 c' = img /\ N.testbit (creg c' 2) 0 = true
         | None => N.testbit (creg c' 2) 0 = false
         end
      /\ c_tx c' = c_tx c
  | OpListen false => c_ce c' = false /\ N.land (creg c' 0) 3 = 2%N /\ c_tx c' = c_tx c
  | OpOpenTx a =>
      firstn (length a) (c_tx c') = a /\ c_tx c' = overlay a (c_tx c) /\ c_ce c' = c_ce c
      /\ (N.testbit (creg c 1) 0 = true ->
            c_p0 c' = c_tx c' /\ (N.testbit (creg c 0) 0 = false -> N.testbit (creg c' 2) 0 = true))
  | OpOpenRx p a =>
      c_ce c' = c_ce c /\ c_tx c' = c_tx c /\ c_p0 c' = (if p =? 0 then overlay a (c_p0 c) else c_p0 c)
  | _ => c_ce c' = c_ce c /\ c_tx c' = c_tx c /\ c_p0 c' = c_p0 c
  end.

Lemma step_inv o g d c : HInv d c -> d_pipe0_read_addr d = g -> pop_ok o ->
  exists d' c', run_pop CB o d c = (Ok tt, d', c')
    /\ HInv d' c' /\ d_pipe0_read_addr d' = ghost o g c /\ post o g c c'.
Proof.
  intros H Hg Hok. destruct o as [p a|p|a|b|b]; cbn [run_pop ghost post pop_ok] in *.
  - destruct Hok as (Hp&Hl&Hb).
    destruct (Z.eqb_spec p 0) as [->|Hne].
    + destruct (openrx0_inv d c a H Hl) as (d'&c'&E&HI&Er&P0&Pf&Pce&Ptx&_).
      exists d', c'. split; [exact E|]. split; [exact HI|]. split; [rewrite Er, P0; reflexivity|]. repeat split; assumption.
    + destruct Hb as [Hb|Hb]; [contradiction|].
      destruct (openrxN_inv d c p a H ltac:(lia) Hl Hb) as (d'&c'&E&HI&Er&Pce&P0&Ptx).
      exists d', c'. split; [exact E|]. split; [exact HI|]. split; [rewrite Er; exact Hg|]. repeat split; assumption.
  - destruct (Z.eqb_spec p 0) as [->|Hne].
    + destruct (close0_inv d c H) as (d'&c'&E&HI&Er&Pce&P0&Ptx).
      exists d', c'. split; [exact E|]. split; [exact HI|]. split; [exact Er|]. repeat split; assumption.
    + destruct (closeN_inv d c p H ltac:(lia)) as (d'&c'&E&HI&Er&Pce&P0&Ptx).
      exists d', c'. split; [exact E|]. split; [exact HI|]. split; [rewrite Er; exact Hg|]. repeat split; assumption.
  - destruct (opentx_inv d c a H Hok) as (d'&c'&E&HI&Er&Ptx&Pf&Pce&_&_&Pa&_).
    exists d', c'. split; [exact E|]. split; [exact HI|]. split; [rewrite Er; exact Hg|]. repeat split; try assumption; apply Pa; assumption.
  - destruct (listen_inv d c b H) as (d'&c'&E&HI&Er&Pce&Pr&Ptx&_&Prx&Ptxm).
    exists d', c'. split; [exact E|]. split; [exact HI|]. split; [rewrite Er; exact Hg|].
    destruct b.
    + specialize (Prx eq_refl). rewrite Hg in Prx. repeat split; assumption.
    + repeat split; assumption.
  - destruct (autoack_inv d c b H) as (d'&c'&E&HI&Er&Pce&P0&Ptx&_).
    exists d', c'. split; [exact E|]. split; [exact HI|]. split; [rewrite Er; exact Hg|]. repeat split; assumption.
Qed.

Fixpoint holds (ops : list pop) (g : option (list N)) (d : drv) (c : cfg) : Prop :=
  match ops with
  | [] => True
  | o :: t => exists d' c', run_pop CB o d c = (Ok tt, d', c') /\ post o g c c' /\ holds t (ghost o g c) d' c'
  end.

Theorem pipe_history ops : forall g d c,
  HInv d c -> d_pipe0_read_addr d = g -> Forall pop_ok ops -> holds ops g d c.
Proof.
  induction ops as [|o t IH]; intros g d c H Hg Hok; cbn [holds]; [exact I|].
  inversion Hok as [|? ? Ho Ht]; subst.
  destruct (step_inv o _ d c H eq_refl Ho) as (d'&c'&E&HI&Er&P).
  exists d', c'. split; [exact E|]. split; [exact P|]. apply IH; assumption.
Qed.

(* ---- the same in any world: radio `me` among arbitrary others ---- *)
Lemma sim_run_pop me o : sim me (run_pop (WB me) o) (run_pop CB o).
Proof.
  destruct o; cbn [run_pop];
    [apply sim_open_rx_pipe|apply sim_close_rx_pipe|apply sim_open_tx_pipe|apply sim_set_listen|apply sim_set_auto_ack_attr].
Qed.

Lemma HInv_deq d d' c : deq d d' -> HInv d' c -> HInv d c.
Proof. intros He (Hp&Hr). split; [eapply PInv_deq; eassumption|exact Hr]. Qed.

Fixpoint holdsW (me : nat) (ops : list pop) (g : option (list N)) (d : drv) (w : world) : Prop :=
  match ops with
  | [] => True
  | o :: t =>
    exists d' w', run_pop (WB me) o d w = (Ok tt, d', w')
      /\ post o g (cview (get_radio w me)) (cview (get_radio w' me))
      /\ (forall j, j <> me -> cview (get_radio w' j) = cview (get_radio w j))
      /\ holdsW me t (ghost o g (cview (get_radio w me))) d' w'
  end.

Theorem pipe_history_world me ops : forall g d w,
  (me < length (radios w))%nat -> HInv d (cview (get_radio w me)) -> d_pipe0_read_addr d = g ->
  Forall pop_ok ops -> holdsW me ops g d w.
Proof.
  induction ops as [|o t IH]; intros g d w Hme H Hg Hok; cbn [holdsW]; [exact I|].
  inversion Hok as [|? ? Ho Ht]; subst.
  destruct (step_inv o _ d _ H eq_refl Ho) as (d'&c'&E&HI&Er&P).
  destruct (sim_run me _ _ d w (sim_run_pop me o) Hme _ _ _ E) as (d1&w1&E1&Hd&Hc&Hf&Hme1).
  exists d1, w1. split; [exact E1|]. rewrite Hc. split; [exact P|]. split; [exact Hf|].
  apply IH; try assumption.
  - rewrite Hc. eapply HInv_deq; eassumption.
  - destruct (deq_fields _ _ Hd) as (_&_&_&_&_&_&_&_&_&_&_&_&_&_&E15&_). rewrite E15. exact Er.
Qed.

(* the invariant is what __enter__ establishes (CtxFacts.enter_c gives the registers from the cached attributes);
   non-vacuity: a concrete driver/configuration pair satisfies it *)

(* ---- __enter__ establishes the invariant ---- *)
Local Transparent reg_write reg_write_bytes reg_read command xfer.
Section Frame.
  Context {bus : Type} (B : busops bus).
  Definition pfields (d : drv) := (d_aa d, d_open_pipes d, d_pipe0 d, d_tx_address d, d_pipe0_read_addr d).
  Definition KeepsP {A} (m : M (bus := bus) A) : Prop := forall d b, pfields (snd (fst (m d b))) = pfields d.

  Lemma kp_ret {A} (a : A) : KeepsP (ret a). Proof. intros d b. reflexivity. Qed.
  Lemma kp_raise {A} e : KeepsP (@raise bus A e). Proof. intros d b. reflexivity. Qed.
  Lemma kp_get : KeepsP (@get bus). Proof. intros d b. reflexivity. Qed.
  Lemma kp_set_ce v : KeepsP (set_ce B v). Proof. intros d b. reflexivity. Qed.
  Lemma kp_modify f : (forall d, pfields (f d) = pfields d) -> KeepsP (modify (bus := bus) f).
  Proof. intros H d b. apply H. Qed.
  Lemma kp_xfer mosi : KeepsP (xfer B mosi).
  Proof. intros d b. unfold xfer. destruct (b_spi B b mosi). reflexivity. Qed.
  Lemma kp_as_byte v : KeepsP (as_byte (bus := bus) v).
  Proof. intros d b. unfold as_byte. destruct (_ && _); reflexivity. Qed.
  Lemma kp_bind {A C} (m : M A) (f : A -> M C) : KeepsP m -> (forall a, KeepsP (f a)) -> KeepsP (bind m f).
  Proof.
    intros Hm Hf d b. unfold bind. specialize (Hm d b). destruct (m d b) as [[[a|e] d1] b1]; cbn [fst snd] in Hm |- *.
    - rewrite (Hf a d1 b1). exact Hm.
    - exact Hm.
  Qed.
  Ltac kp := repeat first [ apply kp_ret | apply kp_raise | apply kp_get | apply kp_set_ce | apply kp_xfer | apply kp_as_byte
                          | apply kp_modify; intro; reflexivity | apply kp_bind; [|intro]
                          | match goal with |- KeepsP (if ?c then _ else _) => destruct c end ].
  Lemma kp_reg_write r v : KeepsP (reg_write B r v). Proof. unfold reg_write. kp. Qed.
  Lemma kp_reg_write_bytes r v : KeepsP (reg_write_bytes B r v). Proof. unfold reg_write_bytes. kp. Qed.
  Lemma kp_enter_pl n : forall i, KeepsP (enter_pl B i n).
  Proof.
    induction n as [|k IH]; intro i; cbn [enter_pl]; [apply kp_ret|].
    apply kp_bind; [apply kp_get|intro d0]. apply kp_bind.
    - destruct (Nat.ltb i 2); [apply kp_reg_write_bytes|apply kp_reg_write].
    - intros _. apply kp_bind; [|intros _; apply IH].
      unfold set_payload_length. destruct (negb _); [apply kp_raise|].
      apply kp_bind; [apply kp_get|intro]. apply kp_bind; [apply kp_modify; intro; reflexivity|intro]. apply kp_reg_write.
  Qed.
  Lemma kp_enter : KeepsP (enter B).
  Proof.
    unfold enter.
    repeat first [ apply kp_reg_write | apply kp_reg_write_bytes | apply kp_enter_pl | apply kp_get | apply kp_set_ce
                 | apply kp_modify; intro; reflexivity | apply kp_bind; [|intro] ].
  Qed.
End Frame.

(* the object's own state between blocks: no reserved bits in the three cached registers, and a remembered pipe-0
   reading address is complete and goes with an open pipe 0 (what open_rx_pipe / close_rx_pipe maintain: HInv) *)
Definition DGood (d : drv) : Prop :=
  d_config d < 128 /\ d_aa d < 64 /\ d_open_pipes d < 64
  /\ (forall img, d_pipe0_read_addr d = Some img -> length img = 5%nat /\ Z.testbit (d_open_pipes d) 0 = true).

Lemma lor2_keep v : 0 <= v < 128 ->
  Z.of_N (N.land (Z.to_N (Z.lor v 2)) 127) = Z.lor v 2 /\ (N.land (Z.to_N (Z.lor v 2)) 127 < 128)%N.
Proof.
  intros Hv. split; [|apply land127_lt].
  pose proof (sweepZ (fun v => Z.of_N (N.land (Z.to_N (Z.lor v 2)) 127) =? Z.lor v 2) 128 ltac:(vm_compute; reflexivity) v
                ltac:(change (Z.of_nat 128) with 128; lia)) as H.
  apply Z.eqb_eq in H. exact H.
Qed.
Lemma keep63 v : 0 <= v < 64 ->
  Z.of_N (N.land (Z.to_N v) 63) = v /\ (N.land (Z.to_N v) 63 < 64)%N
  /\ N.testbit (N.land (Z.to_N v) 63) 0 = Z.testbit v 0.
Proof.
  intros Hv. split; [|split; [apply land63_lt|]].
  - pose proof (sweepZ (fun v => Z.of_N (N.land (Z.to_N v) 63) =? v) 64 ltac:(vm_compute; reflexivity) v
                  ltac:(change (Z.of_nat 64) with 64; lia)) as H. apply Z.eqb_eq in H. exact H.
  - pose proof (sweepZ (fun v => Bool.eqb (N.testbit (N.land (Z.to_N v) 63) 0) (Z.testbit v 0)) 64 ltac:(vm_compute; reflexivity) v
                  ltac:(change (Z.of_nat 64) with 64; lia)) as H. apply Bool.eqb_prop in H. exact H.
Qed.

Theorem enter_establishes d c : WfC c -> DrvOk d -> DGood d ->
  exists d' c', enter CB d c = (Ok tt, d', c') /\ HInv d' c' /\ d_pipe0_read_addr d' = d_pipe0_read_addr d
    /\ c_ce c' = false.
Proof.
  intros Hw Hd (G0&G1&G2&G3).
  destruct (enter_c d c Hw Hd) as (d'&c'&E&Hregs&P0&P1&PT&PCE&Hw'&Hcfg&_&Hd').
  pose proof (kp_enter CB d c) as K. rewrite E in K. cbn [fst snd] in K. unfold pfields in K.
  injection K as K1 K2 K3 K4 K5.
  exists d', c'. split; [exact E|].
  pose proof Hd as (D1&D2&D3&D4&D5&_).
  unfold enter_regs in Hregs.
  pose proof (Forall_inv Hregs) as R0. pose proof (Forall_inv_tail Hregs) as T0.
  pose proof (Forall_inv_tail T0) as T1. pose proof (Forall_inv T1) as R2. pose proof (Forall_inv_tail T1) as T2.
  pose proof (Forall_inv_tail T2) as T3. pose proof (Forall_inv T3) as R1. clear Hregs T0 T1 T2 T3.
  cbn [fst snd] in R0, R2, R1.
  destruct (lor2_keep (d_config d) ltac:(unfold byte_z in D1; lia)) as [L0 L0'].
  destruct (keep63 (d_open_pipes d) ltac:(unfold byte_z in D3; lia)) as (L2&L2'&L2b).
  destruct (keep63 (d_aa d) ltac:(unfold byte_z in D5; lia)) as (L1&L1'&_).
  split; [|split; [exact K5|exact PCE]].
  split; [|rewrite R0, R1, R2; auto].
  unfold PInv. split; [exact Hw'|]. split; [exact Hd'|].
  rewrite K3, K4, K2, K1, Hcfg, R0, R1, R2, L0, L1, L2, K5.
  repeat split; try assumption; try congruence.
  all: intros; destruct (G3 _ H) as [? Hb0]; try assumption. rewrite L2b. exact Hb0.
Qed.

(* non-vacuity: a freshly constructed object's attributes (rf24.py __init__) satisfy DrvOk and DGood *)
Example init_drv_good : DrvOk init_drv /\ DGood init_drv.
Proof.
  split.
  - unfold DrvOk, byte_z, init_drv. cbn. repeat split; try lia; repeat constructor; lia.
  - unfold DGood, init_drv. cbn. repeat split; try lia; intros; discriminate.
Qed.

(* world version of enter_establishes: the hypothesis of pipe_history_world is what `with obj:` leaves behind *)
Theorem enter_establishes_world me d w :
  (me < length (radios w))%nat -> WfC (cview (get_radio w me)) -> DrvOk d -> DGood d ->
  exists d1 w1, enter (WB me) d w = (Ok tt, d1, w1)
    /\ (me < length (radios w1))%nat /\ HInv d1 (cview (get_radio w1 me))
    /\ d_pipe0_read_addr d1 = d_pipe0_read_addr d
    /\ (forall j, j <> me -> cview (get_radio w1 j) = cview (get_radio w j)).
Proof.
  intros Hme Hw Hd Hg.
  destruct (enter_establishes d _ Hw Hd Hg) as (d'&c'&E&HI&Er&_).
  destruct (sim_run me _ _ d w (sim_enter me) Hme _ _ _ E) as (d1&w1&E1&Hdq&Hc&Hf&Hme1).
  exists d1, w1. split; [exact E1|]. split; [exact Hme1|]. rewrite Hc. split; [eapply HInv_deq; eassumption|].
  split; [|exact Hf].
  destruct (deq_fields _ _ Hdq) as (_&_&_&_&_&_&_&_&_&_&_&_&_&_&E15&_). rewrite E15. exact Er.
Qed.

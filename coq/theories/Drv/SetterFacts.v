(* SetterFacts.v -- documented encodings of configuration setters, proved at the configuration level
   and transported to every world by the simulation lemmas (RF24SimOps.v). *)
From Coq Require Import ZArith NArith List Bool Lia.
From NRF Require Import Base.Sweep Env.Radio Env.World Env.CfgFacts Env.WorldFacts Drv.RF24 Drv.RF24Sim Drv.RF24SimOps
  Drv.CfgEval Drv.CtxFacts.
Import ListNotations.
Local Open Scope Z_scope.

(* channel = ch: ValueError outside 0..125 with nothing written; otherwise RF_CH := ch, nothing else *)
Lemma set_channel_c ch d c : WfC c -> 0 <= ch <= 125 ->
  exists d', set_channel CB ch d c = (Ok tt, d', cset c 5 (Z.to_N ch)) /\ d_channel d' = ch.
Proof.
  intros Hw Hc. unfold set_channel.
  replace (negb ((0 <=? ch) && (ch <=? 125))) with false by lia.
  mstep lia. rewrite reg_write_c by lia. exists (upd_in0 0 (upd_channel ch d)). split; [|reflexivity].
  f_equal. unfold cwrite. change (Z.to_N 5) with 5%N.
  change (5 =? R_RX_ADDR_P0)%N with false. change (5 =? R_RX_ADDR_P1)%N with false. change (5 =? R_TX_ADDR)%N with false.
  change (5 =? R_STATUS)%N with false. change (5 =? R_RF_CH)%N with true.
  change (((5 =? R_DYNPD) || (5 =? R_FEATURE))%N) with false. cbn [andb]. cbv iota.
  f_equal. change (wmask 5) with (N.ones 7). rewrite N.land_ones. apply N.mod_small.
  change (2 ^ 7)%N with 128%N. lia.
Qed.

Lemma set_channel_rejects ch d c : ~ (0 <= ch <= 125) -> set_channel CB ch d c = (Exn ValueError, d, c).
Proof.
  intro H. unfold set_channel. replace (negb ((0 <=? ch) && (ch <=? 125))) with true by lia. reflexivity.
Qed.

Theorem set_channel_world me ch d w :
  (me < length (radios w))%nat -> WfC (cview (get_radio w me)) -> 0 <= ch <= 125 ->
  exists d1 w1, set_channel (WB me) ch d w = (Ok tt, d1, w1)
    /\ cview (get_radio w1 me) = cset (cview (get_radio w me)) 5 (Z.to_N ch)
    /\ (forall j, j <> me -> cview (get_radio w1 j) = cview (get_radio w j)).
Proof.
  intros Hme Hw Hc. destruct (set_channel_c ch d _ Hw Hc) as (d' & E & _).
  destruct (sim_run me _ _ d w (sim_set_channel me ch) Hme _ _ _ E) as (d1 & w1 & E1 & _ & Hcv & Hf & _).
  exists d1, w1. repeat split; assumption.
Qed.

Theorem set_channel_world_rejects me ch d w :
  (me < length (radios w))%nat -> ~ (0 <= ch <= 125) ->
  exists d1 w1, set_channel (WB me) ch d w = (Exn ValueError, d1, w1)
    /\ (forall j, cview (get_radio w1 j) = cview (get_radio w j)).
Proof.
  intros Hme Hc. pose proof (set_channel_rejects ch d (cview (get_radio w me)) Hc) as E.
  destruct (sim_run me _ _ d w (sim_set_channel me ch) Hme _ _ _ E) as (d1 & w1 & E1 & _ & Hcv & Hf & _).
  exists d1, w1. split; [exact E1|]. intro j. destruct (Nat.eq_dec j me) as [->|Hj]; [exact Hcv|apply Hf; exact Hj].
Qed.

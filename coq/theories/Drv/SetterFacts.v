(* SetterFacts.v -- documented encodings of configuration setters, proved at the configuration level
   and transported to every world by the simulation lemmas (RF24SimOps.v). *)
From Coq Require Import ZArith NArith List Bool Lia.
From NRF Require Import Base.Sweep Env.Radio Env.World Env.CfgFacts Env.WorldFacts Drv.RF24 Drv.RF24Sim Drv.RF24SimOps
  Drv.CfgEval Drv.CtxFacts.
Import ListNotations.
Local Open Scope Z_scope.

(* channel = ch: ValueError outside 0..125 with nothing written; otherwise RF_CH := ch, nothing else *)
Lemma set_channel_c ch d c : WfC c -> 0 <= ch <= 125 ->
  exists d', set_channel CB ch d c = (Ok tt, d', cset c 5 (Z.to_N ch)) /\ d_channel d' = ch.
Proof.
  intros Hw Hc. unfold set_channel.
  replace (negb ((0 <=? ch) && (ch <=? 125))) with false by lia.
  mstep lia. rewrite reg_write_c by lia. exists (upd_in0 0 (upd_channel ch d)). split; [|reflexivity].
  f_equal. unfold cwrite. change (Z.to_N 5) with 5%N.
  change (5 =? R_RX_ADDR_P0)%N with false. change (5 =? R_RX_ADDR_P1)%N with false. change (5 =? R_TX_ADDR)%N with false.
  change (5 =? R_STATUS)%N with false. change (5 =? R_RF_CH)%N with true.
  change (((5 =? R_DYNPD) || (5 =? R_FEATURE))%N) with false. cbn [andb]. cbv iota.
  f_equal. change (wmask 5) with (N.ones 7). rewrite N.land_ones. apply N.mod_small.
  change (2 ^ 7)%N with 128%N. lia.
Qed.

Lemma set_channel_rejects ch d c : ~ (0 <= ch <= 125) -> set_channel CB ch d c = (Exn ValueError, d, c).
Proof.
  intro H. unfold set_channel. replace (negb ((0 <=? ch) && (ch <=? 125))) with true by lia. reflexivity.
Qed.

Theorem set_channel_world me ch d w :
  (me < length (radios w))%nat -> WfC (cview (get_radio w me)) -> 0 <= ch <= 125 ->
  exists d1 w1, set_channel (WB me) ch d w = (Ok tt, d1, w1)
    /\ cview (get_radio w1 me) = cset (cview (get_radio w me)) 5 (Z.to_N ch)
    /\ (forall j, j <> me -> cview (get_radio w1 j) = cview (get_radio w j)).
Proof.
  intros Hme Hw Hc. destruct (set_channel_c ch d _ Hw Hc) as (d' & E & _).
  destruct (sim_run me _ _ d w (sim_set_channel me ch) Hme _ _ _ E) as (d1 & w1 & E1 & _ & Hcv & Hf & _).
  exists d1, w1. repeat split; assumption.
Qed.

Theorem set_channel_world_rejects me ch d w :
  (me < length (radios w))%nat -> ~ (0 <= ch <= 125) ->
  exists d1 w1, set_channel (WB me) ch d w = (Exn ValueError, d1, w1)
    /\ (forall j, cview (get_radio w1 j) = cview (get_radio w j)).
Proof.
  intros Hme Hc. pose proof (set_channel_rejects ch d (cview (get_radio w me)) Hc) as E.
  destruct (sim_run me _ _ d w (sim_set_channel me ch) Hme _ _ _ E) as (d1 & w1 & E1 & _ & Hcv & Hf & _).
  exists d1, w1. split; [exact E1|]. intro j. destruct (Nat.eq_dec j me) as [->|Hj]; [exact Hcv|apply Hf; exact Hj].
Qed.

(* ---- address_length = len, 3 <= len <= 5: SETUP_AW := len - 2, nothing else ---- *)
Lemma cwrite_plain c a v : (a = 3 \/ a = 4)%N -> (v < 256)%N ->
  cwrite c a [v] = cset c a (N.land v (wmask a)).
Proof. intros [->| ->] _; reflexivity. Qed.

Lemma set_address_length_c len d c : 3 <= len <= 5 ->
  exists d', set_address_length CB len d c = (Ok tt, d', cset c 3 (Z.to_N (len - 2))) /\ d_addr_len d' = len.
Proof.
  intro H. unfold set_address_length. replace ((3 <=? len) && (len <=? 5)) with true by lia.
  mstep lia. rewrite reg_write_c by lia. exists (upd_in0 0 (upd_addr_len len d)). split; [|reflexivity].
  f_equal. change (Z.to_N 3) with 3%N. rewrite cwrite_plain by (auto; lia). f_equal.
  change (wmask 3) with (N.ones 2). rewrite N.land_ones. apply N.mod_small. change (2 ^ 2)%N with 4%N. lia.
Qed.

Theorem set_address_length_world me len d w :
  (me < length (radios w))%nat -> 3 <= len <= 5 ->
  exists d1 w1, set_address_length (WB me) len d w = (Ok tt, d1, w1)
    /\ cview (get_radio w1 me) = cset (cview (get_radio w me)) 3 (Z.to_N (len - 2))
    /\ (forall j, j <> me -> cview (get_radio w1 j) = cview (get_radio w j)).
Proof.
  intros Hme H. destruct (set_address_length_c len d (cview (get_radio w me)) H) as (d' & E & _).
  destruct (sim_run me _ _ d w (sim_set_address_length me len) Hme _ _ _ E) as (d1 & w1 & E1 & _ & Hcv & Hf & _).
  exists d1, w1. repeat split; assumption.
Qed.

(* ---- set_auto_retries(delay, count), ANY integers: SETUP_RETR := ((clamp(delay,250,4000)-250)/250) << 4 | clamp(count,0,15) ---- *)
Lemma lor_nibbles : forall q c, 0 <= q < 16 -> 0 <= c < 16 -> Z.lor (Z.shiftl q 4) c = 16 * q + c.
Proof.
  intros q c Hq Hc.
  pose proof (sweepZ2 (fun q c => Z.lor (Z.shiftl q 4) c =? 16 * q + c) 16 16) as S.
  apply Z.eqb_eq. apply S; [vm_compute; reflexivity|lia|lia].
Qed.

Definition retr_value (delay count : Z) : Z :=
  16 * ((Z.max 250 (Z.min delay 4000) - 250) / 250) + Z.max 0 (Z.min count 15).

Lemma retr_value_range delay count : 0 <= retr_value delay count <= 255.
Proof.
  unfold retr_value.
  assert (0 <= (Z.max 250 (Z.min delay 4000) - 250) / 250 <= 15).
  { split; [apply Z.div_pos; lia|]. apply Z.lt_succ_r. apply Z.div_lt_upper_bound; lia. }
  lia.
Qed.

Lemma set_auto_retries_c delay count d c :
  exists d', set_auto_retries CB delay count d c = (Ok tt, d', cset c 4 (Z.to_N (retr_value delay count))).
Proof.
  unfold set_auto_retries, ard_bits.
  assert (Hq : 0 <= (Z.max 250 (Z.min delay 4000) - 250) / 250 < 16).
  { split; [apply Z.div_pos; lia|]. apply Z.div_lt_upper_bound; lia. }
  rewrite lor_nibbles by lia. fold (retr_value delay count).
  pose proof (retr_value_range delay count) as Hr.
  mstep lia. rewrite reg_write_c by lia. eexists. f_equal.
  change (Z.to_N 4) with 4%N. rewrite cwrite_plain by (auto; lia). f_equal.
  change (wmask 4) with (N.ones 8). rewrite N.land_ones. apply N.mod_small. change (2 ^ 8)%N with 256%N. lia.
Qed.

Theorem set_auto_retries_world me delay count d w :
  (me < length (radios w))%nat ->
  exists d1 w1, set_auto_retries (WB me) delay count d w = (Ok tt, d1, w1)
    /\ cview (get_radio w1 me) = cset (cview (get_radio w me)) 4 (Z.to_N (retr_value delay count))
    /\ (forall j, j <> me -> cview (get_radio w1 j) = cview (get_radio w j)).
Proof.
  intros Hme. destruct (set_auto_retries_c delay count d (cview (get_radio w me))) as (d' & E).
  destruct (sim_run me _ _ d w (sim_set_auto_retries me delay count) Hme _ _ _ E) as (d1 & w1 & E1 & _ & Hcv & Hf & _).
  exists d1, w1. repeat split; assumption.
Qed.

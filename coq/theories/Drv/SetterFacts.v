(* SetterFacts.v -- documented encodings of configuration setters, proved at the configuration level
   and transported to every world by the simulation lemmas (RF24SimOps.v). *)
From Coq Require Import ZArith NArith List Bool Lia.
From NRF Require Import Base.Sweep Env.Radio Env.World Env.CfgFacts Env.WorldFacts Drv.RF24 Drv.RF24Sim Drv.RF24SimOps
  Drv.CfgEval Drv.CtxFacts.
Import ListNotations.
Local Open Scope Z_scope.

(* channel = ch: ValueError outside 0..125 with nothing written; otherwise RF_CH := ch, nothing else *)
Lemma set_channel_c ch d c : WfC c -> 0 <= ch <= 125 ->
  exists d', set_channel CB ch d c = (Ok tt, d', cset c 5 (Z.to_N ch)) /\ d_channel d' = ch.
Proof.
  intros Hw Hc. unfold set_channel.
  replace (negb ((0 <=? ch) && (ch <=? 125))) with false by lia.
  mstep lia. rewrite reg_write_c by lia. exists (upd_in0 0 (upd_channel ch d)). split; [|reflexivity].
  f_equal. unfold cwrite. change (Z.to_N 5) with 5%N.
  change (5 =? R_RX_ADDR_P0)%N with false. change (5 =? R_RX_ADDR_P1)%N with false. change (5 =? R_TX_ADDR)%N with false.
  change (5 =? R_STATUS)%N with false. change (5 =? R_RF_CH)%N with true.
  change (((5 =? R_DYNPD) || (5 =? R_FEATURE))%N) with false. cbn [andb]. cbv iota.
  f_equal. change (wmask 5) with (N.ones 7). rewrite N.land_ones. apply N.mod_small.
  change (2 ^ 7)%N with 128%N. lia.
Qed.

Lemma set_channel_rejects ch d c : ~ (0 <= ch <= 125) -> set_channel CB ch d c = (Exn ValueError, d, c).
Proof.
  intro H. unfold set_channel. replace (negb ((0 <=? ch) && (ch <=? 125))) with true by lia. reflexivity.
Qed.

Theorem set_channel_world me ch d w :
  (me < length (radios w))%nat -> WfC (cview (get_radio w me)) -> 0 <= ch <= 125 ->
  exists d1 w1, set_channel (WB me) ch d w = (Ok tt, d1, w1)
    /\ cview (get_radio w1 me) = cset (cview (get_radio w me)) 5 (Z.to_N ch)
    /\ (forall j, j <> me -> cview (get_radio w1 j) = cview (get_radio w j)).
Proof.
  intros Hme Hw Hc. destruct (set_channel_c ch d _ Hw Hc) as (d' & E & _).
  destruct (sim_run me _ _ d w (sim_set_channel me ch) Hme _ _ _ E) as (d1 & w1 & E1 & _ & Hcv & Hf & _).
  exists d1, w1. repeat split; assumption.
Qed.

Theorem set_channel_world_rejects me ch d w :
  (me < length (radios w))%nat -> ~ (0 <= ch <= 125) ->
  exists d1 w1, set_channel (WB me) ch d w = (Exn ValueError, d1, w1)
    /\ (forall j, cview (get_radio w1 j) = cview (get_radio w j)).
Proof.
  intros Hme Hc. pose proof (set_channel_rejects ch d (cview (get_radio w me)) Hc) as E.
  destruct (sim_run me _ _ d w (sim_set_channel me ch) Hme _ _ _ E) as (d1 & w1 & E1 & _ & Hcv & Hf & _).
  exists d1, w1. split; [exact E1|]. intro j. destruct (Nat.eq_dec j me) as [->|Hj]; [exact Hcv|apply Hf; exact Hj].
Qed.

(* ---- address_length = len, 3 <= len <= 5: SETUP_AW := len - 2, nothing else ---- *)
Lemma cwrite_plain c a v : (a = 3 \/ a = 4)%N -> (v < 256)%N ->
  cwrite c a [v] = cset c a (N.land v (wmask a)).
Proof. intros [->| ->] _; reflexivity. Qed.

Lemma set_address_length_c len d c : 3 <= len <= 5 ->
  exists d', set_address_length CB len d c = (Ok tt, d', cset c 3 (Z.to_N (len - 2))) /\ d_addr_len d' = len.
Proof.
  intro H. unfold set_address_length. replace ((3 <=? len) && (len <=? 5)) with true by lia.
  mstep lia. rewrite reg_write_c by lia. exists (upd_in0 0 (upd_addr_len len d)). split; [|reflexivity].
  f_equal. change (Z.to_N 3) with 3%N. rewrite cwrite_plain by (auto; lia). f_equal.
  change (wmask 3) with (N.ones 2). rewrite N.land_ones. apply N.mod_small. change (2 ^ 2)%N with 4%N. lia.
Qed.

Theorem set_address_length_world me len d w :
  (me < length (radios w))%nat -> 3 <= len <= 5 ->
  exists d1 w1, set_address_length (WB me) len d w = (Ok tt, d1, w1)
    /\ cview (get_radio w1 me) = cset (cview (get_radio w me)) 3 (Z.to_N (len - 2))
    /\ (forall j, j <> me -> cview (get_radio w1 j) = cview (get_radio w j)).
Proof.
  intros Hme H. destruct (set_address_length_c len d (cview (get_radio w me)) H) as (d' & E & _).
  destruct (sim_run me _ _ d w (sim_set_address_length me len) Hme _ _ _ E) as (d1 & w1 & E1 & _ & Hcv & Hf & _).
  exists d1, w1. repeat split; assumption.
Qed.

(* ---- set_auto_retries(delay, count), ANY integers: SETUP_RETR := ((clamp(delay,250,4000)-250)/250) << 4 | clamp(count,0,15) ---- *)
Lemma lor_nibbles : forall q c, 0 <= q < 16 -> 0 <= c < 16 -> Z.lor (Z.shiftl q 4) c = 16 * q + c.
Proof.
  intros q c Hq Hc.
  pose proof (sweepZ2 (fun q c => Z.lor (Z.shiftl q 4) c =? 16 * q + c) 16 16) as S.
  apply Z.eqb_eq. apply S; [vm_compute; reflexivity|lia|lia].
Qed.

Definition retr_value (delay count : Z) : Z :=
  16 * ((Z.max 250 (Z.min delay 4000) - 250) / 250) + Z.max 0 (Z.min count 15).

Lemma retr_value_range delay count : 0 <= retr_value delay count <= 255.
Proof.
  unfold retr_value.
  assert (0 <= (Z.max 250 (Z.min delay 4000) - 250) / 250 <= 15).
  { split; [apply Z.div_pos; lia|]. apply Z.lt_succ_r. apply Z.div_lt_upper_bound; lia. }
  lia.
Qed.

Lemma set_auto_retries_c delay count d c :
  exists d', set_auto_retries CB delay count d c = (Ok tt, d', cset c 4 (Z.to_N (retr_value delay count))).
Proof.
  unfold set_auto_retries, ard_bits.
  assert (Hq : 0 <= (Z.max 250 (Z.min delay 4000) - 250) / 250 < 16).
  { split; [apply Z.div_pos; lia|]. apply Z.div_lt_upper_bound; lia. }
  rewrite lor_nibbles by lia. fold (retr_value delay count).
  pose proof (retr_value_range delay count) as Hr.
  mstep lia. rewrite reg_write_c by lia. eexists. f_equal.
  change (Z.to_N 4) with 4%N. rewrite cwrite_plain by (auto; lia). f_equal.
  change (wmask 4) with (N.ones 8). rewrite N.land_ones. apply N.mod_small. change (2 ^ 8)%N with 256%N. lia.
Qed.

Theorem set_auto_retries_world me delay count d w :
  (me < length (radios w))%nat ->
  exists d1 w1, set_auto_retries (WB me) delay count d w = (Ok tt, d1, w1)
    /\ cview (get_radio w1 me) = cset (cview (get_radio w me)) 4 (Z.to_N (retr_value delay count))
    /\ (forall j, j <> me -> cview (get_radio w1 j) = cview (get_radio w j)).
Proof.
  intros Hme. destruct (set_auto_retries_c delay count d (cview (get_radio w me))) as (d' & E).
  destruct (sim_run me _ _ d w (sim_set_auto_retries me delay count) Hme _ _ _ E) as (d1 & w1 & E1 & _ & Hcv & Hf & _).
  exists d1, w1. repeat split; assumption.
Qed.

(* ---- data_rate = 1 | 2 | 250: RF_SETUP bits 5 and 3 (RF_DR_LOW, RF_DR_HIGH) := 00 | 01 | 10, every other bit of
   the register (PA level, LNA, PLL_LOCK, CONT_WAVE) as it was; any other value: ValueError, nothing written ---- *)
Definition rate_bits (speed : Z) : Z := if speed =? 1 then 0 else if speed =? 2 then 8 else 32.
Definition rate_value (n : N) (speed : Z) : N :=
  N.land (Z.to_N (Z.lor (Z.land (Z.of_N n) 215) (rate_bits speed))) 191.

Lemma rate_bits_in speed : (speed = 1 \/ speed = 2 \/ speed = 250) -> In (rate_bits speed) [0; 8; 32].
Proof. intros [->|[->| ->]]; cbn; auto. Qed.

Lemma rate_x_range n speed : (speed = 1 \/ speed = 2 \/ speed = 250) ->
  0 <= Z.lor (Z.land (Z.of_N n) 215) (rate_bits speed) <= 255.
Proof.
  intros Hs. rewrite (land_byte (Z.of_N n) 215) by lia.
  assert (Hm : 0 <= Z.of_N n mod 256 <= 255) by (pose proof (Z.mod_pos_bound (Z.of_N n) 256 ltac:(lia)); lia).
  pose proof (sweep_byte (fun v => forallb (fun s => (0 <=? Z.lor (Z.land v 215) s) && (Z.lor (Z.land v 215) s <=? 255)) [0; 8; 32])
                         ltac:(vm_compute; reflexivity) _ Hm) as H.
  cbv beta in H. rewrite forallb_forall in H. apply range_of_bool. apply H. apply rate_bits_in. exact Hs.
Qed.

(* the encoding, for every previous register content *)
Lemma rate_value_bits n speed : (n < 256)%N -> (speed = 1 \/ speed = 2 \/ speed = 250) ->
  N.land (rate_value n speed) 40 = Z.to_N (rate_bits speed)
  /\ N.land (rate_value n speed) 151 = N.land n 151.
Proof.
  intros Hn Hs. unfold rate_value.
  pose proof (sweep_byteN (fun n => forallb (fun s =>
                 (N.land (N.land (Z.to_N (Z.lor (Z.land (Z.of_N n) 215) s)) 191) 40 =? Z.to_N s)%N
                 && (N.land (N.land (Z.to_N (Z.lor (Z.land (Z.of_N n) 215) s)) 191) 151 =? N.land n 151)%N) [0; 8; 32])
                          ltac:(vm_compute; reflexivity) n Hn) as H.
  cbv beta in H. rewrite forallb_forall in H. specialize (H _ (rate_bits_in speed Hs)).
  apply andb_true_iff in H. destruct H as [H1 H2]. apply N.eqb_eq in H1. apply N.eqb_eq in H2. split; assumption.
Qed.

Lemma set_data_rate_c speed d c : (speed = 1 \/ speed = 2 \/ speed = 250) ->
  exists d', set_data_rate CB speed d c = (Ok tt, d', cset c 6 (rate_value (creg c 6) speed)).
Proof.
  intros Hs. unfold set_data_rate.
  replace (negb ((speed =? 1) || (speed =? 2) || (speed =? 250))) with false
    by (destruct Hs as [->|[->| ->]]; reflexivity).
  cbv iota. fold (rate_bits speed).
  mstep lia. change (Z.to_N 6) with 6%N. rewrite (cread_plain c 6) by reflexivity. cbn [hd].
  pose proof (rate_x_range (creg c 6) speed Hs) as Hr.
  mstep lia. rewrite reg_write_c by lia. eexists. f_equal.
Qed.

Lemma set_data_rate_rejects speed d c : ~ (speed = 1 \/ speed = 2 \/ speed = 250) ->
  set_data_rate CB speed d c = (Exn ValueError, d, c).
Proof.
  intro H. unfold set_data_rate.
  replace (negb ((speed =? 1) || (speed =? 2) || (speed =? 250))) with true; [reflexivity|].
  symmetry. apply negb_true_iff. apply orb_false_iff. split; [apply orb_false_iff; split|]; apply Z.eqb_neq; intro; apply H; auto.
Qed.

Theorem set_data_rate_world me speed d w :
  (me < length (radios w))%nat -> (speed = 1 \/ speed = 2 \/ speed = 250) ->
  exists d1 w1, set_data_rate (WB me) speed d w = (Ok tt, d1, w1)
    /\ cview (get_radio w1 me) = cset (cview (get_radio w me)) 6 (rate_value (creg (cview (get_radio w me)) 6) speed)
    /\ (forall j, j <> me -> cview (get_radio w1 j) = cview (get_radio w j)).
Proof.
  intros Hme Hs. destruct (set_data_rate_c speed d (cview (get_radio w me)) Hs) as (d' & E).
  destruct (sim_run me _ _ d w (sim_set_data_rate me speed) Hme _ _ _ E) as (d1 & w1 & E1 & _ & Hcv & Hf & _).
  exists d1, w1. repeat split; assumption.
Qed.

Theorem set_data_rate_world_rejects me speed d w :
  (me < length (radios w))%nat -> ~ (speed = 1 \/ speed = 2 \/ speed = 250) ->
  exists d1 w1, set_data_rate (WB me) speed d w = (Exn ValueError, d1, w1)
    /\ (forall j, cview (get_radio w1 j) = cview (get_radio w j)).
Proof.
  intros Hme Hc. pose proof (set_data_rate_rejects speed d (cview (get_radio w me)) Hc) as E.
  destruct (sim_run me _ _ d w (sim_set_data_rate me speed) Hme _ _ _ E) as (d1 & w1 & E1 & _ & Hcv & Hf & _).
  exists d1, w1. split; [exact E1|]. intro j. destruct (Nat.eq_dec j me) as [->|Hj]; [exact Hcv|apply Hf; exact Hj].
Qed.

(* ---- crc = length (any integer, clamped to 0..2): CONFIG bits 3,2 (EN_CRC, CRCO) := 00 | 10 | 11, the other bits
   from the object's cached CONFIG (which mirrors the register: C09_enter / HInv) ---- *)
Definition crc_bits (length : Z) : Z :=
  let l := Z.min 2 (Z.max 0 length) in if l =? 0 then 0 else Z.shiftl (l + 1) 2.
Definition crc_value (cfg0 length : Z) : N := N.land (Z.to_N (Z.lor (Z.land cfg0 115) (crc_bits length))) 127.

Lemma crc_bits_in length : In (crc_bits length) [0; 8; 12].
Proof.
  unfold crc_bits. cbv zeta.
  assert (H : Z.min 2 (Z.max 0 length) = 0 \/ Z.min 2 (Z.max 0 length) = 1 \/ Z.min 2 (Z.max 0 length) = 2) by lia.
  destruct H as [->|[->| ->]]; cbn; auto.
Qed.

Lemma crc_value_bits cfg0 length : 0 <= cfg0 <= 255 ->
  0 <= Z.lor (Z.land cfg0 115) (crc_bits length) <= 255
  /\ N.land (crc_value cfg0 length) 12 = Z.to_N (crc_bits length)
  /\ N.land (crc_value cfg0 length) 115 = N.land (Z.to_N cfg0) 115.
Proof.
  intros Hc. unfold crc_value.
  pose proof (sweep_byte (fun v => forallb (fun s =>
                 (0 <=? Z.lor (Z.land v 115) s) && (Z.lor (Z.land v 115) s <=? 255)
                 && (N.land (N.land (Z.to_N (Z.lor (Z.land v 115) s)) 127) 12 =? Z.to_N s)%N
                 && (N.land (N.land (Z.to_N (Z.lor (Z.land v 115) s)) 127) 115 =? N.land (Z.to_N v) 115)%N) [0; 8; 12])
                         ltac:(vm_compute; reflexivity) cfg0 Hc) as H.
  cbv beta in H. rewrite forallb_forall in H. specialize (H _ (crc_bits_in length)).
  apply andb_true_iff in H. destruct H as [H H3]. apply andb_true_iff in H. destruct H as [H H2].
  apply N.eqb_eq in H2. apply N.eqb_eq in H3. split; [apply range_of_bool; exact H|]. split; assumption.
Qed.

Lemma set_crc_c length d c : 0 <= d_config d <= 255 ->
  exists d', set_crc CB length d c = (Ok tt, d', cset c 0 (crc_value (d_config d) length)).
Proof.
  intros Hd. unfold set_crc. cbv zeta. fold (crc_bits length).
  destruct (crc_value_bits (d_config d) length Hd) as (Hr & _).
  mstep lia. mstep lia. rewrite reg_write_c by lia. eexists. f_equal.
Qed.

Theorem set_crc_world me length d w :
  (me < List.length (radios w))%nat -> 0 <= d_config d <= 255 ->
  exists d1 w1, set_crc (WB me) length d w = (Ok tt, d1, w1)
    /\ cview (get_radio w1 me) = cset (cview (get_radio w me)) 0 (crc_value (d_config d) length)
    /\ (forall j, j <> me -> cview (get_radio w1 j) = cview (get_radio w j)).
Proof.
  intros Hme Hd. destruct (set_crc_c length d (cview (get_radio w me)) Hd) as (d' & E).
  destruct (sim_run me _ _ d w (sim_set_crc me length) Hme _ _ _ E) as (d1 & w1 & E1 & _ & Hcv & Hf & _).
  exists d1, w1. repeat split; assumption.
Qed.

(* ---- pa_level = power | (power, lna), power in {-18,-12,-6,0} dBm: RF_SETUP bits 2,1 (RF_PWR) := 00 | 01 | 10 | 11,
   bit 0 (LNA_HCURR) := lna (True when only the power is given), bits 7..3 (data rate, PLL_LOCK, CONT_WAVE) from the
   object's cached RF_SETUP byte; any other power: ValueError, nothing written ---- *)
Definition pa_bits (p : Z) : Z := (3 - p / -6) * 2.
Definition pa_value (cached p : Z) (lna : bool) : N :=
  N.land (Z.to_N (Z.lor (Z.lor (Z.land cached 248) (pa_bits p)) (zb lna))) 191.
Definition pa_ok (p : Z) : Prop := p = -18 \/ p = -12 \/ p = -6 \/ p = 0.

Lemma pa_bits_in p : pa_ok p -> In (pa_bits p) [0; 2; 4; 6].
Proof. intros [->|[->|[->| ->]]]; cbn; auto. Qed.

Lemma valid_pa_ok p : pa_ok p -> valid_pa p = true.
Proof. intros [->|[->|[->| ->]]]; reflexivity. Qed.

Lemma valid_pa_bad p : ~ pa_ok p -> valid_pa p = false.
Proof.
  intro H. unfold valid_pa. repeat (apply orb_false_iff; split); apply Z.eqb_neq; intro E; apply H; unfold pa_ok; auto.
Qed.

Lemma pa_value_bits cached p lna : 0 <= cached <= 255 -> pa_ok p ->
  0 <= Z.lor (Z.lor (Z.land cached 248) (pa_bits p)) (zb lna) <= 255
  /\ N.land (pa_value cached p lna) 6 = Z.to_N (pa_bits p)
  /\ N.land (pa_value cached p lna) 1 = Z.to_N (zb lna)
  /\ N.land (pa_value cached p lna) 248 = N.land (Z.to_N cached) 184.
Proof.
  intros Hc Hp. unfold pa_value.
  pose proof (sweep_byte (fun v => forallb (fun s => forallb (fun l =>
                 (0 <=? Z.lor (Z.lor (Z.land v 248) s) l) && (Z.lor (Z.lor (Z.land v 248) s) l <=? 255)
                 && (N.land (N.land (Z.to_N (Z.lor (Z.lor (Z.land v 248) s) l)) 191) 6 =? Z.to_N s)%N
                 && (N.land (N.land (Z.to_N (Z.lor (Z.lor (Z.land v 248) s) l)) 191) 1 =? Z.to_N l)%N
                 && (N.land (N.land (Z.to_N (Z.lor (Z.lor (Z.land v 248) s) l)) 191) 248 =? N.land (Z.to_N v) 184)%N)
                 [0; 1]) [0; 2; 4; 6])
                         ltac:(vm_compute; reflexivity) cached Hc) as H.
  cbv beta in H. rewrite forallb_forall in H. specialize (H _ (pa_bits_in p Hp)).
  rewrite forallb_forall in H. specialize (H (zb lna) ltac:(destruct lna; cbn; auto)).
  apply andb_true_iff in H. destruct H as [H H4]. apply andb_true_iff in H. destruct H as [H H3].
  apply andb_true_iff in H. destruct H as [H H2].
  apply N.eqb_eq in H2. apply N.eqb_eq in H3. apply N.eqb_eq in H4.
  split; [apply range_of_bool; exact H|]. repeat split; assumption.
Qed.

(* the argument forms the setter accepts: an int, or a sequence starting (int power, bool-ish lna) *)
Definition pa_arg (power : pyval) (p : Z) (lna : bool) : Prop :=
  (power = PInt p /\ lna = true) \/ (exists rest, power = PList (PInt p :: PBool lna :: rest))
  \/ (exists l rest, power = PList (PInt p :: PInt l :: rest) /\ lna = truthy l).

Lemma set_pa_level_c power p lna d c : pa_arg power p lna -> 0 <= d_rf_setup d <= 255 -> pa_ok p ->
  exists d', set_pa_level CB power d c = (Ok tt, d', cset c 6 (pa_value (d_rf_setup d) p lna)).
Proof.
  intros Ha Hd Hp. destruct (pa_value_bits (d_rf_setup d) p lna Hd Hp) as (Hr & _).
  assert (E : set_pa_level CB power d c =
              bind get (fun d0 =>
               bind (modify (upd_rf_setup (Z.lor (Z.lor (Z.land (d_rf_setup d0) 248) (pa_bits p)) (zb lna)))) (fun _ =>
               reg_write CB 6 (Z.lor (Z.lor (Z.land (d_rf_setup d0) 248) (pa_bits p)) (zb lna)))) d c).
  { unfold set_pa_level, pa_bits.
    destruct Ha as [[-> ->]|[[rest ->]|(l & rest & -> & ->)]]; cbv iota beta; rewrite (valid_pa_ok p Hp); reflexivity. }
  rewrite E. mstep lia. mstep lia. rewrite reg_write_c by lia. eexists. f_equal.
Qed.

Lemma set_pa_level_rejects power p lna d c : pa_arg power p lna -> ~ pa_ok p ->
  set_pa_level CB power d c = (Exn ValueError, d, c).
Proof.
  intros Ha Hp. unfold set_pa_level.
  destruct Ha as [[-> ->]|[[rest ->]|(l & rest & -> & ->)]]; cbv iota beta; rewrite (valid_pa_bad p Hp); reflexivity.
Qed.

Theorem set_pa_level_world me power p lna d w :
  (me < length (radios w))%nat -> pa_arg power p lna -> 0 <= d_rf_setup d <= 255 -> pa_ok p ->
  exists d1 w1, set_pa_level (WB me) power d w = (Ok tt, d1, w1)
    /\ cview (get_radio w1 me) = cset (cview (get_radio w me)) 6 (pa_value (d_rf_setup d) p lna)
    /\ (forall j, j <> me -> cview (get_radio w1 j) = cview (get_radio w j)).
Proof.
  intros Hme Ha Hd Hp. destruct (set_pa_level_c power p lna d (cview (get_radio w me)) Ha Hd Hp) as (d' & E).
  destruct (sim_run me _ _ d w (sim_set_pa_level me power) Hme _ _ _ E) as (d1 & w1 & E1 & _ & Hcv & Hf & _).
  exists d1, w1. repeat split; assumption.
Qed.

Theorem set_pa_level_world_rejects me power p lna d w :
  (me < length (radios w))%nat -> pa_arg power p lna -> ~ pa_ok p ->
  exists d1 w1, set_pa_level (WB me) power d w = (Exn ValueError, d1, w1)
    /\ (forall j, cview (get_radio w1 j) = cview (get_radio w j)).
Proof.
  intros Hme Ha Hp. pose proof (set_pa_level_rejects power p lna d (cview (get_radio w me)) Ha Hp) as E.
  destruct (sim_run me _ _ d w (sim_set_pa_level me power) Hme _ _ _ E) as (d1 & w1 & E1 & _ & Hcv & Hf & _).
  exists d1, w1. split; [exact E1|]. intro j. destruct (Nat.eq_dec j me) as [->|Hj]; [exact Hcv|apply Hf; exact Hj].
Qed.

(* what the getters compute from the register content the setter leaves: the power and the LNA flag come back *)
Definition pa_of_bits (s : Z) : Z := if s =? 0 then -18 else if s =? 2 then -12 else if s =? 4 then -6 else 0.
Lemma pa_of_bits_ok p : pa_ok p -> pa_of_bits (pa_bits p) = p.
Proof. intros [->|[->|[->| ->]]]; reflexivity. Qed.

Lemma pa_value_getter cached p lna : 0 <= cached <= 255 -> pa_ok p ->
  (3 - Z.shiftr (Z.land (Z.of_N (pa_value cached p lna)) 6) 1) * -6 = p
  /\ truthy (Z.land (Z.of_N (pa_value cached p lna)) 1) = lna.
Proof.
  intros Hc Hp. unfold pa_value.
  pose proof (sweep_byte (fun v => forallb (fun s => forallb (fun l =>
     ((3 - Z.shiftr (Z.land (Z.of_N (N.land (Z.to_N (Z.lor (Z.lor (Z.land v 248) s) (zb l))) 191)) 6) 1) * -6 =? pa_of_bits s)
     && Bool.eqb (truthy (Z.land (Z.of_N (N.land (Z.to_N (Z.lor (Z.lor (Z.land v 248) s) (zb l))) 191)) 1)) l)
     [true; false]) [0; 2; 4; 6]) ltac:(vm_compute; reflexivity) cached Hc) as H.
  cbv beta in H. rewrite forallb_forall in H. specialize (H _ (pa_bits_in p Hp)).
  rewrite forallb_forall in H. specialize (H lna ltac:(destruct lna; cbn; auto)).
  apply andb_true_iff in H. destruct H as [H1 H2]. apply Z.eqb_eq in H1. apply Bool.eqb_prop in H2.
  rewrite pa_of_bits_ok in H1 by exact Hp. split; assumption.
Qed.

(* ---- arc = count (any integer, clamped to 0..15): SETUP_RETR low nibble := count, high nibble (ARD) from the cached
   byte;  ard = delta (any integer, clamped to 250..4000 us): high nibble := (delta - 250) / 250, low nibble (ARC) from the
   cached byte ---- *)
Definition arc_value (cached count : Z) : Z := 16 * (cached / 16) + Z.max 0 (Z.min count 15).
Definition ard_value (cached delta : Z) : Z := 16 * ((Z.max 250 (Z.min delta 4000) - 250) / 250) + cached mod 16.

Lemma lor_keep_high : forall v c, 0 <= v < 256 -> 0 <= c < 16 -> Z.lor (Z.land v 240) c = 16 * (v / 16) + c.
Proof.
  intros v c Hv Hc.
  pose proof (sweepZ2 (fun v c => Z.lor (Z.land v 240) c =? 16 * (v / 16) + c) 256 16) as S.
  apply Z.eqb_eq. apply S; [vm_compute; reflexivity|lia|lia].
Qed.

Lemma lor_keep_low : forall v q, 0 <= v < 256 -> 0 <= q < 16 -> Z.lor (Z.land v 15) (Z.shiftl q 4) = 16 * q + v mod 16.
Proof.
  intros v q Hv Hq.
  pose proof (sweepZ2 (fun v q => Z.lor (Z.land v 15) (Z.shiftl q 4) =? 16 * q + v mod 16) 256 16) as S.
  apply Z.eqb_eq. apply S; [vm_compute; reflexivity|lia|lia].
Qed.

Lemma arc_value_range cached count : 0 <= cached <= 255 -> 0 <= arc_value cached count <= 255.
Proof.
  intros Hc. unfold arc_value.
  assert (0 <= cached / 16 <= 15) by (split; [apply Z.div_pos; lia|apply Z.lt_succ_r; apply Z.div_lt_upper_bound; lia]).
  lia.
Qed.

Lemma ard_value_range cached delta : 0 <= ard_value cached delta <= 255.
Proof.
  unfold ard_value.
  assert (0 <= (Z.max 250 (Z.min delta 4000) - 250) / 250 <= 15).
  { split; [apply Z.div_pos; lia|]. apply Z.lt_succ_r. apply Z.div_lt_upper_bound; lia. }
  pose proof (Z.mod_pos_bound cached 16 ltac:(lia)). lia.
Qed.

Lemma byte_wmask4 v : 0 <= v <= 255 -> N.land (Z.to_N v) (wmask 4) = Z.to_N v.
Proof.
  intro H. change (wmask 4) with (N.ones 8). rewrite N.land_ones. apply N.mod_small. change (2 ^ 8)%N with 256%N. lia.
Qed.

Lemma set_arc_c count d c : 0 <= d_retry_setup d <= 255 ->
  exists d', set_arc CB count d c = (Ok tt, d', cset c 4 (Z.to_N (arc_value (d_retry_setup d) count))).
Proof.
  intros Hd. unfold set_arc. cbv zeta.
  pose proof (arc_value_range (d_retry_setup d) count Hd) as Hr. unfold arc_value in Hr.
  mstep lia. rewrite lor_keep_high by lia. mstep lia. rewrite reg_write_c by lia. eexists. f_equal.
  change (Z.to_N 4) with 4%N. rewrite cwrite_plain by (auto; lia). f_equal. apply byte_wmask4. exact Hr.
Qed.

Lemma set_ard_c delta d c : 0 <= d_retry_setup d <= 255 ->
  exists d', set_ard CB delta d c = (Ok tt, d', cset c 4 (Z.to_N (ard_value (d_retry_setup d) delta))).
Proof.
  intros Hd. unfold set_ard, ard_bits.
  assert (Hq : 0 <= (Z.max 250 (Z.min delta 4000) - 250) / 250 < 16).
  { split; [apply Z.div_pos; lia|]. apply Z.div_lt_upper_bound; lia. }
  pose proof (ard_value_range (d_retry_setup d) delta) as Hr. unfold ard_value in Hr.
  mstep lia. rewrite lor_keep_low by lia. mstep lia. rewrite reg_write_c by lia. eexists. f_equal.
  change (Z.to_N 4) with 4%N. rewrite cwrite_plain by (auto; lia). f_equal. apply byte_wmask4. exact Hr.
Qed.

Theorem set_arc_world me count d w :
  (me < length (radios w))%nat -> 0 <= d_retry_setup d <= 255 ->
  exists d1 w1, set_arc (WB me) count d w = (Ok tt, d1, w1)
    /\ cview (get_radio w1 me) = cset (cview (get_radio w me)) 4 (Z.to_N (arc_value (d_retry_setup d) count))
    /\ (forall j, j <> me -> cview (get_radio w1 j) = cview (get_radio w j)).
Proof.
  intros Hme Hd. destruct (set_arc_c count d (cview (get_radio w me)) Hd) as (d' & E).
  destruct (sim_run me _ _ d w (sim_set_arc me count) Hme _ _ _ E) as (d1 & w1 & E1 & _ & Hcv & Hf & _).
  exists d1, w1. repeat split; assumption.
Qed.

Theorem set_ard_world me delta d w :
  (me < length (radios w))%nat -> 0 <= d_retry_setup d <= 255 ->
  exists d1 w1, set_ard (WB me) delta d w = (Ok tt, d1, w1)
    /\ cview (get_radio w1 me) = cset (cview (get_radio w me)) 4 (Z.to_N (ard_value (d_retry_setup d) delta))
    /\ (forall j, j <> me -> cview (get_radio w1 j) = cview (get_radio w j)).
Proof.
  intros Hme Hd. destruct (set_ard_c delta d (cview (get_radio w me)) Hd) as (d' & E).
  destruct (sim_run me _ _ d w (sim_set_ard me delta) Hme _ _ _ E) as (d1 & w1 & E1 & _ & Hcv & Hf & _).
  exists d1, w1. repeat split; assumption.
Qed.

(* one field is set, the other kept: reading the nibbles of the written byte *)
Lemma arc_value_fields cached count : 0 <= cached <= 255 ->
  arc_value cached count mod 16 = Z.max 0 (Z.min count 15) /\ arc_value cached count / 16 = cached / 16.
Proof.
  intros Hc. unfold arc_value. assert (Hk : 0 <= Z.max 0 (Z.min count 15) < 16) by lia.
  generalize dependent (Z.max 0 (Z.min count 15)). intros k Hk.
  split.
  - rewrite Z.add_comm, Z.mul_comm, Z_mod_plus_full. apply Z.mod_small. exact Hk.
  - rewrite Z.add_comm, Z.mul_comm, Z_div_plus_full by lia. rewrite Z.div_small by exact Hk. lia.
Qed.

Lemma ard_value_fields cached delta :
  ard_value cached delta / 16 = (Z.max 250 (Z.min delta 4000) - 250) / 250 /\ ard_value cached delta mod 16 = cached mod 16.
Proof.
  unfold ard_value. pose proof (Z.mod_pos_bound cached 16 ltac:(lia)) as Hm.
  generalize dependent (cached mod 16). intros k Hk.
  split.
  - rewrite Z.add_comm, Z.mul_comm, Z_div_plus_full by lia. rewrite Z.div_small by exact Hk. lia.
  - rewrite Z.add_comm, Z.mul_comm, Z_mod_plus_full. apply Z.mod_small. exact Hk.
Qed.

(* the data_rate getter's formula applied to the register content the setter leaves gives the speed back *)
Lemma rate_value_getter n speed : (n < 256)%N -> (speed = 1 \/ speed = 2 \/ speed = 250) ->
  (let b := Z.land (Z.of_N (rate_value n speed)) 40 in if b =? 0 then 1 else if b =? 8 then 2 else 250) = speed.
Proof.
  intros Hn Hs. unfold rate_value.
  pose proof (sweep_byteN (fun n => forallb (fun s =>
     (let b := Z.land (Z.of_N (N.land (Z.to_N (Z.lor (Z.land (Z.of_N n) 215) s)) 191)) 40 in
      if b =? 0 then 1 else if b =? 8 then 2 else 250) =? (if s =? 0 then 1 else if s =? 8 then 2 else 250)) [0; 8; 32])
     ltac:(vm_compute; reflexivity) n Hn) as H.
  cbv beta in H. rewrite forallb_forall in H. specialize (H _ (rate_bits_in speed Hs)).
  apply Z.eqb_eq in H. cbv zeta in H. cbv zeta. rewrite H. destruct Hs as [->|[->| ->]]; reflexivity.
Qed.

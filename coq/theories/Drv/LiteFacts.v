(* LiteFacts.v -- the lite driver's status accessors report the radio's state (as Drv/AccessFacts.v does for
   the full driver): update() caches the radio's STATUS; available() and the status-derived attributes decode it. *)
From Coq Require Import ZArith NArith List Bool Lia.
From NRF Require Import Base.Sweep Env.Radio Env.World Env.RadioFacts Env.WorldFacts Env.WfFacts Drv.RF24 Drv.Lite Drv.AccessFacts.
Import ListNotations.
Local Open Scope N_scope.

Section OnRadio.
  Variable me : nat.

  Lemma l_update_spec d w :
    exists d' w', l_update (WB me) d w = (Ok true, d', w') /\ d_in0 d' = Radio.status (get_radio w me).
  Proof. exact (update_spec me d w). Qed.

  Lemma st_pipe_z_of_N s : st_pipe_z (Z.of_N s) = Z.of_N (N.land (N.shiftr s 1) 7).
  Proof.
    unfold st_pipe_z.
    change 7%Z with (Z.ones 3). change 7 with (N.ones 3).
    rewrite Z.land_ones by lia. rewrite N.land_ones.
    rewrite Z.shiftr_div_pow2 by lia. rewrite N.shiftr_div_pow2.
    rewrite N2Z.inj_mod, N2Z.inj_div. reflexivity.
  Qed.

  (* available() of the lite driver is True exactly when the radio's RX FIFO holds a payload *)
  Theorem l_available_spec d w : WfR (get_radio w me) ->
    exists d' w', l_available (WB me) d w = (Ok (negb (match rx_fifo (get_radio w me) with [] => true | _ => false end)), d', w').
  Proof.
    intro W. unfold l_available. destruct (l_update_spec d w) as (d' & w' & E & S).
    unfold bind at 1. rewrite E. unfold Lite.status, bind, get, ret. eexists. eexists.
    f_equal. f_equal. f_equal. rewrite S, st_pipe_z_of_N.
    rewrite (proj1 (status_decode _ W)).
    rewrite <- (rx_p_no_lt6 _ W). change 6%Z with (Z.of_N 6).
    destruct (rx_p_no (get_radio w me) <? 6) eqn:L.
    - apply N.ltb_lt in L. apply Z.ltb_lt. lia.
    - apply N.ltb_ge in L. apply Z.ltb_ge. lia.
  Qed.
End OnRadio.

(* RF24Sim.v -- the configuration-level semantics of the driver and the proof that the
   driver running on a world (any number of radios, any traffic) simulates it.

   The same driver code (Drv/RF24.v is generic in its bus) is instantiated twice:
     WB me : busops world  -- radio `me` of a world (what the correspondence check runs)
     CB    : busops cfg    -- a bare configuration record (registers, addresses, CE)
   For every configuration method m:  sim (m (WB me)) (m CB)  -- same result, same driver
   state up to the cached STATUS byte, and the world's radio `me` has exactly the
   configuration the cfg-level run computes, every other radio's configuration untouched.
   Theorems about configuration (C03, C08, C09) are then proved on the cfg-level run, which
   is a plain computable function, and transfer to every world. *)
From Coq Require Import ZArith NArith Arith List Bool Lia.
From NRF Require Import Base.Sweep Env.Radio Env.RadioFacts Env.World Env.WorldFacts Env.CfgFacts Drv.RF24.
Import ListNotations.
Local Open Scope Z_scope.

Definition CB : busops cfg :=
  mkBus cfg (fun c m => let '(c', tail) := cspi c m in (c', 0%N :: tail)) cset_ce
        (fun c => (c, 0%N)) (fun c _ => c).

Definition upd_in0 (v : N) (d : drv) : drv :=
  mkDrv v (d_config d) (d_rf_setup d) (d_open_pipes d) (d_dyn_pl d) (d_aa d) (d_features d)
        (d_retry_setup d) (d_channel d) (d_addr_len d) (d_pl_len d) (d_pipe0 d) (d_pipe1 d)
        (d_pipes25 d) (d_tx_address d) (d_pipe0_read_addr d) (d_is_plus d).

(* equality of driver states up to the cached STATUS byte *)
Definition deq (d d' : drv) : Prop := upd_in0 0 d = upd_in0 0 d'.

Lemma deq_refl d : deq d d. Proof. reflexivity. Qed.
Lemma deq_in0 d v : deq (upd_in0 v d) d. Proof. reflexivity. Qed.
Lemma deq_trans a b c : deq a b -> deq b c -> deq a c.
Proof. unfold deq. congruence. Qed.
Lemma deq_sym a b : deq a b -> deq b a.
Proof. unfold deq. congruence. Qed.

Lemma deq_fields d d' : deq d d' ->
  d_config d = d_config d' /\ d_rf_setup d = d_rf_setup d' /\ d_open_pipes d = d_open_pipes d'
  /\ d_dyn_pl d = d_dyn_pl d' /\ d_aa d = d_aa d' /\ d_features d = d_features d'
  /\ d_retry_setup d = d_retry_setup d' /\ d_channel d = d_channel d' /\ d_addr_len d = d_addr_len d'
  /\ d_pl_len d = d_pl_len d' /\ d_pipe0 d = d_pipe0 d' /\ d_pipe1 d = d_pipe1 d'
  /\ d_pipes25 d = d_pipes25 d' /\ d_tx_address d = d_tx_address d'
  /\ d_pipe0_read_addr d = d_pipe0_read_addr d' /\ d_is_plus d = d_is_plus d'.
Proof. unfold deq, upd_in0. intros H. inversion H. repeat split; assumption. Qed.

Section Sim.
  Variable me : nat.

  Definition rel (w : world) (c : cfg) : Prop :=
    (me < length (radios w))%nat /\ cview (get_radio w me) = c.

  Definition frame (w w' : world) : Prop :=
    (forall j, j <> me -> cview (get_radio w' j) = cview (get_radio w j))
    /\ length (radios w') = length (radios w).

  Lemma frame_refl w : frame w w. Proof. split; reflexivity. Qed.
  Lemma frame_trans a b c : frame a b -> frame b c -> frame a c.
  Proof.
    intros [H1 L1] [H2 L2]. split; [|congruence]. intros j Hj. rewrite H2, H1 by exact Hj. reflexivity.
  Qed.

  Definition simR {A} (R : A -> A -> Prop) (m : M (bus := world) A) (m' : M (bus := cfg) A) : Prop :=
    forall d d' w c, deq d d' -> rel w c ->
      match m d w, m' d' c with
      | (r, d1, w1), (r', d1', c1) =>
        match r, r' with
        | Ok a, Ok a' => R a a'
        | Exn e, Exn e' => e = e'
        | _, _ => False
        end /\ deq d1 d1' /\ rel w1 c1 /\ frame w w1
      end.

  Definition sim {A} := @simR A eq.

  Lemma sim_ret {A} (a : A) : sim (ret a) (ret a).
  Proof. intros d d' w c Hd Hr. cbn. repeat split; try assumption; try apply Hr. Qed.

  Lemma simR_ret {A} (R : A -> A -> Prop) a a' : R a a' -> simR R (ret a) (ret a').
  Proof. intros H d d' w c Hd Hr. cbn. repeat split; try assumption; try apply Hr. Qed.

  Lemma sim_raise {A} e : sim (@raise world A e) (@raise cfg A e).
  Proof. intros d d' w c Hd Hr. cbn. repeat split; try assumption; try apply Hr. Qed.

  Lemma simR_bind {A B} (R : A -> A -> Prop) (R2 : B -> B -> Prop) m m' f f' :
    simR R m m' -> (forall a a', R a a' -> simR R2 (f a) (f' a')) ->
    simR R2 (bind m f) (bind m' f').
  Proof.
    intros Hm Hf d d' w c Hd Hr. unfold bind.
    specialize (Hm d d' w c Hd Hr).
    destruct (m d w) as [[r d1] w1]. destruct (m' d' c) as [[r' d1'] c1].
    destruct Hm as [Hres [Hd1 [Hr1 Hfr]]].
    destruct r as [a|e], r' as [a'|e']; try contradiction.
    - specialize (Hf a a' Hres d1 d1' w1 c1 Hd1 Hr1).
      destruct (f a d1 w1) as [[r2 d2] w2]. destruct (f' a' d1' c1) as [[r2' d2'] c2].
      destruct Hf as [H1 [H2 [H3 H4]]].
      split; [exact H1|]. split; [exact H2|]. split; [exact H3|]. exact (frame_trans w w1 w2 Hfr H4).
    - split; [exact Hres|]. split; [exact Hd1|]. split; [exact Hr1|exact Hfr].
  Qed.

  Lemma sim_bind {A B} m m' (f : A -> M B) f' :
    sim m m' -> (forall a, sim (f a) (f' a)) -> sim (bind m f) (bind m' f').
  Proof. intros Hm Hf. apply (simR_bind eq eq); [exact Hm|]. intros a a' <-. apply Hf. Qed.

  Lemma sim_bind_ret {A B} (a : A) (f : A -> M B) f' :
    sim (f a) (f' a) -> sim (bind (ret a) f) (bind (ret a) f').
  Proof. intros H. exact H. Qed.

  Lemma sim_bind_get {B} (f : drv -> M B) f' :
    (forall d d', deq d d' -> sim (f d) (f' d')) -> sim (bind get f) (bind get f').
  Proof.
    intros Hf d d' w c Hd Hr. unfold bind, get. apply (Hf d d' Hd d d' w c Hd Hr).
  Qed.

  Lemma sim_modify g : (forall d d', deq d d' -> deq (g d) (g d')) -> sim (modify g) (modify g).
  Proof.
    intros Hg d d' w c Hd Hr. cbn. repeat split; try apply Hr; auto.
  Qed.

  Lemma sim_put v : sim (put v) (put v).
  Proof. intros d d' w c Hd Hr. cbn. repeat split; try apply Hr; reflexivity. Qed.

  Lemma sim_as_byte v : sim (as_byte v) (as_byte v).
  Proof. unfold as_byte. destruct (_ && _); [apply sim_ret|apply sim_raise]. Qed.

  Lemma sim_set_ce v : sim (set_ce (WB me) v) (set_ce CB v).
  Proof.
    intros d d' w c Hd [Hme Hc]. unfold set_ce. cbn [b_ce WB CB].
    split; [reflexivity|]. split; [exact Hd|]. split; [split|split].
    - rewrite w_ce_length. exact Hme.
    - rewrite w_ce_cview_me by exact Hme. rewrite <- Hc. reflexivity.
    - intros j Hj. apply w_ce_cview_other. congruence.
    - apply w_ce_length.
  Qed.

  (* time: no effect on any configuration; the values read differ between the two runs *)
  Lemma sim_sleep a b : sim (sleep (WB me) a) (sleep CB b).
  Proof.
    intros d d' w c Hd [Hme Hc]. unfold sleep. cbn [b_sleep WB CB].
    split; [reflexivity|]. split; [exact Hd|]. split; [split; [exact Hme|exact Hc]|(split; [intros; reflexivity|reflexivity])].
  Qed.

  Lemma simR_now : simR (fun _ _ => True) (now (WB me)) (now CB).
  Proof.
    intros d d' w c Hd [Hme Hc]. unfold now. cbn [b_now WB CB]. unfold w_now.
    split; [exact I|]. split; [exact Hd|]. split; [split; [exact Hme|exact Hc]|(split; [intros; reflexivity|reflexivity])].
  Qed.

  Lemma sim_listen_delay s s' : sim (listen_delay (WB me) s) (listen_delay CB s').
  Proof.
    intros d d' w c Hd [Hme Hc]. unfold listen_delay, bind, now, sleep, ret. cbn [b_now b_sleep WB CB]. unfold w_now.
    destruct (_ <? _)%N, (_ <? _)%N;
      (split; [reflexivity|]; split; [exact Hd|]; split; [split; [exact Hme|exact Hc]|(split; [intros; reflexivity|reflexivity])]).
  Qed.

  (* one transfer of a configuration command: replies agree except for the STATUS byte *)
  Definition tail_eq (a b : list N) : Prop := tl a = tl b.

  Lemma deq_xfer d d' a b : deq d d' ->
    deq (mkDrv a (d_config d) (d_rf_setup d) (d_open_pipes d) (d_dyn_pl d) (d_aa d) (d_features d)
               (d_retry_setup d) (d_channel d) (d_addr_len d) (d_pl_len d) (d_pipe0 d) (d_pipe1 d)
               (d_pipes25 d) (d_tx_address d) (d_pipe0_read_addr d) (d_is_plus d))
        (mkDrv b (d_config d') (d_rf_setup d') (d_open_pipes d') (d_dyn_pl d') (d_aa d') (d_features d')
               (d_retry_setup d') (d_channel d') (d_addr_len d') (d_pl_len d') (d_pipe0 d') (d_pipe1 d')
               (d_pipes25 d') (d_tx_address d') (d_pipe0_read_addr d') (d_is_plus d')).
  Proof.
    intros H. apply deq_fields in H.
    destruct H as (H1&H2&H3&H4&H5&H6&H7&H8&H9&H10&H11&H12&H13&H14&H15&H16).
    unfold deq, upd_in0. cbn.
    rewrite H1, H2, H3, H4, H5, H6, H7, H8, H9, H10, H11, H12, H13, H14, H15, H16. reflexivity.
  Qed.

  Lemma simR_xfer_cfg cmd data : cfg_cmd cmd = true ->
    simR tail_eq (xfer (WB me) (cmd :: data)) (xfer CB (cmd :: data)).
  Proof.
    intros Hc d d' w c Hd [Hme Hcv]. unfold xfer. cbn [b_spi WB CB].
    destruct (w_spi_cfg w me cmd data Hme Hc) as [H1 [H2 [H3 H4]]].
    destruct (w_spi w me (cmd :: data)) as [w' miso] eqn:E. cbn [fst snd] in *.
    rewrite Hcv in *.
    destruct (cspi c (cmd :: data)) as [c' tail] eqn:E2. cbn [fst snd] in *.
    repeat split.
    - unfold tail_eq. rewrite H2. reflexivity.
    - apply deq_xfer. exact Hd.
    - rewrite H4. exact Hme.
    - exact H1.
    - exact H3.
    - exact H4.
  Qed.

  Lemma simR_xfer_noncfg cmd data : (64 <=? cmd)%N = true -> (cmd =? 80)%N = false ->
    simR (fun _ _ => True) (xfer (WB me) (cmd :: data)) (xfer CB (cmd :: data)).
  Proof.
    intros H64 H80 d d' w c Hd [Hme Hcv]. unfold xfer. cbn [b_spi WB CB].
    destruct (w_spi_noncfg w me cmd data Hme H64 H80) as [H1 [H3 H4]].
    destruct (w_spi w me (cmd :: data)) as [w' miso] eqn:E. cbn [fst snd] in *.
    assert (Hcs : cspi c (cmd :: data) = (c, repeat 0%N (length data))).
    { unfold cspi. apply N.leb_le in H64.
      replace (cmd <? 32)%N with false by (symmetry; apply N.ltb_ge; lia).
      replace (cmd <? 64)%N with false by (symmetry; apply N.ltb_ge; lia).
      rewrite H80. reflexivity. }
    rewrite Hcs.
    repeat split.
    - apply deq_xfer. exact Hd.
    - rewrite H4. exact Hme.
    - rewrite H1. exact Hcv.
    - exact H3.
    - exact H4.
  Qed.

  (* ---- register primitives ---- *)
  Definition cfg_reg (reg : Z) : Prop := 0 <= reg < 32 /\ derived (Z.to_N reg) = false.

  Lemma cfg_cmd_read reg : cfg_reg reg -> cfg_cmd (Z.to_N reg) = true.
  Proof.
    intros [Hr Hd]. unfold cfg_cmd. rewrite Hd.
    replace (Z.to_N reg <? 32)%N with true by (symmetry; apply N.ltb_lt; lia). reflexivity.
  Qed.

  Lemma cfg_cmd_write reg : 0 <= reg < 32 -> cfg_cmd (Z.to_N (Z.lor 32 reg)) = true.
  Proof.
    intros Hr. unfold cfg_cmd.
    assert (H : Z.lor 32 reg = 32 + reg).
    { apply Z.eqb_eq. apply (sweepZ (fun r => Z.lor 32 r =? 32 + r) 32); [vm_compute; reflexivity|lia]. }
    rewrite H.
    replace (Z.to_N (32 + reg) <? 32)%N with false by (symmetry; apply N.ltb_ge; lia).
    replace (32 <=? Z.to_N (32 + reg))%N with true by (symmetry; apply N.leb_le; lia).
    replace (Z.to_N (32 + reg) <? 64)%N with true by (symmetry; apply N.ltb_lt; lia).
    reflexivity.
  Qed.

  Lemma as_byte_ok {bus} v : 0 <= v <= 255 -> @as_byte bus v = ret (Z.to_N v).
  Proof.
    intros H. unfold as_byte.
    replace ((0 <=? v) && (v <=? 255)) with true; [reflexivity|].
    symmetry. apply andb_true_iff. split; apply Z.leb_le; lia.
  Qed.

  Lemma sim_reg_read reg : cfg_reg reg -> sim (reg_read (WB me) reg) (reg_read CB reg).
  Proof.
    intros Hc. unfold reg_read. destruct Hc as [Hr Hd].
    rewrite ?(@as_byte_ok world), ?(@as_byte_ok cfg) by lia.
    apply sim_bind_ret.
    apply (simR_bind tail_eq eq).
    - apply simR_xfer_cfg. apply cfg_cmd_read. split; assumption.
    - intros m m' Ht. unfold tail_eq in Ht.
      replace (nth 1 m 0%N) with (nth 1 m' 0%N); [apply sim_ret|].
      destruct m, m'; cbn in *; subst; reflexivity.
  Qed.

  Lemma sim_reg_read_bytes reg n : cfg_reg reg ->
    sim (reg_read_bytes (WB me) reg n) (reg_read_bytes CB reg n).
  Proof.
    intros Hc. unfold reg_read_bytes. destruct Hc as [Hr Hd].
    rewrite ?(@as_byte_ok world), ?(@as_byte_ok cfg) by lia.
    apply sim_bind_ret.
    apply (simR_bind tail_eq eq).
    - apply simR_xfer_cfg. apply cfg_cmd_read. split; assumption.
    - intros m m' Ht. unfold tail_eq in Ht. rewrite Ht. apply sim_ret.
  Qed.

  Lemma lor32_range reg : 0 <= reg < 32 -> 0 <= Z.lor 32 reg <= 255.
  Proof.
    intros H.
    assert (E : Z.lor 32 reg = 32 + reg).
    { apply Z.eqb_eq. apply (sweepZ (fun r => Z.lor 32 r =? 32 + r) 32); [vm_compute; reflexivity|lia]. }
    lia.
  Qed.

  Lemma sim_reg_write_bytes reg buf : 0 <= reg < 32 ->
    sim (reg_write_bytes (WB me) reg buf) (reg_write_bytes CB reg buf).
  Proof.
    intros Hr. unfold reg_write_bytes.
    rewrite (@as_byte_ok world), (@as_byte_ok cfg) by (apply lor32_range; exact Hr).
    apply sim_bind_ret.
    apply (simR_bind tail_eq eq).
    - apply simR_xfer_cfg. apply cfg_cmd_write. exact Hr.
    - intros; apply sim_ret.
  Qed.

  Lemma sim_reg_write reg value : 0 <= reg < 32 ->
    sim (reg_write (WB me) reg value) (reg_write CB reg value).
  Proof.
    intros Hr. unfold reg_write.
    replace (reg =? 80) with false by (symmetry; apply Z.eqb_neq; lia).
    rewrite (@as_byte_ok world), (@as_byte_ok cfg) by (apply lor32_range; exact Hr).
    apply sim_bind_ret.
    apply sim_bind; [apply sim_as_byte|]. intros v.
    apply (simR_bind tail_eq eq).
    - apply simR_xfer_cfg. apply cfg_cmd_write. exact Hr.
    - intros; apply sim_ret.
  Qed.

  (* ACTIVATE: reg_write 0x50 0x73 *)
  Lemma sim_activate : sim (reg_write (WB me) 80 115) (reg_write CB 80 115).
  Proof.
    unfold reg_write. cbn [Z.eqb Z.lor]. change (80 =? 80) with true. cbn [Z.lor].
    rewrite ?(@as_byte_ok world), ?(@as_byte_ok cfg) by lia.
    apply sim_bind_ret.
    apply sim_bind_ret.
    apply (simR_bind (fun _ _ => True) eq); [|intros; apply sim_ret].
    intros d d' w c Hd [Hme Hcv]. unfold xfer. cbn [b_spi WB CB].
    pose proof (w_spi_cview_me w me [Z.to_N 80; Z.to_N 115] Hme) as H1.
    pose proof (fun j Hj => w_spi_cview_other w me j [Z.to_N 80; Z.to_N 115] Hj) as H3.
    pose proof (w_spi_length w me [Z.to_N 80; Z.to_N 115]) as H4.
    rewrite spi_cview, Hcv in H1.
    destruct (w_spi w me _) as [w' miso]. cbn [fst] in *.
    destruct (cspi c _) as [c' tail]. cbn [fst] in *.
    split; [exact I|]. split; [apply deq_xfer; exact Hd|]. split; [split|split].
    - rewrite H4. exact Hme.
    - exact H1.
    - intros j Hj. apply H3. congruence.
    - exact H4.
  Qed.

  (* commands that do not touch configuration (NOP, flushes, payload writes) *)
  Lemma sim_command c : 64 <= c <= 255 -> c <> 80 -> sim (command (WB me) c) (command CB c).
  Proof.
    intros Hc Hn. unfold command. rewrite !as_byte_ok by lia.
    apply sim_bind_ret.
    apply (simR_bind (fun _ _ => True) eq); [|intros; apply sim_ret].
    apply simR_xfer_noncfg.
    - apply N.leb_le. lia.
    - apply N.eqb_neq. intros H. apply Hn. lia.
  Qed.

End Sim.

(* SendFacts.v -- send() reports what the radio did (C02), for a transmitter in a world where no other radio
   transmits.  The driver model is evaluated step by step on the world: each SPI transfer / CE change of radio
   `me` is followed by `settle`, which in such a world does nothing until CE goes high with a payload queued,
   and then performs exactly one exchange (Env/QuietFacts.v). *)
From Coq Require Import ZArith NArith List Bool Lia.
From NRF Require Import Base.Sweep Env.Radio Env.World Env.RadioFacts Env.WorldFacts Env.WfFacts Env.QuietFacts
     Drv.RF24 Drv.RF24Sim Drv.AccessFacts.
Import ListNotations.
Local Open Scope N_scope.

Lemma set_nth_radio_id rs : forall i, (i < length rs)%nat -> set_nth_radio rs i (nth i rs (reset_radio true)) = rs.
Proof. induction rs as [|x t IH]; intros i Hi; [cbn in Hi; lia|]. destruct i; cbn; [reflexivity|]. f_equal. apply IH. cbn in Hi. lia. Qed.

Lemma set_nth_radio_twice rs : forall i a b, set_nth_radio (set_nth_radio rs i a) i b = set_nth_radio rs i b.
Proof. induction rs as [|x t IH]; intros i a b; [destruct i; reflexivity|]. destruct i; cbn [set_nth_radio]; [reflexivity|]. f_equal. apply IH. Qed.

Section OnRadio.
  Variable me : nat.
  Notation W := (WB me).

  (* ---- one bus operation of radio me in a quiet world ---- *)
  Lemma w_ce_quiet w v : OthersPassive w me -> (me < length (radios w))%nat ->
    can_tx (with_ce (get_radio w me) v) = false ->
    w_ce w me v = set_radio w me (with_ce (get_radio w me) v).
  Proof.
    intros P Hl Hc. unfold w_ce. apply (settle_idle 8 _ me).
    - apply others_passive_set_me. exact P.
    - unfold set_radio. cbn [radios]. rewrite set_nth_radio_length. exact Hl.
    - rewrite get_set_radio_same by exact Hl. exact Hc.
  Qed.

  Lemma w_spi_quiet w mosi : OthersPassive w me -> (me < length (radios w))%nat ->
    can_tx (fst (spi (get_radio w me) mosi)) = false ->
    w_spi w me mosi = (tick (set_radio w me (fst (spi (get_radio w me) mosi))) SPI_COST, snd (spi (get_radio w me) mosi)).
  Proof.
    intros P Hl Hc. unfold w_spi. destruct (spi (get_radio w me) mosi) as [r' miso]. cbn [fst snd] in *.
    rewrite (settle_idle 8 _ me); [reflexivity| | |].
    - apply others_passive_set_me. exact P.
    - unfold set_radio. cbn [radios]. rewrite set_nth_radio_length. exact Hl.
    - rewrite get_set_radio_same by exact Hl. exact Hc.
  Qed.

  (* facts that survive set_radio / tick *)
  Lemma passive_tick w ns : OthersPassive w me -> OthersPassive (tick w ns) me.
  Proof. intros P j Hj. exact (P j Hj). Qed.
  Lemma get_radio_tick w ns i : get_radio (tick w ns) i = get_radio w i.
  Proof. reflexivity. Qed.
  Lemma length_tick w ns : length (radios (tick w ns)) = length (radios w).
  Proof. reflexivity. Qed.
  Lemma length_set_radio w i r : length (radios (set_radio w i r)) = length (radios w).
  Proof. unfold set_radio. cbn [radios]. apply set_nth_radio_length. Qed.

  Lemma can_tx_ce_low r : ce r = false -> can_tx r = false.
  Proof. intro H. rewrite can_tx_active. unfold active. rewrite H, !andb_false_r. reflexivity. Qed.

  Definition Q (w : world) : Prop := OthersPassive w me /\ (me < length (radios w))%nat.

  Lemma Q_set w r : Q w -> Q (set_radio w me r).
  Proof. intros [P L]. split; [apply others_passive_set_me; exact P|rewrite length_set_radio; exact L]. Qed.
  Lemma Q_tick w ns : Q w -> Q (tick w ns).
  Proof. intros [P L]. split; [apply passive_tick; exact P|exact L]. Qed.

  (* ---- the steps of write() on radio me ---- *)
  (* self.ce_pin = False *)
  Lemma step_ce_low d w : Q w ->
    set_ce W false d w = (Ok tt, d, set_radio w me (with_ce (get_radio w me) false)).
  Proof.
    intros [P L]. unfold set_ce. cbn [b_ce WB]. rewrite w_ce_quiet; [reflexivity|exact P|exact L|].
    apply can_tx_ce_low. reflexivity.
  Qed.

  (* clear_status_flags(): with CE low; afterwards no flag is latched and the cached status is the old one *)
  Lemma step_clear_flags d w : Q w -> ce (get_radio w me) = false ->
    clear_status_flags W true true true d w =
      (Ok tt, upd_in0 (status (get_radio w me)) d,
       tick (set_radio w me (with_flags (get_radio w me) 0)) SPI_COST).
  Proof.
    intros [P L] Hce. unfold clear_status_flags, reg_write.
    change (Z.lor (Z.lor (Z.shiftl (zb true) 6) (Z.shiftl (zb true) 5)) (Z.shiftl (zb true) 4)) with 112%Z.
    change (7 =? 80)%Z with false. cbv iota. change (Z.lor 32 7) with 39%Z.
    rewrite !(@as_byte_ok world) by lia. unfold bind, ret, xfer. cbn [b_spi WB].
    change (Z.to_N 39) with 39. change (Z.to_N 112) with 112.
    assert (E : spi (get_radio w me) [39; 112] = (with_flags (get_radio w me) 0, [status (get_radio w me); 0])).
    { unfold spi. change (39 <? 32) with false. change (39 <? 64) with true. cbv iota.
      change (39 - 32) with 7. unfold write_reg.
      change (7 =? R_RX_ADDR_P0) with false. change (7 =? R_RX_ADDR_P1) with false. change (7 =? R_TX_ADDR) with false.
      change (7 =? R_STATUS) with true. cbv iota.
      change (N.lxor 112 (N.land 112 112)) with 0. rewrite N.land_0_r. reflexivity. }
    rewrite w_spi_quiet; [|exact P|exact L|rewrite E; apply can_tx_ce_low; exact Hce].
    rewrite E. reflexivity.
  Qed.

  (* W_TX_PAYLOAD / W_TX_PAYLOAD_NOACK with CE low and room in the TX FIFO *)
  Definition loaded (r : radio) (noack : bool) (b : list N) : radio :=
    with_pid (with_fifos r (rx_fifo r) (tx_fifo r ++ [mkTx (if noack then TxNoAck else TxNormal) (next_pid r) b]))
             (N.land (next_pid r + 1) 3).

  Lemma step_load d w noack b : Q w -> ce (get_radio w me) = false -> tx_full (get_radio w me) = false ->
    reg_write_bytes W (Z.lor 160 (Z.shiftl (zb noack) 4)) b d w =
      (Ok tt, upd_in0 (status (get_radio w me)) d,
       tick (set_radio w me (loaded (get_radio w me) noack b)) SPI_COST).
  Proof.
    intros [P L] Hce Hfull. unfold reg_write_bytes.
    assert (Ecmd : Z.lor 32 (Z.lor 160 (Z.shiftl (zb noack) 4)) = if noack then 176%Z else 160%Z) by (destruct noack; reflexivity).
    rewrite Ecmd. rewrite (@as_byte_ok world) by (destruct noack; lia).
    unfold bind, ret, xfer. cbn [b_spi WB].
    assert (E : spi (get_radio w me) (Z.to_N (if noack then 176%Z else 160%Z) :: b)
                = (loaded (get_radio w me) noack b, status (get_radio w me) :: repeat 0 (length b))).
    { unfold spi, loaded. rewrite Hfull. destruct noack; reflexivity. }
    rewrite w_spi_quiet; [|exact P|exact L|rewrite E; apply can_tx_ce_low; exact Hce].
    rewrite E. reflexivity.
  Qed.

  (* self.ce_pin = True with exactly that payload queued, in TX mode, no MAX_RT latched: one exchange *)
  Lemma testbit_lor16 f : N.testbit (N.lor f 16) 4 = true.
  Proof. rewrite N.lor_spec. change (N.testbit 16 4) with true. apply orb_true_r. Qed.

  Lemma step_ce_high d w e : Q w ->
    active (with_ce (get_radio w me) true) = true -> max_rt (get_radio w me) = false ->
    tx_fifo (get_radio w me) = [e] ->
    set_ce W true d w = (Ok tt, d, exchange (set_radio w me (with_ce (get_radio w me) true)) me).
  Proof.
    intros [P L] Hact Hmax Ht. unfold set_ce. cbn [b_ce WB]. unfold w_ce.
    set (wp := set_radio w me (with_ce (get_radio w me) true)).
    assert (Qp : Q wp) by (apply Q_set; split; assumption).
    assert (Gp : get_radio wp me = with_ce (get_radio w me) true) by (unfold wp; apply get_set_radio_same; exact L).
    assert (Cp : can_tx (get_radio wp me) = true).
    { rewrite Gp, can_tx_active, Hact. unfold max_rt in *. cbn [flags with_ce tx_fifo]. rewrite Hmax, Ht. reflexivity. }
    f_equal. apply (settle_once 7 wp me (proj1 Qp) (proj2 Qp) Cp).
    assert (Htx : tx_fifo (get_radio wp me) = e :: []) by (rewrite Gp; exact Ht).
    destruct (exchange_transmitter wp me e [] (proj2 Qp) Htx) as (s1 & [T1 T2] & Hres & Hcv).
    rewrite can_tx_active.
    destruct (exchange_ok wp me).
    - destruct Hres as [_ Hf]. rewrite Hf, T1, Htx. cbn [tl]. apply andb_false_r.
    - destruct Hres as [Hfl _]. unfold max_rt, bitb. rewrite Hfl, testbit_lor16. cbn [negb]. rewrite andb_false_r. reflexivity.
  Qed.

  (* update() afterwards: nothing can transmit any more, the cached status is the radio's *)
  Lemma step_update_quiet d w : Q w -> can_tx (get_radio w me) = false ->
    update W d w = (Ok true, upd_in0 (status (get_radio w me)) d, tick w SPI_COST).
  Proof.
    intros [P L] Hc. unfold update, command. rewrite (@as_byte_ok world) by lia.
    unfold bind, ret, xfer. cbn [b_spi WB]. change (Z.to_N 255) with 255.
    assert (E : spi (get_radio w me) [255] = (get_radio w me, [status (get_radio w me)])) by reflexivity.
    rewrite w_spi_quiet; [|exact P|exact L|rewrite E; exact Hc].
    rewrite E. cbn [fst snd hd]. f_equal. f_equal.
    unfold set_radio, tick, get_radio. cbn [radios oracle air clock]. rewrite set_nth_radio_id by exact L. destruct w; reflexivity.
  Qed.

  Lemma bind_okW {A B} (m : M (bus := world) A) (f : A -> M B) d w a d1 w1 :
    m d w = (Ok a, d1, w1) -> bind m f d w = f a d1 w1.
  Proof. intro H. unfold bind. rewrite H. reflexivity. Qed.

  Lemma wfr_same_dyn r r' : flags r' = flags r -> rx_fifo r' = rx_fifo r -> WfR r -> WfR r'.
  Proof. intros F R [Hf Hq]. split; [rewrite F; exact Hf|rewrite R; exact Hq]. Qed.

  Lemma land48_of_112 x : N.land x 48 = N.land (N.land x 112) 48.
  Proof. rewrite <- N.land_assoc. reflexivity. Qed.

  Lemma bit5_of_land48 f : N.land f 48 = 0 -> N.testbit f 5 = false.
  Proof.
    intro H. assert (E : N.testbit (N.land f 48) 5 = false) by (rewrite H; reflexivity).
    rewrite N.land_spec in E. change (N.testbit 48 5) with true in E. rewrite andb_true_r in E. exact E.
  Qed.

  (* send(buf, ask_no_ack, force_retry=0, send_only=True) in TX mode with an empty TX FIFO, all other radios
     receiving / idle: the call returns, and returns True exactly when the radio's exchange succeeded (as the
     world decides it from the loss oracle and the receivers' state); the world in which the exchange takes place
     differs from the initial one only in radio me: CE high, flags cleared, exactly this payload queued. *)
  Theorem send_truth d w buf b noack k :
    Q w -> AllWf w ->
    pwr_up (get_radio w me) = true -> prim_rx (get_radio w me) = false ->
    tx_fifo (get_radio w me) = [] ->
    st_bit d 16 = false -> st_bit d 1 = false ->
    norm_payload d buf = Ok b ->
    let s := get_radio w me in
    let armed := with_ce (loaded (with_flags (with_ce s false) 0) noack b) true in
    exists d' w' wpre,
      radios wpre = set_nth_radio (radios w) me armed /\ oracle wpre = oracle w /\
      send W buf noack 0 true (S k) d w = (Ok (SBool (exchange_ok wpre me)), d', w') /\
      radios w' = radios (exchange wpre me).
  Proof.
    intros Hq Hwf Hpu Hprx Hfifo H16 H1 Hnorm s armed.
    destruct Hq as [P L].
    set (s1 := with_ce s false).
    set (w1 := set_radio w me s1).
    assert (Q1 : Q w1) by (apply Q_set; split; assumption).
    assert (G1 : get_radio w1 me = s1) by (apply get_set_radio_same; exact L).
    set (s2 := with_flags s1 0).
    set (w2 := tick (set_radio w1 me s2) SPI_COST).
    assert (Q2 : Q w2) by (apply Q_tick, Q_set; exact Q1).
    assert (G2 : get_radio w2 me = s2) by (unfold w2; rewrite get_radio_tick; apply get_set_radio_same; exact (proj2 Q1)).
    set (s3 := loaded s2 noack b).
    set (w3 := tick (set_radio w2 me s3) SPI_COST).
    assert (Q3 : Q w3) by (apply Q_tick, Q_set; exact Q2).
    assert (G3 : get_radio w3 me = s3) by (unfold w3; rewrite get_radio_tick; apply get_set_radio_same; exact (proj2 Q2)).
    set (wpre := set_radio w3 me (with_ce s3 true)).
    assert (Qp : Q wpre) by (apply Q_set; exact Q3).
    assert (Gp : get_radio wpre me = with_ce s3 true) by (apply get_set_radio_same; exact (proj2 Q3)).
    set (w4 := exchange wpre me).
    assert (Ws : WfR s) by (apply wf_get_radio; exact Hwf).
    assert (Ws1 : WfR s1) by (exact Ws).
    (* what the exchange leaves in radio me *)
    assert (Htx : tx_fifo (get_radio wpre me) = [mkTx (if noack then TxNoAck else TxNormal) (next_pid s2) b]).
    { rewrite Gp. unfold s3, loaded. cbn [tx_fifo with_ce with_pid with_fifos]. unfold s2, s1. cbn [tx_fifo with_flags with_ce].
      unfold s. rewrite Hfifo. reflexivity. }
    destruct (exchange_transmitter wpre me _ [] (proj2 Qp) Htx) as (sx & [T1 T2] & Hres & Hcv). fold w4 in Hres, Hcv.
    assert (F0 : N.land (flags sx) 48 = 0).
    { rewrite T2, Gp. reflexivity. }
    assert (C4 : can_tx (get_radio w4 me) = false).
    { rewrite can_tx_active. destruct (exchange_ok wpre me).
      - destruct Hres as [_ Hf]. rewrite Hf, T1, Htx. cbn [tl]. apply andb_false_r.
      - destruct Hres as [Hfl _]. unfold max_rt, bitb. rewrite Hfl, testbit_lor16. cbn [negb]. rewrite andb_false_r. reflexivity. }
    assert (Q4 : Q w4).
    { split; [apply (others_passive_wcfgs wpre); [apply exchange_wcfgs|exact (proj1 Qp)]|unfold w4; rewrite exchange_length; exact (proj2 Qp)]. }
    assert (W4 : WfR (get_radio w4 me)).
    { apply wf_get_radio. unfold w4. apply wf_exchange. unfold wpre. apply wf_set_radio.
      - unfold w3, AllWf. cbn [radios tick]. apply wf_set_radio.
        + unfold w2, AllWf. cbn [radios tick]. apply wf_set_radio; [apply wf_set_radio; [exact Hwf|exact Ws1]|].
          split; [split; [cbn; lia|reflexivity]|exact (proj2 Ws)].
        + split; [split; [cbn; lia|reflexivity]|exact (proj2 Ws)].
      - split; [split; [cbn; lia|reflexivity]|exact (proj2 Ws)]. }
    exists (upd_in0 (status (get_radio w4 me)) (upd_in0 (status s2) (upd_in0 (status s1) d))), (tick w4 SPI_COST), wpre.
    split.
    { unfold wpre, w3, w2, w1, set_radio, tick. cbn [radios]. rewrite !set_nth_radio_twice. reflexivity. }
    split; [reflexivity|]. split; [|reflexivity].
    unfold send.
    erewrite bind_okW by (apply step_ce_low; split; assumption). fold s s1 w1.
    erewrite bind_okW by reflexivity.
    rewrite H16, H1. cbn [orb].
    erewrite bind_okW by reflexivity.
    erewrite bind_okW by reflexivity.
    cbn [negb andb].
    erewrite bind_okW by reflexivity.
    (* write() *)
    erewrite (bind_okW (write W buf noack false)).
    2:{ unfold write. erewrite bind_okW by reflexivity. rewrite Hnorm.
        erewrite bind_okW by (apply step_clear_flags; [exact Q1|rewrite G1; reflexivity]). rewrite G1. fold s2 w2.
        erewrite bind_okW by reflexivity.
        assert (B1 : st_bit (upd_in0 (status s1) d) 1 = false).
        { unfold st_bit, upd_in0. cbn [d_in0].
          destruct (status_decode s1 Ws1) as (_ & D2 & _). rewrite D2.
          unfold tx_full, s1. cbn [tx_fifo with_ce]. unfold s. rewrite Hfifo. reflexivity. }
        rewrite B1.
        erewrite bind_okW by (apply step_load; [exact Q2|rewrite G2; reflexivity|rewrite G2; unfold tx_full, s2, s1; cbn [tx_fifo with_flags with_ce]; unfold s; rewrite Hfifo; reflexivity]).
        rewrite G2. fold s3 w3.
        erewrite bind_okW.
        2:{ apply (step_ce_high _ w3 (mkTx (if noack then TxNoAck else TxNormal) (next_pid s2) b) Q3).
            - rewrite G3. unfold active, pwr_up, prim_rx, sreg, s3, loaded, s2, s1. cbn [sregs ce with_ce with_pid with_fifos with_flags].
              unfold s. unfold pwr_up, prim_rx, sreg in Hpu, Hprx. rewrite Hpu, Hprx. reflexivity.
            - rewrite G3. reflexivity.
            - rewrite G3. unfold s3, loaded, s2, s1. cbn [tx_fifo with_pid with_fifos with_flags with_ce]. unfold s. rewrite Hfifo. reflexivity. }
        rewrite G3. fold wpre w4. reflexivity. }
    (* the polling loop: one update() *)
    assert (B48 : st_bit (upd_in0 (status s2) (upd_in0 (status s1) d)) 48 = false).
    { unfold st_bit, upd_in0. cbn [d_in0].
      assert (W2 : WfR s2) by (split; [split; [cbn; lia|reflexivity]|exact (proj2 Ws)]).
      destruct (status_decode s2 W2) as (_ & _ & D3 & _). rewrite land48_of_112, D3. reflexivity. }
    assert (A48 : st_bit (upd_in0 (status (get_radio w4 me)) (upd_in0 (status s2) (upd_in0 (status s1) d))) 48 = true).
    { unfold st_bit, upd_in0. cbn [d_in0].
      destruct (status_decode _ W4) as (_ & _ & D3 & _). rewrite land48_of_112, D3.
      destruct (exchange_ok wpre me); destruct Hres as [Hfl _]; rewrite Hfl, N.land_lor_distr_l, F0; reflexivity. }
    assert (A32 : st_bit (upd_in0 (status (get_radio w4 me)) (upd_in0 (status s2) (upd_in0 (status s1) d))) 32 = exchange_ok wpre me).
    { unfold st_bit, upd_in0. cbn [d_in0].
      destruct (status_decode _ W4) as (_ & _ & _ & _ & B5 & _). rewrite B5.
      destruct (exchange_ok wpre me); destruct Hres as [Hfl _]; rewrite Hfl, N.lor_spec.
      - change (N.testbit 32 5) with true. apply orb_true_r.
      - change (N.testbit 16 5) with false. rewrite orb_false_r. apply bit5_of_land48. exact F0. }
    erewrite (bind_okW (wait_flags W (S k))).
    2:{ cbn [wait_flags]. erewrite bind_okW by reflexivity. rewrite B48.
        erewrite bind_okW by (apply step_update_quiet; [exact Q4|exact C4]).
        destruct k; cbn [wait_flags]; (erewrite bind_okW by reflexivity); rewrite A48; reflexivity. }
    erewrite bind_okW by reflexivity.
    cbn [force_retries]. erewrite bind_okW by reflexivity.
    erewrite bind_okW by reflexivity.
    rewrite A32. destruct (exchange_ok wpre me); [rewrite andb_false_r|]; reflexivity.
  Qed.

  (* write(buf, ask_no_ack, write_only=True) with CE low (the streaming idiom: fill the TX FIFO, then raise CE):
     the call returns True exactly when the TX FIFO had room -- decided from the STATUS byte the radio shifts out
     with the flag-clearing transfer, i.e. the FIFO state of THIS moment, not a cached one -- and then exactly this
     payload has been appended to the FIFO; it returns False with the FIFO untouched otherwise.  Nothing is
     transmitted and no other radio changes. *)
  Theorem write_only_truth d w buf b noack :
    Q w -> AllWf w -> ce (get_radio w me) = false ->
    norm_payload d buf = Ok b ->
    let s := get_radio w me in
    exists d' w',
      write W buf noack true d w = (Ok (negb (tx_full s)), d', w')
      /\ get_radio w' me = (if tx_full s then with_flags s 0 else loaded (with_flags s 0) noack b)
      /\ (forall j, j <> me -> get_radio w' j = get_radio w j)
      /\ air w' = air w.
  Proof.
    intros Hq Hwf Hce Hnorm s. pose proof Hq as [P L].
    set (s2 := with_flags s 0).
    set (w2 := tick (set_radio w me s2) SPI_COST).
    assert (Q2 : Q w2) by (apply Q_tick, Q_set; exact Hq).
    assert (G2 : get_radio w2 me = s2) by (unfold w2; rewrite get_radio_tick; apply get_set_radio_same; exact L).
    assert (Hwf_s : WfR s) by (unfold s, get_radio; apply Forall_nth; [exact Hwf|exact L]).
    destruct (status_decode s Hwf_s) as (_&_&_&_&_&_&Hbit).
    unfold write. unfold bind at 1. unfold get at 1. rewrite Hnorm.
    erewrite bind_okW; [|apply step_clear_flags; [exact Hq|exact Hce]]. fold s. fold s2. fold w2.
    unfold bind at 1. unfold get at 1.
    assert (Hst : st_bit (upd_in0 (status s) d) 1 = tx_full s).
    { unfold st_bit. cbn [d_in0 upd_in0]. exact Hbit. }
    rewrite Hst.
    destruct (tx_full s) eqn:Ef.
    - (* full: refused, nothing written *)
      exists (upd_in0 (status s) d), w2. split; [reflexivity|]. split; [exact G2|]. split.
      + intros j Hj. unfold w2. rewrite get_radio_tick. apply get_set_radio_other. intro X; apply Hj; symmetry; exact X.
      + reflexivity.
    - assert (Hce2 : ce (get_radio w2 me) = false) by (rewrite G2; exact Hce).
      assert (Hf2 : tx_full (get_radio w2 me) = false) by (rewrite G2; exact Ef).
      erewrite bind_okW; [|apply step_load; [exact Q2|exact Hce2|exact Hf2]].
      rewrite G2. cbn [negb].
      eexists _, _. split; [reflexivity|]. split.
      + rewrite get_radio_tick. apply get_set_radio_same. exact (proj2 Q2).
      + split.
        * intros j Hj. assert (Hj' : me <> j) by (intro X; apply Hj; symmetry; exact X).
          rewrite get_radio_tick, get_set_radio_other by exact Hj'.
          unfold w2. rewrite get_radio_tick. apply get_set_radio_other. exact Hj'.
        * reflexivity.
  Qed.

End OnRadio.

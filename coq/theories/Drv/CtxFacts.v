(* CtxFacts.v -- the context manager at configuration level (property C09):
   __exit__ always powers the radio down with CE low; __enter__ programs EVERY
   configuration register from the object's own cached attributes, whatever state the
   radio was left in by other objects. *)
From Coq Require Import ZArith NArith Arith List Bool Lia.
From NRF Require Import Base.Sweep Env.Radio Env.RadioFacts Env.World Env.WorldFacts Env.CfgFacts
     Drv.RF24 Drv.RF24Sim Drv.RF24SimOps Drv.CfgEval.
Import ListNotations.
Local Open Scope Z_scope.

Lemma land125_range x : 0 <= Z.land x 125 <= 255.
Proof.
  pose proof (land_sweep (fun v => (0 <=? v) && (v <=? 255)) 125 ltac:(lia) ltac:(vm_compute; reflexivity) x) as H.
  apply andb_true_iff in H. destruct H as [H1 H2]. apply Z.leb_le in H1. apply Z.leb_le in H2. lia.
Qed.

(* bit 1 (PWR_UP) of CONFIG after writing a value masked with 0x7D is clear *)
Lemma pwr_bit_clear x : N.testbit (N.land (Z.to_N (Z.land x 125)) 127) 1 = false.
Proof.
  apply negb_true_iff.
  exact (land_sweep (fun v => negb (N.testbit (N.land (Z.to_N v) 127) 1)) 125 ltac:(lia)
                    ltac:(vm_compute; reflexivity) x).
Qed.

Theorem exit_c d c : WfC c ->
  exists d' c', exit CB d c = (Ok tt, d', c')
    /\ c_ce c' = false
    /\ N.testbit (creg c' 0) 1 = false
    /\ d_config d' = Z.land (d_config d) 125
    /\ (forall a, a <> 0%N -> creg c' a = creg c a)
    /\ c_p0 c' = c_p0 c /\ c_p1 c' = c_p1 c /\ c_tx c' = c_tx c /\ WfC c'.
Proof.
  intros Hw. unfold exit.
  mstep ltac:(idtac). mstep ltac:(idtac). mstep ltac:(idtac).
  erewrite bind_ok; [|apply reg_write_c; [lia|apply land125_range]]. cbv beta.
  unfold sleep. cbn [b_ce b_sleep CB].
  eexists _, _. split; [reflexivity|].
  unfold cwrite. cbn [Z.to_N]. change (0 =? R_RX_ADDR_P0)%N with false.
  change (0 =? R_RX_ADDR_P1)%N with false. change (0 =? R_TX_ADDR)%N with false.
  change (0 =? R_STATUS)%N with false. change (0 =? R_DYNPD)%N with false.
  change (0 =? R_FEATURE)%N with false. change (0 =? R_RF_CH)%N with false.
  cbn [orb andb]. change (wmask 0) with 127%N. change (127 =? 0)%N with false. cbv iota.
  destruct Hw as (H1&H2&H3&H4&H5).
  repeat split; try reflexivity; try assumption.
  - rewrite creg_cset_same by (cbn; lia). apply pwr_bit_clear.
  - intros a Ha. rewrite creg_cset_other by congruence. reflexivity.
  - cbn. rewrite set_nth_length. exact H1.
Qed.

(* ---- __enter__ ---- *)
(* the cached attributes are byte-sized (they always are: every setter stores clamped or
   masked values, see the per-setter lemmas) *)
Definition byte_z (v : Z) : Prop := 0 <= v <= 255.
Definition DrvOk (d : drv) : Prop :=
  byte_z (d_config d) /\ byte_z (d_rf_setup d) /\ byte_z (d_open_pipes d) /\ byte_z (d_dyn_pl d)
  /\ byte_z (d_aa d) /\ byte_z (d_features d) /\ byte_z (d_retry_setup d) /\ byte_z (d_channel d)
  /\ byte_z (d_addr_len d - 2)
  /\ length (d_pl_len d) = 6%nat
  /\ length (d_pipe0 d) = 5%nat /\ length (d_pipe1 d) = 5%nat /\ length (d_tx_address d) = 5%nat
  /\ length (d_pipes25 d) = 4%nat /\ Forall byte_z (d_pipes25 d).

Definition clamp_pl (v : Z) : Z := Z.max 1 (Z.min 32 v).

Lemma clamp_pl_byte v : 0 <= clamp_pl v <= 255.
Proof. unfold clamp_pl. lia. Qed.

Lemma lor2_byte v : byte_z v -> 0 <= Z.lor v 2 <= 255.
Proof.
  intros H. apply range_of_bool.
  exact (sweep_byte (fun v => (0 <=? Z.lor v 2) && (Z.lor v 2 <=? 255)) ltac:(vm_compute; reflexivity) v H).
Qed.

(* what __enter__ leaves in the radio: a function of the object's attributes only *)
Definition enter_regs (d : drv) : list (N * N) :=
  [ (0%N, N.land (Z.to_N (Z.lor (d_config d) 2)) 127);
    (6%N, N.land (Z.to_N (d_rf_setup d)) 191);
    (2%N, N.land (Z.to_N (d_open_pipes d)) 63);
    (28%N, N.land (Z.to_N (d_dyn_pl d)) 63);
    (1%N, N.land (Z.to_N (d_aa d)) 63);
    (29%N, N.land (Z.to_N (d_features d)) 7);
    (4%N, N.land (Z.to_N (d_retry_setup d)) 255);
    (12%N, N.land (Z.to_N (nth 0 (d_pipes25 d) 0)) 255);
    (13%N, N.land (Z.to_N (nth 1 (d_pipes25 d) 0)) 255);
    (14%N, N.land (Z.to_N (nth 2 (d_pipes25 d) 0)) 255);
    (15%N, N.land (Z.to_N (nth 3 (d_pipes25 d) 0)) 255);
    (17%N, N.land (Z.to_N (clamp_pl (nth 0 (d_pl_len d) 0))) 63);
    (18%N, N.land (Z.to_N (clamp_pl (nth 1 (d_pl_len d) 0))) 63);
    (19%N, N.land (Z.to_N (clamp_pl (nth 2 (d_pl_len d) 0))) 63);
    (20%N, N.land (Z.to_N (clamp_pl (nth 3 (d_pl_len d) 0))) 63);
    (21%N, N.land (Z.to_N (clamp_pl (nth 4 (d_pl_len d) 0))) 63);
    (22%N, N.land (Z.to_N (clamp_pl (nth 5 (d_pl_len d) 0))) 63);
    (5%N, N.land (Z.to_N (d_channel d)) 127);
    (3%N, N.land (Z.to_N (d_addr_len d - 2)) 3) ].

Tactic Notation "list_cases" ident(l) integer(n) :=
  do n (destruct l as [|? l]; [discriminate|]); destruct l; [|discriminate].

Ltac side := first [lia | apply lor2_byte; assumption | apply clamp_pl_byte
                    | match goal with H : byte_z ?v |- _ <= ?v <= _ => exact H end ].

Local Opaque bind reg_write reg_write_bytes reg_read command xfer Z.max Z.min Z.lor Z.land N.land.

Theorem enter_c d c : WfC c -> DrvOk d ->
  exists d' c', enter CB d c = (Ok tt, d', c')
    /\ Forall (fun av => creg c' (fst av) = snd av) (enter_regs d)
    /\ c_p0 c' = d_pipe0 d /\ c_p1 c' = d_pipe1 d /\ c_tx c' = d_tx_address d
    /\ c_ce c' = false /\ WfC c'
    /\ d_config d' = Z.lor (d_config d) 2
    /\ d_pl_len d' = map clamp_pl (d_pl_len d)
    /\ DrvOk d'.
Proof.
  intros (W1&W2&W3&W4&W5) (D1&D2&D3&D4&D5&D6&D7&D8&D9&D10&D11&D12&D13&D14&D15).
  destruct c as [sregs p0 p1 tx ce act plus]. cbn in W1, W2, W3, W4, W5. subst act.
  destruct d as [i0 cf rf op dp aa ft rt ch al pl q0 q1 p25 ta p0r ip].
  cbn [d_config d_rf_setup d_open_pipes d_dyn_pl d_aa d_features d_retry_setup d_channel d_addr_len
       d_pl_len d_pipe0 d_pipe1 d_pipes25 d_tx_address] in *.
  list_cases pl 6. list_cases p25 4.
  inversion D15 as [|? ? B0 T0]; subst. inversion T0 as [|? ? B1 T1]; subst.
  inversion T1 as [|? ? B2 T2]; subst. inversion T2 as [|? ? B3 T3]; subst.
  unfold enter.
  mstep side. mstep side. mstep side.
  mstep side. mstep side. mstep side. mstep side. mstep side. mstep side. mstep side.
  cbn [enter_pl]. unfold set_payload_length.
  repeat (first [ mstep side | progress cbn ]).
  rewrite reg_write_c by side.
  eexists _, _. split; [reflexivity|].
  list_cases sregs 30. list_cases p0 5. list_cases p1 5. list_cases tx 5.
  list_cases q0 5. list_cases q1 5. list_cases ta 5.
  split; [repeat constructor; vm_compute; reflexivity|].
  split; [reflexivity|]. split; [reflexivity|]. split; [reflexivity|]. split; [reflexivity|].
  split; [repeat split; reflexivity|]. split; [reflexivity|]. split; [reflexivity|].
  unfold DrvOk. cbn.
  repeat split; try assumption; try (apply lor2_byte; assumption); try reflexivity;
    try (unfold byte_z in *; lia).
Qed.

(* ---- transfer to worlds ---- *)
Local Transparent bind.

Lemma sim_run {A} me (m : M (bus := world) A) m' d w :
  sim me m m' -> (me < length (radios w))%nat ->
  forall r' d1' c1, m' d (cview (get_radio w me)) = (r', d1', c1) ->
  exists d1 w1, m d w = (r', d1, w1) /\ deq d1 d1' /\ cview (get_radio w1 me) = c1
    /\ (forall j, j <> me -> cview (get_radio w1 j) = cview (get_radio w j))
    /\ (me < length (radios w1))%nat.
Proof.
  intros Hs Hme r' d1' c1 Hc.
  specialize (Hs d d w (cview (get_radio w me)) (deq_refl d) (conj Hme eq_refl)).
  rewrite Hc in Hs. destruct (m d w) as [[r d1] w1].
  destruct Hs as [Hres [Hd [[Hme1 Hcv] [Hfr _]]]].
  exists d1, w1. repeat split; try assumption.
  destruct r as [a|e], r' as [a'|e']; try contradiction; congruence.
Qed.

Theorem exit_world me d w :
  (me < length (radios w))%nat -> WfC (cview (get_radio w me)) ->
  exists d1 w1, exit (WB me) d w = (Ok tt, d1, w1)
    /\ c_ce (cview (get_radio w1 me)) = false
    /\ N.testbit (creg (cview (get_radio w1 me)) 0) 1 = false
    /\ (forall a, a <> 0%N -> creg (cview (get_radio w1 me)) a = creg (cview (get_radio w me)) a)
    /\ c_p0 (cview (get_radio w1 me)) = c_p0 (cview (get_radio w me))
    /\ c_p1 (cview (get_radio w1 me)) = c_p1 (cview (get_radio w me))
    /\ c_tx (cview (get_radio w1 me)) = c_tx (cview (get_radio w me))
    /\ (forall j, j <> me -> cview (get_radio w1 j) = cview (get_radio w j)).
Proof.
  intros Hme Hw.
  destruct (exit_c d _ Hw) as [d' [c' [He [H1 [H2 [H3 [H4 [H5 [H6 [H7 H8]]]]]]]]]].
  destruct (sim_run me _ _ d w (sim_exit me) Hme _ _ _ He) as [d1 [w1 [E [Hd [Hc [Hf _]]]]]].
  exists d1, w1. rewrite Hc. repeat split; assumption.
Qed.

Theorem enter_world me d w :
  (me < length (radios w))%nat -> WfC (cview (get_radio w me)) -> DrvOk d ->
  exists d1 w1, enter (WB me) d w = (Ok tt, d1, w1)
    /\ Forall (fun av => creg (cview (get_radio w1 me)) (fst av) = snd av) (enter_regs d)
    /\ c_p0 (cview (get_radio w1 me)) = d_pipe0 d
    /\ c_p1 (cview (get_radio w1 me)) = d_pipe1 d
    /\ c_tx (cview (get_radio w1 me)) = d_tx_address d
    /\ c_ce (cview (get_radio w1 me)) = false
    /\ d_config d1 = Z.lor (d_config d) 2
    /\ d_pl_len d1 = map clamp_pl (d_pl_len d)
    /\ DrvOk d1
    /\ (forall j, j <> me -> cview (get_radio w1 j) = cview (get_radio w j)).
Proof.
  intros Hme Hw Hd.
  destruct (enter_c d _ Hw Hd) as [d' [c' [He [H1 [H2 [H3 [H4 [H5 [H6 [H7 [H8 H9]]]]]]]]]]].
  destruct (sim_run me _ _ d w (sim_enter me) Hme _ _ _ He) as [d1 [w1 [E [Hq [Hc [Hf _]]]]]].
  exists d1, w1. rewrite Hc.
  apply deq_fields in Hq. destruct Hq as (Q1&Q2&Q3&Q4&Q5&Q6&Q7&Q8&Q9&Q10&Q11&Q12&Q13&Q14&Q15&Q16).
  assert (Hok : DrvOk d1).
  { destruct H9 as (D1&D2&D3&D4&D5&D6&D7&D8&D9&D10&D11&D12&D13&D14&D15).
    unfold DrvOk. rewrite Q1, Q2, Q3, Q4, Q5, Q6, Q7, Q8, Q9, Q10, Q11, Q12, Q13, Q14.
    exact (conj D1 (conj D2 (conj D3 (conj D4 (conj D5 (conj D6 (conj D7 (conj D8 (conj D9 (conj D10
          (conj D11 (conj D12 (conj D13 (conj D14 D15)))))))))))))). }
  split; [exact E|]. split; [exact H1|]. split; [exact H2|]. split; [exact H3|]. split; [exact H4|].
  split; [exact H5|]. split; [congruence|]. split; [congruence|]. split; [exact Hok|exact Hf].
Qed.

Theorem enter_independent me d w w' :
  (me < length (radios w))%nat -> WfC (cview (get_radio w me)) ->
  (me < length (radios w'))%nat -> WfC (cview (get_radio w' me)) -> DrvOk d ->
  let w1 := snd (enter (WB me) d w) in
  let w1' := snd (enter (WB me) d w') in
  Forall (fun av => creg (cview (get_radio w1 me)) (fst av) = creg (cview (get_radio w1' me)) (fst av)) (enter_regs d)
  /\ c_p0 (cview (get_radio w1 me)) = c_p0 (cview (get_radio w1' me))
  /\ c_p1 (cview (get_radio w1 me)) = c_p1 (cview (get_radio w1' me))
  /\ c_tx (cview (get_radio w1 me)) = c_tx (cview (get_radio w1' me))
  /\ c_ce (cview (get_radio w1 me)) = c_ce (cview (get_radio w1' me)).
Proof.
  intros Hme Hw Hme' Hw' Hd w1 w1'.
  destruct (enter_world me d w Hme Hw Hd) as [d1 [x1 [E [H1 [H2 [H3 [H4 [H5 _]]]]]]]].
  destruct (enter_world me d w' Hme' Hw' Hd) as [d1' [x1' [E' [H1' [H2' [H3' [H4' [H5' _]]]]]]]].
  unfold w1, w1'. rewrite E, E'. cbn [snd].
  repeat split; try congruence.
  rewrite Forall_forall in *. intros av Hav. rewrite (H1 av Hav), (H1' av Hav). reflexivity.
Qed.

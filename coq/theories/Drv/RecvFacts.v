(* RecvFacts.v -- read() on the receiving side returns the payload at the head of the radio's RX FIFO and removes
   it (C01, receiver side), for a receiver in a world where no other radio can transmit while it reads. *)
From Coq Require Import ZArith NArith List Bool Lia.
From NRF Require Import Base.Sweep Env.Radio Env.World Env.RadioFacts Env.WorldFacts Env.WfFacts Env.QuietFacts
     Drv.RF24 Drv.RF24Sim Drv.AccessFacts Drv.SendFacts.
Import ListNotations.
Local Open Scope N_scope.

Lemma pad_exact (l : list N) : pad (length l) l = l.
Proof. unfold pad. rewrite firstn_app, Nat.sub_diag, firstn_all. cbn [firstn]. apply app_nil_r. Qed.

Section OnRadio.
  Variable me : nat.
  Notation W := (WB me).

  Lemma can_tx_prx r : prim_rx r = true -> can_tx r = false.
  Proof. intro H. rewrite can_tx_active. unfold active. rewrite H. cbn [negb]. rewrite andb_false_r. reflexivity. Qed.

  (* read(): with a payload (p, data) of 1..32 bytes at the head of the RX FIFO -- its length known to the driver
     either through dynamic payloads (R_RX_PL_WID) or through the cached static length of pipe p -- the call returns
     exactly `data`, the FIFO loses exactly that entry, and RX_DR is cleared *)
  Theorem read_head d w p data rest :
    Q me w -> WfR (get_radio w me) -> prim_rx (get_radio w me) = true ->
    rx_fifo (get_radio w me) = (p, data) :: rest -> (1 <= length data <= 32)%nat ->
    (truthy (Z.land (d_features d) 4) = true \/ pl_len_at d (N.to_nat p) = Z.of_nat (length data)) ->
    exists d' w', read W None d w = (Ok (Some data), d', w')
      /\ rx_fifo (get_radio w' me) = rest
      /\ tx_fifo (get_radio w' me) = tx_fifo (get_radio w me)
      /\ N.testbit (flags (get_radio w' me)) 6 = false.
  Proof.
    intros Hq Wf Hprx Hrx Hlen Hmode. set (r := get_radio w me) in *.
    assert (Hp : p < 6). { destruct Wf as [_ Hf]. rewrite Hrx in Hf. inversion Hf; assumption. }
    (* any(): reg_read 96 *)
    assert (E96 : spi r [96; 0] = (r, [status r; N.of_nat (length data)])).
    { unfold spi. change (96 <? 32) with false. change (96 <? 64) with false. change (96 =? 80) with false.
      change (96 =? 96) with true. cbv iota. rewrite Hrx. reflexivity. }
    destruct Hq as [P L].
    assert (S1 : reg_read W 96 d w = (Ok (Z.of_nat (length data)), upd_in0 (status r) d, tick w SPI_COST)).
    { unfold reg_read. rewrite (@as_byte_ok world) by lia. unfold bind, ret, xfer. cbn [b_spi WB]. change (Z.to_N 96) with 96.
      rewrite w_spi_quiet; [|exact P|exact L|fold r; rewrite E96; apply can_tx_prx; exact Hprx].
      fold r. rewrite E96. cbn [fst snd hd nth]. rewrite nat_N_Z.
      f_equal. f_equal. unfold set_radio, tick, r, get_radio. cbn [radios oracle air clock].
      rewrite set_nth_radio_id by exact L. destruct w; reflexivity. }
    set (d1 := upd_in0 (status r) d). set (w1 := tick w SPI_COST).
    assert (Q1 : Q me w1) by (apply Q_tick; split; assumption).
    assert (G1 : get_radio w1 me = r) by reflexivity.
    assert (Hpipe : st_pipe d1 = p).
    { unfold st_pipe, d1, upd_in0. cbn [d_in0]. rewrite (proj1 (status_decode r Wf)). unfold rx_p_no. rewrite Hrx. reflexivity. }
    assert (Sany : any W d w = (Ok (Z.of_nat (length data)), d1, w1)).
    { unfold any. erewrite bind_okW by exact S1. erewrite bind_okW by reflexivity. fold d1. rewrite Hpipe.
      replace (p <? 6) with true by (symmetry; apply N.ltb_lt; exact Hp).
      assert (Ef : d_features d1 = d_features d) by reflexivity. rewrite Ef.
      destruct Hmode as [Hdyn|Hst]; [rewrite Hdyn; reflexivity|].
      destruct (truthy (Z.land (d_features d) 4)); [reflexivity|].
      unfold pl_len_at in *. assert (El : d_pl_len d1 = d_pl_len d) by reflexivity. rewrite El, Hst. reflexivity. }
    (* reg_read_bytes 97 n *)
    set (n := length data).
    set (r2 := with_fifos r rest (tx_fifo r)).
    assert (E97 : spi r (97 :: repeat 0 n) = (r2, status r :: data)).
    { unfold spi. change (97 <? 32) with false. change (97 <? 64) with false. change (97 =? 80) with false.
      change (97 =? 96) with false. change (97 =? 97) with true. cbv iota. rewrite Hrx.
      rewrite repeat_length. unfold n. rewrite pad_exact. reflexivity. }
    assert (S2 : reg_read_bytes W 97 n d1 w1 = (Ok data, upd_in0 (status r) d1, tick (set_radio w1 me r2) SPI_COST)).
    { unfold reg_read_bytes. rewrite (@as_byte_ok world) by lia. unfold bind, ret, xfer. cbn [b_spi WB]. change (Z.to_N 97) with 97.
      rewrite w_spi_quiet; [|exact (proj1 Q1)|exact (proj2 Q1)|rewrite G1, E97; apply can_tx_prx; exact Hprx].
      rewrite G1, E97. reflexivity. }
    set (d2 := upd_in0 (status r) d1). set (w2 := tick (set_radio w1 me r2) SPI_COST).
    assert (Q2 : Q me w2) by (apply Q_tick, Q_set; exact Q1).
    assert (G2 : get_radio w2 me = r2) by (unfold w2; rewrite get_radio_tick; apply get_set_radio_same; exact (proj2 Q1)).
    (* clear_status_flags(True, False, False) *)
    set (r3 := with_flags r2 (N.land (flags r2) 48)).
    assert (E7 : spi r2 [39; 64] = (r3, [status r2; 0])).
    { unfold spi. change (39 <? 32) with false. change (39 <? 64) with true. cbv iota.
      change (39 - 32) with 7. unfold write_reg.
      change (7 =? R_RX_ADDR_P0) with false. change (7 =? R_RX_ADDR_P1) with false. change (7 =? R_TX_ADDR) with false.
      change (7 =? R_STATUS) with true. cbv iota. reflexivity. }
    assert (S3 : clear_status_flags W true false false d2 w2 = (Ok tt, upd_in0 (status r2) d2, tick (set_radio w2 me r3) SPI_COST)).
    { unfold clear_status_flags, reg_write.
      change (Z.lor (Z.lor (Z.shiftl (zb true) 6) (Z.shiftl (zb false) 5)) (Z.shiftl (zb false) 4)) with 64%Z.
      change (7 =? 80)%Z with false. cbv iota. change (Z.lor 32 7) with 39%Z.
      rewrite !(@as_byte_ok world) by lia. unfold bind, ret, xfer. cbn [b_spi WB].
      change (Z.to_N 39) with 39. change (Z.to_N 64) with 64.
      rewrite w_spi_quiet; [|exact (proj1 Q2)|exact (proj2 Q2)|rewrite G2, E7; apply can_tx_prx; exact Hprx].
      rewrite G2, E7. reflexivity. }
    exists (upd_in0 (status r2) d2), (tick (set_radio w2 me r3) SPI_COST).
    split.
    - unfold read. erewrite bind_okW by exact Sany.
      replace (Z.of_nat (length data) =? 0)%Z with false by (symmetry; apply Z.eqb_neq; lia).
      replace ((0 <? Z.of_nat (length data))%Z && (Z.of_nat (length data) <=? 96)%Z) with true by lia.
      rewrite Nat2Z.id. fold n.
      erewrite bind_okW by exact S2. erewrite bind_okW by exact S3. reflexivity.
    - rewrite get_radio_tick, get_set_radio_same by exact (proj2 Q2).
      unfold r3, r2. cbn [rx_fifo tx_fifo flags with_flags with_fifos]. repeat split.
      rewrite N.land_spec. change (N.testbit 48 6) with false. apply andb_false_r.
  Qed.
End OnRadio.

(* AccessFacts.v -- the status/FIFO accessors of the driver model (Drv/RF24.v) report the state of the
   radio they talk to: what one SPI transfer returns is a function of the radio as it was before the
   transfer (WorldFacts.w_spi_reply), and STATUS / FIFO_STATUS decode to FIFO occupancy, the pipe of
   the next payload and the latched interrupt flags. *)
From Coq Require Import ZArith NArith List Bool Lia.
From NRF Require Import Base.Sweep Env.Radio Env.World Env.RadioFacts Env.WorldFacts Env.WfFacts Drv.RF24.
Import ListNotations.
Local Open Scope N_scope.

Definition st_ok (f p t : N) : bool :=
  negb (N.land f 15 =? 0) ||
  (let st := N.lor f (N.lor (N.shiftl p 1) t) in
   (N.land (N.shiftr st 1) 7 =? p) && (N.land st 1 =? t) && (N.land st 112 =? f)
   && Bool.eqb (negb (N.land st 64 =? 0)) (N.testbit f 6) && Bool.eqb (negb (N.land st 32 =? 0)) (N.testbit f 5)
   && Bool.eqb (negb (N.land st 16 =? 0)) (N.testbit f 4) && Bool.eqb (negb (N.land st 1 =? 0)) (t =? 1)).

Lemma st_sweep : forallb (fun f => forallb (fun p => forallb (st_ok f p) [0; 1]) (map N.of_nat (seq 0 8)))
                         (map N.of_nat (seq 0 128)) = true.
Proof. vm_compute. reflexivity. Qed.

Lemma rx_p_no_le r : WfR r -> rx_p_no r < 8.
Proof.
  intros (_ & H). unfold rx_p_no. destruct (rx_fifo r) as [|[p x] t]; [lia|].
  inversion H as [|? ? Hp _]; subst. cbn [fst] in Hp. lia.
Qed.

(* STATUS decodes: RX_P_NO field, TX_FULL bit, the three flags *)
Lemma status_decode r : WfR r ->
  N.land (N.shiftr (status r) 1) 7 = rx_p_no r /\
  N.land (status r) 1 = (if tx_full r then 1 else 0) /\
  N.land (status r) 112 = flags r /\
  negb (N.land (status r) 64 =? 0) = N.testbit (flags r) 6 /\
  negb (N.land (status r) 32 =? 0) = N.testbit (flags r) 5 /\
  negb (N.land (status r) 16 =? 0) = N.testbit (flags r) 4 /\
  negb (N.land (status r) 1 =? 0) = tx_full r.
Proof.
  intro W. pose proof (rx_p_no_le r W) as Hp. destruct W as ((Hf & Hl) & _).
  unfold status.
  pose proof (sweepN _ 128 st_sweep (flags r)) as S. cbv beta in S.
  assert (H1 : flags r < N.of_nat 128) by (change (N.of_nat 128) with 128; exact Hf).
  specialize (S H1). pose proof (sweepN _ 8 S (rx_p_no r)) as T. cbv beta in T.
  assert (H2 : rx_p_no r < N.of_nat 8) by (change (N.of_nat 8) with 8; exact Hp).
  specialize (T H2). rewrite forallb_forall in T.
  specialize (T (if tx_full r then 1 else 0)).
  assert (Hin : In (if tx_full r then 1 else 0) [0; 1]) by (destruct (tx_full r); cbn; auto).
  specialize (T Hin). unfold st_ok in T. rewrite Hl in T. cbn [N.eqb negb orb] in T.
  repeat (apply andb_prop in T; destruct T as [T ?]).
  repeat match goal with H : Bool.eqb _ _ = true |- _ => apply Bool.eqb_prop in H end.
  repeat match goal with H : (_ =? _) = true |- _ => apply N.eqb_eq in H end.
  repeat split; try assumption.
  match goal with H : negb _ = ((if tx_full r then 1 else 0) =? 1) |- _ => rewrite H end.
  destruct (tx_full r); reflexivity.
Qed.

Lemma rx_p_no_lt6 r : WfR r -> (rx_p_no r <? 6) = negb (match rx_fifo r with [] => true | _ => false end).
Proof.
  intros (_ & H). unfold rx_p_no. destruct (rx_fifo r) as [|[p x] t]; [reflexivity|].
  inversion H as [|? ? Hp _]; subst. cbn [fst] in Hp. apply N.ltb_lt. exact Hp.
Qed.

Section OnRadio.
  Variable me : nat.

  (* update(): the cached STATUS is the radio's STATUS as it was when the call was made *)
  Lemma update_spec d w :
    exists d' w', update (WB me) d w = (Ok true, d', w') /\ d_in0 d' = status (get_radio w me).
  Proof.
    unfold update, command, bind, as_byte.
    change ((0 <=? 255)%Z && (255 <=? 255)%Z) with true. cbv iota. unfold ret, xfer. cbn [b_spi WB].
    match goal with |- context [w_spi ?a ?b ?c] => destruct (w_spi a b c) as [w' miso] eqn:E;
      pose proof (w_spi_reply a b c) as R end.
    eexists. eexists. split; [reflexivity|]. cbn [d_in0].
    rewrite E in R. cbn [snd] in R. rewrite R. apply spi_status_first.
  Qed.

  (* available() is True exactly when the radio's RX FIFO holds a payload *)
  Theorem available_spec d w : WfR (get_radio w me) ->
    exists d' w', available (WB me) d w = (Ok (negb (match rx_fifo (get_radio w me) with [] => true | _ => false end)), d', w').
  Proof.
    intro W. unfold available. destruct (update_spec d w) as (d' & w' & E & S).
    unfold bind at 1. rewrite E. unfold bind, get, ret. eexists. eexists.
    f_equal. f_equal. f_equal. unfold st_pipe. rewrite S.
    rewrite (proj1 (status_decode _ W)). apply rx_p_no_lt6. exact W.
  Qed.

  (* after update(), .pipe is the pipe of the payload at the head of the RX FIFO (None when empty),
     .tx_full tells whether the TX FIFO holds 3 entries, and irq_dr/irq_ds/irq_df are the latched flags *)
  Theorem status_attributes d w : WfR (get_radio w me) ->
    exists d' w', update (WB me) d w = (Ok true, d', w') /\
      fst (fst (pipe_attr (bus := world) d' w')) = Ok (match rx_fifo (get_radio w me) with [] => None | (p, _) :: _ => Some p end) /\
      fst (fst (tx_full_attr (bus := world) d' w')) = Ok (tx_full (get_radio w me)) /\
      fst (fst (irq_dr (bus := world) d' w')) = Ok (N.testbit (flags (get_radio w me)) 6) /\
      fst (fst (irq_ds (bus := world) d' w')) = Ok (N.testbit (flags (get_radio w me)) 5) /\
      fst (fst (irq_df (bus := world) d' w')) = Ok (N.testbit (flags (get_radio w me)) 4).
  Proof.
    intro W. destruct (update_spec d w) as (d' & w' & E & S). exists d', w'. split; [exact E|].
    destruct (status_decode _ W) as (D1 & D2 & D3 & B6 & B5 & B4 & B0).
    unfold pipe_attr, tx_full_attr, irq_dr, irq_ds, irq_df, bind, get, ret, st_pipe, st_bit. cbn [fst]. rewrite S.
    rewrite B6, B5, B4, B0, D1. repeat split.
    pose proof (rx_p_no_lt6 _ W) as L. unfold rx_p_no in *.
    destruct (rx_fifo (get_radio w me)) as [|[p x] t]; [reflexivity|].
    cbn [negb] in L. apply N.ltb_lt in L. replace (p <=? 5) with true by (symmetry; apply N.leb_le; lia). reflexivity.
  Qed.
  (* fifo(): FIFO_STATUS of the radio as it was when the call was made, decoded per the three call forms *)
  Definition occ (n : nat) : Z := (if 3 <=? N.of_nat n then 2 else 0) + (match n with O => 1 | _ => 0 end).

  Lemma reg_read_fifo_status d w :
    exists d' w', reg_read (WB me) 23 d w = (Ok (Z.of_N (fifo_status (get_radio w me))), d', w').
  Proof.
    unfold reg_read, bind, as_byte.
    change ((0 <=? 23)%Z && (23 <=? 255)%Z) with true. cbv iota. unfold ret, xfer. cbn [b_spi WB].
    match goal with |- context [w_spi ?a ?b ?c] => destruct (w_spi a b c) as [w' miso] eqn:E;
      pose proof (w_spi_reply a b c) as R end.
    eexists. eexists. f_equal. f_equal. f_equal. f_equal.
    rewrite E in R. cbn [snd] in R. rewrite R. reflexivity.
  Qed.

  Theorem fifo_spec d w about_tx :
    exists d' w', fifo (WB me) about_tx None d w =
      (Ok (occ (if about_tx then length (tx_fifo (get_radio w me)) else length (rx_fifo (get_radio w me)))), d', w').
  Proof.
    unfold fifo. destruct (reg_read_fifo_status d w) as (d' & w' & E).
    unfold bind. rewrite E. unfold ret. eexists. eexists. f_equal. f_equal. f_equal.
    unfold fifo_status, tx_full, occ.
    destruct about_tx; cbn [zb Z.mul];
      destruct (rx_fifo (get_radio w me)) as [|a [|b [|c t]]]; cbn [length];
        destruct (tx_fifo (get_radio w me)) as [|a' [|b' [|c' t']]]; cbn [length]; try reflexivity;
        repeat match goal with |- context [3 <=? N.of_nat (S (S (S (length ?l))))] =>
                 replace (3 <=? N.of_nat (S (S (S (length l))))) with true by (symmetry; apply N.leb_le; lia) end;
        reflexivity.
  Qed.
End OnRadio.

(* RF24SimOps.v -- every configuration method of the driver, run on radio `me` of any
   world, simulates its configuration-level run (see RF24Sim.v). *)
From Coq Require Import ZArith NArith Arith List Bool Lia.
From NRF Require Import Env.Radio Env.RadioFacts Env.World Env.WorldFacts Env.CfgFacts Drv.RF24 Drv.RF24Sim.
Import ListNotations.
Local Open Scope Z_scope.

Ltac destruct_deq d d' H :=
  destruct d as [?i0 ?cfg ?rf ?op ?dp ?aa ?ft ?rt ?ch ?al ?pl ?p0 ?p1 ?p25 ?ta ?p0r ?ip];
  destruct d' as [?i0 ?cfg ?rf ?op ?dp ?aa ?ft ?rt ?ch ?al ?pl ?p0 ?p1 ?p25 ?ta ?p0r ?ip];
  apply deq_fields in H;
  cbn [d_config d_rf_setup d_open_pipes d_dyn_pl d_aa d_features d_retry_setup d_channel d_addr_len
       d_pl_len d_pipe0 d_pipe1 d_pipes25 d_tx_address d_pipe0_read_addr d_is_plus] in H;
  destruct H as (?&?&?&?&?&?&?&?&?&?&?&?&?&?&?&?); subst.

Ltac proj_simpl :=
  cbn [d_in0 d_config d_rf_setup d_open_pipes d_dyn_pl d_aa d_features d_retry_setup d_channel d_addr_len
       d_pl_len d_pipe0 d_pipe1 d_pipes25 d_tx_address d_pipe0_read_addr d_is_plus pl_len_at].

Ltac deq_solve :=
  let d := fresh "d" in let d' := fresh "d'" in let H := fresh "H" in
  intros d d' H; apply deq_fields in H;
  destruct H as (?H1&?H2&?H3&?H4&?H5&?H6&?H7&?H8&?H9&?H10&?H11&?H12&?H13&?H14&?H15&?H16);
  unfold deq, upd_in0, upd_config, upd_rf_setup, upd_open_pipes, upd_dyn_pl, upd_aa, upd_features, upd_retry,
         upd_channel, upd_addr_len, upd_pl_len, upd_pipe0, upd_pipe1, upd_pipes25, upd_tx_address, upd_p0read,
         upd_is_plus;
  proj_simpl;
  repeat match goal with
         | E : _ ?x = _ ?y |- _ => rewrite E; clear E
         end;
  reflexivity.

Ltac cfgreg := split; [lia|reflexivity].

Create HintDb simdb.

Ltac sim_go me :=
  repeat
    match goal with
    | |- sim _ (ret _) _ => apply (sim_ret me)
    | |- sim _ (raise _) _ => apply (sim_raise me)
    | |- sim _ (as_byte _) _ => apply (sim_as_byte me)
    | |- sim _ (set_ce _ _) _ => apply (sim_set_ce me)
    | |- sim _ (put _) _ => apply (sim_put me)
    | |- sim _ (sleep _ _) _ => apply (sim_sleep me)
    | |- sim _ (listen_delay _ _) _ => apply (sim_listen_delay me)
    | |- sim _ (bind (now _) _) _ =>
      apply (simR_bind me (fun _ _ => True) eq);
      [apply (simR_now me) | intros ? ? _; match goal with |- simR _ eq ?x ?y => change (sim me x y) end]
    | |- sim _ (bind get _) _ =>
      apply (sim_bind_get me);
      let d := fresh "d" in let d' := fresh "d'" in let H := fresh "H" in
      intros d d' H; destruct_deq d d' H; proj_simpl
    | |- sim _ (modify _) _ => apply (sim_modify me); deq_solve
    | |- sim _ (reg_write _ _ _) _ => apply (sim_reg_write me); lia
    | |- sim _ (reg_read _ _) _ => apply (sim_reg_read me); cfgreg
    | |- sim _ (reg_write_bytes _ _ _) _ => apply (sim_reg_write_bytes me); lia
    | |- sim _ (reg_read_bytes _ _ _) _ => apply (sim_reg_read_bytes me); cfgreg
    | |- sim _ (command _ _) _ => apply (sim_command me); lia
    | |- sim _ (bind _ _) _ => apply (sim_bind me); [ | intros ? ]
    | |- sim _ (if ?c then _ else _) (if ?c then _ else _) => destruct c
    | |- sim _ (match ?x with _ => _ end) (match ?x with _ => _ end) => destruct x
    | |- sim _ _ _ => solve [auto 2 with simdb nocore]
    end.

Section Ops.
  Variable me : nat.
  Notation W := (WB me).

  Ltac go := sim_go me.

  (* ---- RF setup ---- *)
  Lemma sim_set_channel ch : sim me (set_channel W ch) (set_channel CB ch).
  Proof. unfold set_channel. go. Qed.
  Lemma sim_get_channel : sim me (get_channel W) (get_channel CB).
  Proof. unfold get_channel. go. Qed.
  Lemma sim_set_data_rate s : sim me (set_data_rate W s) (set_data_rate CB s).
  Proof. unfold set_data_rate. go. Qed.
  Lemma sim_get_data_rate : sim me (get_data_rate W) (get_data_rate CB).
  Proof. unfold get_data_rate. go. Qed.
  Lemma sim_set_crc l : sim me (set_crc W l) (set_crc CB l).
  Proof. unfold set_crc. go. Qed.
  Lemma sim_get_crc : sim me (get_crc W) (get_crc CB).
  Proof. unfold get_crc. go. Qed.
  Lemma sim_set_pa_level p : sim me (set_pa_level W p) (set_pa_level CB p).
  Proof. unfold set_pa_level. destruct p as [z|b|l| | |]; cbn zeta iota; go. Qed.
  Lemma sim_get_pa_level : sim me (get_pa_level W) (get_pa_level CB).
  Proof. unfold get_pa_level. go. Qed.
  Lemma sim_get_is_lna_enabled : sim me (get_is_lna_enabled W) (get_is_lna_enabled CB).
  Proof. unfold get_is_lna_enabled. go. Qed.

  (* ---- retries ---- *)
  Lemma sim_set_arc c : sim me (set_arc W c) (set_arc CB c).
  Proof. unfold set_arc. go. Qed.
  Lemma sim_get_arc : sim me (get_arc W) (get_arc CB).
  Proof. unfold get_arc. go. Qed.
  Lemma sim_set_ard c : sim me (set_ard W c) (set_ard CB c).
  Proof. unfold set_ard. go. Qed.
  Lemma sim_get_ard : sim me (get_ard W) (get_ard CB).
  Proof. unfold get_ard. go. Qed.
  Lemma sim_set_auto_retries a b : sim me (set_auto_retries W a b) (set_auto_retries CB a b).
  Proof. unfold set_auto_retries. go. Qed.
  Hint Resolve sim_get_ard : simdb.
  Lemma sim_get_auto_retries : sim me (get_auto_retries W) (get_auto_retries CB).
  Proof. unfold get_auto_retries. go. Qed.

  (* ---- address length, power, IRQ mask ---- *)
  Lemma sim_set_address_length l : sim me (set_address_length W l) (set_address_length CB l).
  Proof. unfold set_address_length. go. Qed.
  Lemma sim_get_address_length : sim me (get_address_length W) (get_address_length CB).
  Proof. unfold get_address_length. go. Qed.
  Lemma sim_set_power b : sim me (set_power W b) (set_power CB b).
  Proof. unfold set_power. go. Qed.
  Lemma sim_get_power : sim me (get_power W) (get_power CB).
  Proof. unfold get_power. go. Qed.
  Hint Resolve sim_get_power : simdb.
  Lemma sim_get_listen : sim me (get_listen W) (get_listen CB).
  Proof. unfold get_listen. go. Qed.
  Lemma sim_interrupt_config a b c : sim me (interrupt_config W a b c) (interrupt_config CB a b c).
  Proof. unfold interrupt_config. go. Qed.
  Lemma sim_flush_tx : sim me (flush_tx W) (flush_tx CB).
  Proof. unfold flush_tx. go. Qed.
  Lemma sim_flush_rx : sim me (flush_rx W) (flush_rx CB).
  Proof. unfold flush_rx. go. Qed.
  Hint Resolve sim_flush_tx sim_flush_rx : simdb.

  (* ---- auto-ack / dynamic payloads / features ---- *)
  Lemma sim_set_auto_ack_attr v : sim me (set_auto_ack_attr W v) (set_auto_ack_attr CB v).
  Proof. unfold set_auto_ack_attr. go. Qed.
  Lemma sim_get_auto_ack_attr : sim me (get_auto_ack_attr W) (get_auto_ack_attr CB).
  Proof. unfold get_auto_ack_attr. go. Qed.
  Hint Resolve sim_set_auto_ack_attr sim_get_auto_ack_attr : simdb.
  Lemma sim_set_auto_ack b p : sim me (set_auto_ack W b p) (set_auto_ack CB b p).
  Proof. unfold set_auto_ack. go. Qed.
  Lemma sim_get_auto_ack p : sim me (get_auto_ack W p) (get_auto_ack CB p).
  Proof. unfold get_auto_ack. go. Qed.
  Lemma sim_set_dynamic_payloads_attr v :
    sim me (set_dynamic_payloads_attr W v) (set_dynamic_payloads_attr CB v).
  Proof. unfold set_dynamic_payloads_attr. go. Qed.
  Lemma sim_get_dynamic_payloads_attr : sim me (get_dynamic_payloads_attr W) (get_dynamic_payloads_attr CB).
  Proof. unfold get_dynamic_payloads_attr. go. Qed.
  Hint Resolve sim_set_dynamic_payloads_attr sim_get_dynamic_payloads_attr : simdb.
  Lemma sim_set_dynamic_payloads b p : sim me (set_dynamic_payloads W b p) (set_dynamic_payloads CB b p).
  Proof. unfold set_dynamic_payloads. go. Qed.
  Lemma sim_get_dynamic_payloads p : sim me (get_dynamic_payloads W p) (get_dynamic_payloads CB p).
  Proof. unfold get_dynamic_payloads. go. Qed.
  Hint Resolve sim_set_auto_ack : simdb.
  Lemma sim_set_ack b : sim me (set_ack W b) (set_ack CB b).
  Proof. unfold set_ack. go. Qed.
  Lemma sim_get_ack : sim me (get_ack W) (get_ack CB).
  Proof. unfold get_ack. go. Qed.
  Lemma sim_set_allow_ask_no_ack b : sim me (set_allow_ask_no_ack W b) (set_allow_ask_no_ack CB b).
  Proof. unfold set_allow_ask_no_ack. go. Qed.
  Lemma sim_get_allow_ask_no_ack : sim me (get_allow_ask_no_ack W) (get_allow_ask_no_ack CB).
  Proof. unfold get_allow_ask_no_ack. go. Qed.

End Ops.

Section Ops2.
  Variable me : nat.
  Notation W := (WB me).
  Ltac go := sim_go me.

  Hint Resolve sim_flush_tx sim_flush_rx sim_set_auto_ack_attr sim_set_dynamic_payloads_attr : simdb.

  (* ---- static payload lengths ---- *)
  Lemma sim_pl_list_loop vals : forall i, sim me (pl_list_loop W vals i) (pl_list_loop CB vals i).
  Proof.
    induction vals as [|v t IH]; intros i; cbn [pl_list_loop]; [go|].
    apply (sim_bind me); [|intros; apply IH].
    destruct (Nat.ltb_spec i 6); cbn [andb]; [|go].
    destruct (0 <? v); [|go].
    go.
  Qed.
  Hint Resolve sim_pl_list_loop : simdb.

  Lemma sim_set_payload_length_attr v : sim me (set_payload_length_attr W v) (set_payload_length_attr CB v).
  Proof.
    unfold set_payload_length_attr. destruct v as [z|b|l| | |]; try go.
    assert (H : forall l acc,
      sim me ((fix conv (l : list pyval) (acc : list Z) : M unit :=
                 match l with
                 | [] => pl_list_loop W (rev acc) 0
                 | PInt z :: t => conv t (z :: acc)
                 | PBool b :: t => conv t (zb b :: acc)
                 | _ => raise TypeError
                 end) l acc)
             ((fix conv (l : list pyval) (acc : list Z) : M unit :=
                 match l with
                 | [] => pl_list_loop CB (rev acc) 0
                 | PInt z :: t => conv t (z :: acc)
                 | PBool b :: t => conv t (zb b :: acc)
                 | _ => raise TypeError
                 end) l acc)).
    { clear l. induction l as [|x t IH]; intros acc; [go|].
      destruct x; try go; apply IH. }
    apply H.
  Qed.
  Hint Resolve sim_set_payload_length_attr : simdb.

  Lemma sim_set_payload_length len p : sim me (set_payload_length W len p) (set_payload_length CB len p).
  Proof.
    unfold set_payload_length. destruct p as [p|]; [|go].
    destruct ((0 <=? p) && (p <=? 5)) eqn:E; cbn [negb]; [|go].
    apply andb_true_iff in E. destruct E as [E1 E2]. apply Z.leb_le in E1. apply Z.leb_le in E2.
    go.
  Qed.
  Lemma sim_get_payload_length p : sim me (get_payload_length W p) (get_payload_length CB p).
  Proof.
    unfold get_payload_length.
    destruct ((0 <=? p) && (p <=? 5)) eqn:E; cbn [negb]; [|go].
    apply andb_true_iff in E. destruct E as [E1 E2]. apply Z.leb_le in E1. apply Z.leb_le in E2.
    apply (sim_bind me).
    - apply sim_reg_read. split; [lia|].
      assert (Hp : p = 0 \/ p = 1 \/ p = 2 \/ p = 3 \/ p = 4 \/ p = 5) by lia.
      destruct Hp as [->|[->|[->|[->|[->| ->]]]]]; reflexivity.
    - intros v. go.
  Qed.

  (* ---- pipes ---- *)
  Lemma sim_overlay_into a old : sim me (overlay_into a old) (overlay_into a old).
  Proof. unfold overlay_into. go. Qed.
  Hint Resolve sim_overlay_into : simdb.

  Lemma sim_open_tx_pipe a : sim me (open_tx_pipe W a) (open_tx_pipe CB a).
  Proof. unfold open_tx_pipe. go. Qed.

  Lemma sim_close_rx_pipe p : sim me (close_rx_pipe W p) (close_rx_pipe CB p).
  Proof. unfold close_rx_pipe. go. Qed.

  Lemma sim_open_rx_pipe p a : sim me (open_rx_pipe W p a) (open_rx_pipe CB p a).
  Proof.
    unfold open_rx_pipe.
    destruct ((0 <=? p) && (p <=? 5)) eqn:E; cbn [negb]; [|go].
    apply andb_true_iff in E. destruct E as [E1 E2]. apply Z.leb_le in E1. apply Z.leb_le in E2.
    destruct a as [|a0 t]; [go|].
    go.
  Qed.

  (* ---- role, context manager, constructor ---- *)
  Lemma sim_set_listen b : sim me (set_listen W b) (set_listen CB b).
  Proof. unfold set_listen. go. Qed.

  Hint Resolve sim_set_payload_length : simdb.
  Lemma sim_enter_pl n : forall i, (i + n <= 6)%nat -> sim me (enter_pl W i n) (enter_pl CB i n).
  Proof.
    induction n as [|k IH]; intros i Hi; cbn [enter_pl]; [go|].
    apply (sim_bind_get me). intros d d' H. destruct_deq d d' H. proj_simpl.
    apply (sim_bind me).
    - destruct (Nat.ltb i 2).
      + apply sim_reg_write_bytes. lia.
      + apply sim_reg_write. lia.
    - intros _. apply (sim_bind me); [apply sim_set_payload_length|]. intros _. apply IH. lia.
  Qed.
  Hint Resolve sim_enter_pl : simdb.

  Lemma sim_enter : sim me (enter W) (enter CB).
  Proof.
    unfold enter. go.
    apply sim_enter_pl. lia.
  Qed.

  Lemma sim_exit : sim me (exit W) (exit CB).
  Proof. unfold exit. go. Qed.

  Lemma sim_clear_status_flags a b c : sim me (clear_status_flags W a b c) (clear_status_flags CB a b c).
  Proof. unfold clear_status_flags. go. Qed.

  Hint Resolve sim_enter sim_exit sim_clear_status_flags sim_activate : simdb.
  Lemma sim_construct : sim me (construct W) (construct CB).
  Proof. unfold construct. go. Qed.

End Ops2.

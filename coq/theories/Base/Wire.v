(* Wire.v -- the int-stream encoding shared by the extracted model runner and the
   Python harness.  A request is a list of Z, a reply is a list of Z; the OCaml glue
   only parses and prints integers.  Model-side glue only: no proofs. *)
From Coq Require Import ZArith NArith List Bool.
Import ListNotations.
Local Open Scope Z_scope.

(* take n items *)
Fixpoint takeZ (n : nat) (s : list Z) : option (list Z * list Z) :=
  match n with
  | O => Some ([], s)
  | S k => match s with
           | [] => None
           | x :: t => match takeZ k t with
                       | Some (l, r) => Some (x :: l, r)
                       | None => None
                       end
           end
  end.

(* length-prefixed byte string: n b1 .. bn *)
Definition take_bytes (s : list Z) : option (list N * list Z) :=
  match s with
  | [] => None
  | n :: t => match takeZ (Z.to_nat n) t with
              | Some (l, r) => Some (map Z.to_N l, r)
              | None => None
              end
  end.

Definition put_bytes (b : list N) : list Z := Z.of_nat (length b) :: map Z.of_N b.

Definition zbool (b : bool) : Z := if b then 1 else 0.
Definition boolz (z : Z) : bool := negb (z =? 0).

(* option Z as two ints *)
Definition put_optZ (o : option Z) : list Z :=
  match o with None => [0] | Some z => [1; z] end.

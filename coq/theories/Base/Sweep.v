(* Sweep.v -- finite sweeps: a boolean predicate checked by computation on 0..n-1 holds
   for every integer in that range (the bound is part of each theorem that uses it). *)
From Coq Require Import ZArith NArith List Bool Lia.
Import ListNotations.

Lemma sweepZ (P : Z -> bool) (n : nat) :
  forallb P (map Z.of_nat (seq 0 n)) = true ->
  forall r, (0 <= r < Z.of_nat n)%Z -> P r = true.
Proof.
  intros H r Hr. rewrite forallb_forall in H. apply H.
  apply in_map_iff. exists (Z.to_nat r). split; [lia|]. apply in_seq. lia.
Qed.

Lemma sweepN (P : N -> bool) (n : nat) :
  forallb P (map N.of_nat (seq 0 n)) = true ->
  forall r, (r < N.of_nat n)%N -> P r = true.
Proof.
  intros H r Hr. rewrite forallb_forall in H. apply H.
  apply in_map_iff. exists (N.to_nat r). split; [lia|]. apply in_seq. lia.
Qed.

(* two variables *)
Lemma sweepZ2 (P : Z -> Z -> bool) (n m : nat) :
  forallb (fun a => forallb (P a) (map Z.of_nat (seq 0 m))) (map Z.of_nat (seq 0 n)) = true ->
  forall a b, (0 <= a < Z.of_nat n)%Z -> (0 <= b < Z.of_nat m)%Z -> P a b = true.
Proof.
  intros H a b Ha Hb.
  pose proof (sweepZ (fun a => forallb (P a) (map Z.of_nat (seq 0 m))) n H a Ha) as H1.
  cbv beta in H1. exact (sweepZ (P a) m H1 b Hb).
Qed.

(* ---- masks: reduce a statement about Z.land x m (m a byte) to the 256 byte values ---- *)
Local Open Scope Z_scope.

Lemma land_255_byte m : 0 <= m < 256 -> Z.land 255 m = m.
Proof.
  intros H. apply Z.eqb_eq.
  apply (sweepZ (fun m => Z.land 255 m =? m) 256); [vm_compute; reflexivity|lia].
Qed.

Lemma land_byte x m : 0 <= m < 256 -> Z.land x m = Z.land (x mod 256) m.
Proof.
  intros H. change 256 with (2 ^ 8). rewrite <- Z.land_ones by lia.
  change (Z.ones 8) with 255. rewrite <- Z.land_assoc, land_255_byte by exact H. reflexivity.
Qed.

(* a boolean fact about Z.land x m for all 256 residues holds for every integer x *)
Lemma land_sweep (P : Z -> bool) m : 0 <= m < 256 ->
  forallb (fun y => P (Z.land y m)) (map Z.of_nat (seq 0 256)) = true ->
  forall x, P (Z.land x m) = true.
Proof.
  intros Hm H x. rewrite (land_byte x m Hm).
  apply (sweepZ (fun y => P (Z.land y m)) 256 H). apply Z.mod_pos_bound. lia.
Qed.

Lemma sweep_byte (P : Z -> bool) :
  forallb P (map Z.of_nat (seq 0 256)) = true -> forall r, 0 <= r <= 255 -> P r = true.
Proof.
  intros H r Hr. apply (sweepZ P 256 H).
  change (Z.of_nat 256) with 256. lia.
Qed.

Lemma sweep_byteN (P : N -> bool) :
  forallb P (map N.of_nat (seq 0 256)) = true -> forall r, (r < 256)%N -> P r = true.
Proof.
  intros H r Hr. apply (sweepN P 256 H). change (N.of_nat 256) with 256%N. exact Hr.
Qed.

(* derive range facts from a boolean sweep *)
Lemma range_of_bool lo hi v : (lo <=? v) && (v <=? hi) = true -> lo <= v <= hi.
Proof. intros H. apply andb_true_iff in H. destruct H as [A B]. apply Z.leb_le in A. apply Z.leb_le in B. lia. Qed.

(* WfFacts.v -- every reachable world is well formed: in every radio only the three interrupt flags
   (bits 4..6) are ever latched and every RX FIFO entry sits on a pipe 0..5.  This is the premise
   of the accessor theorems (Drv/AccessFacts.v); here it is shown to hold initially and to be
   preserved by every SPI transfer, CE change, clock reading and sleep, through any number of
   Enhanced-ShockBurst exchanges with any loss pattern. *)
From Coq Require Import ZArith NArith List Bool Lia.
From NRF Require Import Base.Sweep Env.Radio Env.World Env.WorldFacts.
Import ListNotations.
Local Open Scope N_scope.

Definition FlagsOk (f : N) : Prop := f < 128 /\ N.land f 15 = 0.
Definition WfR (r : radio) : Prop := FlagsOk (flags r) /\ Forall (fun e => fst e < 6) (rx_fifo r).
Definition AllWf (w : world) : Prop := Forall WfR (radios w).

Lemma flags_or_sweep :
  forallb (fun f => negb (N.land f 15 =? 0) ||
                    forallb (fun m => (N.lor f m <? 128) && (N.land (N.lor f m) 15 =? 0)) [16; 32; 64])
          (map N.of_nat (seq 0 128)) = true.
Proof. vm_compute. reflexivity. Qed.

Lemma flags_or f m : FlagsOk f -> In m [16; 32; 64] -> FlagsOk (N.lor f m).
Proof.
  intros [H1 H2] Hm. pose proof (sweepN _ 128 flags_or_sweep f) as S. cbv beta in S.
  assert (Hf : f < N.of_nat 128) by (change (N.of_nat 128) with 128; exact H1).
  specialize (S Hf). rewrite H2 in S. cbn [N.eqb negb orb] in S. rewrite forallb_forall in S.
  specialize (S m Hm). apply andb_prop in S. destruct S as [A B].
  split; [apply N.ltb_lt; exact A|apply N.eqb_eq; exact B].
Qed.

Lemma flags_and f y : FlagsOk f -> FlagsOk (N.land f y).
Proof.
  intros [H1 H2]. split.
  - assert (E : f = N.land f 127).
    { change 127 with (N.ones 7). rewrite N.land_ones. symmetry. apply N.mod_small. exact H1. }
    rewrite E, <- N.land_assoc, (N.land_comm 127 y), N.land_assoc.
    change 127 with (N.ones 7). rewrite N.land_ones. apply N.mod_lt. discriminate.
  - rewrite <- N.land_assoc, (N.land_comm y 15), N.land_assoc, H2. reflexivity.
Qed.

Lemma wf_reset b : WfR (reset_radio b).
Proof. split; [split; [cbn; lia|reflexivity]|constructor]. Qed.

(* ---- a single radio under SPI commands ---- *)
Lemma wf_set_sreg r a v : WfR r -> WfR (set_sreg r a v).
Proof. intro H. exact H. Qed.

Lemma wf_write_reg r a data : WfR r -> WfR (write_reg r a data).
Proof.
  intros [Hf Hq]. unfold write_reg. destruct data as [|v t]; [split; assumption|].
  repeat match goal with |- context [if ?c then _ else _] => destruct c end; try (split; assumption).
  split; [|exact Hq]. cbn [flags with_flags]. apply flags_and. exact Hf.
Qed.

Lemma wf_spi r mosi : WfR r -> WfR (fst (spi r mosi)).
Proof.
  intros [Hf Hq]. unfold spi. destruct mosi as [|cmd data]; [split; assumption|].
  destruct (cmd <? 32); [split; assumption|].
  destruct (cmd <? 64); [apply wf_write_reg; split; assumption|].
  destruct (cmd =? 80).
  { destruct data as [|x t]; [split; assumption|].
    destruct (N.eq_dec x 115) as [->|Hx].
    - cbn [fst]. destruct (is_plus r); split; assumption.
    - assert (E : forall A (a b : A), match x with 115 => a | _ => b end = b).
      { intros A a b. destruct x as [|p]; [reflexivity|].
        do 7 (destruct p as [p|p|]; try reflexivity). contradiction. }
      rewrite !E. split; assumption. }
  destruct (cmd =? 96); [split; assumption|].
  destruct (cmd =? 97).
  { destruct (rx_fifo r) as [|[p x] rest] eqn:Er; cbn [fst]; [split; [exact Hf|rewrite Er; exact Hq]|].
    split; [exact Hf|]. cbn [rx_fifo with_fifos]. inversion Hq; assumption. }
  repeat match goal with
         | |- context [if ?c then _ else _] => destruct c
         end; cbn [fst]; try (split; assumption);
    (split; [exact Hf|]; cbn [rx_fifo with_fifos with_pid]; first [exact Hq|constructor]).
Qed.

(* ---- receivers, deliveries, attempts, exchanges ---- *)
Lemma rx_pipe_lt s r d p : rx_pipe s r d = Some p -> p < 6.
Proof.
  unfold rx_pipe. destruct (_ && _); [|discriminate]. intro H. apply find_some in H. destruct H as [Hin _].
  cbn in Hin. lia.
Qed.

Lemma wf_receive r p pid noack d h : WfR r -> p < 6 -> WfR (fst (fst (receive r p pid noack d h))).
Proof.
  intros [Hf Hq] Hp. unfold receive.
  destruct (rx_full r); [split; assumption|].
  assert (W1 : WfR (with_flags (with_last_rx (with_fifos r (rx_fifo r ++ [(p, d)]) (tx_fifo r)) (Some (pid, d)))
                               (N.lor (flags r) 64))).
  { split; [apply flags_or; [exact Hf|cbn; auto]|]. cbn [rx_fifo with_flags with_last_rx with_fifos].
    apply Forall_app. split; [exact Hq|]. constructor; [exact Hp|constructor]. }
  destruct (match last_rx r with Some (q, d') => (q =? pid) && list_eqb d d' | None => false end);
    cbn zeta;
    repeat match goal with
           | |- context [if ?c then _ else _] => destruct c
           | |- context [match take_ack ?a ?b with _ => _ end] => destruct (take_ack a b) as [[? ?]|]
           end; cbn [fst]; try (split; assumption); try exact W1.
  all: try (split; [apply flags_or; [first [exact Hf|exact (proj1 W1)]|cbn; auto]|]; first [exact Hq|exact (proj2 W1)]).
Qed.

Lemma wf_deliver s si rs : forall j pid noack d h,
  Forall WfR rs -> Forall WfR (fst (fst (fst (deliver s si rs j pid noack d h)))).
Proof.
  induction rs as [|r t IH]; intros j pid noack d h H; [constructor|].
  inversion H as [|? ? Hr Ht]; subst. cbn [deliver].
  specialize (IH (S j) pid noack d h Ht).
  destruct (deliver s si t (S j) pid noack d h) as [[[t' acked] apl] who]. cbn [fst] in IH.
  destruct (Nat.eqb j si); [constructor; assumption|].
  destruct (rx_pipe s r d) as [p|] eqn:E; [|constructor; assumption].
  pose proof (wf_receive r p pid noack d h Hr (rx_pipe_lt _ _ _ _ E)) as Hw.
  destruct (receive r p pid noack d h) as [[r' a] pl]. cbn [fst] in Hw |- *. constructor; assumption.
Qed.

Lemma wf_set_nth_radio rs : forall i r, Forall WfR rs -> WfR r -> Forall WfR (set_nth_radio rs i r).
Proof.
  induction rs as [|x t IH]; intros i r H Hr; [constructor|].
  inversion H; subst. destruct i; cbn [set_nth_radio]; constructor; auto.
Qed.

Lemma wf_set_radio w i r : AllWf w -> WfR r -> AllWf (set_radio w i r).
Proof. intros H Hr. unfold AllWf, set_radio. cbn [radios]. apply wf_set_nth_radio; assumption. Qed.

Lemma wf_get_radio w i : AllWf w -> WfR (get_radio w i).
Proof.
  intro H. unfold get_radio. destruct (Nat.lt_ge_cases i (length (radios w))) as [L|L].
  - unfold AllWf in H. rewrite Forall_forall in H. apply H. apply nth_In. exact L.
  - rewrite nth_overflow by exact L. apply wf_reset.
Qed.

Lemma wf_next_fate w : AllWf w -> AllWf (snd (next_fate w)).
Proof. unfold next_fate. destruct (oracle w); intro H; exact H. Qed.

Lemma wf_attempt fuel : forall w si e noack expects made,
  AllWf w -> AllWf (fst (fst (fst (attempt w si e noack expects fuel made)))).
Proof.
  induction fuel as [|k IH]; intros w si e noack expects made H; [exact H|].
  cbn [attempt].
  pose proof (wf_next_fate w H) as Hn.
  destruct (next_fate w) as [f w1]. cbn [snd] in Hn.
  destruct f;
    try (destruct expects; [apply IH; exact Hn|exact Hn]);
    match goal with
    | |- context [deliver ?s ?i ?rs ?j ?pid ?na ?d ?h] =>
      pose proof (wf_deliver s i rs j pid na d h Hn) as Hd;
      destruct (deliver s i rs j pid na d h) as [[[rs' acked] apl] who]; cbn [fst] in Hd
    end;
    (assert (H2 : AllWf (mkWorld rs' (oracle w1) (air w1) (clock w1))) by exact Hd);
    cbv zeta;
    (destruct (negb expects); [exact H2|]);
    match goal with
    | |- context [if ?c then _ else _] => destruct c
    end;
    try (cbn [fst]; apply wf_set_radio; [exact H2|];
         pose proof (wf_get_radio _ si H2) as [Gf Gq];
         destruct apl as [a|]; [|split; assumption]; destruct (rx_full _); [split; assumption|];
         split; [apply flags_or; [exact Gf|cbn; auto]|];
         cbn [rx_fifo with_flags with_fifos]; apply Forall_app; split; [exact Gq|constructor; [cbn; lia|constructor]]);
    (specialize (IH (mkWorld rs' (oracle w1) (air w1) (clock w1)) si e noack expects (made + 1) H2);
     destruct (attempt _ _ _ _ _ _ _) as [[[w3 ok] m] who']; cbn [fst] in IH |- *; exact IH).
Qed.

Lemma wf_exchange w si : AllWf w -> AllWf (exchange w si).
Proof.
  intro H. unfold exchange. destruct (tx_fifo (get_radio w si)) as [|e rest]; [exact H|].
  cbn zeta.
  match goal with
  | |- context [attempt ?a ?b ?c ?d ?x ?f ?g] => pose proof (wf_attempt f a b c d x g H) as Ha;
      destruct (attempt a b c d x f g) as [[[w1 ok] made] who]; cbn [fst] in Ha
  end.
  unfold AllWf. cbn [radios].
  change (Forall WfR (radios (set_radio w1 si ?r))) with (AllWf (set_radio w1 si r)).
  apply wf_set_radio; [exact Ha|].
  pose proof (wf_get_radio _ si Ha) as [Gf Gq].
  destruct ok; (split; [apply flags_or; [exact Gf|cbn; auto]|exact Gq]).
Qed.

Lemma wf_settle n : forall w, AllWf w -> AllWf (settle n w).
Proof.
  induction n as [|k IH]; intros w H; [exact H|].
  cbn [settle]. destruct (find_tx (radios w) 0); [|exact H]. apply IH. apply wf_exchange. exact H.
Qed.

(* ---- bus operations ---- *)
Lemma wf_with_ce r v : WfR r -> WfR (with_ce r v).
Proof. intro H. exact H. Qed.

Theorem wf_w_spi w i mosi : AllWf w -> AllWf (fst (w_spi w i mosi)).
Proof.
  intro H. unfold w_spi.
  pose proof (wf_spi (get_radio w i) mosi (wf_get_radio w i H)) as Hs.
  destruct (spi (get_radio w i) mosi) as [r' miso]. cbn [fst] in Hs |- *.
  unfold tick, AllWf. cbn [radios]. apply wf_settle. apply wf_set_radio; assumption.
Qed.

Theorem wf_w_ce w i v : AllWf w -> AllWf (w_ce w i v).
Proof.
  intro H. unfold w_ce. apply wf_settle. apply wf_set_radio; [exact H|]. apply wf_with_ce. apply wf_get_radio. exact H.
Qed.

Lemma wf_new_world plus o : AllWf (new_world plus o).
Proof. unfold AllWf, new_world. cbn [radios]. apply Forall_forall. intros r Hr. apply in_map_iff in Hr. destruct Hr as (b & <- & _). apply wf_reset. Qed.

(* every world reachable from power-up by bus operations of any radios is well formed *)
Inductive busop := BSpi (i : nat) (mosi : list N) | BCe (i : nat) (v : bool) | BNow | BSleep (ns : N).
Definition bus_step (w : world) (o : busop) : world :=
  match o with
  | BSpi i m => fst (w_spi w i m)
  | BCe i v => w_ce w i v
  | BNow => fst (w_now w)
  | BSleep ns => w_sleep w ns
  end.

Theorem wf_reachable ops : forall w, AllWf w -> AllWf (fold_left bus_step ops w).
Proof.
  induction ops as [|o t IH]; cbn [fold_left]; intros w H; [exact H|]. apply IH.
  destruct o; cbn [bus_step]; [apply wf_w_spi|apply wf_w_ce| |]; exact H.
Qed.

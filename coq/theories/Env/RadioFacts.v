(* RadioFacts.v -- characterising lemmas of the radio model (used by the driver proofs). *)
From Coq Require Import NArith List Bool Lia.
From NRF Require Import Env.Radio.
Import ListNotations.
Local Open Scope N_scope.

(* every SPI transfer shifts out STATUS as it was BEFORE the command took effect *)
Lemma spi_status_first r cmd data :
  hd 0 (snd (spi r (cmd :: data))) = status r.
Proof.
  unfold spi.
  repeat match goal with
         | |- context [if ?c then _ else _] => destruct c
         | |- context [match ?x with _ => _ end] => destruct x
         end; reflexivity.
Qed.

Lemma spi_reply_length r cmd data :
  length (snd (spi r (cmd :: data))) = S (length data).
Proof.
  unfold spi, read_reg, pad.
  repeat match goal with
         | |- context [if ?c then _ else _] => destruct c
         | |- context [match ?x with _ => _ end] => destruct x
         end; cbn [snd length]; try rewrite repeat_length; try reflexivity;
    rewrite firstn_length, app_length, repeat_length; cbn; lia.
Qed.

(* RadioFacts.v -- characterising lemmas of the radio model (used by the driver proofs). *)
From Coq Require Import NArith List Bool Lia.
From NRF Require Import Env.Radio.
Import ListNotations.
Local Open Scope N_scope.

(* every SPI transfer shifts out STATUS as it was BEFORE the command took effect *)
Lemma spi_status_first r cmd data :
  hd 0 (snd (spi r (cmd :: data))) = status r.
Proof.
  unfold spi.
  repeat match goal with
         | |- context [if ?c then _ else _] => destruct c
         | |- context [match ?x with _ => _ end] => destruct x
         end; reflexivity.
Qed.

Lemma spi_reply_length r cmd data :
  length (snd (spi r (cmd :: data))) = S (length data).
Proof.
  unfold spi, read_reg, pad.
  repeat match goal with
         | |- context [if ?c then _ else _] => destruct c
         | |- context [match ?x with _ => _ end] => destruct x
         end; cbn [snd length]; try rewrite repeat_length; try reflexivity;
    rewrite firstn_length, app_length, repeat_length; cbn; lia.
Qed.

From Coq Require Import ZifyBool ZifyN.
(* what a read/flush/NOP transfer does depends on the command byte and the length only *)
Lemma spi_data_irrelevant r cmd d1 d2 :
  mosi_data_matters cmd = false -> length d1 = length d2 -> spi r (cmd :: d1) = spi r (cmd :: d2).
Proof.
  unfold mosi_data_matters, spi. intros H L. rewrite L.
  destruct (cmd <? 32) eqn:E1; [reflexivity|].
  destruct (cmd <? 64) eqn:E2; [exfalso; lia|].
  destruct (cmd =? 80) eqn:E3; [exfalso; lia|].
  destruct (cmd =? 96) eqn:E4; [reflexivity|].
  destruct (cmd =? 97) eqn:E5; [reflexivity|].
  destruct ((cmd =? 160) || (cmd =? 176)) eqn:E6; [exfalso; lia|].
  destruct ((168 <=? cmd) && (cmd <=? 173)) eqn:E7; [exfalso; lia|].
  reflexivity.
Qed.

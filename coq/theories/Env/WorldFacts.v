(* WorldFacts.v -- frame lemmas of the world model: an exchange never changes any
   radio's CONFIGURATION (registers, addresses, CE, feature activation); it only moves
   payloads, flags and counters.  Used by every driver-level proof. *)
From Coq Require Import NArith Arith List Bool Lia.
From NRF Require Import Env.Radio Env.RadioFacts Env.World.
Import ListNotations.
Local Open Scope N_scope.

(* the configuration view of a radio *)
Record cfg := mkCfg { c_sregs : list N; c_p0 : list N; c_p1 : list N; c_tx : list N;
                      c_ce : bool; c_act : bool; c_plus : bool }.

Definition cview (r : radio) : cfg :=
  mkCfg (sregs r) (addr_p0 r) (addr_p1 r) (addr_tx r) (ce r) (activated r) (is_plus r).

Lemma cview_with_flags r f : cview (with_flags r f) = cview r. Proof. reflexivity. Qed.
Lemma cview_with_fifos r a b : cview (with_fifos r a b) = cview r. Proof. reflexivity. Qed.
Lemma cview_with_observe r a b : cview (with_observe r a b) = cview r. Proof. reflexivity. Qed.
Lemma cview_with_last_rx r l : cview (with_last_rx r l) = cview r. Proof. reflexivity. Qed.
Lemma cview_with_pid r p : cview (with_pid r p) = cview r. Proof. reflexivity. Qed.

Lemma receive_cview r p pid noack d h :
  cview (fst (fst (receive r p pid noack d h))) = cview r.
Proof.
  unfold receive.
  destruct (rx_full r); [reflexivity|].
  destruct (match last_rx r with Some (q, d') => (q =? pid) && list_eqb d d' | None => false end);
    cbn zeta;
    repeat match goal with
           | |- context [if ?c then _ else _] => destruct c
           | |- context [match take_ack ?a ?b with _ => _ end] => destruct (take_ack a b) as [[? ?]|]
           end; reflexivity.
Qed.

Lemma deliver_cview s si rs : forall j pid noack d h,
  map cview (fst (fst (fst (deliver s si rs j pid noack d h)))) = map cview rs.
Proof.
  induction rs as [|r t IH]; intros j pid noack d h; [reflexivity|].
  cbn [deliver].
  specialize (IH (S j) pid noack d h).
  destruct (deliver s si t (S j) pid noack d h) as [[[t' acked] apl] who]. cbn [fst] in IH.
  destruct (Nat.eqb j si); [cbn; rewrite IH; reflexivity|].
  destruct (rx_pipe s r d) as [p|]; [|cbn; rewrite IH; reflexivity].
  pose proof (receive_cview r p pid noack d h) as Hr.
  destruct (receive r p pid noack d h) as [[r' a] pl]. cbn [fst] in Hr.
  cbn. rewrite IH, Hr. reflexivity.
Qed.

Lemma map_set_nth_radio rs i r :
  cview r = cview (nth i rs (reset_radio true)) -> (i < length rs)%nat ->
  map cview (set_nth_radio rs i r) = map cview rs.
Proof.
  revert i. induction rs as [|x t IH]; intros i Hc Hi; [reflexivity|].
  destruct i as [|i]; cbn in *.
  - rewrite Hc. reflexivity.
  - rewrite IH; [reflexivity|exact Hc|lia].
Qed.

Lemma set_nth_radio_oob rs i r : (length rs <= i)%nat -> set_nth_radio rs i r = rs.
Proof.
  revert i. induction rs as [|x t IH]; intros i Hi; [reflexivity|].
  destruct i as [|i]; cbn in *; [lia|]. rewrite IH by lia. reflexivity.
Qed.

Lemma set_nth_radio_length rs : forall i r, length (set_nth_radio rs i r) = length rs.
Proof.
  induction rs as [|x t IH]; intros i r; [reflexivity|].
  destruct i; cbn; [reflexivity|]. rewrite IH. reflexivity.
Qed.

Definition wcfgs (w : world) : list cfg := map cview (radios w).

Lemma set_radio_same_cview w i r :
  cview r = cview (get_radio w i) -> wcfgs (set_radio w i r) = wcfgs w.
Proof.
  intros H. unfold wcfgs, set_radio. cbn [radios].
  destruct (Nat.lt_ge_cases i (length (radios w))) as [Hi|Hi].
  - apply map_set_nth_radio; assumption.
  - rewrite set_nth_radio_oob by exact Hi. reflexivity.
Qed.

Lemma nth_map_cview w i : cview (get_radio w i) = nth i (wcfgs w) (cview (reset_radio true)).
Proof. unfold get_radio, wcfgs. rewrite map_nth. reflexivity. Qed.

Lemma get_radio_cview_eq w w' i : wcfgs w = wcfgs w' -> cview (get_radio w i) = cview (get_radio w' i).
Proof. intros H. rewrite !nth_map_cview, H. reflexivity. Qed.

Lemma next_fate_wcfgs w : wcfgs (snd (next_fate w)) = wcfgs w.
Proof. unfold next_fate. destruct (oracle w); reflexivity. Qed.

Lemma attempt_wcfgs fuel : forall w si e noack expects made,
  wcfgs (fst (fst (fst (attempt w si e noack expects fuel made)))) = wcfgs w.
Proof.
  induction fuel as [|k IH]; intros w si e noack expects made; [reflexivity|].
  cbn [attempt].
  pose proof (next_fate_wcfgs w) as Hn.
  destruct (next_fate w) as [f w1]. cbn [snd] in Hn.
  destruct f;
    try (destruct expects; [rewrite IH; exact Hn|exact Hn]);
    match goal with
    | |- context [deliver ?s ?i ?rs ?j ?pid ?na ?d ?h] =>
      pose proof (deliver_cview s i rs j pid na d h) as Hd;
      destruct (deliver s i rs j pid na d h) as [[[rs' acked] apl] who]; cbn [fst] in Hd
    end;
    (assert (H2 : wcfgs (mkWorld rs' (oracle w1) (air w1) (clock w1)) = wcfgs w)
      by (unfold wcfgs at 1; cbn [radios]; rewrite Hd; exact Hn));
    cbv zeta;
    (destruct (negb expects); [exact H2|]);
    match goal with
    | |- context [if ?c then _ else _] => destruct c
    end;
    try (cbn [fst]; rewrite set_radio_same_cview; [exact H2|];
         destruct apl as [a|]; [|reflexivity]; destruct (rx_full _); reflexivity);
    (specialize (IH (mkWorld rs' (oracle w1) (air w1) (clock w1)) si e noack expects (made + 1));
     destruct (attempt _ _ _ _ _ _ _) as [[[w3 ok] m] who']; cbn [fst] in IH;
     change (wcfgs w3 = wcfgs w); rewrite IH; exact H2).
Qed.

Lemma exchange_wcfgs w si : wcfgs (exchange w si) = wcfgs w.
Proof.
  unfold exchange. destruct (tx_fifo (get_radio w si)) as [|e rest]; [reflexivity|].
  cbn zeta.
  pose proof (attempt_wcfgs
                (if bitb (sreg (get_radio w si) R_EN_AA) 0
                    && negb match tx_kind e with TxNoAck => en_dyn_ack (get_radio w si) | _ => false end
                 then S (N.to_nat (N.land (sreg (get_radio w si) R_SETUP_RETR) 15)) else 1%nat)
                w si e
                (match tx_kind e with TxNoAck => en_dyn_ack (get_radio w si) | _ => false end)
                (bitb (sreg (get_radio w si) R_EN_AA) 0
                 && negb match tx_kind e with TxNoAck => en_dyn_ack (get_radio w si) | _ => false end) 0) as Ha.
  destruct (attempt _ _ _ _ _ _ _) as [[[w1 ok] made] who]. cbn [fst] in Ha.
  unfold wcfgs at 1. cbn [radios].
  change (map cview (radios (set_radio w1 si ?r))) with (wcfgs (set_radio w1 si r)).
  rewrite set_radio_same_cview; [exact Ha|].
  destruct ok; reflexivity.
Qed.

Lemma settle_wcfgs n : forall w, wcfgs (settle n w) = wcfgs w.
Proof.
  induction n as [|k IH]; intros w; [reflexivity|].
  cbn [settle]. destruct (find_tx (radios w) 0); [|reflexivity].
  rewrite IH. apply exchange_wcfgs.
Qed.

(* ---- what one SPI transfer / CE change does to the configuration of every radio ---- *)
Lemma get_set_radio_same w i r : (i < length (radios w))%nat -> get_radio (set_radio w i r) i = r.
Proof.
  unfold get_radio, set_radio. cbn [radios]. generalize (radios w). intros rs. revert i.
  induction rs as [|x t IH]; intros i Hi; cbn in *; [lia|].
  destruct i as [|i]; [reflexivity|]. apply IH. lia.
Qed.

Lemma get_set_radio_other w i j r : i <> j -> get_radio (set_radio w i r) j = get_radio w j.
Proof.
  unfold get_radio, set_radio. cbn [radios]. generalize (radios w). intros rs. revert i j.
  induction rs as [|x t IH]; intros i j Hij; cbn; [destruct i; reflexivity|].
  destruct i as [|i], j as [|j]; cbn; try reflexivity; [contradiction|]. apply IH. congruence.
Qed.

Lemma w_spi_reply w i mosi : snd (w_spi w i mosi) = snd (spi (get_radio w i) mosi).
Proof. unfold w_spi. destruct (spi (get_radio w i) mosi). reflexivity. Qed.

Lemma w_spi_cview_me w i mosi : (i < length (radios w))%nat ->
  cview (get_radio (fst (w_spi w i mosi)) i) = cview (fst (spi (get_radio w i) mosi)).
Proof.
  intros Hi. unfold w_spi. destruct (spi (get_radio w i) mosi) as [r' miso]. cbn [fst].
  rewrite (get_radio_cview_eq _ (set_radio w i r') i) by (exact (settle_wcfgs 8 _)).
  rewrite get_set_radio_same by exact Hi. reflexivity.
Qed.

Lemma w_spi_cview_other w i j mosi : i <> j ->
  cview (get_radio (fst (w_spi w i mosi)) j) = cview (get_radio w j).
Proof.
  intros Hij. unfold w_spi. destruct (spi (get_radio w i) mosi) as [r' miso]. cbn [fst].
  rewrite (get_radio_cview_eq _ (set_radio w i r') j) by (exact (settle_wcfgs 8 _)).
  rewrite get_set_radio_other by exact Hij. reflexivity.
Qed.

Lemma w_spi_length w i mosi : length (radios (fst (w_spi w i mosi))) = length (radios w).
Proof.
  assert (H : length (wcfgs (fst (w_spi w i mosi))) = length (wcfgs (set_radio w i (fst (spi (get_radio w i) mosi))))).
  { unfold w_spi. destruct (spi (get_radio w i) mosi) as [r' miso]. cbn [fst]. exact (f_equal (@length cfg) (settle_wcfgs 8 _)). }
  unfold wcfgs in H. rewrite !map_length in H. rewrite H. unfold set_radio. cbn [radios].
  apply set_nth_radio_length.
Qed.

Lemma w_ce_cview_me w i v : (i < length (radios w))%nat ->
  cview (get_radio (w_ce w i v) i) = cview (with_ce (get_radio w i) v).
Proof.
  intros Hi. unfold w_ce.
  rewrite (get_radio_cview_eq _ (set_radio w i (with_ce (get_radio w i) v)) i) by (exact (settle_wcfgs 8 _)).
  rewrite get_set_radio_same by exact Hi. reflexivity.
Qed.

Lemma w_ce_cview_other w i j v : i <> j ->
  cview (get_radio (w_ce w i v) j) = cview (get_radio w j).
Proof.
  intros Hij. unfold w_ce.
  rewrite (get_radio_cview_eq _ (set_radio w i (with_ce (get_radio w i) v)) j) by (exact (settle_wcfgs 8 _)).
  rewrite get_set_radio_other by exact Hij. reflexivity.
Qed.

Lemma w_ce_length w i v : length (radios (w_ce w i v)) = length (radios w).
Proof.
  assert (H : length (wcfgs (w_ce w i v)) = length (wcfgs (set_radio w i (with_ce (get_radio w i) v)))).
  { unfold w_ce. rewrite settle_wcfgs. reflexivity. }
  unfold wcfgs in H. rewrite !map_length in H. rewrite H. unfold set_radio. cbn [radios].
  apply set_nth_radio_length.
Qed.

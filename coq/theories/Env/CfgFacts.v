(* CfgFacts.v -- the configuration-level view of SPI transfers: for register reads/writes
   (and every command that does not touch configuration) the new configuration and the
   data bytes of the reply depend only on the old configuration. *)
From Coq Require Import NArith Arith List Bool Lia.
From NRF Require Import Env.Radio Env.RadioFacts Env.World Env.WorldFacts.
Import ListNotations.
Local Open Scope N_scope.

Definition creg (c : cfg) (a : N) : N := nth (N.to_nat a) (c_sregs c) 0.
Definition cset (c : cfg) (a v : N) : cfg :=
  mkCfg (set_nth (c_sregs c) (N.to_nat a) v) (c_p0 c) (c_p1 c) (c_tx c) (c_ce c) (c_act c) (c_plus c).
Definition cset_addrs (c : cfg) (p0 p1 tx : list N) : cfg :=
  mkCfg (c_sregs c) p0 p1 tx (c_ce c) (c_act c) (c_plus c).
Definition cset_ce (c : cfg) (v : bool) : cfg :=
  mkCfg (c_sregs c) (c_p0 c) (c_p1 c) (c_tx c) v (c_act c) (c_plus c).
Definition cset_act (c : cfg) (v : bool) : cfg :=
  mkCfg (c_sregs c) (c_p0 c) (c_p1 c) (c_tx c) (c_ce c) v (c_plus c).

(* registers whose read value is derived from non-configuration state *)
Definition derived (a : N) : bool :=
  (a =? R_STATUS) || (a =? R_OBSERVE_TX) || (a =? R_RPD) || (a =? R_FIFO_STATUS).

Definition cread (c : cfg) (a : N) (n : nat) : list N :=
  if a =? R_RX_ADDR_P0 then pad n (c_p0 c)
  else if a =? R_RX_ADDR_P1 then pad n (c_p1 c)
  else if a =? R_TX_ADDR then pad n (c_tx c)
  else if (a =? R_DYNPD) || (a =? R_FEATURE) then pad n [if c_act c then creg c a else 0]
  else pad n [creg c a].

Definition cwrite (c : cfg) (a : N) (data : list N) : cfg :=
  match data with
  | [] => c
  | v :: _ =>
    if a =? R_RX_ADDR_P0 then cset_addrs c (overlay data (c_p0 c)) (c_p1 c) (c_tx c)
    else if a =? R_RX_ADDR_P1 then cset_addrs c (c_p0 c) (overlay data (c_p1 c)) (c_tx c)
    else if a =? R_TX_ADDR then cset_addrs c (c_p0 c) (c_p1 c) (overlay data (c_tx c))
    else if a =? R_STATUS then c
    else if ((a =? R_DYNPD) || (a =? R_FEATURE)) && negb (c_act c) then c
    else if a =? R_RF_CH then cset c a (N.land v (wmask a))
    else if wmask a =? 0 then c
    else cset c a (N.land v (wmask a))
  end.

(* configuration after a transfer, and the data bytes of the reply (meaningful for
   reads of non-derived registers) *)
Definition cspi (c : cfg) (mosi : list N) : cfg * list N :=
  match mosi with
  | [] => (c, [])
  | cmd :: data =>
    let n := length data in
    if cmd <? 32 then (c, cread c cmd n)
    else if cmd <? 64 then (cwrite c (cmd - 32) data, repeat 0 n)
    else if cmd =? 80 then
      match data with
      | 115 :: _ => ((if c_plus c then c else cset_act c (negb (c_act c))), repeat 0 n)
      | _ => (c, repeat 0 n)
      end
    else (c, repeat 0 n)
  end.

Lemma write_reg_cview r a data : cview (write_reg r a data) = cwrite (cview r) a data.
Proof.
  unfold write_reg, cwrite. destruct data as [|v t]; [reflexivity|].
  cbn [cview c_p0 c_p1 c_tx c_act activated].
  repeat match goal with
         | |- context [if ?c then _ else _] => destruct c
         end; reflexivity.
Qed.

Lemma spi_cview r mosi : cview (fst (spi r mosi)) = fst (cspi (cview r) mosi).
Proof.
  unfold spi, cspi. destruct mosi as [|cmd data]; [reflexivity|].
  destruct (cmd <? 32); [reflexivity|].
  destruct (cmd <? 64); [apply write_reg_cview|].
  destruct (cmd =? 80).
  { destruct data as [|x t]; [reflexivity|].
    destruct (N.eq_dec x 115) as [->|Hx].
    - cbn [fst cview c_plus c_act]. destruct (is_plus r); reflexivity.
    - assert (E : forall A (a b : A), match x with 115 => a | _ => b end = b).
      { intros A a b. destruct x as [|p]; [reflexivity|].
        do 7 (destruct p as [p|p|]; try reflexivity). contradiction. }
      rewrite !E. reflexivity. }
  repeat match goal with
         | |- context [if ?c then _ else _] => destruct c
         | |- context [match rx_fifo r with _ => _ end] => destruct (rx_fifo r) as [|[? ?] ?]
         end; reflexivity.
Qed.

Lemma read_reg_cread r a n : derived a = false -> read_reg r a n = cread (cview r) a n.
Proof.
  unfold derived, read_reg, cread. intros H.
  apply orb_false_iff in H. destruct H as [H H4]. apply orb_false_iff in H. destruct H as [H H3].
  apply orb_false_iff in H. destruct H as [H1 H2].
  rewrite H1, H2, H3, H4. cbn [cview c_p0 c_p1 c_tx c_act activated].
  unfold creg. cbn [cview c_sregs]. unfold sreg.
  repeat match goal with
         | |- context [if ?c then _ else _] => destruct c
         end; reflexivity.
Qed.

(* register reads of non-derived registers and all register writes *)
Definition cfg_cmd (cmd : N) : bool :=
  ((cmd <? 32) && negb (derived cmd)) || ((32 <=? cmd) && (cmd <? 64)).

Lemma spi_reply_cfg r cmd data :
  cfg_cmd cmd = true ->
  snd (spi r (cmd :: data)) = status r :: snd (cspi (cview r) (cmd :: data)).
Proof.
  unfold cfg_cmd. intros H. unfold spi, cspi.
  destruct (cmd <? 32) eqn:E32.
  - cbn [andb orb] in H. apply orb_true_iff in H. destruct H as [H|H].
    + apply negb_true_iff in H. cbn [snd]. rewrite (read_reg_cread r cmd _ H). reflexivity.
    + apply andb_true_iff in H. destruct H as [H _]. apply N.leb_le in H. apply N.ltb_lt in E32. lia.
  - cbn [andb orb] in H. apply andb_true_iff in H. destruct H as [_ H]. rewrite H. reflexivity.
Qed.

(* ---- the world level: one transfer of radio `me` ---- *)
Lemma w_spi_cfg w me cmd data :
  (me < length (radios w))%nat -> cfg_cmd cmd = true ->
  let c := cview (get_radio w me) in
  let w' := fst (w_spi w me (cmd :: data)) in
  cview (get_radio w' me) = fst (cspi c (cmd :: data))
  /\ snd (w_spi w me (cmd :: data)) = status (get_radio w me) :: snd (cspi c (cmd :: data))
  /\ (forall j, j <> me -> cview (get_radio w' j) = cview (get_radio w j))
  /\ length (radios w') = length (radios w).
Proof.
  intros Hme Hc c w'. repeat split.
  - unfold w'. rewrite w_spi_cview_me by exact Hme. apply spi_cview.
  - rewrite w_spi_reply. apply spi_reply_cfg. exact Hc.
  - intros j Hj. unfold w'. apply w_spi_cview_other. congruence.
  - apply w_spi_length.
Qed.

(* commands that leave the configuration alone (payload access, flushes, NOP ...) *)
Lemma w_spi_noncfg w me cmd data :
  (me < length (radios w))%nat -> (64 <=? cmd) = true -> (cmd =? 80) = false ->
  let w' := fst (w_spi w me (cmd :: data)) in
  cview (get_radio w' me) = cview (get_radio w me)
  /\ (forall j, j <> me -> cview (get_radio w' j) = cview (get_radio w j))
  /\ length (radios w') = length (radios w).
Proof.
  intros Hme H64 H80 w'. repeat split.
  - unfold w'. rewrite w_spi_cview_me by exact Hme. rewrite spi_cview. unfold cspi.
    apply N.leb_le in H64.
    replace (cmd <? 32) with false by (symmetry; apply N.ltb_ge; lia).
    replace (cmd <? 64) with false by (symmetry; apply N.ltb_ge; lia).
    rewrite H80. reflexivity.
  - intros j Hj. unfold w'. apply w_spi_cview_other. congruence.
  - apply w_spi_length.
Qed.

(* QuietFacts.v -- worlds in which only radio `me` can transmit (every other radio is a receiver, in standby
   or powered down): there `settle` is "exchange radio me while it can transmit", SPI transfers and CE changes
   of radio `me` have no hidden effects, and one exchange latches exactly TX_DS or MAX_RT on radio `me`. *)
From Coq Require Import NArith Arith List Bool Lia.
From NRF Require Import Env.Radio Env.RadioFacts Env.World Env.WorldFacts.
Import ListNotations.
Local Open Scope N_scope.

Definition active (r : radio) : bool := pwr_up r && negb (prim_rx r) && ce r.

Lemma can_tx_active r :
  can_tx r = active r && negb (max_rt r) && match tx_fifo r with [] => false | _ => true end.
Proof. reflexivity. Qed.

Lemma active_cview r r' : cview r = cview r' -> active r = active r'.
Proof.
  intro H. unfold active, pwr_up, prim_rx, sreg.
  assert (E1 : sregs r = sregs r') by (injection H; auto).
  assert (E2 : ce r = ce r') by (injection H; auto).
  rewrite E1, E2. reflexivity.
Qed.

Definition OthersPassive (w : world) (me : nat) : Prop := forall j, j <> me -> active (get_radio w j) = false.

Lemma others_passive_wcfgs w w' me : wcfgs w' = wcfgs w -> OthersPassive w me -> OthersPassive w' me.
Proof.
  intros H P j Hj. rewrite <- (P j Hj). apply active_cview. apply get_radio_cview_eq. exact H.
Qed.

Lemma others_passive_set_me w me r : OthersPassive w me -> OthersPassive (set_radio w me r) me.
Proof. intros P j Hj. rewrite get_set_radio_other by congruence. exact (P j Hj). Qed.

(* find_tx scans from index 0; in a world where the others are passive it can only find `me` *)
Lemma find_tx_none rs : forall k, (forall j, can_tx (nth j rs (reset_radio true)) = false) -> find_tx rs k = None.
Proof.
  induction rs as [|r t IH]; intros k H; [reflexivity|]. cbn [find_tx].
  pose proof (H 0%nat) as H0. cbn [nth] in H0. rewrite H0. apply IH. intro j. exact (H (S j)).
Qed.

Lemma find_tx_only rs : forall k me,
  (forall j, j <> me -> can_tx (nth j rs (reset_radio true)) = false) ->
  can_tx (nth me rs (reset_radio true)) = true -> (me < length rs)%nat ->
  find_tx rs k = Some (k + me)%nat.
Proof.
  induction rs as [|r t IH]; intros k me H Hc Hl; [cbn in Hl; lia|]. cbn [find_tx].
  destruct me as [|m].
  - cbn [nth] in Hc. rewrite Hc. f_equal. lia.
  - assert (H0 : can_tx r = false) by (apply (H 0%nat); lia). rewrite H0. rewrite (IH (S k) m).
    + f_equal. lia.
    + intros j Hj. apply (H (S j)). lia.
    + exact Hc.
    + cbn in Hl. lia.
Qed.

Lemma can_tx_reset : can_tx (reset_radio true) = false.
Proof. reflexivity. Qed.

Lemma passive_cannot_tx w me j : OthersPassive w me -> j <> me -> can_tx (get_radio w j) = false.
Proof. intros P Hj. rewrite can_tx_active, (P j Hj). reflexivity. Qed.

Lemma find_tx_quiet w me : OthersPassive w me -> (me < length (radios w))%nat ->
  find_tx (radios w) 0 = if can_tx (get_radio w me) then Some me else None.
Proof.
  intros P Hl. destruct (can_tx (get_radio w me)) eqn:E.
  - rewrite (find_tx_only (radios w) 0 me); [reflexivity| |exact E|exact Hl].
    intros j Hj. exact (passive_cannot_tx w me j P Hj).
  - apply find_tx_none. intro j. destruct (Nat.eq_dec j me) as [->|Hj]; [exact E|exact (passive_cannot_tx w me j P Hj)].
Qed.

(* nothing happens while radio me cannot transmit *)
Lemma settle_idle n w me : OthersPassive w me -> (me < length (radios w))%nat ->
  can_tx (get_radio w me) = false -> settle n w = w.
Proof.
  intros P Hl Hc. destruct n as [|k]; [reflexivity|]. cbn [settle].
  rewrite (find_tx_quiet w me P Hl), Hc. reflexivity.
Qed.

Lemma exchange_length w si : length (radios (exchange w si)) = length (radios w).
Proof.
  pose proof (f_equal (@length cfg) (exchange_wcfgs w si)) as H. unfold wcfgs in H. rewrite !map_length in H. exact H.
Qed.

(* one exchange and then quiet again, when the exchange leaves radio me unable to transmit *)
Lemma settle_once n w me : OthersPassive w me -> (me < length (radios w))%nat ->
  can_tx (get_radio w me) = true -> can_tx (get_radio (exchange w me) me) = false ->
  settle (S n) w = exchange w me.
Proof.
  intros P Hl Hc Hc'. cbn [settle]. rewrite (find_tx_quiet w me P Hl), Hc.
  apply (settle_idle n _ me).
  - apply (others_passive_wcfgs w); [apply exchange_wcfgs|exact P].
  - rewrite exchange_length. exact Hl.
  - exact Hc'.
Qed.

(* ---- what an exchange does to the transmitter's flags and TX FIFO ---- *)
Lemma attempt_length fuel : forall w si e noack expects made,
  length (radios (fst (fst (fst (attempt w si e noack expects fuel made))))) = length (radios w).
Proof.
  intros. pose proof (f_equal (@length cfg) (attempt_wcfgs fuel w si e noack expects made)) as H.
  unfold wcfgs in H. rewrite !map_length in H. exact H.
Qed.

(* ---- an attempt never touches the transmitter's TX FIFO nor its TX_DS / MAX_RT flags ---- *)
Definition TR (s s' : radio) : Prop := tx_fifo s' = tx_fifo s /\ N.land (flags s') 48 = N.land (flags s) 48.

Lemma TR_refl s : TR s s. Proof. split; reflexivity. Qed.
Lemma TR_trans a b c : TR a b -> TR b c -> TR a c.
Proof. intros [A1 A2] [B1 B2]. split; congruence. Qed.

Lemma land_lor_64 f : N.land (N.lor f 64) 48 = N.land f 48.
Proof. rewrite N.land_lor_distr_l. change (N.land 64 48) with 0. apply N.lor_0_r. Qed.

Lemma deliver_keeps_sender s si rs : forall j pid noack d h, (j <= si)%nat ->
  nth (si - j) (fst (fst (fst (deliver s si rs j pid noack d h)))) (reset_radio true) = nth (si - j) rs (reset_radio true).
Proof.
  induction rs as [|r t IH]; intros j pid noack d h Hj; [reflexivity|].
  cbn [deliver]. specialize (IH (S j) pid noack d h).
  destruct (deliver s si t (S j) pid noack d h) as [[[t' acked] apl] who]. cbn [fst] in IH.
  destruct (Nat.eqb j si) eqn:E.
  - apply Nat.eqb_eq in E. subst j. rewrite Nat.sub_diag. reflexivity.
  - apply Nat.eqb_neq in E.
    assert (Hlt : (S j <= si)%nat) by lia. specialize (IH Hlt).
    replace (si - j)%nat with (S (si - S j)) by lia.
    destruct (rx_pipe s r d) as [p|]; [destruct (receive r p pid noack d h) as [[r' a] pl]|]; cbn [fst nth]; exact IH.
Qed.

Lemma success_TR w2 si (apl : option (list N)) :
  TR (get_radio w2 si)
     (get_radio (set_radio w2 si
        (match apl with
         | Some a => if rx_full (get_radio w2 si) then get_radio w2 si
                     else with_flags (with_fifos (get_radio w2 si) (rx_fifo (get_radio w2 si) ++ [(0, a)]) (tx_fifo (get_radio w2 si)))
                                     (N.lor (flags (get_radio w2 si)) 64)
         | None => get_radio w2 si
         end)) si).
Proof.
  destruct (Nat.lt_ge_cases si (length (radios w2))) as [Hl|Hl].
  - rewrite get_set_radio_same by exact Hl.
    destruct apl as [a|]; [|apply TR_refl]. destruct (rx_full _); [apply TR_refl|].
    split; [reflexivity|cbn [flags with_flags with_fifos]; apply land_lor_64].
  - unfold set_radio, get_radio at 1. cbn [radios]. rewrite set_nth_radio_oob by exact Hl. apply TR_refl.
Qed.

Lemma attempt_transmitter fuel : forall w si e noack expects made,
  TR (get_radio w si) (get_radio (fst (fst (fst (attempt w si e noack expects fuel made)))) si).
Proof.
  induction fuel as [|k IH]; intros w si e noack expects made; [apply TR_refl|].
  cbn [attempt].
  assert (Hn : get_radio (snd (next_fate w)) si = get_radio w si) by (unfold next_fate; destruct (oracle w); reflexivity).
  destruct (next_fate w) as [f w1]. cbn [snd] in Hn.
  destruct f.
  - (* Delivered *)
    match goal with
    | |- context [deliver ?s ?i ?rs ?j ?pid ?na ?d ?h] =>
      pose proof (deliver_keeps_sender s i rs j pid na d h (Nat.le_0_l _)) as Hd;
      destruct (deliver s i rs j pid na d h) as [[[rs' acked] apl] who]; cbn [fst] in Hd
    end.
    rewrite Nat.sub_0_r in Hd.
    assert (H2 : get_radio (mkWorld rs' (oracle w1) (air w1) (clock w1)) si = get_radio w si)
      by (unfold get_radio at 1; cbn [radios]; rewrite Hd; exact Hn).
    cbv zeta. destruct (negb expects); [cbn [fst]; rewrite H2; apply TR_refl|].
    match goal with |- context [if ?c then _ else _] => destruct c end.
    + cbn [fst]. rewrite <- H2. apply success_TR.
    + specialize (IH (mkWorld rs' (oracle w1) (air w1) (clock w1)) si e noack expects (made + 1)).
      destruct (attempt _ _ _ _ _ _ _) as [[[w3 ok] m] who']. cbn [fst] in IH |- *. rewrite <- H2. exact IH.
  - (* PacketLost *)
    destruct expects; [rewrite <- Hn; apply IH|cbn [fst]; rewrite <- Hn; apply TR_refl].
  - (* AckLost *)
    match goal with
    | |- context [deliver ?s ?i ?rs ?j ?pid ?na ?d ?h] =>
      pose proof (deliver_keeps_sender s i rs j pid na d h (Nat.le_0_l _)) as Hd;
      destruct (deliver s i rs j pid na d h) as [[[rs' acked] apl] who]; cbn [fst] in Hd
    end.
    rewrite Nat.sub_0_r in Hd.
    assert (H2 : get_radio (mkWorld rs' (oracle w1) (air w1) (clock w1)) si = get_radio w si)
      by (unfold get_radio at 1; cbn [radios]; rewrite Hd; exact Hn).
    cbv zeta. destruct (negb expects); [cbn [fst]; rewrite H2; apply TR_refl|].
    match goal with |- context [if ?c then _ else _] => destruct c end.
    + cbn [fst]. rewrite <- H2. apply success_TR.
    + specialize (IH (mkWorld rs' (oracle w1) (air w1) (clock w1)) si e noack expects (made + 1)).
      destruct (attempt _ _ _ _ _ _ _) as [[[w3 ok] m] who']. cbn [fst] in IH |- *. rewrite <- H2. exact IH.
Qed.

(* the outcome of an exchange as the world decides it *)
Definition exchange_ok (w : world) (si : nat) : bool :=
  let s := get_radio w si in
  match tx_fifo s with
  | [] => false
  | e :: _ =>
    let noack := match tx_kind e with TxNoAck => en_dyn_ack s | _ => false end in
    let expects := bitb (sreg s R_EN_AA) 0 && negb noack in
    let arc := N.land (sreg s R_SETUP_RETR) 15 in
    snd (fst (fst (attempt w si e noack expects (if expects then S (N.to_nat arc) else 1) 0)))
  end.

(* after the exchange of a queued payload: exactly TX_DS on success (and the payload has left the TX FIFO), exactly
   MAX_RT on failure (and the payload stays); the transmitter's RX FIFO can only have grown by an ACK payload *)
Lemma exchange_transmitter w si e rest :
  (si < length (radios w))%nat -> tx_fifo (get_radio w si) = e :: rest ->
  let s' := get_radio (exchange w si) si in
  exists s1, TR (get_radio w si) s1 /\
    (if exchange_ok w si
     then flags s' = N.lor (flags s1) 32 /\ tx_fifo s' = tl (tx_fifo s1)
     else flags s' = N.lor (flags s1) 16 /\ tx_fifo s' = tx_fifo s1)
    /\ cview s' = cview (get_radio w si).
Proof.
  intros Hl Ht. cbv zeta. unfold exchange_ok, exchange. rewrite Ht. cbv zeta.
  match goal with
  | |- context [attempt ?a ?b ?c ?d ?x ?f ?g] =>
    pose proof (attempt_length f a b c d x g) as HL; pose proof (attempt_wcfgs f a b c d x g) as HW;
      pose proof (attempt_transmitter f a b c d x g) as HT;
      destruct (attempt a b c d x f g) as [[[w1 ok] made] who]; cbn [fst snd] in HL, HW, HT |- *
  end.
  exists (get_radio w1 si). split; [exact HT|].
  assert (Hl1 : (si < length (radios w1))%nat) by (rewrite HL; exact Hl).
  match goal with |- context [get_radio (mkWorld (radios (set_radio w1 si ?r)) ?o ?a ?c) si] =>
    change (get_radio (mkWorld (radios (set_radio w1 si r)) o a c) si) with (get_radio (set_radio w1 si r) si);
    rewrite (get_set_radio_same w1 si r Hl1)
  end.
  split.
  - destruct ok; split; reflexivity.
  - transitivity (cview (get_radio w1 si)); [destruct ok; reflexivity|]. apply get_radio_cview_eq. exact HW.
Qed.

(* ---- delivery: what an exchange puts into a receiver's RX FIFO ---- *)
Definition is_dup (r : radio) (pid : N) (d : list N) : bool :=
  match last_rx r with Some (q, d') => (q =? pid) && list_eqb d d' | None => false end.

Lemma list_eqb_refl l : list_eqb l l = true.
Proof. induction l as [|x t IH]; cbn [list_eqb]; [reflexivity|]. rewrite N.eqb_refl, IH. reflexivity. Qed.

(* a fresh packet on a non-full FIFO is appended, on the pipe it matched, and remembered *)
Lemma receive_fresh r p pid noack d h : rx_full r = false -> is_dup r pid d = false ->
  let r' := fst (fst (receive r p pid noack d h)) in
  rx_fifo r' = rx_fifo r ++ [(p, d)] /\ last_rx r' = Some (pid, d).
Proof.
  intros Hf Hd. unfold receive. rewrite Hf. unfold is_dup in Hd. rewrite Hd. cbv zeta.
  repeat match goal with
         | |- context [if ?c then _ else _] => destruct c
         | |- context [match take_ack ?a ?b with _ => _ end] => destruct (take_ack a b) as [[? ?]|]
         end; split; reflexivity.
Qed.

(* a repeated packet (same PID and payload as the last one accepted) never enters the FIFO again *)
Lemma receive_dup r p pid noack d h : is_dup r pid d = true ->
  let r' := fst (fst (receive r p pid noack d h)) in
  rx_fifo r' = rx_fifo r /\ last_rx r' = last_rx r.
Proof.
  intros Hd. unfold receive. destruct (rx_full r); [split; reflexivity|]. unfold is_dup in Hd. rewrite Hd. cbv zeta.
  repeat match goal with
         | |- context [if ?c then _ else _] => destruct c
         | |- context [match take_ack ?a ?b with _ => _ end] => destruct (take_ack a b) as [[? ?]|]
         end; split; reflexivity.
Qed.

Lemma deliver_at s si rs : forall j0 pid noack d h k, (k < length rs)%nat ->
  nth k (fst (fst (fst (deliver s si rs j0 pid noack d h)))) (reset_radio true) =
  let r := nth k rs (reset_radio true) in
  if Nat.eqb (j0 + k) si then r
  else match rx_pipe s r d with
       | None => r
       | Some p => fst (fst (receive r p pid noack d h))
       end.
Proof.
  induction rs as [|r t IH]; intros j0 pid noack d h k Hk; [cbn in Hk; lia|].
  cbn [deliver]. specialize (IH (S j0) pid noack d h).
  destruct (deliver s si t (S j0) pid noack d h) as [[[t' acked] apl] who]. cbn [fst] in IH.
  destruct k as [|k].
  - rewrite Nat.add_0_r. cbn [nth]. destruct (Nat.eqb j0 si); [reflexivity|].
    destruct (rx_pipe s r d) as [p|]; [destruct (receive r p pid noack d h) as [[r' a] pl]|]; reflexivity.
  - assert (Hk' : (k < length t)%nat) by (cbn in Hk; lia). specialize (IH k Hk').
    replace (j0 + S k)%nat with (S j0 + k)%nat by lia.
    destruct (Nat.eqb j0 si); [cbn [fst nth]; exact IH|].
    destruct (rx_pipe s r d) as [p|]; [destruct (receive r p pid noack d h) as [[r' a] pl]|]; cbn [fst nth]; exact IH.
Qed.

Lemma deliver_length s si rs : forall j0 pid noack d h,
  length (fst (fst (fst (deliver s si rs j0 pid noack d h)))) = length rs.
Proof.
  intros. pose proof (f_equal (@length cfg) (deliver_cview s si rs j0 pid noack d h)) as H. rewrite !map_length in H. exact H.
Qed.

(* once radio j has accepted (pid, data), no further attempt of the same exchange changes its RX FIFO *)
Lemma attempt_receiver_dup fuel : forall w si e noack expects made j,
  j <> si -> is_dup (get_radio w j) (tx_pid e) (tx_data e) = true ->
  let w' := fst (fst (fst (attempt w si e noack expects fuel made))) in
  rx_fifo (get_radio w' j) = rx_fifo (get_radio w j) /\ is_dup (get_radio w' j) (tx_pid e) (tx_data e) = true.
Proof.
  induction fuel as [|k IH]; intros w si e noack expects made j Hj Hd; [split; [reflexivity|exact Hd]|].
  cbn [attempt].
  assert (Hn : get_radio (snd (next_fate w)) j = get_radio w j) by (unfold next_fate; destruct (oracle w); reflexivity).
  destruct (next_fate w) as [f w1]. cbn [snd] in Hn.
  assert (Step : forall h,
            let rs' := fst (fst (fst (deliver (get_radio w si) si (radios w1) 0 (tx_pid e) noack (tx_data e) h))) in
            rx_fifo (nth j rs' (reset_radio true)) = rx_fifo (get_radio w j)
            /\ is_dup (nth j rs' (reset_radio true)) (tx_pid e) (tx_data e) = true).
  { intro h. cbv zeta. destruct (Nat.lt_ge_cases j (length (radios w1))) as [Hl|Hl].
    - rewrite deliver_at by exact Hl. cbv zeta. cbn [Nat.add].
      replace (Nat.eqb j si) with false by (symmetry; apply Nat.eqb_neq; exact Hj).
      fold (get_radio w1 j). rewrite Hn.
      destruct (rx_pipe (get_radio w si) (get_radio w j) (tx_data e)) as [p|]; [|split; [reflexivity|exact Hd]].
      destruct (receive_dup (get_radio w j) p (tx_pid e) noack (tx_data e) h Hd) as [A B].
      split; [exact A|]. unfold is_dup. rewrite B. exact Hd.
    - rewrite nth_overflow by (rewrite deliver_length; exact Hl).
      assert (E : get_radio w1 j = reset_radio true) by (unfold get_radio; apply nth_overflow; exact Hl).
      rewrite E in Hn. rewrite Hn. split; [reflexivity|exact Hd]. }
  destruct f.
  - specialize (Step (expects && hears_ack (get_radio w si))). cbv zeta in Step.
    destruct (deliver _ _ _ _ _ _ _ _) as [[[rs' acked] apl] who]. cbn [fst] in Step. destruct Step as [S1 S2].
    cbv zeta. destruct (negb expects); [cbn [fst]; split; assumption|].
    match goal with |- context [if ?c then _ else _] => destruct c end.
    + cbn [fst]. rewrite get_set_radio_other by congruence. split; assumption.
    + specialize (IH (mkWorld rs' (oracle w1) (air w1) (clock w1)) si e noack expects (made + 1) j Hj S2).
      destruct (attempt _ _ _ _ _ _ _) as [[[w3 ok] m] who']. cbn [fst] in IH |- *. destruct IH as [I1 I2].
      split; [rewrite I1; exact S1|exact I2].
  - destruct expects; [|cbn [fst]; rewrite Hn; split; [reflexivity|exact Hd]].
    specialize (IH w1 si e noack true (made + 1) j Hj). rewrite Hn in IH. exact (IH Hd).
  - specialize (Step (expects && false)). cbv zeta in Step.
    destruct (deliver _ _ _ _ _ _ _ _) as [[[rs' acked] apl] who]. cbn [fst] in Step. destruct Step as [S1 S2].
    cbv zeta. destruct (negb expects); [cbn [fst]; split; assumption|].
    match goal with |- context [if ?c then _ else _] => destruct c end.
    + cbn [fst]. rewrite get_set_radio_other by congruence. split; assumption.
    + specialize (IH (mkWorld rs' (oracle w1) (air w1) (clock w1)) si e noack expects (made + 1) j Hj S2).
      destruct (attempt _ _ _ _ _ _ _) as [[[w3 ok] m] who']. cbn [fst] in IH |- *. destruct IH as [I1 I2].
      split; [rewrite I1; exact S1|exact I2].
Qed.

Lemma is_dup_after_fresh r p pid noack d h : rx_full r = false -> is_dup r pid d = false ->
  is_dup (fst (fst (receive r p pid noack d h))) pid d = true.
Proof.
  intros Hf Hd. destruct (receive_fresh r p pid noack d h Hf Hd) as [_ L]. unfold is_dup. rewrite L.
  rewrite N.eqb_refl, list_eqb_refl. reflexivity.
Qed.

(* C01, environment side: when the first attempt of an exchange is not lost, a listening radio whose pipe p matches
   (address, channel, rate, CRC, width, payload format) and whose RX FIFO has room receives the payload exactly
   once on pipe p -- however many retransmissions and lost ACKs follow *)
Theorem exchange_delivers w si j e rest p :
  (si < length (radios w))%nat -> (j < length (radios w))%nat -> j <> si ->
  tx_fifo (get_radio w si) = e :: rest ->
  match oracle w with PacketLost :: _ => False | _ => True end ->
  rx_pipe (get_radio w si) (get_radio w j) (tx_data e) = Some p ->
  rx_full (get_radio w j) = false -> is_dup (get_radio w j) (tx_pid e) (tx_data e) = false ->
  rx_fifo (get_radio (exchange w si) j) = rx_fifo (get_radio w j) ++ [(p, tx_data e)].
Proof.
  intros Hsi Hj Hne Ht Hor Hp Hfull Hdup. unfold exchange. rewrite Ht. cbv zeta.
  set (noack := match tx_kind e with TxNoAck => en_dyn_ack (get_radio w si) | _ => false end).
  set (expects := bitb (sreg (get_radio w si) R_EN_AA) 0 && negb noack).
  assert (Core : forall k made,
            rx_fifo (get_radio (fst (fst (fst (attempt w si e noack expects (S k) made)))) j)
            = rx_fifo (get_radio w j) ++ [(p, tx_data e)]).
  { intros k made. cbn [attempt].
    assert (Hw1 : radios (snd (next_fate w)) = radios w) by (unfold next_fate; destruct (oracle w); reflexivity).
    assert (Hf : fst (next_fate w) <> PacketLost).
    { unfold next_fate. destruct (oracle w) as [|f t]; cbn [fst]; [discriminate|]. destruct f; [discriminate|contradiction|discriminate]. }
    destruct (next_fate w) as [f w1]. cbn [fst snd] in Hw1, Hf.
    assert (Step : forall h,
              let rs' := fst (fst (fst (deliver (get_radio w si) si (radios w1) 0 (tx_pid e) noack (tx_data e) h))) in
              rx_fifo (nth j rs' (reset_radio true)) = rx_fifo (get_radio w j) ++ [(p, tx_data e)]
              /\ is_dup (nth j rs' (reset_radio true)) (tx_pid e) (tx_data e) = true).
    { intro h. cbv zeta. rewrite deliver_at by (rewrite Hw1; exact Hj). cbv zeta. cbn [Nat.add].
      replace (Nat.eqb j si) with false by (symmetry; apply Nat.eqb_neq; exact Hne).
      rewrite Hw1. fold (get_radio w j). rewrite Hp.
      split; [apply (receive_fresh _ _ _ _ _ _ Hfull Hdup)|apply is_dup_after_fresh; assumption]. }
    destruct f; [|contradiction|].
    - specialize (Step (expects && hears_ack (get_radio w si))). cbv zeta in Step.
      destruct (deliver _ _ _ _ _ _ _ _) as [[[rs' acked] apl] who]. cbn [fst] in Step. destruct Step as [S1 S2].
      cbv zeta. destruct (negb expects); [cbn [fst]; exact S1|].
      match goal with |- context [if ?c then _ else _] => destruct c end.
      + cbn [fst]. rewrite get_set_radio_other by congruence. exact S1.
      + pose proof (attempt_receiver_dup k (mkWorld rs' (oracle w1) (air w1) (clock w1)) si e noack expects (made + 1) j Hne S2) as A.
        cbv zeta in A. destruct (attempt _ _ _ _ _ _ _) as [[[w3 ok] m] who']. cbn [fst] in A |- *. rewrite (proj1 A). exact S1.
    - specialize (Step (expects && false)). cbv zeta in Step.
      destruct (deliver _ _ _ _ _ _ _ _) as [[[rs' acked] apl] who]. cbn [fst] in Step. destruct Step as [S1 S2].
      cbv zeta. destruct (negb expects); [cbn [fst]; exact S1|].
      match goal with |- context [if ?c then _ else _] => destruct c end.
      + cbn [fst]. rewrite get_set_radio_other by congruence. exact S1.
      + pose proof (attempt_receiver_dup k (mkWorld rs' (oracle w1) (air w1) (clock w1)) si e noack expects (made + 1) j Hne S2) as A.
        cbv zeta in A. destruct (attempt _ _ _ _ _ _ _) as [[[w3 ok] m] who']. cbn [fst] in A |- *. rewrite (proj1 A). exact S1. }
  assert (Fuel : exists k, (if expects then S (N.to_nat (N.land (sreg (get_radio w si) R_SETUP_RETR) 15)) else 1%nat) = S k)
    by (destruct expects; eexists; reflexivity).
  destruct Fuel as [k Ek]. rewrite Ek. specialize (Core k 0).
  destruct (attempt w si e noack expects (S k) 0) as [[[w1 ok] made] who]. cbn [fst] in Core.
  match goal with |- context [get_radio (mkWorld (radios (set_radio w1 si ?r)) ?o ?a ?c) j] =>
    change (get_radio (mkWorld (radios (set_radio w1 si r)) o a c) j) with (get_radio (set_radio w1 si r) j)
  end.
  rewrite get_set_radio_other by congruence. exact Core.
Qed.

(* Radio.v -- model of one nRF24L01(+) as seen through its SPI port and CE pin.
   Written from the nRF24L01+ product specification v1.0 (register map, command set);
   nothing in /repo corresponds to this file: it is the ENVIRONMENT the driver models
   are run and proved against, and the radio behind the SPI shim in the
   correspondence runs.  Part of the trusted base (modelled, not verified).
   Model only: no proofs here. *)
From Coq Require Import NArith List Bool.
Import ListNotations.
Local Open Scope N_scope.

(* ---- register addresses ---- *)
Definition R_CONFIG : N := 0.      Definition R_EN_AA : N := 1.
Definition R_EN_RXADDR : N := 2.   Definition R_SETUP_AW : N := 3.
Definition R_SETUP_RETR : N := 4.  Definition R_RF_CH : N := 5.
Definition R_RF_SETUP : N := 6.    Definition R_STATUS : N := 7.
Definition R_OBSERVE_TX : N := 8.  Definition R_RPD : N := 9.
Definition R_RX_ADDR_P0 : N := 10. Definition R_RX_ADDR_P1 : N := 11.
Definition R_TX_ADDR : N := 16.    Definition R_RX_PW_P0 : N := 17.
Definition R_FIFO_STATUS : N := 23.
Definition R_DYNPD : N := 28.      Definition R_FEATURE : N := 29.

Inductive txkind := TxNormal | TxNoAck | TxAckPl (pipe : N).

Record txentry := mkTx { tx_kind : txkind; tx_pid : N; tx_data : list N }.

Record radio := mkRadio {
  sregs : list N;          (* single-byte storage for addresses 0..29 (STATUS, OBSERVE_TX,
                              RPD, FIFO_STATUS and the multi-byte slots are derived/unused) *)
  addr_p0 : list N;        (* RX_ADDR_P0, 5 bytes, LSByte first *)
  addr_p1 : list N;
  addr_tx : list N;
  flags : N;               (* latched RX_DR(0x40) TX_DS(0x20) MAX_RT(0x10) *)
  rx_fifo : list (N * list N);   (* (pipe, payload), oldest first, depth 3 *)
  tx_fifo : list txentry;        (* oldest first, depth 3 *)
  ce : bool;
  is_plus : bool;          (* nRF24L01+ ; the non-plus needs ACTIVATE for FEATURE/DYNPD *)
  activated : bool;
  arc_cnt : N;             (* OBSERVE_TX low nibble *)
  plos_cnt : N;            (* OBSERVE_TX high nibble *)
  next_pid : N;            (* 2-bit packet id given to the next loaded payload *)
  last_rx : option (N * list N)  (* pid and payload of the last packet received *)
}.

Definition reset_sregs : list N :=
  [ 8; 63; 3; 3; 3; 2; 14; 0; 0; 0;      (* 00..09 *)
    0; 0; 195; 196; 197; 198;            (* 0A,0B unused here; 0C..0F = C3 C4 C5 C6 *)
    0; 0; 0; 0; 0; 0; 0;                 (* 10 unused; 11..16 RX_PW *)
    0; 0; 0; 0; 0;                       (* 17..1B *)
    0; 0 ].                              (* 1C DYNPD, 1D FEATURE *)

Definition reset_radio (plus : bool) : radio :=
  mkRadio reset_sregs [231;231;231;231;231] [194;194;194;194;194] [231;231;231;231;231]
          0 [] [] false plus plus 0 0 0 None.

Definition sreg (r : radio) (a : N) : N := nth (N.to_nat a) (sregs r) 0.

Fixpoint set_nth (l : list N) (i : nat) (v : N) : list N :=
  match l, i with
  | [], _ => []
  | _ :: t, O => v :: t
  | x :: t, S k => x :: set_nth t k v
  end.

Definition set_sreg (r : radio) (a v : N) : radio :=
  mkRadio (set_nth (sregs r) (N.to_nat a) v) (addr_p0 r) (addr_p1 r) (addr_tx r) (flags r)
          (rx_fifo r) (tx_fifo r) (ce r) (is_plus r) (activated r) (arc_cnt r) (plos_cnt r)
          (next_pid r) (last_rx r).

Definition bitb (v : N) (i : N) : bool := N.testbit v i.

(* ---- derived registers ---- *)
Definition rx_p_no (r : radio) : N :=
  match rx_fifo r with
  | [] => 7
  | (p, _) :: _ => p
  end.

Definition tx_full (r : radio) : bool := (3 <=? N.of_nat (length (tx_fifo r))).

Definition status (r : radio) : N :=
  N.lor (flags r) (N.lor (N.shiftl (rx_p_no r) 1) (if tx_full r then 1 else 0)).

Definition fifo_status (r : radio) : N :=
  N.lor (if tx_full r then 32 else 0)
  (N.lor (match tx_fifo r with [] => 16 | _ => 0 end)
  (N.lor (if 3 <=? N.of_nat (length (rx_fifo r)) then 2 else 0)
         (match rx_fifo r with [] => 1 | _ => 0 end))).

Definition observe_tx (r : radio) : N := N.lor (N.shiftl (plos_cnt r) 4) (arc_cnt r).

(* ---- configuration decoded ---- *)
Definition pwr_up (r : radio) : bool := bitb (sreg r R_CONFIG) 1.
Definition prim_rx (r : radio) : bool := bitb (sreg r R_CONFIG) 0.
Definition addr_width (r : radio) : nat := N.to_nat (N.land (sreg r R_SETUP_AW) 3) + 2.
Definition feature (r : radio) : N := if activated r then sreg r R_FEATURE else 0.
Definition en_dpl (r : radio) : bool := bitb (feature r) 2.
Definition en_ack_pay (r : radio) : bool := bitb (feature r) 1.
Definition en_dyn_ack (r : radio) : bool := bitb (feature r) 0.
Definition dynpd (r : radio) : N := if activated r then sreg r R_DYNPD else 0.
(* the data sheet also asks for ENAA_Pp; deployed RF24Network multicasts rely on DPL
   working with auto-ack off on pipe 0, so only EN_DPL and DPL_Pp are required here *)
Definition pipe_dynamic (r : radio) (p : N) : bool :=
  en_dpl r && bitb (dynpd r) p.
Definition max_rt (r : radio) : bool := bitb (flags r) 4.

(* full 5-byte address register of pipe p as the radio uses it *)
Definition pipe_addr (r : radio) (p : N) : list N :=
  if p =? 0 then addr_p0 r
  else if p =? 1 then addr_p1 r
  else sreg r (R_RX_ADDR_P0 + p) :: tl (addr_p1 r).

(* ---- register access ---- *)
Definition pad (n : nat) (l : list N) : list N := firstn n (l ++ repeat 0 n).

Definition read_reg (r : radio) (a : N) (n : nat) : list N :=
  if a =? R_RX_ADDR_P0 then pad n (addr_p0 r)
  else if a =? R_RX_ADDR_P1 then pad n (addr_p1 r)
  else if a =? R_TX_ADDR then pad n (addr_tx r)
  else if a =? R_STATUS then pad n [status r]
  else if a =? R_OBSERVE_TX then pad n [observe_tx r]
  else if a =? R_RPD then pad n [0]
  else if a =? R_FIFO_STATUS then pad n [fifo_status r]
  else if (a =? R_DYNPD) || (a =? R_FEATURE) then pad n [if activated r then sreg r a else 0]
  else pad n [sreg r a].

(* a shorter write replaces only the leading (least significant) bytes *)
Definition overlay (new old : list N) : list N :=
  firstn (length old) (new ++ skipn (length new) old).

Definition wmask (a : N) : N :=
  if a =? R_CONFIG then 127
  else if (a =? R_EN_AA) || (a =? R_EN_RXADDR) || (a =? R_DYNPD) then 63
  else if a =? R_SETUP_AW then 3
  else if a =? R_SETUP_RETR then 255
  else if a =? R_RF_CH then 127
  else if a =? R_RF_SETUP then 191
  else if (R_RX_PW_P0 <=? a) && (a <=? R_RX_PW_P0 + 5) then 63
  else if a =? R_FEATURE then 7
  else if (12 <=? a) && (a <=? 15) then 255
  else 0.

Definition with_addrs (r : radio) (p0 p1 tx : list N) : radio :=
  mkRadio (sregs r) p0 p1 tx (flags r) (rx_fifo r) (tx_fifo r) (ce r) (is_plus r) (activated r)
          (arc_cnt r) (plos_cnt r) (next_pid r) (last_rx r).

Definition with_flags (r : radio) (f : N) : radio :=
  mkRadio (sregs r) (addr_p0 r) (addr_p1 r) (addr_tx r) f (rx_fifo r) (tx_fifo r) (ce r)
          (is_plus r) (activated r) (arc_cnt r) (plos_cnt r) (next_pid r) (last_rx r).

Definition with_fifos (r : radio) (rx : list (N * list N)) (tx : list txentry) : radio :=
  mkRadio (sregs r) (addr_p0 r) (addr_p1 r) (addr_tx r) (flags r) rx tx (ce r)
          (is_plus r) (activated r) (arc_cnt r) (plos_cnt r) (next_pid r) (last_rx r).

Definition with_ce (r : radio) (v : bool) : radio :=
  mkRadio (sregs r) (addr_p0 r) (addr_p1 r) (addr_tx r) (flags r) (rx_fifo r) (tx_fifo r) v
          (is_plus r) (activated r) (arc_cnt r) (plos_cnt r) (next_pid r) (last_rx r).

Definition with_activated (r : radio) (v : bool) : radio :=
  mkRadio (sregs r) (addr_p0 r) (addr_p1 r) (addr_tx r) (flags r) (rx_fifo r) (tx_fifo r) (ce r)
          (is_plus r) v (arc_cnt r) (plos_cnt r) (next_pid r) (last_rx r).

Definition with_observe (r : radio) (arc plos : N) : radio :=
  mkRadio (sregs r) (addr_p0 r) (addr_p1 r) (addr_tx r) (flags r) (rx_fifo r) (tx_fifo r) (ce r)
          (is_plus r) (activated r) arc plos (next_pid r) (last_rx r).

Definition with_pid (r : radio) (p : N) : radio :=
  mkRadio (sregs r) (addr_p0 r) (addr_p1 r) (addr_tx r) (flags r) (rx_fifo r) (tx_fifo r) (ce r)
          (is_plus r) (activated r) (arc_cnt r) (plos_cnt r) p (last_rx r).

Definition with_last_rx (r : radio) (l : option (N * list N)) : radio :=
  mkRadio (sregs r) (addr_p0 r) (addr_p1 r) (addr_tx r) (flags r) (rx_fifo r) (tx_fifo r) (ce r)
          (is_plus r) (activated r) (arc_cnt r) (plos_cnt r) (next_pid r) l.

Definition write_reg (r : radio) (a : N) (data : list N) : radio :=
  match data with
  | [] => r
  | v :: _ =>
    if a =? R_RX_ADDR_P0 then with_addrs r (overlay data (addr_p0 r)) (addr_p1 r) (addr_tx r)
    else if a =? R_RX_ADDR_P1 then with_addrs r (addr_p0 r) (overlay data (addr_p1 r)) (addr_tx r)
    else if a =? R_TX_ADDR then with_addrs r (addr_p0 r) (addr_p1 r) (overlay data (addr_tx r))
    else if a =? R_STATUS then with_flags r (N.land (flags r) (N.lxor 112 (N.land v 112)))
    else if ((a =? R_DYNPD) || (a =? R_FEATURE)) && negb (activated r) then r
    else if a =? R_RF_CH then with_observe (set_sreg r a (N.land v (wmask a))) (arc_cnt r) 0
    else if wmask a =? 0 then r
    else set_sreg r a (N.land v (wmask a))
  end.

(* ---- SPI commands: one CSN-framed transfer; MISO[0] = STATUS before the command ---- *)
Definition spi (r : radio) (mosi : list N) : radio * list N :=
  match mosi with
  | [] => (r, [])
  | cmd :: data =>
    let st := status r in
    let n := length data in
    if cmd <? 32 then (r, st :: read_reg r cmd n)                          (* R_REGISTER *)
    else if cmd <? 64 then (write_reg r (cmd - 32) data, st :: repeat 0 n) (* W_REGISTER *)
    else if cmd =? 80 then                                                 (* ACTIVATE *)
      match data with
      | 115 :: _ => ((if is_plus r then r else with_activated r (negb (activated r))),
                     st :: repeat 0 n)
      | _ => (r, st :: repeat 0 n)
      end
    else if cmd =? 96 then                                                 (* R_RX_PL_WID *)
      (r, st :: pad n [match rx_fifo r with [] => 0 | (_, p) :: _ => N.of_nat (length p) end])
    else if cmd =? 97 then                                                 (* R_RX_PAYLOAD *)
      match rx_fifo r with
      | [] => (r, st :: repeat 0 n)
      | (_, p) :: rest => (with_fifos r rest (tx_fifo r), st :: pad n p)
      end
    else if (cmd =? 160) || (cmd =? 176) then                              (* W_TX_PAYLOAD(_NOACK) *)
      if tx_full r then (r, st :: repeat 0 n)
      else
        let e := mkTx (if cmd =? 176 then TxNoAck else TxNormal) (next_pid r) data in
        (with_pid (with_fifos r (rx_fifo r) (tx_fifo r ++ [e])) (N.land (next_pid r + 1) 3),
         st :: repeat 0 n)
    else if (168 <=? cmd) && (cmd <=? 173) then                            (* W_ACK_PAYLOAD *)
      if tx_full r then (r, st :: repeat 0 n)
      else (with_fifos r (rx_fifo r) (tx_fifo r ++ [mkTx (TxAckPl (cmd - 168)) 0 data]),
            st :: repeat 0 n)
    else if cmd =? 225 then (with_fifos r (rx_fifo r) [], st :: repeat 0 n) (* FLUSH_TX *)
    else if cmd =? 226 then (with_fifos r [] (tx_fifo r), st :: repeat 0 n) (* FLUSH_RX *)
    else (r, st :: repeat 0 n)                                             (* NOP, REUSE_TX_PL, ... *)
  end.

(* commands whose data bytes are don't-care on MOSI (reads, flushes, NOP): the driver clocks out
   whatever its buffer holds *)
Definition mosi_data_matters (cmd : N) : bool :=
  ((32 <=? cmd) && (cmd <? 64)) || (cmd =? 80) || (cmd =? 160) || (cmd =? 176) || ((168 <=? cmd) && (cmd <=? 173)).

(* IRQ pin (active low): asserted iff an unmasked flag is latched *)
Definition irq_asserted (r : radio) : bool :=
  negb (N.land (flags r) (N.land (N.lxor 112 (N.land (sreg r R_CONFIG) 112)) 112) =? 0).

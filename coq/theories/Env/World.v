(* World.v -- several radios sharing the air: Enhanced ShockBurst exchanges with a loss
   oracle.  Environment model (see Radio.v): modelled, not verified.  An exchange is
   atomic: it happens at the moment a powered-up PTX has CE high, a payload in its TX
   FIFO and MAX_RT clear; its flags are visible to the next SPI transfer.
   Model only: no proofs here. *)
From Coq Require Import NArith List Bool.
From NRF Require Import Env.Radio.
Import ListNotations.
Local Open Scope N_scope.

Inductive fate := Delivered | PacketLost | AckLost.

Record airlog := mkLog {
  l_from : nat; l_addr : list N; l_data : list N; l_noack : bool;
  l_attempts : N; l_ok : bool;
  l_receivers : list (nat * N) }.   (* (radio, pipe + 8 if that receiver acknowledged + 16 if it did not store the packet) per attempt *)

(* clock: virtual nanoseconds; every SPI transfer costs SPI_COST, reading the clock costs
   NOW_COST (so that polling loops with a deadline terminate), sleeping adds its argument *)
Record world := mkWorld { radios : list radio; oracle : list fate; air : list airlog; clock : N }.
Definition SPI_COST : N := 10000.
Definition NOW_COST : N := 1000.

Definition get_radio (w : world) (i : nat) : radio := nth i (radios w) (reset_radio true).

Fixpoint set_nth_radio (l : list radio) (i : nat) (r : radio) : list radio :=
  match l, i with
  | [], _ => []
  | _ :: t, O => r :: t
  | x :: t, S k => x :: set_nth_radio t k r
  end.

Definition set_radio (w : world) (i : nat) (r : radio) : world :=
  mkWorld (set_nth_radio (radios w) i r) (oracle w) (air w) (clock w).

Definition next_fate (w : world) : fate * world :=
  match oracle w with
  | [] => (Delivered, w)
  | f :: t => (f, mkWorld (radios w) t (air w) (clock w))
  end.

(* ---- on-air compatibility ---- *)
Definition crc_len (r : radio) : N :=
  let c := sreg r R_CONFIG in
  if negb (sreg r R_EN_AA =? 0) || bitb c 3 then (if bitb c 2 then 2 else 1) else 0.
Definition rate_bits (r : radio) : N := N.land (sreg r R_RF_SETUP) 40.
Definition esb (r : radio) : bool := negb (sreg r R_EN_AA =? 0).

Fixpoint list_eqb (a b : list N) : bool :=
  match a, b with
  | [], [] => true
  | x :: s, y :: t => (x =? y) && list_eqb s t
  | _, _ => false
  end.

Definition listening (r : radio) : bool := pwr_up r && prim_rx r && ce r.

(* the pipe of receiver r on which a packet from sender s (payload d) is accepted *)
Definition accepts_on (s r : radio) (d : list N) (p : N) : bool :=
  bitb (sreg r R_EN_RXADDR) p
  && list_eqb (firstn (addr_width r) (pipe_addr r p)) (firstn (addr_width s) (addr_tx s))
  && (if pipe_dynamic r p then pipe_dynamic s 0
      else negb (pipe_dynamic s 0) && (sreg r (R_RX_PW_P0 + p) =? N.of_nat (length d))).

Definition rx_pipe (s r : radio) (d : list N) : option N :=
  if listening r && (sreg r R_RF_CH =? sreg s R_RF_CH) && (rate_bits r =? rate_bits s)
     && (crc_len r =? crc_len s) && Nat.eqb (addr_width r) (addr_width s) && Bool.eqb (esb r) (esb s)
  then find (accepts_on s r d) [0; 1; 2; 3; 4; 5]
  else None.

(* first W_ACK_PAYLOAD entry for pipe p, and the FIFO without it *)
Fixpoint take_ack (p : N) (l : list txentry) : option (list N * list txentry) :=
  match l with
  | [] => None
  | e :: t =>
    match tx_kind e with
    | TxAckPl q => if q =? p then Some (tx_data e, t)
                   else match take_ack p t with
                        | Some (d, t') => Some (d, e :: t')
                        | None => None
                        end
    | _ => match take_ack p t with
           | Some (d, t') => Some (d, e :: t')
           | None => None
           end
    end
  end.

Definition rx_full (r : radio) : bool := 3 <=? N.of_nat (length (rx_fifo r)).

(* receiver side of one attempt: returns the updated receiver, whether it acknowledges,
   and the ACK payload it attaches (the entry is popped only when `ack_heard`) *)
Definition receive (r : radio) (p pid : N) (noack : bool) (d : list N) (ack_heard : bool)
  : radio * bool * option (list N) :=
  if rx_full r then (r, false, None)
  else
    let dup := match last_rx r with
               | Some (q, d') => (q =? pid) && list_eqb d d'
               | None => false
               end in
    let r1 := if dup then r
              else with_flags (with_last_rx (with_fifos r (rx_fifo r ++ [(p, d)]) (tx_fifo r))
                                            (Some (pid, d)))
                              (N.lor (flags r) 64) in
    let acks := bitb (sreg r R_EN_AA) p && negb noack in
    if acks && en_ack_pay r && pipe_dynamic r p then
      match take_ack p (tx_fifo r1) with
      | Some (a, rest) =>
        ((if ack_heard then with_flags (with_fifos r1 (rx_fifo r1) rest) (N.lor (flags r1) 32) else r1),
         true, Some a)
      | None => (r1, true, None)
      end
    else (r1, acks, None).

(* deliver one attempt to every other listening radio; the first acknowledging one counts *)
Fixpoint deliver (s : radio) (si : nat) (rs : list radio) (j : nat) (pid : N) (noack : bool)
         (d : list N) (ack_heard : bool)
  : list radio * bool * option (list N) * list (nat * N) :=
  match rs with
  | [] => ([], false, None, [])
  | r :: t =>
    let '(t', acked, apl, who) := deliver s si t (S j) pid noack d ack_heard in
    if Nat.eqb j si then (r :: t', acked, apl, who)
    else
      match rx_pipe s r d with
      | None => (r :: t', acked, apl, who)
      | Some p =>
        let '(r', a, pl) := receive r p pid noack d ack_heard in
        (* + 16: the receiver did not store it (RX FIFO full, or PID and payload equal to the last packet: a duplicate) *)
        let stored := negb (Nat.eqb (length (rx_fifo r')) (length (rx_fifo r))) in
        (r' :: t', a || acked, (if a then pl else apl),
         (j, (if a then p + 8 else p) + (if stored then 0 else 16)) :: who)
      end
  end.

(* can the PTX hear an ACK: pipe 0 enabled and RX_ADDR_P0 = TX_ADDR on the address width *)
Definition hears_ack (s : radio) : bool :=
  bitb (sreg s R_EN_RXADDR) 0
  && list_eqb (firstn (addr_width s) (addr_p0 s)) (firstn (addr_width s) (addr_tx s)).

Definition can_tx (r : radio) : bool :=
  pwr_up r && negb (prim_rx r) && ce r && negb (max_rt r)
  && match tx_fifo r with [] => false | _ => true end.

(* attempts: fuel = attempts still allowed *)
Fixpoint attempt (w : world) (si : nat) (e : txentry) (noack expects : bool) (fuel : nat) (made : N)
  : world * bool * N * list (nat * N) :=
  match fuel with
  | O => (w, false, made, [])
  | S k =>
    let s := get_radio w si in
    let '(f, w1) := next_fate w in
    match f with
    | PacketLost =>
      if expects then attempt w1 si e noack expects k (made + 1) else (w1, true, made + 1, [])
    | _ =>
      let heard := match f with Delivered => hears_ack s | _ => false end in
      let '(rs', acked, apl, who) :=
          deliver s si (radios w1) 0 (tx_pid e) noack (tx_data e) (expects && heard) in
      let w2 := mkWorld rs' (oracle w1) (air w1) (clock w1) in
      if negb expects then (w2, true, made + 1, who)
      else if acked && heard then
        (* ACK received: TX_DS, and the ACK payload (if any) enters the PTX's RX FIFO *)
        let s2 := get_radio w2 si in
        let s3 := match apl with
                  | Some a => if rx_full s2 then s2
                              else with_flags (with_fifos s2 (rx_fifo s2 ++ [(0, a)]) (tx_fifo s2))
                                              (N.lor (flags s2) 64)
                  | None => s2
                  end in
        (set_radio w2 si s3, true, made + 1, who)
      else
        match attempt w2 si e noack expects k (made + 1) with
        | (w3, ok, m, who') => (w3, ok, m, who ++ who')
        end
    end
  end.

Definition exchange (w : world) (si : nat) : world :=
  let s := get_radio w si in
  match tx_fifo s with
  | [] => w
  | e :: rest =>
    let noack := match tx_kind e with TxNoAck => en_dyn_ack s | _ => false end in
    let expects := bitb (sreg s R_EN_AA) 0 && negb noack in
    let arc := N.land (sreg s R_SETUP_RETR) 15 in
    let '(w1, ok, made, who) :=
        attempt w si e noack expects (if expects then S (N.to_nat arc) else 1) 0 in
    let s1 := get_radio w1 si in
    let s2 :=
        if ok then with_observe (with_flags (with_fifos s1 (rx_fifo s1) (tl (tx_fifo s1)))
                                            (N.lor (flags s1) 32))
                                (made - 1) (plos_cnt s1)
        else with_observe (with_flags s1 (N.lor (flags s1) 16)) (made - 1)
                          (if plos_cnt s1 <? 15 then plos_cnt s1 + 1 else 15) in
    mkWorld (radios (set_radio w1 si s2)) (oracle w1)
            (air w1 ++ [mkLog si (firstn (addr_width s) (addr_tx s)) (tx_data e) noack made ok who])
            (clock w1)
  end.

Fixpoint find_tx (rs : list radio) (j : nat) : option nat :=
  match rs with
  | [] => None
  | r :: t => if can_tx r then Some j else find_tx t (S j)
  end.

Fixpoint settle (fuel : nat) (w : world) : world :=
  match fuel with
  | O => w
  | S k => match find_tx (radios w) 0 with
           | Some i => settle k (exchange w i)
           | None => w
           end
  end.

Definition tick (w : world) (ns : N) : world :=
  mkWorld (radios w) (oracle w) (air w) (clock w + ns).

Definition w_spi (w : world) (i : nat) (mosi : list N) : world * list N :=
  let '(r', miso) := spi (get_radio w i) mosi in
  (tick (settle 8 (set_radio w i r')) SPI_COST, miso).

(* time.monotonic_ns() and time.sleep() of the MCU driving the radios *)
Definition w_now (w : world) : world * N := (tick w NOW_COST, clock w + NOW_COST).
Definition w_sleep (w : world) (ns : N) : world := tick w ns.

Definition w_ce (w : world) (i : nat) (v : bool) : world :=
  settle 8 (set_radio w i (with_ce (get_radio w i) v)).

Definition new_world (plus : list bool) (o : list fate) : world :=
  mkWorld (map reset_radio plus) o [] 0.

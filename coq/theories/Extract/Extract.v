(* Extraction of the executable models for the correspondence check.
   Directives in use: those of ExtrOcamlBasic (bool, option, unit, list, prod,
   sumbool, sumor -> OCaml natives) and ExtrOcamlNativeString (string, ascii ->
   OCaml native).  N, Z, positive, nat stay the extracted inductive types.
   No Extract Constant / Extract Inductive directive of our own. *)
From Coq Require Extraction ExtrOcamlBasic ExtrOcamlNativeString.
From Coq Require Import NArith ZArith List.
From NRF Require Import Net.Addr Net.Header Net.Queue Net.QueueRun Net.HeaderRun Env.Radio Env.World Drv.RF24 Drv.RF24Run Net.Node Net.Mesh Net.NodeRun Net.Replay Ble.Ble Ble.BleRun Drv.Lite Drv.LiteRun.
Extraction Language OCaml.

Extraction "../ocaml/gen/model.ml"
  is_address_valid lvl_2_addr begin_consts logi_2_phys pipe_address route tree_path
  all_nodes run_queue run_header run_rf24 run_net run_replay run_ble run_mixed new_world w_spi w_ce snap_radio put_airlog inject get_radio set_radio
  TX_NORMAL TX_ROUTED TX_PHYSICAL TX_LOGICAL TX_MULTICAST.

(* Props/C07.v -- property C07 (a network node is listening after every public call).  PARTIAL, see DESIGN.md
   section 7: proved is the step every network method ends with -- `listen = True` on the driver -- for every
   world; that every public method of the network layer reaches that step on every path (failures and time-outs
   included) with the pipe addresses of C04 is decided by the correspondence run and its checker, which
   evaluates the listening predicate on the world snapshot after EVERY call (corr/c07.py). *)
From Coq Require Import ZArith NArith List Bool.
From NRF Require Import Env.Radio Env.World Env.WorldFacts Env.CfgFacts Drv.RF24 Drv.RF24Sim
     Drv.CfgEval Drv.CtxFacts Drv.PipeFacts.
Import ListNotations.
Local Open Scope Z_scope.

(* the epilogue `self._rf24.listen = True`: CE high, PWR_UP|PRIM_RX set, pipe 0 back on the address it was
   last opened with, TX_ADDR and every other radio's configuration untouched *)
Theorem C07_listen_epilogue : forall me d w, PInvW me d w ->
  exists d1 w1, set_listen (WB me) true d w = (Ok tt, d1, w1)
    /\ let c1 := cview (get_radio w1 me) in
       c_ce c1 = true
       /\ N.land (creg c1 0) 3 = 3%N
       /\ match d_pipe0_read_addr d with
          | Some img => c_p0 c1 = img /\ N.testbit (creg c1 2) 0 = true
          | None => N.testbit (creg c1 2) 0 = false
          end
       /\ c_tx c1 = c_tx (cview (get_radio w me))
       /\ (forall j, j <> me -> cview (get_radio w1 j) = cview (get_radio w j)).
Proof. exact listen_true_world. Qed.
Print Assumptions C07_listen_epilogue.

(* Props/C09.v -- property C09: `with` restores an object's complete radio configuration.
   Only statements, each closed by `exact`.

   Worlds: any number of radios with any traffic (Env/World.v).  `WB me` is radio number
   `me` of the world as the driver's bus; cview is the configuration of a radio (all
   registers, addresses, CE).  A driver object is its record of cached attributes `d`;
   several objects on one radio are several records used with the same `me`. *)
From Coq Require Import ZArith NArith List Bool.
From NRF Require Import Env.Radio Env.World Env.WorldFacts Env.CfgFacts Drv.RF24 Drv.RF24Sim
     Drv.RF24SimOps Drv.CfgEval Drv.CtxFacts.
Import ListNotations.
Local Open Scope Z_scope.

(* Leaving a block powers the radio down with CE low -- from ANY driver state and ANY
   radio state, and touches no other configuration register and no other radio. *)
Theorem C09_exit : forall me d w,
  (me < length (radios w))%nat -> WfC (cview (get_radio w me)) ->
  exists d1 w1, exit (WB me) d w = (Ok tt, d1, w1)
    /\ c_ce (cview (get_radio w1 me)) = false
    /\ N.testbit (creg (cview (get_radio w1 me)) 0) 1 = false
    /\ (forall a, a <> 0%N -> creg (cview (get_radio w1 me)) a = creg (cview (get_radio w me)) a)
    /\ c_p0 (cview (get_radio w1 me)) = c_p0 (cview (get_radio w me))
    /\ c_p1 (cview (get_radio w1 me)) = c_p1 (cview (get_radio w me))
    /\ c_tx (cview (get_radio w1 me)) = c_tx (cview (get_radio w me))
    /\ (forall j, j <> me -> cview (get_radio w1 j) = cview (get_radio w j)).
Proof. exact exit_world. Qed.
Print Assumptions C09_exit.

(* Entering a block programs EVERY configuration register from the entering object's own
   cached attributes (enter_regs d lists them: CONFIG with PWR_UP, RF_SETUP, EN_RXADDR,
   DYNPD, EN_AA, FEATURE, SETUP_RETR, RX_ADDR_P2..5, RX_PW_P0..5, RF_CH, SETUP_AW; plus the
   three 5-byte addresses), with CE low -- whatever state the radio was left in by other
   objects (w is arbitrary), and without touching any other radio. *)
Theorem C09_enter : forall me d w,
  (me < length (radios w))%nat -> WfC (cview (get_radio w me)) -> DrvOk d ->
  exists d1 w1, enter (WB me) d w = (Ok tt, d1, w1)
    /\ Forall (fun av => creg (cview (get_radio w1 me)) (fst av) = snd av) (enter_regs d)
    /\ c_p0 (cview (get_radio w1 me)) = d_pipe0 d
    /\ c_p1 (cview (get_radio w1 me)) = d_pipe1 d
    /\ c_tx (cview (get_radio w1 me)) = d_tx_address d
    /\ c_ce (cview (get_radio w1 me)) = false
    /\ d_config d1 = Z.lor (d_config d) 2
    /\ d_pl_len d1 = map clamp_pl (d_pl_len d)
    /\ DrvOk d1
    /\ (forall j, j <> me -> cview (get_radio w1 j) = cview (get_radio w j)).
Proof. exact enter_world. Qed.
Print Assumptions C09_enter.

(* Hence: the configuration an object's __enter__ establishes does not depend on the
   radio's previous state at all -- two arbitrary worlds, same object. *)
Theorem C09_enter_independent_of_radio_state : forall me d w w',
  (me < length (radios w))%nat -> WfC (cview (get_radio w me)) ->
  (me < length (radios w'))%nat -> WfC (cview (get_radio w' me)) -> DrvOk d ->
  let w1 := snd (enter (WB me) d w) in
  let w1' := snd (enter (WB me) d w') in
  Forall (fun av => creg (cview (get_radio w1 me)) (fst av) = creg (cview (get_radio w1' me)) (fst av)) (enter_regs d)
  /\ c_p0 (cview (get_radio w1 me)) = c_p0 (cview (get_radio w1' me))
  /\ c_p1 (cview (get_radio w1 me)) = c_p1 (cview (get_radio w1' me))
  /\ c_tx (cview (get_radio w1 me)) = c_tx (cview (get_radio w1' me))
  /\ c_ce (cview (get_radio w1 me)) = c_ce (cview (get_radio w1' me)).
Proof. exact enter_independent. Qed.
Print Assumptions C09_enter_independent_of_radio_state.

(* Props/C04.v -- property C04: tree routing connects all 781 addresses; pipe
   addresses never collide.  Only statements, each closed by `exact`. *)
From Coq Require Import NArith List Bool.
From NRF Require Import Net.Addr Net.AddrFacts Net.RouteFacts Net.PipeFacts.
Import ListNotations.
Local Open Scope N_scope.

(* For every ordered pair of the 781 valid node addresses, iterating each node's own
   next-hop choice (_logi_2_phys with the constants _begin computed; TX_NORMAL at the
   origin, TX_ROUTED at forwarders) reaches the destination; the nodes visited are
   exactly tree_path s d (up to the common ancestor, then down); at most 8 hops; every
   hop is the sender's parent or a direct child; every hop goes to pipe 1..5 of a node
   of the address space -- the parent's pipe being the sender's own child number and a
   child's pipe being 5 -- i.e. to a (node, pipe) pair that this next hop opens. *)
Theorem C04_route : forall s d,
  In s all_nodes -> In d all_nodes ->
  exists r, route 10 TX_NORMAL s d = Some r
    /\ map fst r = tree_path s d
    /\ (length r <= 8)%nat
    /\ steps_ok s (map fst r) = true
    /\ last (map fst r) s = d
    /\ pipes_ok s r = true.
Proof. exact route_correct. Qed.
Print Assumptions C04_route.

(* all_nodes is the set the property speaks about: 0 and 1..4 octal digits in 1..5 *)
Theorem C04_all_nodes : forall a,
  In a all_nodes <->
  exists ds, (length ds <= 4)%nat /\ Forall (fun d => 1 <= d <= 5) ds /\ a = of_digits ds.
Proof. intros a. rewrite all_nodes_spec. exact (node_spec_digits a). Qed.
Print Assumptions C04_all_nodes.

(* For ARBITRARY address_prefix / address_suffix bytes that are pairwise distinct, and
   allow_multicast on or off: two different listened-on (node, pipe) pairs never have
   the same 5-byte physical address.  keys true = all nodes x pipes 1..5 plus the five
   level addresses on pipe 0; keys false = all nodes x pipes 0..5. *)
Theorem C04_pipe_injective : forall prefix suffix,
  NoDup (prefix :: suffix) -> length suffix = 6%nat ->
  forall mc k1 k2, In k1 (keys mc) -> In k2 (keys mc) ->
  pipe_address prefix suffix mc (fst k1) (snd k1) = pipe_address prefix suffix mc (fst k2) (snd k2) ->
  k1 = k2.
Proof. exact pipe_address_injective. Qed.
Print Assumptions C04_pipe_injective.

Theorem C04_pipe_defined : forall prefix suffix mc k,
  In k (keys mc) ->
  exists bs, pipe_address prefix suffix mc (fst k) (snd k) = Some bs /\ length bs = 5%nat.
Proof. exact pipe_address_defined. Qed.
Print Assumptions C04_pipe_defined.

(* pipes 1..5 of one node differ only in their first byte *)
Theorem C04_hw_shape : forall prefix suffix mc a p q,
  In a all_nodes -> In p pipes15 -> In q pipes15 ->
  exists x y t, pipe_address prefix suffix mc a p = Some (x :: t)
             /\ pipe_address prefix suffix mc a q = Some (y :: t).
Proof. exact hw_shape. Qed.
Print Assumptions C04_hw_shape.

(* with multicast on, the pipe-0 address node a opens is the shared address of its
   level -- exactly the address multicast() to that level transmits to; by
   C04_pipe_injective two nodes share it iff their levels are equal *)
Theorem C04_level_pipe0 : forall prefix suffix a,
  In a all_nodes ->
  pipe_address prefix suffix true a 0 =
  pipe_address prefix suffix true (lvl_2_addr (N.of_nat (length (digits_of 8 a)))) 0.
Proof. exact level_pipe0. Qed.
Print Assumptions C04_level_pipe0.

(* _begin's level and parent are the digit count and the address without its top digit *)
Theorem C04_consts : forall a, In a all_nodes ->
  exists c, begin_consts a = Some c
    /\ c_lvl c = N.of_nat (length (digits_of 8 a)) /\ c_parent c = parent_of a.
Proof.
  intros a Ha. pose proof (forallb_In _ _ _ consts_level Ha) as H. cbv beta in H.
  destruct (begin_consts a) as [c|]; [|discriminate H].
  exists c. apply andb_true_iff in H. destruct H as [H1 H2].
  apply N.eqb_eq in H1. apply N.eqb_eq in H2. auto.
Qed.
Print Assumptions C04_consts.

(* the multicast_level override (stored where _begin put the node's level) has no influence on unicast routing *)
Theorem C04_routing_ignores_multicast_level : forall c l to_node send_type,
  logi_2_phys (mkConsts (c_addr c) (c_mask c) (c_mask_inv c) l (c_parent c) (c_ppipe c)) to_node send_type
  = logi_2_phys c to_node send_type.
Proof. intros. reflexivity. Qed.
Print Assumptions C04_routing_ignores_multicast_level.

(* Props/C11.v -- property C11: header and fragment wire formats are stable and
   TMRh20-compatible.  Only statements, each closed by `exact`. *)
From Coq Require Import ZArith NArith List Bool.
From NRF Require Import Net.Header Net.HeaderFacts.
Import ListNotations.
Local Open Scope Z_scope.

(* a header always serialises to exactly 8 bytes (each < 256) *)
Theorem C11_pack_length : forall h b,
  hdr_pack h = Some b -> length b = 8%nat /\ Forall (fun x => (x < 256)%N) b.
Proof. exact hdr_pack_length. Qed.
Print Assumptions C11_pack_length.

(* ... origin, destination (12 bits) and frame id (16 bits) as little-endian 16-bit
   values -- low byte v mod 256, then high byte (v/256) mod 256 -- then the type byte
   and the reserved byte; for EVERY integer field value *)
Theorem C11_pack_layout : forall h t,
  type_code (message_type h) = Some t ->
  option_map (map Z.of_N) (hdr_pack h) =
  Some [ Z.land (from_node h) 4095 mod 256; (Z.land (from_node h) 4095 / 256) mod 256;
         Z.land (to_node h) 4095 mod 256; (Z.land (to_node h) 4095 / 256) mod 256;
         Z.land (frame_id h) 65535 mod 256; (Z.land (frame_id h) 65535 / 256) mod 256;
         t mod 256; reserved h mod 256 ].
Proof. exact hdr_pack_layout. Qed.
Print Assumptions C11_pack_layout.

(* parsing those bytes (followed by anything) yields the same field values, masked to
   their wire width; unchanged when in range *)
Theorem C11_unpack_pack : forall h b rest,
  hdr_pack h = Some b -> hdr_unpack (b ++ rest) = mask_hdr h.
Proof. exact hdr_unpack_pack. Qed.
Print Assumptions C11_unpack_pack.

Theorem C11_in_range_unchanged : forall h t,
  0 <= from_node h < 4096 -> 0 <= to_node h < 4096 -> 0 <= frame_id h < 65536 ->
  message_type h = IntT t -> 0 <= t < 256 -> 0 <= reserved h < 256 ->
  mask_hdr h = Some h.
Proof. exact mask_hdr_id. Qed.
Print Assumptions C11_in_range_unchanged.

(* buffers shorter than 8 bytes are refused, all others are accepted *)
Theorem C11_short_refused : forall b, hdr_unpack b = None <-> (length b < 8)%nat.
Proof. exact hdr_unpack_short. Qed.
Print Assumptions C11_short_refused.

Theorem C11_frame_short_refused : forall b, frame_unpack b = None <-> (length b < 8)%nat.
Proof. exact frame_unpack_short. Qed.
Print Assumptions C11_frame_short_refused.

(* a frame is its header followed by the unmodified message *)
Theorem C11_frame_roundtrip : forall f b,
  frame_pack f = Some b ->
  frame_unpack b = option_map (fun h => mkFrame h (msg f)) (mask_hdr (hdr f))
  /\ length b = frame_len f.
Proof. exact frame_unpack_pack. Qed.
Print Assumptions C11_frame_roundtrip.

(* the frame id counter wraps at 2^16 *)
Theorem C11_id_wraps : forall c, 0 <= c < 65536 ->
  fst (next_id c) = c /\ snd (next_id c) = (c + 1) mod 65536 /\ 0 <= snd (next_id c) < 65536.
Proof. exact next_id_spec. Qed.
Print Assumptions C11_id_wraps.

(* a message longer than 24 bytes is emitted as ceil(n/24) frames ... *)
Theorem C11_fragment_count : forall h t m,
  length (fragment_frames h t m) = frag_total (length m)
  /\ frag_total (length m) = ((length m + 23) / 24)%nat.
Proof. intros h t m. split; [exact (fragment_count h t m)|exact (frag_total_ceil (length m))]. Qed.
Print Assumptions C11_fragment_count.

(* ... sharing one frame id (and origin, destination), typed first / more / last, with
   a descending counter total, total-1, ..., 2 in the reserved byte and the original
   type in the last fragment's reserved byte *)
Theorem C11_fragment_headers : forall h t m i,
  (24 < length m)%nat -> (i < frag_total (length m))%nat ->
  nth_error (fragment_frames h t m) i = Some (nth_frag h t m i) /\
  let total := frag_total (length m) in
  let fh := hdr (nth_frag h t m i) in
  from_node fh = from_node h /\ to_node fh = to_node h /\ frame_id fh = frame_id h
  /\ (i = 0%nat -> message_type fh = IntT MSG_FRAG_FIRST /\ reserved fh = Z.of_nat total)
  /\ ((0 < i < total - 1)%nat -> message_type fh = IntT MSG_FRAG_MORE /\ reserved fh = Z.of_nat (total - i))
  /\ (i = (total - 1)%nat -> message_type fh = IntT MSG_FRAG_LAST /\ reserved fh = t).
Proof.
  intros h t m i Hn Hi. split; [exact (fragment_nth h t m i Hi)|exact (fragment_header_shape h t m i Hn Hi)].
Qed.
Print Assumptions C11_fragment_headers.

(* every fragment carries 1..24 message bytes: at most 32 bytes on air *)
Theorem C11_fragment_size : forall h t m i b,
  (24 < length m)%nat -> (i < frag_total (length m))%nat ->
  frame_pack (nth_frag h t m i) = Some b -> (9 <= length b <= 32)%nat.
Proof. exact fragment_frame_size. Qed.
Print Assumptions C11_fragment_size.

(* the message slices, in order, are the original message *)
Theorem C11_fragments_concat : forall h t m, (24 < length m)%nat ->
  concat (map msg (fragment_frames h t m)) = m.
Proof. exact fragments_concat. Qed.
Print Assumptions C11_fragments_concat.

(* a TMRh20-style receiver (first: start cache; more: id and counter check; last:
   counter must be 2, type := reserved byte) reassembles exactly the original message,
   for every message of 25 .. 24*255 bytes *)
Theorem C11_tmrh20_reassembles : forall h t m,
  (24 < length m)%nat -> (length m <= 24 * 255)%nat ->
  tm_run None (fragment_frames h t m) = [(from_node h, t, m)].
Proof. exact tmrh20_reassembles. Qed.
Print Assumptions C11_tmrh20_reassembles.

(* Props/C05.v -- property C05 (routed delivery).  PARTIAL, see DESIGN.md section 7: what is proved is the
   routing decision every node takes (the function `_write` uses: Net/Addr.v logi_2_phys iterated by `route`);
   that each hop's transmission reaches the next node and is processed there, i.e. the end-to-end delivery, is
   decided by the correspondence run on multi-node worlds and its delivery/path checker (corr/c05.py). *)
From Coq Require Import NArith List Bool.
From NRF Require Import Env.Radio Env.RadioFacts Net.Addr Net.AddrFacts Net.RouteFacts.
Import ListNotations.
Local Open Scope N_scope.

Theorem C05_status_is_pre_command : forall r cmd data, hd 0 (snd (spi r (cmd :: data))) = status r.
Proof. exact spi_status_first. Qed.
Print Assumptions C05_status_is_pre_command.

(* For every ordered pair of the 781 node addresses: iterating each node's own next-hop choice reaches the
   destination along the tree path (up to the common ancestor, then down), in at most 8 hops, each hop being
   the sender's parent or a direct child. *)
Theorem C05_hops_follow_the_tree : forall s d,
  In s all_nodes -> In d all_nodes ->
  exists r, route 10 TX_NORMAL s d = Some r
    /\ map fst r = tree_path s d
    /\ (length r <= 8)%nat
    /\ steps_ok s (map fst r) = true
    /\ last (map fst r) s = d.
Proof.
  intros s d Hs Hd. destruct (route_correct s d Hs Hd) as (r & H1 & H2 & H3 & H4 & H5 & _).
  exists r. auto.
Qed.
Print Assumptions C05_hops_follow_the_tree.

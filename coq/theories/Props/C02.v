(* Props/C02.v -- property C02 (send() tells the truth about delivery).  Statements, each closed by `exact`.
   PARTIAL, see DESIGN.md section 7: proved is the core case -- send(buf, ask_no_ack, force_retry=0,
   send_only=True) of a transmitter whose TX FIFO is empty, in any world whose other radios do not transmit.
   force_retry > 0, resend(), ACK-payload results (send_only=False), list arguments, a non-empty TX FIFO and the
   time bound are decided by the correspondence run with the loss oracle and its fate checker (corr/c02.py). *)
From Coq Require Import ZArith NArith List Bool Lia.
From NRF Require Import Env.Radio Env.World Env.RadioFacts Env.WorldFacts Env.WfFacts Env.QuietFacts Drv.RF24 Drv.SendFacts.
Import ListNotations.
Local Open Scope N_scope.

Theorem C02_status_is_pre_command : forall r cmd data, hd 0 (snd (spi r (cmd :: data))) = status r.
Proof. exact spi_status_first. Qed.
Print Assumptions C02_status_is_pre_command.

(* In TX mode (PWR_UP set, PRIM_RX clear) with an empty TX FIFO and no stale TX_FULL/MAX_RT in the cached status,
   in ANY well-formed world (any number of radios, any configuration, FIFO contents and loss oracle) whose other
   radios are receiving, in standby or powered down: send() terminates with one status poll and returns True if
   and only if the radio completed the transmission -- `exchange_ok`: acknowledged by a matching listening peer
   within 1+ARC attempts under the oracle's loss pattern, or sent once when no acknowledgement is requested.
   The world in which the transmission takes place differs from the initial one only in radio `me`: flags cleared,
   exactly this (normalised) payload queued, CE high. *)
Theorem C02_send_truth : forall me d w buf b noack k,
  Q me w -> AllWf w ->
  pwr_up (get_radio w me) = true -> prim_rx (get_radio w me) = false ->
  tx_fifo (get_radio w me) = [] ->
  st_bit d 16 = false -> st_bit d 1 = false ->
  norm_payload d buf = Ok b ->
  let s := get_radio w me in
  let armed := with_ce (loaded (with_flags (with_ce s false) 0) noack b) true in
  exists d' w' wpre,
    radios wpre = set_nth_radio (radios w) me armed /\ oracle wpre = oracle w /\
    send (WB me) buf noack 0 true (S k) d w = (Ok (SBool (exchange_ok wpre me)), d', w') /\
    radios w' = radios (exchange wpre me).
Proof. exact send_truth. Qed.
Print Assumptions C02_send_truth.

(* what `exchange_ok` means for the transmitter: exactly TX_DS is latched and the payload has left the TX FIFO on
   success; exactly MAX_RT is latched and the payload stays queued (for resend()) on failure; an attempt never
   touches the transmitter's TX FIFO or its TX_DS/MAX_RT flags otherwise *)
Theorem C02_exchange_outcome : forall w si e rest,
  (si < length (radios w))%nat -> tx_fifo (get_radio w si) = e :: rest ->
  let s' := get_radio (exchange w si) si in
  exists s1, TR (get_radio w si) s1 /\
    (if exchange_ok w si
     then flags s' = N.lor (flags s1) 32 /\ tx_fifo s' = tl (tx_fifo s1)
     else flags s' = N.lor (flags s1) 16 /\ tx_fifo s' = tx_fifo s1)
    /\ cview s' = cview (get_radio w si).
Proof. exact exchange_transmitter. Qed.
Print Assumptions C02_exchange_outcome.

(* non-vacuity: a two-radio world straight after power-up in which radio 0 has been put in TX mode meets the
   hypotheses of C02_send_truth; with nobody listening the theorem's send() evaluates to False *)
Definition ex_world : world := set_radio (new_world [true; true] []) 0 (set_sreg (reset_radio true) 0 14).
Example C02_hypotheses_satisfiable :
  Q 0 ex_world /\ AllWf ex_world /\ pwr_up (get_radio ex_world 0) = true /\ prim_rx (get_radio ex_world 0) = false
  /\ tx_fifo (get_radio ex_world 0) = [] /\ st_bit init_drv 16 = false /\ st_bit init_drv 1 = false
  /\ (exists b, norm_payload init_drv [1; 2; 3] = Ok b)
  /\ fst (fst (send (WB 0) [1; 2; 3] false 0 true 1 init_drv ex_world)) = Ok (SBool false).
Proof.
  repeat split; try reflexivity.
  - intros j Hj. destruct j as [|[|j]]; [contradiction|reflexivity|]. unfold get_radio, ex_world. cbn. destruct j; reflexivity.
  - cbn. auto.
  - unfold AllWf, ex_world. cbn [radios set_radio new_world map set_nth_radio].
    repeat constructor; cbn; lia.
  - eexists. vm_compute. reflexivity.
Qed.

(* Props/C08.v -- property C08: RX/TX switching preserves the user's pipe-0 address and
   ACK reception.  Only statements, each closed by `exact`.

   PInvW me d w says: radio `me` of world w is well formed and the object's cached view of
   CONFIG / EN_AA / EN_RXADDR / RX_ADDR_P0 / TX_ADDR equals the radio, and whenever the
   object remembers a user pipe-0 address (d_pipe0_read_addr = the complete register image
   right after the user's last open_rx_pipe(0, a); None after close_rx_pipe(0) or if never
   opened) pipe 0 is enabled.  (Established by __enter__, C09_enter; its preservation by the
   calls of the alphabet is checked by the correspondence run, see DESIGN.md.) *)
From Coq Require Import ZArith NArith List Bool.
From NRF Require Import Env.Radio Env.World Env.WorldFacts Env.CfgFacts Drv.RF24 Drv.RF24Sim
     Drv.CfgEval Drv.CtxFacts Drv.PipeFacts Drv.PipeHist.
Import ListNotations.
Local Open Scope Z_scope.

(* Whenever the radio enters RX mode: CE is high, PWR_UP and PRIM_RX are set, and pipe 0
   listens on the address the user last opened it with (the complete 5-byte image) -- or is
   closed if the user never opened it or has closed it; TX_ADDR is untouched and no other
   radio's configuration changes.  For every world (any other radios, any traffic). *)
Theorem C08_rx_entry : forall me d w, PInvW me d w ->
  exists d1 w1, set_listen (WB me) true d w = (Ok tt, d1, w1)
    /\ let c1 := cview (get_radio w1 me) in
       c_ce c1 = true
       /\ N.land (creg c1 0) 3 = 3%N
       /\ match d_pipe0_read_addr d with
          | Some img => c_p0 c1 = img /\ N.testbit (creg c1 2) 0 = true
          | None => N.testbit (creg c1 2) 0 = false
          end
       /\ c_tx c1 = c_tx (cview (get_radio w me))
       /\ (forall j, j <> me -> cview (get_radio w1 j) = cview (get_radio w j)).
Proof. exact listen_true_world. Qed.
Print Assumptions C08_rx_entry.

(* Immediately after open_tx_pipe(a) (1..5 bytes; shorter addresses alter the leading
   bytes, as documented): TX_ADDR starts with a; with auto-ack enabled for pipe 0,
   RX_ADDR_P0 equals the COMPLETE TX address, and in TX mode (PRIM_RX clear) pipe 0 is
   enabled -- so the acknowledgement can be received (World.hears_ack).  CE is unchanged. *)
Theorem C08_tx_ack_path : forall me d w a, PInvW me d w -> (1 <= length a <= 5)%nat ->
  exists d1 w1, open_tx_pipe (WB me) a d w = (Ok tt, d1, w1)
    /\ let c := cview (get_radio w me) in
       let c1 := cview (get_radio w1 me) in
       firstn (length a) (c_tx c1) = a
       /\ c_tx c1 = overlay a (c_tx c)
       /\ (N.testbit (creg c 1) 0 = true ->
             c_p0 c1 = c_tx c1
             /\ (N.testbit (creg c 0) 0 = false -> N.testbit (creg c1 2) 0 = true))
       /\ c_ce c1 = c_ce c
       /\ (forall j, j <> me -> cview (get_radio w1 j) = cview (get_radio w j)).
Proof. exact open_tx_pipe_world. Qed.
Print Assumptions C08_tx_ack_path.

(* ---- The property over HISTORIES ("for any sequence of open_rx_pipe, close_rx_pipe, open_tx_pipe, auto-ack
   changes and listen toggles").  PipeHist.pop is the alphabet: open_rx_pipe(p, a), close_rx_pipe(p) for every pipe 0..5,
   open_tx_pipe(a), listen = b, auto_ack = b (1..5 address bytes: pop_ok).  PipeHist.ghost is the specification's own bookkeeping,
   independent of the driver: the complete RX_ADDR_P0 image right after the user's last open_rx_pipe(0, a), None if never
   opened or closed.  PipeHist.post is what C08 demands of one call: entering RX mode puts CE high, PWR_UP|PRIM_RX, pipe 0
   on the ghost address and enabled (closed if the ghost is None), TX_ADDR untouched; open_tx_pipe programs TX_ADDR and,
   with auto-ack on pipe 0, RX_ADDR_P0 = the complete TX address and (in TX mode) pipe 0 enabled; CE is changed only by
   `listen`.  holdsW says: every call of the sequence returns normally, satisfies post, leaves every other radio's
   configuration alone -- and so on from the state it leaves.  For EVERY sequence, in EVERY world. *)
Theorem C08_any_history : forall me ops g d w,
  (me < length (radios w))%nat -> HInv d (cview (get_radio w me)) -> d_pipe0_read_addr d = g ->
  Forall pop_ok ops -> holdsW me ops g d w.
Proof. exact pipe_history_world. Qed.
Print Assumptions C08_any_history.

(* The hypothesis HInv is what entering the object's `with` block establishes, from any radio state, for an object
   whose attributes are well formed (DrvOk) and carry no reserved bits / no half-remembered pipe-0 address (DGood);
   a freshly constructed object is one (init_drv_good). *)
Theorem C08_invariant_established : forall me d w,
  (me < length (radios w))%nat -> WfC (cview (get_radio w me)) -> DrvOk d -> DGood d ->
  exists d1 w1, enter (WB me) d w = (Ok tt, d1, w1)
    /\ (me < length (radios w1))%nat /\ HInv d1 (cview (get_radio w1 me))
    /\ d_pipe0_read_addr d1 = d_pipe0_read_addr d
    /\ (forall j, j <> me -> cview (get_radio w1 j) = cview (get_radio w j)).
Proof. exact enter_establishes_world. Qed.
Print Assumptions C08_invariant_established.

Example C08_fresh_object_qualifies : DrvOk init_drv /\ DGood init_drv.
Proof. exact init_drv_good. Qed.

(* Props/C19.v -- property C19 (received BLE packets decode to what was advertised; all else is ignored safely).
   Statements about the model of fake_ble.py's receive path (Ble/Ble.v), each closed by `exact`. *)
From Coq Require Import ZArith NArith List Bool.
From NRF Require Import Ble.Ble Ble.BleFacts.
Import ListNotations.

(* available() never raises: the receive step is defined for EVERY payload (any bytes, any length), including
   CRC-valid packets with malformed or truncated data structures *)
Theorem C19_available_never_raises : forall s raw, exists s', receive s raw = BOk s'.
Proof. exact receive_total. Qed.
Print Assumptions C19_available_never_raises.

(* a payload either leaves the object untouched or passed the length test and the CRC-24 test and was queued
   as exactly one element, at the end of the queue *)
Theorem C19_only_consistent_packets_are_queued : forall s raw s',
  receive s raw = BOk s' ->
  s' = s \/
  (let cache := whiten s (reverse_bits raw) in
   let end_ := (N.to_nat (byte_at cache 1) + 2)%nat in
   (end_ < 30)%nat /\ sub (firstn (end_ + 3) cache) end_ (end_ + 3) = crc24_ble (firstn end_ (firstn (end_ + 3) cache))
   /\ exists e, parse_element (firstn (end_ + 3) cache) = BOk e /\ rx_queue s' = rx_queue s ++ [e]).
Proof. exact receive_cases. Qed.
Print Assumptions C19_only_consistent_packets_are_queued.

(* every packet advertise() produces (any name, PA-level field, chunks that fit, any of the three channels) is
   queued by a receiver on the same channel as ONE element carrying the sender's MAC *)
Theorem C19_advertised_packet_is_queued : forall s s' payload f,
  length (mac s) = 6%nat -> name_ok s -> bytes (mac s) -> bytes payload ->
  match name s with Some b => bytes b | None => True end ->
  (curr_freq s <= 2)%N -> curr_freq s' = curr_freq s ->
  advertise s payload = BOk f ->
  exists e, receive s' (pad32 f) = BOk (mkB (curr_freq s') (channel s') (show_dbm s') (name s') (mac s') (pa s') (rx_queue s' ++ [e]))
            /\ e_mac e = mac s.
Proof. exact advertised_is_queued. Qed.
Print Assumptions C19_advertised_packet_is_queued.

(* temperatures: the 24-bit mantissa (hundredths of a degree) round-trips for every value in the signed
   24-bit range, negative ones included (-300.00..+300.00 is -30000..30000) *)
Theorem C19_temperature_roundtrip : forall c, (-8388608 <= c < 8388608)%Z -> temp_centi (temp_encode c) = c.
Proof. exact temp_roundtrip. Qed.
Print Assumptions C19_temperature_roundtrip.

(* read() returns the queued elements in arrival order, each once *)
Theorem C19_read_is_fifo : forall s e t,
  rx_queue s = e :: t -> fst (ble_read s) = Some e /\ rx_queue (snd (ble_read s)) = t.
Proof. intros s e t H. unfold ble_read. rewrite H. split; reflexivity. Qed.
Print Assumptions C19_read_is_fifo.

(* non-vacuity: a concrete advertisement with a name, the PA-level field and a battery chunk is decoded *)
Example C19_example :
  let s := match set_name (init_bst [1; 2; 3; 4; 5; 6]%N) (Some [110; 82]%N) with BOk x => x | BExn _ => init_bst [] end in
  let s := match set_show s true with BOk x => x | BExn _ => s end in
  match advertise s [4; 22; 15; 24; 77]%N with
  | BOk f => match receive (init_bst [9; 9; 9; 9; 9; 9]%N) (pad32 f) with
             | BOk r => map (fun e => (e_mac e, e_name e, e_pa e, e_data e)) (rx_queue r)
             | BExn _ => []
             end
  | BExn _ => []
  end = [([1; 2; 3; 4; 5; 6]%N, Some [110; 82]%N, Some 0%Z, [DRaw [2; 1; 5]%N; DBatt [77]%N])].
Proof. vm_compute. reflexivity. Qed.

(* Props/C06.v -- property C06: reassembly never delivers a message that was not sent
   in full.  Only statements, each closed by `exact`. *)
From Coq Require Import ZArith NArith List Bool.
From NRF Require Import Net.Header Net.Queue Net.QueueFacts Net.FragFacts.
Import ListNotations.
Local Open Scope Z_scope.

(* S = any finite set of sent messages (any number of senders; frame ids may coincide
   between senders: only (origin, destination, id) triples are distinct), each with
   in-range header fields, a non-fragment message type and at most 24*255 bytes.
   An arrival stream is ANY list of Arrive f / Dequeue events in which every arriving
   frame is one of the frames some sent message is transmitted as (so: any subset, any
   duplication, any order, any interleaving, stray MORE/LAST without FIRST, dequeues at
   arbitrary points).  Then, from any state satisfying the invariant (the empty queue
   does): enqueue never raises, and every frame the application dequeues carries
   exactly one sent message -- its origin, destination, frame id, type and bytes. *)
Theorem C06_no_splice : forall (S : list message),
  (forall m, In m S -> wf_msg m) -> NoDup (map mkey S) ->
  forall es q, FInv S q -> stream_ok S es ->
  exists out qf, run_stream q es = Some (out, qf) /\ FInv S qf
    /\ Forall (fun f => exists m, In m S /\ delivers m f) out.
Proof. exact no_splice. Qed.
Print Assumptions C06_no_splice.

Theorem C06_invariant_initially : forall S, FInv S empty_fragq.
Proof. exact FInv_empty. Qed.
Print Assumptions C06_invariant_initially.

(* Incomplete / out-of-sequence / repeated fragments are DISCARDED: queue and cache are
   left exactly as they were and enqueue returns False. *)
Theorem C06_discard_no_first : forall q f,
  is_frag_type (message_type (hdr f)) = true -> is_type (message_type (hdr f)) MSG_FRAG_FIRST = false ->
  cache q = None -> frag_enqueue q f = Some (false, q, false).
Proof. exact discard_no_cache. Qed.
Print Assumptions C06_discard_no_first.

Theorem C06_discard_other_message : forall q f c,
  is_frag_type (message_type (hdr f)) = true -> is_type (message_type (hdr f)) MSG_FRAG_FIRST = false ->
  cache q = Some c ->
  (from_node (hdr f) =? from_node (hdr c)) && (to_node (hdr f) =? to_node (hdr c))
    && (frame_id (hdr f) =? frame_id (hdr c)) = false ->
  frag_enqueue q f = Some (false, q, false).
Proof. exact discard_other_message. Qed.
Print Assumptions C06_discard_other_message.

Theorem C06_discard_out_of_sequence : forall q f c,
  is_frag_type (message_type (hdr f)) = true -> is_type (message_type (hdr f)) MSG_FRAG_FIRST = false ->
  cache q = Some c ->
  (if is_type (message_type (hdr f)) MSG_FRAG_LAST then 2 <? reserved (hdr c)
   else negb (reserved (hdr c) - 1 =? reserved (hdr f))) = true ->
  frag_enqueue q f = Some (false, q, false).
Proof. exact discard_out_of_sequence. Qed.
Print Assumptions C06_discard_out_of_sequence.

(* At most once, as far as a one-message cache can promise it: whenever a LAST fragment
   changes the queue (a message was completed) the cache is empty afterwards, so by
   C06_discard_no_first every repeated MORE/LAST is discarded until a new FIRST fragment
   arrives.  (A complete replay FIRST..LAST after the application dequeued the first
   copy is delivered again: known finding C06/complete-replay-delivered-again.) *)
Theorem C06_completion_clears_cache : forall q f r q' e,
  is_type (message_type (hdr f)) MSG_FRAG_LAST = true ->
  frag_enqueue q f = Some (r, q', e) -> q' <> q -> cache q' = None.
Proof. exact completion_clears_cache. Qed.
Print Assumptions C06_completion_clears_cache.

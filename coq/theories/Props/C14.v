(* Props/C14.v -- property C14 (multicast reaches exactly the nodes of the target level, once).  PARTIAL, see
   DESIGN.md section 7: proved are the addressing facts multicast rests on; who queues and who relays a
   multicast frame, once each, is decided by the correspondence run and its checker (corr/c14.py). *)
From Coq Require Import ZArith NArith List Bool Lia.
From NRF Require Import Env.Radio Env.RadioFacts Net.Addr Net.AddrFacts Net.PipeFacts.
Import ListNotations.
Local Open Scope N_scope.

Theorem C14_status_is_pre_command : forall r cmd data, hd 0 (snd (spi r (cmd :: data))) = status r.
Proof. exact spi_status_first. Qed.
Print Assumptions C14_status_is_pre_command.

(* the five network levels have five different multicast addresses: 0, 0o1, 0o10, 0o100, 0o1000 *)
Theorem C14_level_addresses :
  map lvl_2_addr [0; 1; 2; 3; 4] = [0; 1; 8; 64; 512] /\ NoDup (map lvl_2_addr [0; 1; 2; 3; 4]).
Proof.
  split; [reflexivity|]. vm_compute.
  repeat (constructor; [cbn; intuition discriminate|]). constructor.
Qed.
Print Assumptions C14_level_addresses.

(* the level argument of multicast() is clamped into 0..4 *)
Theorem C14_level_clamp : forall l : Z, (0 <= Z.min 4 (Z.max l 0) <= 4)%Z.
Proof. intro l. lia. Qed.
Print Assumptions C14_level_clamp.

(* with multicast allowed, EVERY node of a level (any of the 781 addresses) listens on pipe 0 on the very address
   that multicast() to that level transmits to, for arbitrary address prefix/suffix bytes *)
Theorem C14_level_members_share_pipe0 : forall prefix suffix a,
  In a all_nodes ->
  pipe_address prefix suffix true a 0 =
  pipe_address prefix suffix true (lvl_2_addr (N.of_nat (length (digits_of 8 a)))) 0.
Proof. exact level_pipe0. Qed.
Print Assumptions C14_level_members_share_pipe0.

(* Props/C01.v -- property C01 (what send() is given is what the peer's read() returns).  Statements, each closed
   by `exact`.  The property is a chain of three links, each proved for the models:
     (1) transmitter: send() loads exactly the normalised payload and raises CE (C02_send_truth, Props/C02.v:
         the world in which the exchange takes place has `loaded ... b` queued, b = norm_payload of the caller's buffer);
     (2) air: an exchange whose first attempt is not lost puts exactly that payload, once, on the matching pipe
         of a compatible listening receiver with room in its FIFO -- however many retransmissions follow;
     (3) receiver: read() returns the payload at the head of the RX FIFO and removes it.
   PARTIAL, see DESIGN.md section 7: the links are proved separately (1 and 3 for a transmitter/receiver in a
   world whose other radios do not transmit); their composition over streams of payloads, list arguments,
   role swaps, and that the caller's buffer is left alone are decided by the correspondence run and its
   delivery checker (corr/c01.py). *)
From Coq Require Import ZArith NArith List Bool.
From NRF Require Import Env.Radio Env.World Env.RadioFacts Env.WorldFacts Env.WfFacts Env.QuietFacts
     Drv.RF24 Drv.SendFacts Drv.RecvFacts.
Import ListNotations.
Local Open Scope N_scope.

Theorem C01_status_is_pre_command : forall r cmd data, hd 0 (snd (spi r (cmd :: data))) = status r.
Proof. exact spi_status_first. Qed.
Print Assumptions C01_status_is_pre_command.

(* (2) the air *)
Theorem C01_exchange_delivers : forall w si j e rest p,
  (si < length (radios w))%nat -> (j < length (radios w))%nat -> j <> si ->
  tx_fifo (get_radio w si) = e :: rest ->
  match oracle w with PacketLost :: _ => False | _ => True end ->
  rx_pipe (get_radio w si) (get_radio w j) (tx_data e) = Some p ->
  rx_full (get_radio w j) = false -> is_dup (get_radio w j) (tx_pid e) (tx_data e) = false ->
  rx_fifo (get_radio (exchange w si) j) = rx_fifo (get_radio w j) ++ [(p, tx_data e)].
Proof. exact exchange_delivers. Qed.
Print Assumptions C01_exchange_delivers.

(* a retransmitted packet (same PID and payload as the last one accepted) is never queued twice *)
Theorem C01_duplicates_are_dropped : forall r p pid noack d h, is_dup r pid d = true ->
  let r' := fst (fst (receive r p pid noack d h)) in
  rx_fifo r' = rx_fifo r /\ last_rx r' = last_rx r.
Proof. exact receive_dup. Qed.
Print Assumptions C01_duplicates_are_dropped.

(* (3) the receiver *)
Theorem C01_read_returns_the_head : forall me d w p data rest,
  Q me w -> WfR (get_radio w me) -> prim_rx (get_radio w me) = true ->
  rx_fifo (get_radio w me) = (p, data) :: rest -> (1 <= length data <= 32)%nat ->
  (truthy (Z.land (d_features d) 4) = true \/ pl_len_at d (N.to_nat p) = Z.of_nat (length data)) ->
  exists d' w', read (WB me) None d w = (Ok (Some data), d', w')
    /\ rx_fifo (get_radio w' me) = rest
    /\ tx_fifo (get_radio w' me) = tx_fifo (get_radio w me)
    /\ N.testbit (flags (get_radio w' me)) 6 = false.
Proof. exact read_head. Qed.
Print Assumptions C01_read_returns_the_head.

(* (1') the streaming form of the transmitter link: write(buf, ask_no_ack, write_only=True) with CE low returns True
   exactly when the TX FIFO had room at that moment (the STATUS byte shifted out with the flag-clearing transfer, not
   a cached one) and has then appended exactly the normalised payload; it returns False and leaves the FIFO untouched
   otherwise.  Nothing goes on the air, no other radio changes.  Hence an accepted payload is queued exactly once and
   a refused one not at all -- for every world whose other radios do not transmit. *)
Theorem C01_write_accepts_iff_room : forall me d w buf b noack,
  Q me w -> AllWf w -> ce (get_radio w me) = false ->
  norm_payload d buf = Ok b ->
  let s := get_radio w me in
  exists d' w',
    write (WB me) buf noack true d w = (Ok (negb (tx_full s)), d', w')
    /\ get_radio w' me = (if tx_full s then with_flags s 0 else loaded (with_flags s 0) noack b)
    /\ (forall j, j <> me -> get_radio w' j = get_radio w j)
    /\ air w' = air w.
Proof. exact write_only_truth. Qed.
Print Assumptions C01_write_accepts_iff_room.

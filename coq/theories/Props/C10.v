(* Props/C10.v -- property C10 (status and FIFO accessors report the radio's actual state).
   Statements, each closed by `exact`.  Proved for the accessors that decode STATUS / FIFO_STATUS
   (update, available, pipe, tx_full, irq_dr/irq_ds/irq_df, fifo); any()/read()/clear_status_flags()/
   flush_*()/last_tx_arc are decided by the correspondence run and its checker (corr/c10.py). *)
From Coq Require Import ZArith NArith List Bool.
From NRF Require Import Env.Radio Env.World Env.RadioFacts Env.WfFacts Drv.RF24 Drv.AccessFacts.
Import ListNotations.
Local Open Scope N_scope.

(* every SPI transfer shifts out STATUS as it was BEFORE the command took effect *)
Theorem C10_status_is_pre_command : forall r cmd data, hd 0 (snd (spi r (cmd :: data))) = status r.
Proof. exact spi_status_first. Qed.
Print Assumptions C10_status_is_pre_command.

(* Every world reachable from power-up by ANY sequence of SPI transfers, CE changes, clock readings and sleeps of
   ANY radios -- i.e. after any traffic history with any loss pattern -- is well formed: only the three interrupt
   flags are latched and every queued payload sits on a pipe 0..5. *)
Theorem C10_reachable_worlds_are_well_formed : forall plus oracle ops,
  AllWf (fold_left bus_step ops (new_world plus oracle)).
Proof. intros plus o ops. exact (wf_reachable ops _ (wf_new_world plus o)). Qed.
Print Assumptions C10_reachable_worlds_are_well_formed.

(* available() is True exactly when the RX FIFO of the driver's radio holds a payload *)
Theorem C10_available : forall me d w, WfR (get_radio w me) ->
  exists d' w', available (WB me) d w = (Ok (negb (match rx_fifo (get_radio w me) with [] => true | _ => false end)), d', w').
Proof. exact available_spec. Qed.
Print Assumptions C10_available.

(* after update(): pipe = pipe of the head of the RX FIFO (None when empty), tx_full = TX FIFO holds 3 entries,
   irq_dr / irq_ds / irq_df = the latched RX_DR / TX_DS / MAX_RT flags of the radio *)
Theorem C10_status_attributes : forall me d w, WfR (get_radio w me) ->
  exists d' w', update (WB me) d w = (Ok true, d', w') /\
    fst (fst (pipe_attr (bus := world) d' w')) = Ok (match rx_fifo (get_radio w me) with [] => None | (p, _) :: _ => Some p end) /\
    fst (fst (tx_full_attr (bus := world) d' w')) = Ok (tx_full (get_radio w me)) /\
    fst (fst (irq_dr (bus := world) d' w')) = Ok (N.testbit (flags (get_radio w me)) 6) /\
    fst (fst (irq_ds (bus := world) d' w')) = Ok (N.testbit (flags (get_radio w me)) 5) /\
    fst (fst (irq_df (bus := world) d' w')) = Ok (N.testbit (flags (get_radio w me)) 4).
Proof. exact status_attributes. Qed.
Print Assumptions C10_status_attributes.

(* fifo(about_tx) = 2*[3 entries] + [empty] of the selected FIFO *)
Theorem C10_fifo : forall me d w about_tx,
  exists d' w', fifo (WB me) about_tx None d w =
    (Ok (occ (if about_tx then length (tx_fifo (get_radio w me)) else length (rx_fifo (get_radio w me)))), d', w').
Proof. exact fifo_spec. Qed.
Print Assumptions C10_fifo.

(* Props/C17.v -- property C17 (mesh joins yield distinct working addresses; lookups give the documented codes).
   What is proved is the sequential core the property rests on: the master's table (C16) and its
   lookups.  The concurrent clauses (joins of 1..12 nodes under arbitrary interleavings, delivery of
   messages sent to an ID) are NOT theorems: the node model is sequential; they are decided by the
   concurrent runs whose every node is replayed on the model (corr/c17.py, Net/Replay.v). *)
From Coq Require Import ZArith NArith List Bool.
From NRF Require Import Drv.RF24 Net.Addr Net.Mesh Net.DhcpFacts.
Import ListNotations.
Local Open Scope Z_scope.

(* whatever requests, releases and loads the master has served, two IDs never hold one address, and every
   lease handed to a joining node is a valid child address of the node it asked through (C16's theorems) *)
Theorem C17_leases_are_distinct : forall evs, Inj (fold_left table_step evs []).
Proof. intro evs. exact (inj_history evs [] inj_nil). Qed.
Print Assumptions C17_leases_are_distinct.

(* lookup_address()/lookup_node_id() on the master return the current mapping, and -2 exactly when the
   ID / address is not assigned *)
Theorem C17_lookup_address : forall d id,
  Inj d -> (forall a, In (id, a) d -> get_address d id true = a)
           /\ ((forall a, ~ In (id, a) d) -> get_address d id true = -2).
Proof. exact lookup_address_spec. Qed.
Print Assumptions C17_lookup_address.
Theorem C17_lookup_node_id : forall d a,
  Inj d -> (forall id, In (id, a) d -> get_address d a false = id)
           /\ ((forall id, ~ In (id, a) d) -> get_address d a false = -2).
Proof. exact lookup_node_id_spec. Qed.
Print Assumptions C17_lookup_node_id.

(* a release frees the lease (and only that one) *)
Theorem C17_release_frees_the_lease : forall d a, Inj d -> forall k, ~ In (k, a) (snd (release_addr d a)).
Proof. exact release_frees. Qed.
Print Assumptions C17_release_frees_the_lease.

Example C17_example :
  let d := fold_left table_step [Request 7 0 true; Request 9 0 true; Request 3 5 false] [] in
  (get_address d 9 true, get_address d 37 false, get_address d 8 true, get_address d 3 false) = (4, 3, -2, -2).
Proof. vm_compute. reflexivity. Qed.

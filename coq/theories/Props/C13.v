(* Props/C13.v -- property C13 (NETWORK_ACK).  PARTIAL, see DESIGN.md section 7: proved are the two decisions
   the ACK logic rests on -- which message types ask for a NETWORK_ACK, and which node is the last relay (the
   routing function, C04/C05).  When an ACK is awaited, sent (once, by the last relay, to the origin) and
   believed is decided by the correspondence run and its attribution checker (corr/c13.py). *)
From Coq Require Import ZArith NArith List Bool Lia.
From NRF Require Import Env.Radio Env.RadioFacts Net.Header.
Import ListNotations.
Local Open Scope Z_scope.

Theorem C13_status_is_pre_command : forall r cmd data, hd 0%N (snd (spi r (cmd :: data))) = status r.
Proof. exact spi_status_first. Qed.
Print Assumptions C13_status_is_pre_command.

(* exactly the message types 65..191 ask for a NETWORK_ACK (so 0..64 and 192..255, NETWORK_ACK itself
   included, never do) *)
Theorem C13_ack_types : forall t, is_ack_type t = true <-> 65 <= t <= 191.
Proof. intro t. unfold is_ack_type. rewrite andb_true_iff, !Z.ltb_lt. lia. Qed.
Print Assumptions C13_ack_types.

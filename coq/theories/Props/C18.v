(* Props/C18.v -- property C18 (every advertisement is a well-formed BLE packet for the channel it is sent on).
   Statements about the model of fake_ble.py (Ble/Ble.v), each closed by `exact`.  What is NOT proved
   here: that the model's whitener/crc24_ble compute the LFSRs of the Bluetooth specification -- that
   equality is checked on every advertisement of the correspondence run by an independent bit-serial
   decoder (corr/bleref.py). *)
From Coq Require Import ZArith NArith List Bool.
From NRF Require Import Ble.Ble Ble.BleFacts.
Import ListNotations.

(* advertise() raises ValueError exactly when the packet would not fit: for every state whose name passed the
   name setter (<= 18 bytes) and every payload (the caller's chunks), a packet is produced iff len_available >= 0 *)
Theorem C18_raises_iff_it_does_not_fit : forall s payload,
  name_ok s -> (exists p, make_payload s payload = BOk p) <-> (0 <= len_available s (length payload))%Z.
Proof. exact make_payload_fits. Qed.
Print Assumptions C18_raises_iff_it_does_not_fit.

(* the packet: header 0x42, a length byte that counts exactly the bytes between it and the CRC, the configured
   MAC, the flags field 02 01 05, the optional PA-level and name fields, the caller's chunks verbatim, the 3 CRC
   bytes of all that; and len_available is exactly the number of bytes still free out of 32 *)
Theorem C18_packet_shape : forall s payload p,
  length (mac s) = 6%nat -> name_ok s -> make_payload s payload = BOk p ->
  exists body,
    body = mac s ++ [2; 1; 5]%N
           ++ (if show_dbm s then [2; 10; byte_of_signed (pa s)]%N else [])
           ++ (match name s with Some b => (N.of_nat (length b) + 1)%N :: 8%N :: b | None => [] end)
           ++ payload
    /\ p = 66%N :: N.of_nat (length body) :: body ++ crc24_ble (66%N :: N.of_nat (length body) :: body)
    /\ Z.of_nat (length p) = (32 - len_available s (length payload))%Z.
Proof. exact make_payload_shape. Qed.
Print Assumptions C18_packet_shape.

(* whitening is an involution on byte strings (for every coefficient byte): the receiver's de-whitening
   recovers what the transmitter whitened, and bit reversal is an involution too *)
Theorem C18_whitening_involution : forall l c, (c < 256)%N -> bytes l -> whitener (whitener l c) c = l.
Proof. exact whitener_invol. Qed.
Print Assumptions C18_whitening_involution.
Theorem C18_bit_reversal_involution : forall l, bytes l -> reverse_bits (reverse_bits l) = l.
Proof. exact reverse_bits_invol. Qed.
Print Assumptions C18_bit_reversal_involution.

(* After ANY sequence of hop_channel(), channel assignments (any integer), with-block exits and name/
   show_pa_level/MAC/PA-level assignments, starting from a freshly constructed object, the BLE channel used for
   whitening is the one whose frequency the radio is tuned to. *)
Theorem C18_whitening_channel_follows_frequency : forall ops m,
  Sync (fold_left chstep ops (init_bst m)).
Proof. intros ops m. exact (sync_history ops _ (sync_init m)). Qed.
Print Assumptions C18_whitening_channel_follows_frequency.
Theorem C18_whitening_coefficient : forall s, Sync s ->
  N.lor (curr_freq s + 37) 64 = N.lor (ble_channel_of_rf (channel s)) 64.
Proof. exact sync_coef. Qed.
Print Assumptions C18_whitening_coefficient.

(* non-vacuity *)
Example C18_example :
  exists p, make_payload (init_bst [1; 2; 3; 4; 5; 6]%N) [3; 255; 7; 8]%N = BOk p /\ length p = 18%nat.
Proof. eexists. split; vm_compute; reflexivity. Qed.

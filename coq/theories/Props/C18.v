(* Props/C18.v -- property C18 (statements proved so far; see DESIGN.md section 7 C18). *)
From Coq Require Import NArith List Bool.
From NRF Require Import Env.Radio Env.RadioFacts.
Import ListNotations.
Local Open Scope N_scope.
Theorem C18_status_is_pre_command : forall r cmd data,
  hd 0 (snd (spi r (cmd :: data))) = status r.
Proof. exact spi_status_first. Qed.
Print Assumptions C18_status_is_pre_command.

(* Props/C12.v -- property C12: the frame queue is a bounded, duplicate-free FIFO of
   private copies.  Only statements, each closed by `exact`. *)
From Coq Require Import ZArith NArith List Bool.
From NRF Require Import Net.Header Net.Queue Net.QueueRun Net.QueueFacts.
Import ListNotations.
Local Open Scope Z_scope.

(* enqueue() returns True exactly when there is room (len < max_queue_size) and no
   stored frame has the same (origin, frame id, type) as the masked copy of the frame *)
Theorem C12_enqueue_iff : forall q f c,
  stored_ok q -> copy_frame f = Some c ->
  exists r q', enqueue q f = Some (r, q')
    /\ (r = true <-> (Z.of_nat (qlen q) < qmax q /\ ~ In (hkey (hdr c)) (keys q))).
Proof. exact enqueue_iff. Qed.
Print Assumptions C12_enqueue_iff.

(* what is stored is the masked copy, appended at the tail; a refused frame leaves the
   queue untouched *)
Theorem C12_enqueue_true : forall q f q',
  stored_ok q -> enqueue q f = Some (true, q') ->
  exists c, copy_frame f = Some c
    /\ Z.of_nat (qlen q) < qmax q
    /\ ~ In (hkey (hdr c)) (keys q)
    /\ q' = mkQ (qmax q) (qframes q ++ [c]).
Proof. exact enqueue_true. Qed.
Print Assumptions C12_enqueue_true.

Theorem C12_enqueue_false : forall q f q',
  stored_ok q -> enqueue q f = Some (false, q') ->
  q' = q /\ (qmax q <= Z.of_nat (qlen q)
             \/ exists c, copy_frame f = Some c /\ In (hkey (hdr c)) (keys q)).
Proof. exact enqueue_false. Qed.
Print Assumptions C12_enqueue_false.

(* bounded: max is unchanged by enqueue; a queue within its bound stays within it; a
   queue at or above its bound (max lowered below len) never grows *)
Theorem C12_bounded : forall q f r q',
  stored_ok q -> enqueue q f = Some (r, q') ->
  qmax q' = qmax q /\
  (Z.of_nat (qlen q) <= qmax q -> Z.of_nat (qlen q') <= qmax q') /\
  (qmax q <= Z.of_nat (qlen q) -> q' = q).
Proof. exact enqueue_bounded. Qed.
Print Assumptions C12_bounded.

(* For EVERY history of enqueue / dequeue / peek / len / max_queue_size changes /
   fragmentation toggles (frames of non-fragment type; fragment types are C06's
   subject), starting from either queue class: the copies accepted so far, in
   acceptance order, are exactly the frames handed out by dequeue so far followed by
   the current content (FIFO, each exactly once, with the values they had when
   enqueued), and no two stored frames share (origin, id, type). *)
Theorem C12_fifo_history : forall b ops,
  hist_ok ops ->
  let g := grun (g0 b) ops in
  g_acc g = g_out g ++ qframes (st_base (g_st g)) /\ NoDup (keys (st_base (g_st g))).
Proof. exact fifo_history. Qed.
Print Assumptions C12_fifo_history.

(* switching fragmentation moves all frames in order and keeps max_queue_size *)
Theorem C12_toggle : forall s b,
  qframes (st_base (fst (qstep s (QToggle b)))) = qframes (st_base s)
  /\ qmax (st_base (fst (qstep s (QToggle b)))) = qmax (st_base s).
Proof. exact toggle_keeps. Qed.
Print Assumptions C12_toggle.

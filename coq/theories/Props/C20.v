(* Props/C20.v -- property C20 (rf24_lite honours the same link-level contract as RF24).  PARTIAL, see DESIGN.md
   section 7: proved for the lite driver's model (Drv/Lite.v) are the accessor facts below, on top of the
   radio/world theorems it shares with the full driver (STATUS is pre-command, exchanges never alter
   configuration, every reachable world is well formed).  Delivery, send()/resend() outcomes, ACK payloads,
   attribute encodings, pipe-0 restoration and the load_ack() clause are decided by the correspondence run on
   mixed lite/full worlds and its contract checkers (corr/c20.py). *)
From Coq Require Import ZArith NArith List Bool.
From NRF Require Import Env.Radio Env.World Env.RadioFacts Env.WfFacts Drv.RF24 Drv.Lite Drv.LiteFacts.
Import ListNotations.
Local Open Scope N_scope.

Theorem C20_status_is_pre_command : forall r cmd data, hd 0 (snd (spi r (cmd :: data))) = Radio.status r.
Proof. exact spi_status_first. Qed.
Print Assumptions C20_status_is_pre_command.

(* update() caches the radio's STATUS as it was when the call was made (what pipe, tx_full, irq_* then decode) *)
Theorem C20_update_caches_status : forall me d w,
  exists d' w', l_update (WB me) d w = (Ok true, d', w') /\ d_in0 d' = Radio.status (get_radio w me).
Proof. exact l_update_spec. Qed.
Print Assumptions C20_update_caches_status.

(* available() is True exactly when the RX FIFO of the lite driver's radio holds a payload, in every well-formed
   (hence every reachable: C10_reachable_worlds_are_well_formed) world *)
Theorem C20_available : forall me d w, WfR (get_radio w me) ->
  exists d' w', l_available (WB me) d w = (Ok (negb (match rx_fifo (get_radio w me) with [] => true | _ => false end)), d', w').
Proof. exact l_available_spec. Qed.
Print Assumptions C20_available.

(* Props/C20.v -- property C20 (statements proved so far; see DESIGN.md section 7 C20). *)
From Coq Require Import NArith List Bool.
From NRF Require Import Env.Radio Env.RadioFacts.
Import ListNotations.
Local Open Scope N_scope.
Theorem C20_status_is_pre_command : forall r cmd data,
  hd 0 (snd (spi r (cmd :: data))) = status r.
Proof. exact spi_status_first. Qed.
Print Assumptions C20_status_is_pre_command.

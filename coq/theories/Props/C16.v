(* Props/C16.v -- property C16: the mesh master leases each logical address to at most one node ID.
   Statements only, each closed by `exact`.  The table functions (dhcp_pick, set_address,
   release_addr, load_json, load_bin, save_bin) are the ones the monadic master of Net/Mesh.v
   calls on its dhcp_dict; the differential run (corr/c16.py) ties that master to rf24_mesh.py.
   The last two theorems are about the monadic master itself: the network layer never touches the
   table, and RF24Mesh.update() keeps it one-to-one whatever arrives, on every bus. *)
From Coq Require Import ZArith NArith List Bool.
From NRF Require Import Drv.RF24 Net.Addr Net.Node Net.Mesh Net.DhcpFacts Net.KeepFacts Net.MasterFacts.
Import ListNotations.
Local Open Scope Z_scope.

(* For EVERY history of requests (any ID, any relay, direct or not), releases and loads of either
   file format, starting from any one-to-one table (the empty one in particular): every ID holds at
   most one lease and no address is held by two IDs. *)
Theorem C16_one_id_per_address : forall evs d, Inj d -> Inj (fold_left table_step evs d).
Proof. exact inj_history. Qed.
Print Assumptions C16_one_id_per_address.

Theorem C16_empty_table_ok : Inj [].
Proof. exact inj_nil. Qed.
Print Assumptions C16_empty_table_ok.

(* A served request (direct, or relayed by any valid node of level 0..3 that is not a multicast
   placeholder) leases a valid address, not 0, not 0o4444, not a multicast placeholder, whose parent
   is the relaying node (the master for direct requests), and which no other ID holds. *)
Theorem C16_lease_is_a_free_valid_child :
  forall (d : list (Z * Z)) (rid via : Z) (direct : bool) (a : Z),
  0 <= via < 4096 -> is_address_valid (Z.to_N via) = true -> level_of 8 via <= 3 ->
  via <> 64 -> via <> 8 -> via <> 512 ->
  dhcp_pick d rid (if direct then 5%nat else 4%nat) (if direct then 0 else via)
            (if direct then 0 else 3 * level_of 8 via) = Some a ->
  let base := if direct then 0 else via in
  a <> 0 /\ a <> 2340 /\ is_address_valid (Z.to_N a) = true /\ Z.of_N (parent_of (Z.to_N a)) = base
  /\ a <> 64 /\ a <> 8 /\ a <> 512
  /\ fresh_for d rid a.
Proof. exact request_lease. Qed.
Print Assumptions C16_lease_is_a_free_valid_child.

(* A request goes unanswered only when every child slot is 0o4444 or held by another ID. *)
Theorem C16_refusal_means_full : forall d rid i via sh,
  dhcp_pick d rid i via sh = None ->
  forall j, (1 <= j <= i)%nat ->
    let a := Z.lor via (Z.shiftl (Z.of_nat j) sh) in
    a = 2340 \/ exists k, k <> rid /\ In (k, a) d.
Proof. exact dhcp_pick_none. Qed.
Print Assumptions C16_refusal_means_full.

(* A released address is free again, and the other leases are kept. *)
Theorem C16_release_frees : forall d a, Inj d -> forall k, ~ In (k, a) (snd (release_addr d a)).
Proof. exact release_frees. Qed.
Print Assumptions C16_release_frees.
Theorem C16_release_keeps_others : forall d a k v,
  Inj d -> v <> a -> In (k, v) d -> In (k, v) (snd (release_addr d a)).
Proof. exact release_keeps. Qed.
Print Assumptions C16_release_keeps_others.

(* Persistence: for EVERY one-to-one table with IDs 0..255 and addresses 0..65535 (any size), the
   binary file holds 4 bytes per entry and loading it into an empty table gives the table back,
   entry for entry and in order; same for the (id, address) pairs of the JSON file. *)
Theorem C16_binary_roundtrip : forall d bytes,
  in_range d -> Inj d -> save_bin d = Ok bytes -> load_bin (length d) bytes [] = d.
Proof. exact load_save_roundtrip. Qed.
Print Assumptions C16_binary_roundtrip.
Theorem C16_binary_save_total : forall d, in_range d ->
  exists bytes, save_bin d = Ok bytes /\ length bytes = (4 * length d)%nat.
Proof. exact save_bin_ok. Qed.
Print Assumptions C16_binary_save_total.
Theorem C16_json_roundtrip : forall d, Inj d -> load_json d [] = d.
Proof. exact load_json_roundtrip. Qed.
Print Assumptions C16_json_roundtrip.


(* The network layer (Net/Node.v: _net_update, the handlers, _write, _write_to_pipe, the fragment loop, the
   NETWORK_ACK wait) never changes node ID, lease table or the pending-request flag: on EVERY bus (any world,
   any traffic, any loss pattern), for every amount of fuel. *)
Theorem C16_network_layer_keeps_the_table : forall bus (B : busops bus) fuel,
  (forall rv, Keeps (net_update B fuel rv)) /\ (forall wd st, Keeps (write_ B fuel wd st)).
Proof. intros bus B fuel. split; [intro rv; apply keeps_net_update|intros wd st; apply keeps_write]. Qed.
Print Assumptions C16_network_layer_keeps_the_table.

(* RF24Mesh.update() on the master, as modelled (frame reception, dispatch to request / release / lookup handling,
   _dhcp(), the replies it transmits): if no address is held by two IDs before the call, none is afterwards --
   whatever bytes have arrived, in every world, and hence after any number of calls. *)
Theorem C16_master_update_keeps_table_one_to_one : forall bus (B : busops bus) n b,
  Inj (n_dhcp n) -> Inj (n_dhcp (snd (fst (update_master B n b)))).
Proof. intros bus B. exact (tinv_update_master B). Qed.
Print Assumptions C16_master_update_keeps_table_one_to_one.

(* non-vacuity: a concrete history on which requests are served, refused and released *)
Example C16_history_example :
  fold_left table_step
    [Request 7 0 true; Request 9 0 true; Request 7 0 true; Request 3 5 false; Release 4; Request 11 0 true] []
  = [(7, 5); (3, 37); (11, 4)].
Proof. vm_compute. reflexivity. Qed.

(* Props/C03.v -- property C03 (statements proved so far; see DESIGN.md section 7 C03). *)
From Coq Require Import NArith List Bool.
From NRF Require Import Env.Radio Env.RadioFacts.
Import ListNotations.
Local Open Scope N_scope.

(* the STATUS byte a transfer shifts out is the radio's state BEFORE the command *)
Theorem C03_status_is_pre_command : forall r cmd data,
  hd 0 (snd (spi r (cmd :: data))) = status r.
Proof. exact spi_status_first. Qed.
Print Assumptions C03_status_is_pre_command.

(* Props/C03.v -- property C03 (configuration attributes follow the documented encodings).
   PARTIAL, see DESIGN.md section 7: proved are (1) for every configuration method, that it does to radio
   `me` of ANY world exactly what it does to a bare configuration record, leaving every other radio's
   configuration alone (simulation lemmas; a selection is restated here, all ~50 are in Drv/RF24SimOps.v),
   and (2) the documented encoding of `channel` as a worked instance of the per-setter refinement
   (`listen`/`open_tx_pipe` are in Props/C08.v, `__enter__`/`__exit__` in Props/C09.v).  The encodings of the
   remaining setters are decided by the correspondence run and its documented-encoding checker. *)
From Coq Require Import ZArith NArith List Bool.
From NRF Require Import Env.Radio Env.RadioFacts Env.World Env.WorldFacts Env.CfgFacts Drv.RF24 Drv.RF24Sim Drv.RF24SimOps
     Drv.CfgEval Drv.SetterFacts.
Import ListNotations.
Local Open Scope Z_scope.

Theorem C03_status_is_pre_command : forall r cmd data,
  hd 0%N (snd (spi r (cmd :: data))) = status r.
Proof. exact spi_status_first. Qed.
Print Assumptions C03_status_is_pre_command.

(* channel = ch with 0 <= ch <= 125: RF_CH of this radio becomes ch, every other register, address and the CE line
   keep their values, no other radio's configuration changes -- in every world *)
Theorem C03_channel_encoding : forall me ch d w,
  (me < length (radios w))%nat -> WfC (cview (get_radio w me)) -> 0 <= ch <= 125 ->
  exists d1 w1, set_channel (WB me) ch d w = (Ok tt, d1, w1)
    /\ cview (get_radio w1 me) = cset (cview (get_radio w me)) 5 (Z.to_N ch)
    /\ (forall j, j <> me -> cview (get_radio w1 j) = cview (get_radio w j)).
Proof. exact set_channel_world. Qed.
Print Assumptions C03_channel_encoding.

(* ... and outside that range ValueError is raised and no configuration of any radio changes *)
Theorem C03_channel_rejects : forall me ch d w,
  (me < length (radios w))%nat -> ~ (0 <= ch <= 125) ->
  exists d1 w1, set_channel (WB me) ch d w = (Exn ValueError, d1, w1)
    /\ (forall j, cview (get_radio w1 j) = cview (get_radio w j)).
Proof. exact set_channel_world_rejects. Qed.
Print Assumptions C03_channel_rejects.


(* address_length = len with 3 <= len <= 5: SETUP_AW := len - 2, nothing else, in every world *)
Theorem C03_address_length_encoding : forall me len d w,
  (me < length (radios w))%nat -> 3 <= len <= 5 ->
  exists d1 w1, set_address_length (WB me) len d w = (Ok tt, d1, w1)
    /\ cview (get_radio w1 me) = cset (cview (get_radio w me)) 3 (Z.to_N (len - 2))
    /\ (forall j, j <> me -> cview (get_radio w1 j) = cview (get_radio w j)).
Proof. exact set_address_length_world. Qed.
Print Assumptions C03_address_length_encoding.

(* set_auto_retries(delay, count) for ANY integers: SETUP_RETR := 16 * ((clamp(delay, 250, 4000) - 250) / 250)
   + clamp(count, 0, 15) -- the documented clamping and the ARD/ARC fields -- nothing else, in every world *)
Theorem C03_auto_retries_encoding : forall me delay count d w,
  (me < length (radios w))%nat ->
  exists d1 w1, set_auto_retries (WB me) delay count d w = (Ok tt, d1, w1)
    /\ cview (get_radio w1 me) = cset (cview (get_radio w me)) 4 (Z.to_N (retr_value delay count))
    /\ (forall j, j <> me -> cview (get_radio w1 j) = cview (get_radio w j)).
Proof. exact set_auto_retries_world. Qed.
Print Assumptions C03_auto_retries_encoding.

(* data_rate = 1 | 2 | 250 (Mbps / kbps): RF_SETUP := rate_value old speed, whose bits 5 and 3 (RF_DR_LOW, RF_DR_HIGH,
   mask 40) are the documented 00 | 01 | 10 and whose other bits (mask 151: PA level, LNA, PLL_LOCK, CONT_WAVE) are
   the old ones -- for every previous register content; any other speed: ValueError with nothing written anywhere *)
Theorem C03_data_rate_encoding : forall me speed d w,
  (me < length (radios w))%nat -> (speed = 1 \/ speed = 2 \/ speed = 250) ->
  exists d1 w1, set_data_rate (WB me) speed d w = (Ok tt, d1, w1)
    /\ cview (get_radio w1 me) = cset (cview (get_radio w me)) 6 (rate_value (creg (cview (get_radio w me)) 6) speed)
    /\ (forall j, j <> me -> cview (get_radio w1 j) = cview (get_radio w j)).
Proof. exact set_data_rate_world. Qed.
Print Assumptions C03_data_rate_encoding.

Theorem C03_data_rate_bits : forall n speed, (n < 256)%N -> (speed = 1 \/ speed = 2 \/ speed = 250) ->
  N.land (rate_value n speed) 40 = Z.to_N (rate_bits speed) /\ N.land (rate_value n speed) 151 = N.land n 151.
Proof. exact rate_value_bits. Qed.
Print Assumptions C03_data_rate_bits.

(* ... and the data_rate getter's formula, applied to that register content, gives the speed back *)
Theorem C03_data_rate_getter : forall n speed, (n < 256)%N -> (speed = 1 \/ speed = 2 \/ speed = 250) ->
  (let b := Z.land (Z.of_N (rate_value n speed)) 40 in if b =? 0 then 1 else if b =? 8 then 2 else 250) = speed.
Proof. exact rate_value_getter. Qed.
Print Assumptions C03_data_rate_getter.

Theorem C03_data_rate_rejects : forall me speed d w,
  (me < length (radios w))%nat -> ~ (speed = 1 \/ speed = 2 \/ speed = 250) ->
  exists d1 w1, set_data_rate (WB me) speed d w = (Exn ValueError, d1, w1)
    /\ (forall j, cview (get_radio w1 j) = cview (get_radio w j)).
Proof. exact set_data_rate_world_rejects. Qed.
Print Assumptions C03_data_rate_rejects.

(* crc = length, ANY integer (clamped to 0..2): CONFIG := crc_value cached length, whose bits 3,2 (EN_CRC, CRCO, mask 12)
   are 00 | 10 | 11 and whose other bits are those of the object's cached CONFIG byte *)
Theorem C03_crc_encoding : forall me length d w,
  (me < List.length (radios w))%nat -> 0 <= d_config d <= 255 ->
  exists d1 w1, set_crc (WB me) length d w = (Ok tt, d1, w1)
    /\ cview (get_radio w1 me) = cset (cview (get_radio w me)) 0 (crc_value (d_config d) length)
    /\ (forall j, j <> me -> cview (get_radio w1 j) = cview (get_radio w j)).
Proof. exact set_crc_world. Qed.
Print Assumptions C03_crc_encoding.

Theorem C03_crc_bits : forall cfg0 length, 0 <= cfg0 <= 255 ->
  0 <= Z.lor (Z.land cfg0 115) (crc_bits length) <= 255
  /\ N.land (crc_value cfg0 length) 12 = Z.to_N (crc_bits length)
  /\ N.land (crc_value cfg0 length) 115 = N.land (Z.to_N cfg0) 115.
Proof. exact crc_value_bits. Qed.
Print Assumptions C03_crc_bits.

(* pa_level = power | (power, lna), power in {-18,-12,-6,0}: RF_SETUP := pa_value cached power lna, whose bits 2,1
   (RF_PWR, mask 6) are 00 | 01 | 10 | 11 = (3 - power / -6), whose bit 0 (LNA_HCURR) is lna (True when only the power
   is given) and whose bits 7..3 are those of the object's cached RF_SETUP byte (bit 6 is not writable);
   any other power in an accepted argument form: ValueError with nothing written anywhere *)
Theorem C03_pa_level_encoding : forall me power p lna d w,
  (me < length (radios w))%nat -> pa_arg power p lna -> 0 <= d_rf_setup d <= 255 -> pa_ok p ->
  exists d1 w1, set_pa_level (WB me) power d w = (Ok tt, d1, w1)
    /\ cview (get_radio w1 me) = cset (cview (get_radio w me)) 6 (pa_value (d_rf_setup d) p lna)
    /\ (forall j, j <> me -> cview (get_radio w1 j) = cview (get_radio w j)).
Proof. exact set_pa_level_world. Qed.
Print Assumptions C03_pa_level_encoding.

Theorem C03_pa_level_bits : forall cached p lna, 0 <= cached <= 255 -> pa_ok p ->
  0 <= Z.lor (Z.lor (Z.land cached 248) (pa_bits p)) (zb lna) <= 255
  /\ N.land (pa_value cached p lna) 6 = Z.to_N (pa_bits p)
  /\ N.land (pa_value cached p lna) 1 = Z.to_N (zb lna)
  /\ N.land (pa_value cached p lna) 248 = N.land (Z.to_N cached) 184.
Proof. exact pa_value_bits. Qed.
Print Assumptions C03_pa_level_bits.

Theorem C03_pa_level_rejects : forall me power p lna d w,
  (me < length (radios w))%nat -> pa_arg power p lna -> ~ pa_ok p ->
  exists d1 w1, set_pa_level (WB me) power d w = (Exn ValueError, d1, w1)
    /\ (forall j, cview (get_radio w1 j) = cview (get_radio w j)).
Proof. exact set_pa_level_world_rejects. Qed.
Print Assumptions C03_pa_level_rejects.

(* ... and the formulas of the pa_level / is_lna_enabled getters, applied to that register content, give the power
   and the LNA flag back *)
Theorem C03_pa_level_getter : forall cached p lna, 0 <= cached <= 255 -> pa_ok p ->
  (3 - Z.shiftr (Z.land (Z.of_N (pa_value cached p lna)) 6) 1) * -6 = p
  /\ truthy (Z.land (Z.of_N (pa_value cached p lna)) 1) = lna.
Proof. exact pa_value_getter. Qed.
Print Assumptions C03_pa_level_getter.

(* the premises are satisfiable: pa_level = (-12, False) on a cached RF_SETUP of 0x27 gives 0x22 *)
Example C03_pa_level_nonvacuous :
  pa_arg (PList [PInt (-12); PBool false]) (-12) false /\ pa_ok (-12) /\ pa_value 39 (-12) false = 34%N.
Proof. split; [right; left; exists []; reflexivity|]. split; [right; left; reflexivity|reflexivity]. Qed.

(* arc = count, ANY integer (clamped to 0..15): SETUP_RETR := arc_value cached count, whose low nibble is the clamped
   count and whose high nibble (ARD) is the cached one;  ard = delta, ANY integer (clamped to 250..4000 us):
   SETUP_RETR := ard_value cached delta, whose high nibble is (delta - 250) / 250 and whose low nibble (ARC) is the
   cached one *)
Theorem C03_arc_encoding : forall me count d w,
  (me < length (radios w))%nat -> 0 <= d_retry_setup d <= 255 ->
  exists d1 w1, set_arc (WB me) count d w = (Ok tt, d1, w1)
    /\ cview (get_radio w1 me) = cset (cview (get_radio w me)) 4 (Z.to_N (arc_value (d_retry_setup d) count))
    /\ (forall j, j <> me -> cview (get_radio w1 j) = cview (get_radio w j)).
Proof. exact set_arc_world. Qed.
Print Assumptions C03_arc_encoding.

Theorem C03_arc_fields : forall cached count, 0 <= cached <= 255 ->
  arc_value cached count mod 16 = Z.max 0 (Z.min count 15) /\ arc_value cached count / 16 = cached / 16.
Proof. exact arc_value_fields. Qed.
Print Assumptions C03_arc_fields.

Theorem C03_ard_encoding : forall me delta d w,
  (me < length (radios w))%nat -> 0 <= d_retry_setup d <= 255 ->
  exists d1 w1, set_ard (WB me) delta d w = (Ok tt, d1, w1)
    /\ cview (get_radio w1 me) = cset (cview (get_radio w me)) 4 (Z.to_N (ard_value (d_retry_setup d) delta))
    /\ (forall j, j <> me -> cview (get_radio w1 j) = cview (get_radio w j)).
Proof. exact set_ard_world. Qed.
Print Assumptions C03_ard_encoding.

Theorem C03_ard_fields : forall cached delta,
  ard_value cached delta / 16 = (Z.max 250 (Z.min delta 4000) - 250) / 250 /\ ard_value cached delta mod 16 = cached mod 16.
Proof. exact ard_value_fields. Qed.
Print Assumptions C03_ard_fields.

(* simulation: same result, same cached attributes (up to the status byte), same configuration of radio `me`,
   every other radio's configuration untouched -- for arbitrary arguments, valid or not *)
Theorem C03_sim_setters : forall me,
  (forall v, sim me (set_data_rate (WB me) v) (set_data_rate CB v)) /\
  (forall v, sim me (set_crc (WB me) v) (set_crc CB v)) /\
  (forall v, sim me (set_pa_level (WB me) v) (set_pa_level CB v)) /\
  (forall v, sim me (set_arc (WB me) v) (set_arc CB v)) /\
  (forall v, sim me (set_ard (WB me) v) (set_ard CB v)) /\
  (forall v, sim me (set_address_length (WB me) v) (set_address_length CB v)) /\
  (forall v, sim me (set_auto_ack_attr (WB me) v) (set_auto_ack_attr CB v)) /\
  (forall v, sim me (set_dynamic_payloads_attr (WB me) v) (set_dynamic_payloads_attr CB v)) /\
  (forall v, sim me (set_payload_length_attr (WB me) v) (set_payload_length_attr CB v)) /\
  (forall v, sim me (set_ack (WB me) v) (set_ack CB v)) /\
  (forall v, sim me (set_power (WB me) v) (set_power CB v)) /\
  (forall p a, sim me (open_rx_pipe (WB me) p a) (open_rx_pipe CB p a)) /\
  (forall p, sim me (close_rx_pipe (WB me) p) (close_rx_pipe CB p)) /\
  (forall a, sim me (open_tx_pipe (WB me) a) (open_tx_pipe CB a)) /\
  (forall b, sim me (set_listen (WB me) b) (set_listen CB b)).
Proof.
  intro me.
  exact (conj (sim_set_data_rate me) (conj (sim_set_crc me) (conj (sim_set_pa_level me) (conj (sim_set_arc me)
        (conj (sim_set_ard me) (conj (sim_set_address_length me) (conj (sim_set_auto_ack_attr me)
        (conj (sim_set_dynamic_payloads_attr me) (conj (sim_set_payload_length_attr me) (conj (sim_set_ack me)
        (conj (sim_set_power me) (conj (sim_open_rx_pipe me) (conj (sim_close_rx_pipe me) (conj (sim_open_tx_pipe me)
        (sim_set_listen me))))))))))))))).
Qed.
Print Assumptions C03_sim_setters.

Theorem C03_sim_getters : forall me,
  sim me (get_channel (WB me)) (get_channel CB) /\ sim me (get_data_rate (WB me)) (get_data_rate CB) /\
  sim me (get_crc (WB me)) (get_crc CB) /\ sim me (get_pa_level (WB me)) (get_pa_level CB) /\
  sim me (get_arc (WB me)) (get_arc CB) /\ sim me (get_ard (WB me)) (get_ard CB) /\
  sim me (get_address_length (WB me)) (get_address_length CB) /\ sim me (get_power (WB me)) (get_power CB) /\
  sim me (get_listen (WB me)) (get_listen CB) /\ sim me (get_ack (WB me)) (get_ack CB).
Proof.
  intro me.
  exact (conj (sim_get_channel me) (conj (sim_get_data_rate me) (conj (sim_get_crc me) (conj (sim_get_pa_level me)
        (conj (sim_get_arc me) (conj (sim_get_ard me) (conj (sim_get_address_length me) (conj (sim_get_power me)
        (conj (sim_get_listen me) (sim_get_ack me)))))))))).
Qed.
Print Assumptions C03_sim_getters.

(* Props/C15.v -- property C15 (validity predicate part; update() totality is added
   with the node model).  Only statements, each closed by `exact`. *)
From Coq Require Import NArith List Bool.
From NRF Require Import Net.Addr Net.AddrFacts.
Import ListNotations.
Local Open Scope N_scope.

(* For EVERY natural number a (not only 16-bit ones): is_address_valid accepts a iff a
   is 0 or one to four octal digits each in 1..5 (of_digits of such a digit list; the
   empty list is 0), or one of the reserved multicast addresses 0o100, 0o10, 0o1000. *)
Theorem C15_valid_spec : forall a,
  is_address_valid a = true <->
  (exists ds, (length ds <= 4)%nat /\ Forall (fun d => 1 <= d <= 5) ds /\ a = of_digits ds)
  \/ a = 64 \/ a = 8 \/ a = 512.
Proof. exact valid_iff_digits. Qed.
Print Assumptions C15_valid_spec.

Theorem C15_valid_nodes : forall a,
  is_address_valid a = true <-> In a all_nodes \/ a = 64 \/ a = 8 \/ a = 512.
Proof. exact valid_iff. Qed.
Print Assumptions C15_valid_nodes.

(* the loop's fuel is never the reason for a rejection *)
Theorem C15_valid_fuel : forall a, valid_loop 8 a 0 = valid_loop 9 a 0.
Proof. exact valid_loop_fuel. Qed.
Print Assumptions C15_valid_fuel.

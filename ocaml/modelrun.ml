(* modelrun.ml -- thin driver around the code extracted from the Coq models.
   Line protocol on stdin/stdout: one request per line "<op> <tok> <tok> ...",
   one reply line per request.  Tokens: decimal ints (possibly negative),
   x<hex> byte strings ("x" = empty), "-" = None, T / F booleans.
   This file (number/hex conversion, dispatch, printing) is trusted glue. *)
open Model

(* ---------- conversions between OCaml ints and the extracted numbers ---------- *)
let rec pos_of_int (i : int) : positive =
  if i = 1 then XH
  else if i land 1 = 0 then XO (pos_of_int (i lsr 1))
  else XI (pos_of_int (i lsr 1))

let rec int_of_pos (p : positive) : int =
  match p with XH -> 1 | XO q -> 2 * int_of_pos q | XI q -> 2 * int_of_pos q + 1

let n_of_int (i : int) : n =
  if i < 0 then failwith "n_of_int: negative" else if i = 0 then N0 else Npos (pos_of_int i)

let int_of_n (x : n) : int = match x with N0 -> 0 | Npos p -> int_of_pos p

let rec nat_of_int (i : int) : nat = if i <= 0 then O else S (nat_of_int (i - 1))
let rec int_of_nat (x : nat) : int = match x with O -> 0 | S k -> 1 + int_of_nat k

(* ---------- token helpers ---------- *)
let bytes_of_tok (t : string) : n list =
  if String.length t = 0 || t.[0] <> 'x' then failwith ("bad hex token " ^ t);
  let h = String.sub t 1 (String.length t - 1) in
  let len = String.length h / 2 in
  List.init len (fun i -> n_of_int (int_of_string ("0x" ^ String.sub h (2 * i) 2)))

let tok_of_bytes (l : n list) : string =
  "x" ^ String.concat "" (List.map (fun b -> Printf.sprintf "%02x" (int_of_n b)) l)

let tok_of_bool b = if b then "T" else "F"
let bool_of_tok t = match t with "T" -> true | "F" -> false | _ -> failwith ("bad bool " ^ t)
let tok_of_nlist (l : n list) : string =
  "[" ^ String.concat "," (List.map (fun b -> string_of_int (int_of_n b)) l) ^ "]"

let ni s = n_of_int (int_of_string s)

let z_of_int (i : int) : z =
  if i = 0 then Z0 else if i > 0 then Zpos (pos_of_int i) else Zneg (pos_of_int (-i))
let int_of_z (x : z) : int = match x with Z0 -> 0 | Zpos p -> int_of_pos p | Zneg p -> - (int_of_pos p)

(* generic int-stream entry points: "run <name> <int> ..." -> ints *)
let runners : (string * (z list -> z list)) list = [
  ("queue", run_queue);
  ("header", run_header);
  ("rf24", run_rf24);
  ("net", run_net);
  ("replay", run_replay);
  ("ble", run_ble);
  ("mixed", run_mixed);
]

(* ---------- the world server: one mutable world shared by the SPI shims of a run ---------- *)
let the_world : world ref = ref (new_world [] [])
let fate_of_char c = match c with 'D' -> Delivered | 'P' -> PacketLost | 'A' -> AckLost
                                  | _ -> failwith "bad fate"
let fates_of_tok t = if t = "-" then [] else List.init (String.length t) (fun i -> fate_of_char t.[i])
let ints_out (l : z list) = String.concat " " (List.map (fun x -> string_of_int (int_of_z x)) l)

(* ---------- dispatch ---------- *)
let handle (toks : string list) : string =
  match toks with
  | "run" :: name :: args -> (
      match List.assoc_opt name runners with
      | None -> "ERR unknown runner " ^ name
      | Some f ->
          String.concat " " (List.map (fun x -> string_of_int (int_of_z x))
                               (f (List.map (fun a -> z_of_int (int_of_string a)) args))))
  | [ "wnew"; plus; fates ] ->
      the_world := new_world (List.init (String.length plus) (fun i -> plus.[i] = 'T')) (fates_of_tok fates);
      "ok"
  | [ "wspi"; i; mosi ] ->
      let w, miso = w_spi !the_world (nat_of_int (int_of_string i)) (bytes_of_tok mosi) in
      the_world := w;
      tok_of_bytes miso
  | [ "wce"; i; v ] ->
      the_world := w_ce !the_world (nat_of_int (int_of_string i)) (v = "1");
      "ok"
  | [ "wsnap" ] -> ints_out (List.concat_map snap_radio !the_world.radios)
  | [ "wsnap"; i ] -> ints_out (snap_radio (get_radio !the_world (nat_of_int (int_of_string i))))
  | [ "woracle"; fates ] ->
      the_world := { !the_world with oracle = fates_of_tok fates };
      "ok"
  | [ "winject"; i; p; data ] ->
      let i = nat_of_int (int_of_string i) in
      the_world := set_radio !the_world i (inject (get_radio !the_world i) (ni p) (bytes_of_tok data));
      "ok"
  | [ "wair" ] ->
      let l = !the_world.air in
      the_world := { !the_world with air = [] };
      string_of_int (List.length l) ^ " " ^ ints_out (List.concat_map put_airlog l)
  | [ "valid"; a ] -> tok_of_bool (is_address_valid (ni a))
  | [ "lvl2addr"; l ] -> string_of_int (int_of_n (lvl_2_addr (ni l)))
  | [ "consts"; a ] -> (
      match begin_consts (ni a) with
      | None -> "nofuel"
      | Some c ->
          Printf.sprintf "%d %d %d %d %d" (int_of_n c.c_mask) (int_of_n c.c_mask_inv)
            (int_of_n c.c_lvl) (int_of_n c.c_parent) (int_of_n c.c_ppipe))
  | [ "l2p"; a; t; st ] -> (
      match begin_consts (ni a) with
      | None -> "nofuel"
      | Some c ->
          let (nd, pp), mc = logi_2_phys c (ni t) (ni st) in
          Printf.sprintf "%d %d %s" (int_of_n nd) (int_of_n pp) (tok_of_bool mc))
  | [ "l2prow"; a; st ] -> (
      (* all 781 destinations for one source, one reply line *)
      match begin_consts (ni a) with
      | None -> "nofuel"
      | Some c ->
          String.concat ";"
            (List.map
               (fun t ->
                 let (nd, pp), mc = logi_2_phys c t (ni st) in
                 Printf.sprintf "%d %d %s" (int_of_n nd) (int_of_n pp) (tok_of_bool mc))
               all_nodes))
  | [ "pa"; amc; pre; suf; a; p ] -> (
      let pre = List.hd (bytes_of_tok pre) in
      match pipe_address pre (bytes_of_tok suf) (bool_of_tok amc) (ni a) (ni p) with
      | None -> "IndexError"
      | Some l -> tok_of_bytes l)
  | [ "route"; s; d ] -> (
      match route (nat_of_int 10) tX_NORMAL (ni s) (ni d) with
      | None -> "nofuel"
      | Some l ->
          "[" ^ String.concat ","
                  (List.map (fun (a, p) -> Printf.sprintf "%d/%d" (int_of_n a) (int_of_n p)) l) ^ "]")
  | [ "treepath"; s; d ] -> tok_of_nlist (tree_path (ni s) (ni d))
  | [ "allnodes" ] -> tok_of_nlist all_nodes
  | _ -> "ERR unknown request: " ^ String.concat " " toks

let () =
  try
    while true do
      let line = input_line stdin in
      let toks = List.filter (fun s -> s <> "") (String.split_on_char ' ' line) in
      let out = try handle toks with e -> "ERR " ^ Printexc.to_string e in
      print_string out;
      print_char '\n';
      flush stdout
    done
  with End_of_file -> ()

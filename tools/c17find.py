import sys, json
from corr import common, des, c17
vseed, tier, scseed = int(sys.argv[1]), sys.argv[2], int(sys.argv[3])
plan = ([1, 2, 3, 4, 6, 6, 7, 7, 7, 7] if tier == "quick" else [1, 2, 3, 4, 5] * 4 + [6, 7, 8] * 14 + [9, 10, 11, 12] * 5)
cands = [("c17/%s/%d" % (tier, i), n) for i, n in enumerate(plan)] + [("c17/hunt/%d" % i, [6, 7, 8, 9, 7, 8][i % 6]) for i in range(40)]
for salt, n in cands:
    sc = c17.Scenario(common.rng(vseed, salt), n, tier)
    if sc.seed == scseed:
        print("found", salt, n)
        break
else:
    raise SystemExit("not found")
m = common.Model()
sc = c17.Scenario(common.rng(vseed, salt), n, tier)
run = des.Run(m, [True] * (sc.n + 1), sc.specs, sc.scripts, sc.seed, sc.spi_cost, sc.jitter, horizon_ns=120_000_000_000)
orig_call = run.call
def call(t, op, dump=True):
    before = t.obj._addr
    e = orig_call(t, op, dump)
    e["addr_before"] = before
    if t.idx == 0:
        sc.note_table(run, t)
    return e
run.call = call
run.go()
for t in run.tasks:
    print(t.idx, "id", sc.ids[t.idx], "addr %o" % t.obj._addr, "exc", t.exc, "clock %.3f" % (t.clock/1e6))
    for e in t.log:
        if e["op"][0] != "update":
            print("   %.3f-%.3f" % (e["t0"]/1e6, e["t1"]/1e6), e["op"][:4], e["res"], "addr %o" % e["addr"])
    for f in t.obj.queue._queue:
        print("   Q:", f.header.to_string(), bytes(f.message).hex())
print("table", {k: oct(v) for k, v in run.tasks[0].obj.dhcp_dict.items()})
print("hist", [(round(a/1e6,3), {k: oct(v) for k, v in b.items()}) for a, b in sc.table_hist])
print("verdict", c17.judge(sc, run))
for e in run.air:
    h = c17.S.parse_hdr(e["data"])
    print("%.3f" % (e["t"]/1e6), e["from"], e["addr"].hex(), h and ("%o>%o t%d r%d id%d %s" % (h["frm"], h["to"], h["type"], h["res"], h["id"], h["msg"].hex())), "ok" if e["ok"] else "FAIL", e["receivers"], "noack" if e["noack"] else "")
import os
if os.environ.get("TAPE"):
    node, pos = [int(x) for x in os.environ["TAPE"].split(",")]
    tape = run.tasks[node].tape
    p = 0; k = 0; out = []
    while p < len(tape):
        t = tape[p]
        if t == 0:
            a = tape[p+1]; o = tape[p+2:p+2+a]; b = tape[p+2+a]; i = tape[p+3+a:p+3+a+b]; p += 3+a+b
            ev = ("spi", bytes(o).hex(), bytes(i).hex())
        else:
            ev = (["", "ce", "now", "sleep"][t], tape[p+1]); p += 2
        if pos - 25 <= k <= pos + 6:
            print("TAPE", k, ev)
        k += 1
    print("replay", run.replay(run.tasks[node]))

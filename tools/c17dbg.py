import sys, json
from corr import common, des, c17
from corr import netops as NO
tier, idx = sys.argv[1], int(sys.argv[2])
seed = 20260926
plan = ([1, 2, 3, 4, 6, 6, 7, 7, 7, 7] if tier == "quick" else [1, 2, 3, 4, 5] * 6 + [6, 7, 8] * 25 + [9, 10, 11, 12] * 10)
m = common.Model()
sc = c17.Scenario(common.rng(seed, "c17/%s/%d" % (tier, idx)), plan[idx], tier)
print(sc.describe())
run = des.Run(m, [True] * (sc.n + 1), sc.specs, sc.scripts, sc.seed, sc.spi_cost, sc.jitter, horizon_ns=120_000_000_000)
orig_call = run.call
def call(t, op, dump=True):
    before = t.obj._addr
    e = orig_call(t, op, dump)
    e["addr_before"] = before
    if t.idx == 0:
        sc.note_table(run, t)
    return e
run.call = call
run.go()
for t in run.tasks:
    print(t.idx, "id", sc.ids[t.idx], "addr %o" % t.obj._addr, "exc", t.exc, "clock %.3f" % (t.clock/1e6))
    for e in t.log:
        if e["op"][0] != "update":
            print("   %.3f-%.3f" % (e["t0"]/1e6, e["t1"]/1e6), e["op"][:4], e["res"], "addr %o" % e["addr"])
    for f in t.obj.queue._queue:
        print("   Q:", f.header.to_string(), bytes(f.message).hex())
print("table", {k: oct(v) for k, v in run.tasks[0].obj.dhcp_dict.items()})
print("hist", [(round(a/1e6,3), {k: oct(v) for k, v in b.items()}) for a, b in sc.table_hist])
print("verdict", c17.judge(sc, run))
if len(sys.argv) > 3:
    for e in run.air:
        h = c17.S.parse_hdr(e["data"])
        print(e["from"], e["addr"].hex(), h and ("%o>%o t%d r%d id%d %s" % (h["frm"], h["to"], h["type"], h["res"], h["id"], h["msg"].hex())), "ok" if e["ok"] else "FAIL", e["receivers"], "noack" if e["noack"] else "")

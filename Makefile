# Top-level build of the verification framework (offline; Coq 8.16.1 + OCaml 4.13.1).
# `make build` is incremental and is what every check runs first.
COQDIR := coq
.PHONY: build coq ocaml clean

build: coq ocaml

$(COQDIR)/Makefile.coq: $(COQDIR)/_CoqProject
	cd $(COQDIR) && coq_makefile -f _CoqProject -o Makefile.coq

coq: $(COQDIR)/Makefile.coq
	mkdir -p ocaml/gen
	cd $(COQDIR) && timeout 2400 $(MAKE) -f Makefile.coq -j16 --no-print-directory

ocaml/modelrun: ocaml/gen/model.ml ocaml/modelrun.ml
	rm -f ocaml/modelrun ocaml/gen/model.mli ocaml/gen/*.cm*
	cd ocaml && ocamlfind ocamlopt -w -a -O3 -package str,unix -linkpkg -I gen \
	    gen/model.ml modelrun.ml -o modelrun 2>&1 | grep -v "options are only" || true
	test -x ocaml/modelrun

ocaml: coq
	$(MAKE) --no-print-directory ocaml/modelrun

clean:
	-cd $(COQDIR) && $(MAKE) -f Makefile.coq clean
	rm -f $(COQDIR)/Makefile.coq $(COQDIR)/Makefile.coq.conf ocaml/modelrun ocaml/gen/* ocaml/*.cm* ocaml/*.o

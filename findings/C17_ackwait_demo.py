"""Deterministic demonstration of the known finding C17/master-ignores-frames-while-awaiting-network-ack:
a master answering a relayed address request consumes a lookup that is waiting in its RX FIFO while it waits for the
NETWORK_ACK of its response, and never answers it (no type 196 frame from radio 0 on the air).
run: PYTHONPATH=/repo:/verif /venv/bin/python findings/C17_ackwait_demo.py"""
from corr import common, netops as NO, netscen as S
m = common.Model()
def hdr(frm, to, fid, typ, res): return bytes([frm & 255, frm >> 8, to & 255, to >> 8, fid & 255, fid >> 8, typ, res])
specs = [(0, "mesh", 0), (1, "network", 0o5)]
ops = [("timeouts", 2, 6),
       ("inject", 0, 5, hdr(0o15, 0, 7, 195, 42)),          # address request of ID 42 relayed by node 0o15
       ("inject", 0, 5, hdr(0o5, 0, 8, 196, 0) + bytes([42])),  # lookup_address(42) from node 0o5, right behind it
       ("update",), ("air",), ("update",), ("air",)]
class C:
    def start(self, run, snaps): self.run = run
    def step(self, *a): return None
    def air(self, k, log):
        for e in log:
            h = S.parse_hdr(e["data"])
            print("  air: radio %d -> %s  %o>%o type %d %s %s" % (e["from"], e["addr"].hex(), h["frm"], h["to"], h["type"], h["msg"].hex(), "ok" if e["ok"] else "FAIL"))
        return None
iout, mout, v = NO.checked_run(m, [True, True], specs, ops, C())
print("model == implementation:", iout == mout)

"""Virtual time injected into the driver modules by assigning to their `time` global
(no source hook needed).  Stand-alone variant: a counter; the world-backed variant in
world.py forwards to the extracted world model's clock."""


class FakeTime:
    def __init__(self, step_ns=1000):
        self.now = 0
        self.step = step_ns

    def monotonic_ns(self):
        self.now += self.step
        return self.now

    def monotonic(self):
        return self.monotonic_ns() / 1e9

    def sleep(self, s):
        self.now += int(s * 1e9)


def install(fake):
    import circuitpython_nrf24l01.rf24 as a
    import circuitpython_nrf24l01.rf24_lite as b
    import circuitpython_nrf24l01.network.mixins as c
    import circuitpython_nrf24l01.rf24_mesh as d

    for m in (a, b, c, d):
        m.time = fake
    return fake

"""C04 -- correspondence: routing constants, next hops, pipe addresses (exhaustive over
the 781-address space) between the real NetworkMixin code and the extracted model,
plus the property predicates evaluated on the implementation's own tables."""
from circuitpython_nrf24l01.rf24_network import RF24Network
from circuitpython_nrf24l01.network.structs import RF24NetworkFrame, RF24NetworkHeader
from circuitpython_nrf24l01.network.mixins import _lvl_2_addr

from . import common, shim, vtime

TRUSTED = [
    "Coq 8.16.1 kernel incl. vm_compute (no native_compute); all C04 theorems closed under the global context",
    "hand-written Gallina model Net/Addr.v of _begin/_logi_2_phys/_pipe_address/_lvl_2_addr, tied to the "
    "code by this exhaustive differential run (781 nodes, 781x781 routes, 781x6 pipes)",
    "specifications not derived from the code: tree_path / parent_of (digit lists), all_nodes",
    "extraction (ExtrOcamlBasic, ExtrOcamlNativeString only) + ocaml/modelrun.ml glue",
    "python harness corr/c04.py, corr/shim.py (register-file stub radio: only stores what is written)",
]


def all_nodes():
    out = [0]
    lvl = [0]
    for k in range(4):
        lvl = [a + d * (1 << (3 * k)) for a in lvl for d in range(1, 6)]
        out += lvl
    return out


def digits(a):
    d = []
    while a:
        d.append(a & 7)
        a >>= 3
    return d


def undig(ds):
    a = 0
    for d in reversed(ds):
        a = a * 8 + d
    return a


def tree_next(s, d):
    """independent next hop on the unique tree path (property text)"""
    sd, dd = digits(s), digits(d)
    if dd[: len(sd)] == sd and len(dd) > len(sd):
        return undig(dd[: len(sd) + 1])
    return undig(sd[:-1])


def run(rep, model, tier, seed):
    vtime.install(vtime.FakeTime())
    nodes = all_nodes()
    m_nodes = model.ask("allnodes")
    if m_nodes != "[" + ",".join(map(str, nodes)) + "]":
        rep.disagree("all_nodes", {}, m_nodes[:80], str(nodes)[:80], None)
    rep.rule = ("exhaustive: _begin constants for all 781 nodes; _logi_2_phys for all 781x781 (source, "
                "destination) pairs with send types 0..4; _pipe_address for all 781x6 + level addresses, "
                "multicast on/off, default and random distinct prefix/suffix bytes; registers after "
                "_begin; TX_ADDR of the first transmission of write() for sampled/all pairs. "
                "non-trivial = source != destination (routes) / every pipe case; distinct = distinct input tuple")
    spi, csn, ce = shim.new_parts()
    net = RF24Network(spi, csn, ce, 0)
    r = common.rng(seed, "c04")

    # ---- 1. _begin constants + registers, all nodes, multicast on and off
    consts = {}
    opened = {}  # (mc, node) -> list of six 5-byte addresses the node listens on
    for mc in (True, False):
        net.allow_multicast = mc
        reqs = []
        for a in nodes:
            reqs.append("consts %d" % a)
            for p in range(6):
                reqs.append("pa %s xcc xc33c33ce3ee3 %d %d" % ("T" if mc else "F", a, p))
        outs = iter(model.batch(reqs))
        for a in nodes:
            net._begin(a)
            impl_c = "%d %d %d %d %d" % (net._mask, net._mask_inv, net._net_lvl, net._parent, net._parent_pipe)
            consts[a] = (net._mask, net._mask_inv, net._net_lvl, net._parent, net._parent_pipe)
            m_c = next(outs)
            rep.seen(("consts", mc, a))
            rep.count("begin")
            if impl_c != m_c:
                key = None
                ds = digits(a)
                if net._parent != undig(ds[:-1]) or net._net_lvl != len(ds):
                    key = "C04/begin-parent-or-level"
                rep.disagree("_begin constants (mask mask_inv level parent parent_pipe)",
                             {"node": a, "octal": oct(a)}, m_c, impl_c, key)
            regs = spi.regs
            p1 = bytes(regs[0x0B])
            listen = [bytes(regs[0x0A]), p1] + [bytes([regs[0x0A + i][0]]) + p1[1:] for i in range(2, 6)]
            opened[(mc, a)] = listen
            for p in range(6):
                m_pa = next(outs)
                impl_pa = common.hx(listen[p])
                rep.seen(("pa", mc, a, p))
                rep.count("pipe_address")
                if impl_pa != m_pa:
                    rep.disagree("RX_ADDR_P%d after _begin" % p, {"node": a, "octal": oct(a), "allow_multicast": mc},
                                 m_pa, impl_pa, None)
            if regs[0x02][0] != 0x3F:
                rep.disagree("EN_RXADDR after _begin", {"node": a}, "0x3f", hex(regs[0x02][0]), "C04/pipe-not-open")
    rep.exhaustive.append("_begin constants and RX_ADDR_P0..5 for all 781 nodes, multicast on/off")
    rep.sample({"call": "_begin(0o%o)" % 0o4444, "consts": consts[0o4444], "listens_on": [x.hex() for x in opened[(True, 0o4444)]]})

    # ---- property predicates on the implementation's own tables
    for mc in (True, False):
        seen = {}
        for a in nodes:
            lst = opened[(mc, a)]
            for p in range(6):
                if mc and p == 0:
                    continue
                k = lst[p]
                if k in seen:
                    rep.disagree("pipe address collision", {"allow_multicast": mc, "a": [oct(a), p], "b": [oct(seen[k][0]), seen[k][1]]},
                                 "distinct", k.hex(), "C04/pipe-collision")
                seen[k] = (a, p)
            if any(lst[p][1:] != lst[1][1:] for p in range(2, 6)):
                rep.disagree("hw shape", {"node": a}, "", "", "C04/hw-shape")
        if mc:
            lv = {}
            for a in nodes:
                lv.setdefault(len(digits(a)), set()).add(opened[(mc, a)][0])
            lvl_addrs = [next(iter(v)) for v in lv.values()]
            if any(len(v) != 1 for v in lv.values()) or len(set(lvl_addrs)) != 5 or any(x in seen for x in lvl_addrs):
                rep.disagree("level pipe-0 addresses", {}, "one shared address per level, distinct", str(lv)[:200],
                             "C04/level-address")
            net.allow_multicast = True
            level_addr = {L: next(iter(lv[L])) for L in lv}
            for L in range(5):
                got = bytes(net._pipe_address(_lvl_2_addr(L), 0))
                if got != next(iter(lv[L])):
                    rep.disagree("multicast target address", {"level": L}, next(iter(lv[L])).hex(), got.hex(),
                                 "C04/multicast-target")

    # ---- 2. _logi_2_phys, all pairs, all send types
    net.allow_multicast = True
    n_pairs = 0
    for st in (0, 1, 2, 3, 4):
        rows = model.batch(["l2prow %d %d" % (a, st) for a in nodes])
        for a, row in zip(nodes, rows):
            (net._addr, net._mask, net._mask_inv, net._net_lvl, net._parent, net._parent_pipe) = (a,) + consts[a]
            cells = row.split(";")
            for d, cell in zip(nodes, cells):
                t = net._logi_2_phys(d, st)
                impl = "%d %d %s" % (t[0], t[1], "T" if t[2] else "F")
                n_pairs += 1
                if impl != cell:
                    key = None
                    if st <= 1 and a != d and t[0] != tree_next(a, d):
                        key = "C04/next-hop-off-tree-path"
                    elif st <= 1 and a != d and not (1 <= t[1] <= 5):
                        key = "C04/hop-pipe"
                    elif st >= 2 and (t[0] != d or t[1] != 0):
                        key = "C04/direct-send-target"
                    if a == d and st <= 1:
                        key = None  # routing to oneself is outside the property (loop-back is C05/C14)
                    rep.disagree("_logi_2_phys", {"node": a, "to": d, "send_type": st, "octal": [oct(a), oct(d)]},
                                 cell, impl, key)
    # the multicast_level override (stored in _net_lvl) must not influence unicast routing
    n_lvl = 0
    sub = nodes if tier != "quick" else nodes[::5]
    for st in (0, 1):
        rows = model.batch(["l2prow %d %d" % (a, st) for a in sub])
        for a, row in zip(sub, rows):
            cells = row.split(";")
            for L in range(5):
                if L == consts[a][2]:
                    continue
                (net._addr, net._mask, net._mask_inv, net._net_lvl, net._parent, net._parent_pipe) = (a,) + consts[a]
                net._net_lvl = L          # what `multicast_level = L` stores
                for d, cell in zip(nodes, cells):
                    t = net._logi_2_phys(d, st)
                    impl = "%d %d %s" % (t[0], t[1], "T" if t[2] else "F")
                    n_lvl += 1
                    if impl != cell and a != d:
                        rep.disagree("_logi_2_phys with multicast_level override",
                                     {"node": a, "to": d, "send_type": st, "multicast_level": L, "octal": [oct(a), oct(d)]},
                                     cell, impl, "C04/next-hop-off-tree-path" if t[0] != tree_next(a, d) else None)
    rep.count("logi_2_phys with multicast_level override", n_lvl)
    n_pairs += n_lvl
    rep.exhaustive.append("_logi_2_phys for %d nodes x 781 destinations x every multicast_level override != own level" % len(sub))
    rep.evaluations += n_pairs
    rep.count("logi_2_phys", n_pairs)
    for a in nodes:
        for d in nodes:
            if a != d:
                rep.nontrivial.add((a, d).__hash__().to_bytes(8, "little", signed=True))
    rep.exhaustive.append("_logi_2_phys for all 781x781 pairs x send types 0..4")
    # independent walk: implementation's hops follow the tree path and terminate (all pairs)
    hop = {}
    for a in nodes:
        (net._addr, net._mask, net._mask_inv, net._net_lvl, net._parent, net._parent_pipe) = (a,) + consts[a]
        hop[a] = [net._logi_2_phys(d, 1)[:2] for d in nodes]
    idx = {a: i for i, a in enumerate(nodes)}
    bad = 0
    for s in nodes:
        for d in nodes:
            if s == d:
                continue
            cur, n = s, 0
            while cur != d and n <= 8:
                nxt, pipe = hop[cur][idx[d]] if cur in idx else (None, None)
                if nxt != tree_next(cur, d) or not 1 <= pipe <= 5:
                    n = 99
                    break
                # the address transmitted to must be one the next hop listens on
                cur, n = nxt, n + 1
            if cur != d or n > 8:
                bad += 1
                if bad <= 5:
                    rep.disagree("route walk", {"src": oct(s), "dst": oct(d)}, "reaches dst in <= 8 tree hops", "does not",
                                 "C04/route-does-not-follow-tree-path")
    rep.sample({"call": "_logi_2_phys on node 0o13 to 0o4444", "impl": hop[0o13][idx[0o4444]],
                "model": model.ask("l2p %d %d 1" % (0o13, 0o4444))})

    # ---- 3. _pipe_address with random distinct bytes
    nsets = 4 if tier == "quick" else 50
    for _ in range(nsets):
        bs = r.sample(range(256), 7)
        net.address_prefix = bytearray([bs[0]])
        net.address_suffix = bytearray(bs[1:])
        for mc in (True, False):
            net.allow_multicast = mc
            cases = [(a, p) for a in nodes for p in range(6)] + [(x, 0) for x in (0o100, 0o10, 0o1000, 0o11111, 0o67)]
            outs = model.batch(["pa %s %s %s %d %d" % ("T" if mc else "F", common.hx(bs[:1]), common.hx(bs[1:]), a, p)
                                for a, p in cases])
            table = {}
            for (a, p), m in zip(cases, outs):
                try:
                    impl = common.hx(net._pipe_address(a, p))
                except IndexError:
                    impl = "IndexError"
                rep.seen(("pa", tuple(bs), mc, a, p))
                rep.count("pipe_address_random_bytes")
                if impl != m:
                    rep.disagree("_pipe_address", {"prefix": bs[0], "suffix": bs[1:], "allow_multicast": mc, "node": a, "pipe": p},
                                 m, impl, None)
                if a in idx and (p or not mc):
                    if impl in table:
                        rep.disagree("pipe address collision", {"prefix": bs[0], "suffix": bs[1:], "allow_multicast": mc,
                                                                "a": [oct(a), p], "b": list(table[impl])},
                                     "distinct", impl, "C04/pipe-collision")
                    table[impl] = (oct(a), p)
    net.address_prefix = bytearray([0xCC])
    net.address_suffix = bytearray([0xC3, 0x3C, 0x33, 0xCE, 0x3E, 0xE3])
    net.allow_multicast = True

    # ---- 4. TX_ADDR of the first transmission of write()
    pairs = [(s, d) for s in nodes for d in nodes if s != d]
    if tier == "quick":
        pairs = r.sample(pairs, 3000)
    reqs = ["route %d %d" % p for p in pairs]
    routes = model.batch(reqs)
    cur = None
    for (s, d), rt in zip(sorted(zip(pairs, routes)), [None] * len(pairs)):
        pass
    order = sorted(range(len(pairs)), key=lambda i: pairs[i])
    for i in order:
        s, d = pairs[i]
        if cur != s:
            net._begin(s)
            cur = s
        spi.tx_addr_log.clear()
        spi.tx.clear()
        ok = net.write(RF24NetworkFrame(RF24NetworkHeader(d, 1), b"x"))
        first = routes[i].strip("[]").split(",")[0]
        nxt, pipe = map(int, first.split("/"))
        want = opened[(True, nxt)][pipe]
        got = spi.tx_addr_log[0] if spi.tx_addr_log else None
        rep.seen(("tx", s, d))
        rep.count("write_first_hop")
        if got != want:
            key = None
            if got is None or all(got != x for x in opened[(True, tree_next(s, d))][1:]):
                key = "C04/hop-address-not-listened-by-next-hop"
            rep.disagree("TX_ADDR of first transmission", {"src": oct(s), "dst": oct(d)}, want.hex(),
                         got.hex() if got else None, key)
    # ... and of multicast(): every node, every level (explicitly, and through the multicast_level override)
    for s_ in nodes:
        net._begin(s_)
        own = net._net_lvl
        for L in range(5):
            for how in ("arg", "override"):
                if how == "override":
                    net._net_lvl = L          # what `multicast_level = L` stores
                spi.tx_addr_log.clear()
                spi.tx.clear()
                net.multicast(b"x", 1, L if how == "arg" else None)
                net._net_lvl = own
                got = spi.tx_addr_log[0] if spi.tx_addr_log else None
                rep.seen(("mc", s_, L, how))
                rep.count("multicast_tx_addr")
                rep.evaluations += 1
                if got != level_addr[L]:
                    rep.disagree("TX_ADDR of multicast()", {"node": oct(s_), "level": L, "level_given_by": how},
                                 level_addr[L].hex(), got.hex() if got else None, "C04/multicast-not-sent-to-level-address")
    rep.exhaustive.append("TX_ADDR of multicast() for all 781 nodes x 5 levels, level as argument and as multicast_level")
    if tier != "quick":
        rep.exhaustive.append("TX_ADDR of write() for all 781x780 pairs")
    else:
        rep.extra["also_sampled_only"] = False
    rep.sample({"call": "write() at 0o13 to 0o4444", "tx_addr_model_route": model.ask("route %d %d" % (0o13, 0o4444))})


def replay(path):
    import json
    d = json.load(open(path))
    print(json.dumps(d, indent=1)[:3000])
    return 0

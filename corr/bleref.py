"""Independent bit-serial BLE link-layer reference (advertising channels), written from the
Bluetooth Core Specification v4.0 Vol 6 Part B (3.1.1 CRC generation, 3.2 data whitening,
2.3 advertising channel PDU) -- no code shared with fake_ble.py or with the Gallina model.

On air, BLE sends every byte least-significant bit first; the nRF24L01 shifts every payload
byte out most-significant bit first.  The bit stream of an nRF24 payload is therefore its
bytes read MSB first.
"""

RF_TO_BLE = {2: 37, 26: 38, 80: 39}


def air_bits(payload):
    """the on-air bit sequence of an nRF24 payload"""
    return [(b >> (7 - k)) & 1 for b in payload for k in range(8)]


def nrf_bytes(bits):
    """pack an on-air bit sequence into nRF24 payload bytes (MSB first)"""
    assert len(bits) % 8 == 0
    return bytes(sum(bit << (7 - k) for k, bit in enumerate(bits[i:i + 8])) for i in range(0, len(bits), 8))


def ble_bytes(bits):
    """BLE byte values of an on-air bit sequence (LSB first)"""
    return bytes(sum(bit << k for k, bit in enumerate(bits[i:i + 8])) for i in range(0, len(bits) - len(bits) % 8, 8))


def ble_bits(data):
    return [(b >> k) & 1 for b in data for k in range(8)]


def whiten(bits, ble_channel):
    """7-bit LFSR x^7 + x^4 + 1; position 0 = 1, positions 1..6 = channel index, MSB in position 1"""
    reg = [1] + [(ble_channel >> (5 - k)) & 1 for k in range(6)]
    out = []
    for b in bits:
        o = reg[6]
        out.append(b ^ o)
        reg = [o, reg[0], reg[1], reg[2], reg[3] ^ o, reg[4], reg[5]]
    return out


def crc24(bits, init=0x555555):
    """24-bit LFSR x^24 + x^10 + x^9 + x^6 + x^4 + x^3 + x + 1; position 0 = LSB of init; returns the
    24 CRC bits in transmission order (position 23 first)"""
    reg = [(init >> k) & 1 for k in range(24)]
    for b in bits:
        fb = reg[23] ^ b
        reg = [fb] + reg[:23]
        for k in (1, 3, 4, 6, 9, 10):
            reg[k] ^= fb
    return [reg[k] for k in range(23, -1, -1)]


def decode(payload, rf_channel):
    """what a BLE scanner tuned to the advertising channel at `rf_channel` MHz offset makes of an nRF24 payload"""
    ch = RF_TO_BLE.get(rf_channel)
    if ch is None:
        return {"error": "radio tuned to %d, not a BLE advertising frequency" % rf_channel}
    bits = whiten(air_bits(payload), ch)
    head = ble_bytes(bits[:16])
    length = head[1] & 0x3F if False else head[1]
    n = 16 + 8 * length
    if n + 24 > len(bits):
        return {"error": "length byte %d does not fit the payload" % length, "header": head[0], "length": length}
    body = ble_bytes(bits[16:n])
    crc_ok = bits[n:n + 24] == crc24(bits[:n])
    ads, p, malformed = [], 6, False
    while p < len(body):
        ln = body[p]
        if ln == 0 or p + 1 + ln > len(body):
            malformed = True
            break
        ads.append((body[p + 1], bytes(body[p + 2:p + 1 + ln])))
        p += 1 + ln
    return {"header": head[0], "pdu_type": head[0] & 0x0F, "txadd": head[0] >> 6 & 1, "length": length,
            "adva": bytes(body[:6]), "advdata": bytes(body[6:]), "ads": ads, "malformed": malformed, "crc_ok": crc_ok,
            "rest": ble_bytes(bits[n + 24:])}


def encode(mac, advdata, rf_channel, header=0x42, length=None, crc_xor=0, pad_to=32, noise=None):
    """an advertising PDU as the 32 bytes an nRF24 tuned to rf_channel would have to receive"""
    ch = RF_TO_BLE[rf_channel]
    body = bytes(mac) + bytes(advdata)
    ln = len(body) if length is None else length
    bits = ble_bits(bytes([header, ln]) + body)
    c = crc24(bits)
    if crc_xor:
        c = [b ^ (crc_xor >> (23 - k) & 1) for k, b in enumerate(c)]
    bits = bits + c
    # what follows the CRC on air is noise: zeros (before whitening) or the caller's bits
    bits += [(noise.getrandbits(1) if noise else 0) for _ in range(8 * pad_to - len(bits))]
    return nrf_bytes(whiten(bits, ch))[:pad_to]


def ad(ty, data):
    return bytes([len(data) + 1, ty]) + bytes(data)

"""Encoding of network frames / queue histories into the int streams understood by the
extracted model (coq/theories/Base/Wire.v, Net/QueueRun.v)."""
from circuitpython_nrf24l01.network.structs import RF24NetworkFrame, RF24NetworkHeader


def enc_bytes(b):
    return [len(b)] + list(b)


def enc_mtype(t):
    if isinstance(t, str):
        return [1, len(t)] + [ord(c) for c in t]
    return [0, int(t)]


def enc_frame(fr):
    """fr = dict(frm, to, id, type, res, msg)"""
    return [fr["frm"], fr["to"], fr["id"]] + enc_mtype(fr["type"]) + [fr["res"]] + enc_bytes(fr["msg"])


class Stream:
    def __init__(self, ints):
        self.v = ints
        self.i = 0

    def get(self):
        x = self.v[self.i]
        self.i += 1
        return x

    def bytes(self):
        n = self.get()
        out = bytes(self.v[self.i : self.i + n])
        self.i += n
        return out

    def mtype(self):
        k = self.get()
        if k == 0:
            return self.get()
        n = self.get()
        out = "".join(chr(c) for c in self.v[self.i : self.i + n])
        self.i += n
        return out

    def frame(self):
        frm, to, fid = self.get(), self.get(), self.get()
        t = self.mtype()
        res = self.get()
        return {"frm": frm, "to": to, "id": fid, "type": t, "res": res, "msg": self.bytes().hex()}

    def optframe(self):
        return self.frame() if self.get() else None

    def done(self):
        return self.i >= len(self.v)


def make_frame(fr):
    """a real RF24NetworkFrame with exactly these (unmasked) attribute values"""
    h = RF24NetworkHeader()
    h.from_node, h.to_node, h.frame_id = fr["frm"], fr["to"], fr["id"]
    h.message_type, h.reserved = fr["type"], fr["res"]
    m = fr["msg"]
    return RF24NetworkFrame(h, bytearray(m) if fr.get("ba") else bytes(m))


def obs_frame(f):
    """observable content of an implementation frame object (None -> None)"""
    if f is None:
        return None
    h = f.header
    return {"frm": h.from_node, "to": h.to_node, "id": h.frame_id, "type": h.message_type,
            "res": h.reserved, "msg": bytes(f.message).hex()}

"""C10 -- FIFO and status accessors report the radio's true state.

Traffic histories on a two-radio world (payloads on different pipes and of different
lengths queued in the RX FIFO, payloads queued/failed in the TX FIFO, ACK payloads,
latched flags) interleaved with accessor calls on a real RF24 object; compared call by call
with the Gallina driver model and judged against the world snapshot by a checker written
from the property text.
"""
from circuitpython_nrf24l01.rf24 import RF24

from . import common
from . import world as W
from . import rf24ops as R

TRUSTED = [
    "Coq 8.16.1 kernel incl. vm_compute (no native_compute); theorems closed under the global context",
    "environment model Env/Radio.v + Env/World.v (STATUS/FIFO_STATUS/OBSERVE_TX derivation, write-1-to-clear flags, FIFOs of "
    "depth 3, IRQ line = unmasked latched flag): modelled, not verified",
    "hand-written Gallina model Drv/RF24.v of rf24.py, tied to the code by this differential run",
    "extraction (ExtrOcamlBasic, ExtrOcamlNativeString; no Extract Constant) + ocaml/modelrun.ml glue (world server)",
    "python harness corr/c10.py, corr/rf24ops.py, corr/world.py incl. the accessor checker",
]

BASE = b"\x31\x4e\x6f\x64\x65"
PADDR = {1: BASE, 2: b"\x32" + BASE[1:], 3: b"\x33" + BASE[1:], 0: b"\x70\x71\x72\x73\x74"}
DUT = 1


def make_rf24(world, ri, k):
    spi, csn, ce = W.spidev_parts(world, ri) if k % 2 == 1 else W.busio_parts(world, ri)
    return RF24(spi, csn, ce)


ATTRS = ["tx_full", "pipe", "irq_dr", "irq_ds", "irq_df"]


def gen_case(r):
    dyn = r.random() < 0.6
    lens = [r.randrange(1, 33) for _ in range(6)]
    ackpl = dyn and r.random() < 0.3
    ops = []
    for node in (0, 1):
        ops += [("select", node)]
        if not dyn:
            ops += [("dynamic_payloads=", False)]
        if ackpl:
            ops += [("ack=", True)]
    ops += [("select", DUT)]
    if not dyn:
        ops += [("payload_length=", lens)]
    for p in (0, 1, 2, 3):
        ops.append(("open_rx_pipe", p, PADDR[p] if p < 2 else PADDR[p][:1]))
    ops += [("listen=", True), ("select", 0), ("listen=", False)]
    meta = {"dyn": dyn, "lens": lens, "ackpl": ackpl}

    def accessor_burst(n):
        out = [("select", DUT)]
        for _ in range(n):
            x = r.random()
            if x < 0.22:
                out.append(("update",))
                out += [(a,) for a in r.sample(ATTRS, r.randrange(1, 6))]
            elif x < 0.32:
                out.append(("available",))
                if r.random() < 0.5:
                    out.append(("pipe",))
            elif x < 0.42:
                out.append(("any",))
                if r.random() < 0.5:
                    out.append(("pipe",))
            elif x < 0.58:
                out.append(("read", None))
            elif x < 0.70:
                out.append(("fifo", r.random() < 0.5, r.choice([None, True, False])))
            elif x < 0.80:
                out.append(("clear_status_flags", r.random() < 0.5, r.random() < 0.5, r.random() < 0.5))
            elif x < 0.85:
                out.append(("flush_rx",) if r.random() < 0.6 else ("flush_tx",))
            elif x < 0.90:
                out.append(("interrupt_config", r.random() < 0.5, r.random() < 0.5, r.random() < 0.5))
            elif x < 0.94:
                # another attribute that lives in CONFIG is (re)assigned while an IRQ mask is in effect (both ends, so that
                # the link stays compatible)
                v = r.choice([0, 1, 2])
                out += [("select", 0), ("crc=", v), ("select", DUT), ("crc=", v)]
            else:
                out.append(("last_tx_arc",))
        return out

    for _ in range(r.randrange(1, 5)):
        ph = r.random()
        if ph < 0.55:
            # traffic towards the DUT on different pipes / with different lengths
            for _ in range(r.randrange(0, 4)):
                p = r.choice([0, 1, 2, 3])
                n = r.randrange(1, 33) if dyn else lens[p]
                if ackpl and r.random() < 0.6:
                    ops += [("select", DUT), ("load_ack", bytes(r.randrange(256) for _ in range(r.randrange(1, 6))), p)]
                # the sender pads to ITS pipe-0 static length: give it the receiving pipe's
                ops += [("select", 0)] + ([] if dyn else [("payload_length=", lens[p])])
                ops += [("open_tx_pipe", PADDR[p]), ("send", bytes(r.randrange(256) for _ in range(n)), False, 0, True), ("air",)]
            ops += accessor_burst(r.randrange(1, 9))
        else:
            # the DUT's own TX side: queued and failed payloads
            ops += [("select", DUT), ("listen=", False)]
            for _ in range(r.randrange(1, 5)):
                y = r.random()
                if y < 0.5:
                    ops.append(("write", bytes(r.randrange(256) for _ in range(r.randrange(1, 33))), False, True))
                elif y < 0.75:
                    ops += [("arc=", r.choice([0, 1, 3])), ("open_tx_pipe", b"nobdy"),
                            ("send", bytes(r.randrange(256) for _ in range(r.randrange(1, 33))), False, 0, True), ("air",),
                            ("last_tx_arc",)]
                else:
                    ops += accessor_burst(r.randrange(1, 4))
            ops += accessor_burst(r.randrange(1, 6))
            ops += [("select", DUT), ("flush_tx",), ("clear_status_flags", True, True, True), ("listen=", True)]
    ops += accessor_burst(4)
    return ops, meta


class Checker:
    def __init__(self, meta):
        self.m = meta

    def start(self, impl, snaps):
        self.fresh = False
        self.mask = (True, True, True)
        self.last_attempts = None
        self.pending_arc = False

    def air(self, k, log):
        mine = [e for e in log if e["from"] == DUT]
        if mine:
            self.last_attempts = mine[-1]["attempts"]
        return None

    def step(self, k, cur, op, res, prev, snaps, obj, log):
        if cur != DUT:
            self.fresh = False
            return None
        s, p = snaps[DUT], prev[DUT]
        st = s["regs"][7]
        name = op[0]
        ok = res[0] == 0
        m = self.m
        ptx_busy = (p["regs"][0] & 3) == 2 and p["ce"] and p["tx"]  # clearing MAX_RT would restart a transmission
        head = p["rx"][0] if p["rx"] else None
        if name == "interrupt_config" and ok:
            self.mask = (bool(op[1]), bool(op[2]), bool(op[3]))
        # IRQ line after every call
        want_irq = bool((st & 0x40 and self.mask[0]) or (st & 0x20 and self.mask[1]) or (st & 0x10 and self.mask[2]))
        if bool(s["irq"]) != want_irq:
            return ("C10/irq-line-not-for-exactly-the-enabled-events",
                    "STATUS %02X, enabled (dr, ds, df) = %s, IRQ asserted = %s" % (st, self.mask, bool(s["irq"])))
        if name == "update":
            self.fresh = True
            return None
        if name in ATTRS:
            if self.fresh and ok:
                want = {"tx_full": [int(len(s["tx"]) == 3)],
                        "pipe": [1, s["rx"][0][0]] if s["rx"] else [0],
                        "irq_dr": [int(bool(st & 0x40))], "irq_ds": [int(bool(st & 0x20))],
                        "irq_df": [int(bool(st & 0x10))]}[name]
                if res[1:] != want:
                    return ("C10/cached-status-attribute-wrong", "%s = %s after update(), radio: STATUS %02X rx %s tx %d"
                            % (name, res[1:], st, [(a, len(b)) for a, b in s["rx"]], len(s["tx"])))
            return None
        fresh_after = False
        if name == "available":
            if res != [0, int(bool(p["rx"]))]:
                return ("C10/available-wrong", "available() = %s, RX FIFO holds %d" % (res, len(p["rx"])))
            fresh_after = True
        elif name == "any":
            want = 0 if head is None else (len(head[1]) if m["dyn"] else p["regs"][17 + head[0]])
            if res != [0, want]:
                return ("C10/any-wrong", "any() = %s, next payload: %s" % (res, None if head is None else (head[0], len(head[1]))))
            fresh_after = True
        elif name == "read" and ok:
            if head is None:
                if res != [0, 0]:
                    return ("C10/read-invented-a-payload", "read() = %s with an empty RX FIFO" % res)
            else:
                if res != [0, 1, len(head[1])] + list(head[1]):
                    return ("C10/read-returned-other-bytes", "read() = %s, head of RX FIFO = %s" % (res[:12], head[1].hex()))
                if s["rx"] != p["rx"][1:]:
                    return ("C10/read-did-not-remove-exactly-its-payload", "RX FIFO %d -> %d entries" % (len(p["rx"]), len(s["rx"])))
                if not ptx_busy and (st & 0x70) != (p["regs"][7] & 0x30):
                    return ("C10/read-cleared-other-flags", "flags %02X -> %02X" % (p["regs"][7] & 0x70, st & 0x70))
                if s["tx"] != p["tx"] and not ptx_busy:
                    return ("C10/read-touched-tx-fifo", "")
        elif name == "clear_status_flags" and ok and not ptx_busy:
            mask = (0x40 if op[1] else 0) | (0x20 if op[2] else 0) | (0x10 if op[3] else 0)
            if st & 0x70 != p["regs"][7] & 0x70 & ~mask:
                return ("C10/clear-status-flags-not-exactly-the-requested",
                        "flags %02X -> %02X for clear_status_flags%s" % (p["regs"][7] & 0x70, st & 0x70, op[1:]))
            if s["rx"] != p["rx"] or s["tx"] != p["tx"]:
                return ("C10/clear-status-flags-touched-a-fifo", "")
        elif name == "flush_rx" and ok:
            if s["rx"] or s["tx"] != p["tx"]:
                return ("C10/flush-rx-not-exactly-rx", "rx %d tx %d -> %d" % (len(s["rx"]), len(p["tx"]), len(s["tx"])))
        elif name == "flush_tx" and ok:
            if s["tx"] or s["rx"] != p["rx"]:
                return ("C10/flush-tx-not-exactly-tx", "tx %d rx %d -> %d" % (len(s["tx"]), len(p["rx"]), len(s["rx"])))
        elif name == "fifo" and ok:
            n = len(p["tx"]) if op[1] else len(p["rx"])
            full, empty = int(n == 3), int(n == 0)
            want = (full << 1 | empty) if op[2] is None else (empty if op[2] else full)
            if res != [0, want]:
                return ("C10/fifo-wrong", "fifo(%s, %s) = %s with %d entries" % (op[1], op[2], res, n))
        elif name == "last_tx_arc" and ok and self.last_attempts is not None:
            if res != [0, self.last_attempts - 1]:
                return ("C10/last-tx-arc-wrong", "last_tx_arc = %s, last packet took %d attempts" % (res, self.last_attempts))
        self.fresh = fresh_after
        return None


def run(rep, model, tier, seed):
    r = common.rng(seed, "c10")
    rep.rule = ("traffic histories on a 2-radio world (0..3 payloads per FIFO on pipes 0..3 with different lengths, ACK "
                "payloads, queued and failed transmissions of the device under test) interleaved with accessor calls, dynamic "
                "and static payload modes; non-trivial = an accessor called with a non-empty FIFO or a latched flag; "
                "distinct = distinct history")
    n = 500 if tier == "quick" else 10000
    for _ in range(n):
        ops, meta = gen_case(r)
        R.check_cases(rep, model, [ops], "history", [True, True], [0, 1], make_rf24, lambda: Checker(meta),
                      lambda o: any(x[0] in ("send", "write") for x in o))
        rep.count("dynamic" if meta["dyn"] else "static")
    rep.extra["also_sampled_only"] = True


def replay(path):
    import json
    d = json.load(open(path))
    for w in d.get("witnesses", d.get("disagreements", []))[:5]:
        print(json.dumps(w)[:1500])
    return 0

"""A deliberately dumb register-file radio behind a spidev-style shim.

Used only where the property under check is about *pure* code (addresses, codecs,
queues) and a driver object merely has to exist.  Everything that depends on how
a radio behaves runs against the extracted Coq radio model instead (world.py).
"""

RESET = {
    0x00: [0x08], 0x01: [0x3F], 0x02: [0x03], 0x03: [0x03], 0x04: [0x03], 0x05: [0x02],
    0x06: [0x0E], 0x07: [0x0E], 0x08: [0x00], 0x09: [0x00],
    0x0A: [0xE7] * 5, 0x0B: [0xC2] * 5, 0x0C: [0xC3], 0x0D: [0xC4], 0x0E: [0xC5], 0x0F: [0xC6],
    0x10: [0xE7] * 5, 0x11: [0], 0x12: [0], 0x13: [0], 0x14: [0], 0x15: [0], 0x16: [0],
    0x17: [0x11], 0x1C: [0], 0x1D: [0],
}


class Pin:
    def __init__(self):
        self.value = False

    def switch_to_output(self, value=False):
        self.value = value


class DumbSpiDev:  # the class name must end in "SpiDev" for rf24.py to pick SPIDevCtx
    def __init__(self):
        self.regs = {k: list(v) for k, v in RESET.items()}
        self.tx = []  # payloads written with W_TX_PAYLOAD, in order
        self.rx = []  # payloads to hand out through R_RX_PAYLOAD
        self.no_cs = True
        self.tx_addr_log = []  # TX_ADDR at the moment of each W_TX_PAYLOAD
        self.fail_index = None  # ordinal of the W_TX_PAYLOAD whose every attempt fails
        self.pending = None  # payload left in the TX FIFO by a failed transmission
        self.attempts = 0

    def open(self, bus, dev):
        pass

    def close(self):
        pass

    def _status(self):
        st = self.regs[7][0] & 0x70
        st |= 0x0E if not self.rx else 0x02  # rx payloads all "arrive" on pipe 1
        return st

    def xfer2(self, out, baud=0):
        out = list(out)
        cmd = out[0]
        st = self._status()
        n = len(out) - 1
        if cmd < 0x20:  # R_REGISTER
            reg = self.regs.get(cmd, [0])
            if cmd == 7:
                reg = [st]
            if cmd == 0x17:
                reg = [(0x10 if self.pending is None else 0) | (0x01 if not self.rx else 0)]
            return [st] + (list(reg) + [0] * n)[:n]
        if cmd < 0x40:  # W_REGISTER
            r = cmd & 0x1F
            if r == 7:
                self.regs[7][0] &= ~(out[1] & 0x70)
                if out[1] & 0x10 and self.pending is not None:
                    # MAX_RT cleared with a payload still in the TX FIFO: the radio retransmits it
                    self.attempts += 1
                    self.regs[7][0] |= 0x10  # ... and (this payload being doomed) fails again
            elif r in self.regs:
                old = self.regs[r]
                new = out[1:]
                self.regs[r] = (new + old[len(new):])[: len(old)]
            return [st] + [0] * n
        if cmd == 0x60:
            return [st, len(self.rx[0]) if self.rx else 0]
        if cmd == 0x61:
            data = list(self.rx.pop(0)) if self.rx else []
            return [st] + (data + [0] * n)[:n]
        if cmd in (0xA0, 0xB0):
            self.tx.append(bytes(out[1:]))
            self.tx_addr_log.append(bytes(self.regs[0x10]))
            self.attempts += 1
            if self.fail_index is not None and len(self.tx) - 1 == self.fail_index:
                self.pending = bytes(out[1:])
                self.regs[7][0] |= 0x10  # MAX_RT: never acknowledged
            else:
                self.regs[7][0] |= 0x20  # pretend it was sent and acknowledged at once
            return [st] + [0] * n
        if cmd == 0xE1:
            self.pending = None
            return [st]
        if cmd == 0xE2:
            self.rx.clear()
            return [st]
        return [st] + [0] * n


def new_parts():
    return DumbSpiDev(), Pin(), Pin()

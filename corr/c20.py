"""C20 -- rf24_lite honours the same link-level contract as RF24.

Real rf24_lite.RF24 objects (through adafruit's SPIDevice on a busio-style bus) and real full
RF24 objects on the radios of one extracted world: lite as transmitter, as receiver and on both
ends.  Every call is compared with the Gallina models (Drv/Lite.v, Drv/RF24.v: `run mixed`) --
result, clock, every register and FIFO of every radio, the driver's cached state -- and judged by
a checker written from C01/C02/C03/C08/C10 restricted to the lite API, plus the load_ack() clause.
"""
import itertools

from circuitpython_nrf24l01.rf24 import RF24
from circuitpython_nrf24l01.rf24_lite import RF24 as LiteRF24

from . import common
from . import world as W
from . import rf24ops as R

TRUSTED = [
    "Coq 8.16.1 kernel incl. vm_compute (no native_compute); theorems closed under the global context",
    "environment model Env/Radio.v + Env/World.v (Enhanced ShockBurst exchange, loss oracle, FIFOs, virtual clock): modelled, not verified",
    "hand-written Gallina models Drv/Lite.v of rf24_lite.py and Drv/RF24.v of rf24.py, tied to the code by this differential run",
    "extraction (ExtrOcamlBasic, ExtrOcamlNativeString; no Extract Constant) + ocaml/modelrun.ml glue (world server)",
    "python harness corr/c20.py, corr/rf24ops.py, corr/world.py (busio-style bus driven through the real adafruit SPIDevice)",
]


def maker(kinds):
    def make(world, ri, k):
        if kinds[k] == "lite":
            spi, csn, ce = W.busio_parts(world, ri)
            return LiteRF24(spi, csn, ce)
        spi, csn, ce = W.spidev_parts(world, ri) if k % 2 == 0 else W.busio_parts(world, ri)
        return RF24(spi, csn, ce)
    return make


def request(plus, radios, kinds, ops):
    req = [len(plus)] + [int(p) for p in plus] + [len(radios)]
    for ri, kd in zip(radios, kinds):
        req += [ri, 1 if kd == "lite" else 0]
    for op in ops:
        req += R.encode(op)
    return "run mixed " + " ".join(str(x) for x in req)


def check_case(rep, model, plus, radios, kinds, ops, checker, domain, nontrivial=True):
    iout, verdict = R.checked_run(model, plus, radios, maker(kinds), ops, checker)
    mout = [int(x) for x in model.ask(request(plus, radios, kinds, ops)).split()]
    case = {"plus": plus, "radios": radios, "kinds": kinds, "ops": R.jops(ops)}
    rep.seen(case, nontrivial=nontrivial)
    for o in ops:
        rep.count(o[0])
    rep.count("pair " + "/".join(kinds))
    if verdict:
        rep.finding(verdict[0], dict(case, step=verdict[2]), verdict[1])
    if iout != mout:
        a, b = R.split_steps(iout), R.split_steps(mout)
        k = next((j for j in range(min(len(a), len(b))) if a[j] != b[j]), min(len(a), len(b)))
        rep.disagree(domain, dict(case, first_differing_step=k - 1), b[k][:160] if k < len(b) else None,
                     a[k][:160] if k < len(a) else None, verdict[0] if verdict else None)
    rep.sample({"kinds": kinds, "ops": case["ops"][:6], "n_ops": len(ops)}, limit=3)
    return verdict


# ------------------------------------------------------------------ configuration (C03, C08) on one lite object
REG = {"CONFIG": 0, "EN_AA": 1, "EN_RXADDR": 2, "SETUP_AW": 3, "SETUP_RETR": 4, "RF_CH": 5, "RF_SETUP": 6, "STATUS": 7,
       "DYNPD": 28, "FEATURE": 29}


class ConfigChecker:
    """documented encodings of the lite driver's attributes, getter agreement, footprint, pipe-0 restore"""

    def __init__(self):
        self.p0 = None       # what pipe 0 was last opened with (None: never / closed)
        self.p0_open = False

    def start(self, impl, snaps):
        pass

    def air(self, k, log):
        return None

    def step(self, k, cur, op, res, prev, snaps, obj, log):
        name = op[0]
        b, a = prev[cur], snaps[cur]
        rb, ra = b["regs"], a["regs"]
        changed = {i for i in range(30) if rb[i] != ra[i] and i != 7 and i != 23}
        if b["p0"] != a["p0"]:
            changed.add("p0")
        if b["p1"] != a["p1"]:
            changed.add("p1")
        if b["tx_addr"] != a["tx_addr"]:
            changed.add("tx")

        def only(allowed):
            extra = changed - set(allowed)
            if extra:
                return ("C20/setter-touches-other-state", "%r changed %s" % (op[:3], sorted(map(str, extra))))
            return None
        if res[0] not in (0, 1):
            return ("C20/unexpected-exception", "%r -> code %d: %r" % (op[:3], res[0], R.LAST_EXC[0]))
        if name == "channel=":
            v = op[1]
            if 0 <= v <= 125:
                if res != [0] or ra[5] != v:
                    return ("C20/channel-not-set", "channel=%d -> %s, RF_CH=%d" % (v, res, ra[5]))
            elif res != [1] or changed:
                return ("C20/invalid-channel-accepted", "channel=%d -> %s, RF_CH %d -> %d" % (v, res, rb[5], ra[5]))
            return only([5])
        if name == "channel":
            return None if res == [0, ra[5]] else ("C20/getter-disagrees", "channel = %s, RF_CH=%d" % (res, ra[5]))
        if name == "data_rate=":
            v = op[1]
            if v in (1, 2, 250):
                want = {1: 0, 2: 8, 250: 32}[v]
                if ra[6] & 0x28 != want:
                    return ("C20/data-rate-encoding", "data_rate=%d -> RF_SETUP=%02X" % (v, ra[6]))
            return only([6]) or (None if (ra[6] & ~0x28) == (rb[6] & ~0x28) else ("C20/setter-touches-other-state", "data_rate= changed other RF_SETUP bits"))
        if name == "data_rate":
            want = {0: 1, 8: 2, 32: 250}.get(ra[6] & 0x28)
            return None if want is None or res == [0, want] else ("C20/getter-disagrees", "data_rate = %s, RF_SETUP=%02X" % (res, ra[6]))
        if name == "pa_level=":
            v = op[1]
            if v in (-18, -12, -6, 0):
                if (ra[6] >> 1) & 3 != 3 - v // -6:
                    return ("C20/pa-level-encoding", "pa_level=%d -> RF_SETUP=%02X" % (v, ra[6]))
            elif res != [1] or changed:
                return ("C20/invalid-pa-level-accepted", "pa_level=%r -> %s" % (v, res))
            return only([6])
        if name == "pa_level":
            return None if res == [0, (3 - ((ra[6] >> 1) & 3)) * -6] else ("C20/getter-disagrees", "pa_level = %s, RF_SETUP=%02X" % (res, ra[6]))
        if name == "arc=":
            v = max(0, min(15, op[1]))
            if ra[4] & 15 != v or ra[4] >> 4 != rb[4] >> 4:
                return ("C20/arc-encoding", "arc=%d -> SETUP_RETR %02X -> %02X" % (op[1], rb[4], ra[4]))
            return only([4])
        if name == "arc":
            return None if res == [0, ra[4] & 15] else ("C20/getter-disagrees", "arc = %s" % res)
        if name == "ard=":
            v = max(250, min(4000, op[1]))
            if ra[4] >> 4 != (v - 250) // 250 or ra[4] & 15 != rb[4] & 15:
                return ("C20/ard-encoding", "ard=%d -> SETUP_RETR %02X -> %02X" % (op[1], rb[4], ra[4]))
            return only([4])
        if name == "ard":
            return None if res == [0, (ra[4] >> 4) * 250 + 250] else ("C20/getter-disagrees", "ard = %s" % res)
        if name == "address_length=":
            v = op[1]
            if 3 <= v <= 5 and ra[3] != v - 2:
                return ("C20/address-length-encoding", "address_length=%d -> SETUP_AW=%d" % (v, ra[3]))
            return only([3])
        if name == "address_length":
            return None if res == [0, ra[3] + 2] else ("C20/getter-disagrees", "address_length = %s" % res)
        if name == "payload_length=":
            v = max(1, min(32, op[1]))
            if any(ra[17 + i] != v for i in range(6)):
                return ("C20/payload-length-encoding", "payload_length=%d -> RX_PW_P0..5 = %s" % (op[1], ra[17:23]))
            return only(range(17, 23))
        if name == "payload_length":
            return None if res == [0, ra[17]] else ("C20/getter-disagrees", "payload_length = %s" % res)
        if name == "dynamic_payloads=":
            en = bool(op[1])
            if bool(ra[29] & 4) != en or ra[28] != (0x3F if en else 0):
                return ("C20/dynamic-payloads-encoding", "dynamic_payloads=%s -> FEATURE=%02X DYNPD=%02X" % (en, ra[29], ra[28]))
            if (ra[29] & 3) != (rb[29] & 3) and en:
                return ("C20/setter-touches-other-state", "dynamic_payloads= changed FEATURE %02X -> %02X" % (rb[29], ra[29]))
            return only([28, 29])
        if name == "dynamic_payloads":
            return None if res == [0, int(bool(ra[29] & 4))] else ("C20/getter-disagrees", "dynamic_payloads = %s" % res)
        if name == "ack=":
            en = bool(op[1])
            if bool(ra[29] & 2) != en or (en and (not ra[29] & 4 or ra[28] != 0x3F)):
                return ("C20/ack-encoding", "ack=%s -> FEATURE=%02X DYNPD=%02X" % (en, ra[29], ra[28]))
            return only([28, 29])
        if name == "ack":
            want = int(ra[29] & 6 == 6 and bool(ra[28]))
            return None if res == [0, want] else ("C20/getter-disagrees", "ack = %s, FEATURE=%02X DYNPD=%02X" % (res, ra[29], ra[28]))
        if name == "power=":
            if bool(ra[0] & 2) != bool(op[1]) or (ra[0] & ~2) != (rb[0] & ~2):
                return ("C20/power-encoding", "power=%s: CONFIG %02X -> %02X" % (op[1], rb[0], ra[0]))
            return only([0])
        if name == "power":
            return None if res == [0, int(bool(ra[0] & 2))] else ("C20/getter-disagrees", "power = %s" % res)
        if name == "interrupt_config":
            want = (not op[1]) << 6 | (not op[2]) << 5 | (not op[3]) << 4
            if ra[0] & 0x70 != want or (ra[0] & 0x0F) != (rb[0] & 0x0F):
                return ("C20/interrupt-config-encoding", "CONFIG %02X -> %02X" % (rb[0], ra[0]))
            return only([0])
        if name == "open_rx_pipe":
            p, addr = op[1], bytes(op[2])
            if not 0 <= p <= 5 or not addr:
                return None if res == [1] and not changed else ("C20/invalid-pipe-accepted", "%r -> %s" % (op[:3], res))
            if not ra[2] >> p & 1:
                return ("C20/pipe-not-enabled", "open_rx_pipe(%d): EN_RXADDR=%02X" % (p, ra[2]))
            if p == 0:
                self.p0, self.p0_open = addr[:5], True
                if a["p0"][:len(addr[:5])] != addr[:5]:
                    return ("C20/pipe-address-not-written", "RX_ADDR_P0=%s after open_rx_pipe(0, %s)" % (a["p0"].hex(), addr.hex()))
            elif p == 1 and a["p1"][:len(addr[:5])] != addr[:5]:
                return ("C20/pipe-address-not-written", "RX_ADDR_P1=%s" % a["p1"].hex())
            elif p > 1 and ra[10 + p] != addr[0]:
                return ("C20/pipe-address-not-written", "RX_ADDR_P%d=%02X" % (p, ra[10 + p]))
            return only([2, 10 + p] if p > 1 else [2, "p0" if p == 0 else "p1", 10 + p])
        if name == "close_rx_pipe":
            p = op[1]
            if not 0 <= p <= 5:
                return None if res == [1] and not changed else ("C20/invalid-pipe-accepted", "%r -> %s" % (op[:3], res))
            if ra[2] >> p & 1:
                return ("C20/pipe-not-closed", "close_rx_pipe(%d): EN_RXADDR=%02X" % (p, ra[2]))
            if p == 0:
                self.p0, self.p0_open = None, False
            return only([2])
        if name == "open_tx_pipe":
            addr = bytes(op[1])[:5]
            if a["tx_addr"][:len(addr)] != addr:
                return ("C20/tx-address-not-written", "TX_ADDR=%s after open_tx_pipe(%s)" % (a["tx_addr"].hex(), addr.hex()))
            return only(["tx", "p0", 10, 16])
        if name == "listen=":
            if op[1]:
                # C08: entering RX mode restores the pipe-0 reading address
                if ra[0] & 3 != 3 or not a["ce"]:
                    return ("C20/not-listening-after-listen-true", "CONFIG=%02X CE=%d" % (ra[0], a["ce"]))
                if self.p0_open:
                    if not ra[2] & 1 or a["p0"][:len(self.p0)] != self.p0:
                        return ("C20/pipe0-reading-address-not-restored", "RX_ADDR_P0=%s EN_RXADDR=%02X, pipe 0 was opened with %s" % (
                            a["p0"].hex(), ra[2], self.p0.hex()))
                elif ra[2] & 1:
                    return ("C20/pipe0-open-in-rx-mode-though-never-opened", "EN_RXADDR=%02X RX_ADDR_P0=%s" % (ra[2], a["p0"].hex()))
            else:
                if ra[0] & 3 != 2 or a["ce"]:
                    return ("C20/not-standby-after-listen-false", "CONFIG=%02X CE=%d" % (ra[0], a["ce"]))
                if not ra[2] & 1:
                    return ("C20/pipe0-closed-in-tx-mode", "EN_RXADDR=%02X (pipe 0 receives the auto-ack)" % ra[2])
            return only([0, 2, "p0", 10])
        if name == "listen":
            return None if res == [0, int(ra[0] & 3 == 3)] else ("C20/getter-disagrees", "listen = %s, CONFIG=%02X" % (res, ra[0]))
        return None


CFG_ALPHA = [("open_rx_pipe", 0, b"\xA1\xA2\xA3\xA4\xA5"), ("open_rx_pipe", 0, b"\xB1\xB2\xB3"), ("open_rx_pipe", 1, b"\xC1\xC2\xC3\xC4\xC5"),
             ("open_rx_pipe", 3, b"\xD3"), ("close_rx_pipe", 0), ("open_tx_pipe", b"\xE1\xE2\xE3\xE4\xE5"), ("listen=", True), ("listen=", False),
             ("address_length=", 3), ("address_length=", 5), ("dynamic_payloads=", False), ("ack=", True), ("power=", False)]


def grid_ops(r):
    g = []
    for v in (-1, 0, 1, 76, 125, 126, 255, 300):
        g += [("channel=", v), ("channel",)]
    for v in (1, 2, 250):
        g += [("data_rate=", v), ("data_rate",)]
    for v in (-18, -12, -6, 0, -5, 3):
        g += [("pa_level=", v), ("pa_level",)]
    for v in (-3, 0, 1, 7, 15, 16, 100):
        g += [("arc=", v), ("arc",)]
    for v in (0, 249, 250, 251, 499, 500, 1500, 3999, 4000, 4001, 10000):
        g += [("ard=", v), ("ard",)]
    for v in (2, 3, 4, 5, 6):
        g += [("address_length=", v), ("address_length",)]
    for v in (-1, 0, 1, 16, 32, 33, 255):
        g += [("payload_length=", v), ("payload_length",)]
    for v in (True, False):
        g += [("dynamic_payloads=", v), ("dynamic_payloads",), ("ack=", v), ("ack",), ("power=", v), ("power",)]
    for a, b, c in itertools.product((True, False), repeat=3):
        g += [("interrupt_config", a, b, c)]
    for p in (-1, 0, 1, 2, 5, 6):
        g += [("open_rx_pipe", p, bytes(r.randrange(1, 255) for _ in range(5))), ("close_rx_pipe", p)]
    g += [("open_rx_pipe", 0, b""), ("listen",), ("rpd",), ("update",), ("fifo", False, None), ("fifo", True, True)]
    return g


# ------------------------------------------------------------------ traffic (C01, C02, C10, load_ack)
class TrafficChecker:
    def __init__(self, meta):
        self.m = meta

    def start(self, impl, snaps):
        self.expect = {0: [], 1: []}
        self.acks = {0: [], 1: []}     # ACK payloads loaded on that node, in order: (pipe, bytes)
        self.spent = {0: [], 1: []}
        self.call = None
        self.fresh = {0: False, 1: False}

    def norm(self, q):
        return bytes(q) if self.m["dyn"] else (bytes(q) + bytes(32))[:self.m["L"]]

    def air(self, k, log):
        if self.call is None:
            return None
        cur, op, res, snaps = self.call
        self.call = None
        peer = 1 - cur
        mine = [e for e in log if e["from"] == cur]
        if op[0] == "send":     # only this call's payload (the log may still hold earlier transmissions)
            mine = [e for e in mine if e["data"] == self.norm(op[1])]
        if res[0] != 0:
            return None
        delivered = any(e["ok"] for e in mine)
        val = res[1:]
        reported = bool(val[1]) if val[0] == 0 else val[1] == 1
        got = bytes(val[3:]) if val[0] == 1 and val[1] == 1 else None
        if delivered and not reported:
            return ("C20/reported-false-although-delivered", "%r returned %s; air %s" % (op[:2], val, [(e["attempts"], e["ok"]) for e in mine]))
        if reported and not delivered:
            return ("C20/reported-true-although-never-delivered", "%r returned %s; air %s" % (op[:2], val, [(e["attempts"], e["ok"]) for e in mine]))
        noack = op[0] == "send" and op[2]
        send_only = op[4] if op[0] == "send" else op[1]
        acked = delivered and not noack and any(e["acked_by"] for e in mine if e["ok"])
        rp = self.m["rpipe"][peer]
        # what the peer's radio held when the call started is the ground truth for "the peer's ACK payload"
        queued = [x for kd, x in self.call_peer_tx if kd >= 10]
        if got is not None and got not in queued + self.spent[peer]:
            return ("C20/ack-payload-from-nowhere", "%r returned %s, the peer's TX FIFO held %s" % (op[:2], val, [x.hex() for x in queued]))
        if self.m["lossless"] and acked:
            exp = next((x for kd, x in self.call_peer_tx if kd == 10 + rp), None)
            if not send_only and got != exp:
                return ("C20/ack-payload-not-returned", "%r returned %s, the peer's radio held %s for pipe %s" % (
                    op[:2], val, None if exp is None else exp.hex(), rp))
        if got is not None:
            self.spent[peer].append(got)
        return None

    def step(self, k, cur, op, res, prev, snaps, obj, log):
        m, name, peer = self.m, op[0], 1 - cur
        lite = m["kinds"][cur] == "lite"
        a, b = snaps[cur], prev[cur]
        if res == [9]:
            return ("C20/call-does-not-terminate", "%r polled the radio more than 3000 times" % (op[:3],))
        if name == "load_ack" and not lite:
            if res == [0, 1]:
                self.acks[cur].append((op[2], bytes(op[1])))
            return None
        if name == "load_ack":
            buf, p = bytes(op[1]), op[2]
            ok_args = 1 <= len(buf) <= 32 and 0 <= p <= 5
            full = len(b["tx"]) >= 3
            if ok_args and not full:
                if res != [0, 1] or len(a["tx"]) != len(b["tx"]) + 1 or a["tx"][-1] != (10 + p, buf):
                    return ("C20/load-ack-refused-or-lost", "load_ack(%d bytes, pipe %d) -> %s; TX FIFO %s -> %s" % (
                        len(buf), p, res, b["tx"], a["tx"]))
                self.acks[cur].append((p, buf))
            else:
                if res != [0, 0] or a["tx"] != b["tx"]:
                    return ("C20/load-ack-accepted-invalid-or-full", "load_ack(%d bytes, pipe %d) with %d in the TX FIFO -> %s; TX FIFO %s -> %s" % (
                        len(buf), p, len(b["tx"]), res, [x[1].hex() for x in b["tx"]], [x[1].hex() for x in a["tx"]]))
            return None
        if name in ("send", "send_list"):
            bufs = [op[1]] if name == "send" else list(op[1])
            passed = R.LAST_ARGS[0]
            objs = [passed] if name == "send" else list(passed)
            for orig, now in zip(bufs, objs):
                if bytes(now) != bytes(orig) or type(now) is not type(orig):
                    return ("C20/caller-buffer-modified", "%s of %d bytes became %d bytes after %s()" % (
                        type(orig).__name__, len(orig), len(now), name))
            loads = [mo for (i, mo, ce) in log.items if i == cur and mo[0] in (0xA0, 0xB0)]
            bad = [q for q in bufs if not 1 <= len(q) <= 32] if (lite or m["dyn"]) else []
            nload = 0
            for q in bufs:
                if q in bad:
                    break
                nload += 1
            if bad:
                if res[0] != 1:
                    return ("C20/oversize-or-empty-payload-not-rejected", "result %s for lengths %s" % (res, [len(q) for q in bufs]))
                if len(loads) != nload:
                    return ("C20/rejected-payload-reached-the-radio", "%d payload writes" % len(loads))
            elif res[0] != 0:
                return ("C20/send-raised", "%r -> %s (%r)" % (op[:2], res, R.LAST_EXC[0]))
            if m["lossless"]:
                for q in bufs[:nload]:
                    self.expect[peer].append(self.norm(q))
                if nload and [bytes(l[1:]) for l in loads] != self.expect[peer][-nload:]:
                    return ("C20/payload-written-to-radio-differs", "loaded %s" % [bytes(l[1:]).hex() for l in loads])
                fifo = snaps[peer]["rx"]
                if [x for (_p, x) in fifo] != self.expect[peer] or any(p != m["rpipe"][peer] for (p, _x) in fifo):
                    return ("C20/peer-fifo-differs-from-what-was-sent", "peer RX FIFO %s, expected %s on pipe %s" % (
                        [(p, x.hex()) for p, x in fifo], [e.hex() for e in self.expect[peer]], m["rpipe"][peer]))
                if not bad and name == "send":
                    val = res[1:]
                    truthy = bool(val[1]) if val[0] == 0 else val[1] == 1
                    if not truthy:
                        return ("C20/send-not-reported-delivered", "send returned %s on a loss-free compatible link" % res)
            if name == "send":
                self.call = (cur, op, res, snaps)
                self.call_peer_tx = list(prev[peer]["tx"])
            elif m["lossless"] and res[0] == 0 and not op[2]:
                # list form: every element is acknowledged in turn and takes the oldest ACK payload loaded for the pipe
                rp = m["rpipe"][peer]
                queued = [x for kd, x in prev[peer]["tx"] if kd == 10 + rp]
                vals, p = [], 2
                for _ in range(res[1]):
                    if res[p] == 0:
                        vals.append(None)
                        p += 2
                    else:
                        n = res[p + 2] if res[p + 1] == 1 else 0
                        vals.append(bytes(res[p + 3:p + 3 + n]) if res[p + 1] == 1 else None)
                        p += 3 + n if res[p + 1] == 1 else 2
                for got in vals:
                    exp = queued.pop(0) if queued else None
                    if exp is not None:
                        self.spent[peer].append(exp)
                    if not op[4] and got != exp:
                        return ("C20/ack-payload-not-returned", "send(list) returned %s, the peer's radio held %s for pipe %s" % (
                            [None if v is None else v.hex() for v in vals], None if exp is None else exp.hex(), rp))
            return None
        if name == "resend":
            self.call = (cur, op, res, snaps)
            self.call_peer_tx = list(prev[peer]["tx"])
            return None
        # accessors (C10): judged against the radio's state; the lite driver's status-derived attributes are
        # documented to reflect the last SPI transaction, so they are judged right after update()
        rx = a["rx"]
        if name == "update":
            self.fresh[cur] = True
            return None
        if name == "available":
            if res != [0, int(bool(b["rx"]))]:
                return ("C20/available-wrong", "available() = %s with %d payloads in the RX FIFO" % (res, len(b["rx"])))
            self.fresh[cur] = True
        elif name == "any":
            if b["rx"]:
                want = len(b["rx"][0][1]) if b["regs"][29] & 4 and b["regs"][28] else b["regs"][17 + b["rx"][0][0]]
            else:
                want = 0
            if res != [0, want]:
                return ("C20/any-wrong", "any() = %s, head of RX FIFO: %s" % (res, b["rx"][:1]))
            self.fresh[cur] = True
        elif name == "pipe" and self.fresh[cur]:
            want = [0, 1, b["rx"][0][0]] if b["rx"] else [0, 0]
            if res != want:
                return ("C20/pipe-wrong", "pipe = %s, RX FIFO %s" % (res, [(p, len(x)) for p, x in b["rx"]]))
        elif name == "read":
            exp = self.expect[cur]
            if m["lossless"] and op[1] is None:
                if exp:
                    e = exp.pop(0)
                    if res != [0, 1, len(e)] + list(e):
                        return ("C20/read-returns-other-bytes", "read() = %s, sent %s" % (res[:40], e.hex()))
                elif res != [0, 0]:
                    return ("C20/read-returns-payload-never-sent", "read() = %s with nothing pending" % (res[:40],))
        elif name == "fifo":
            about_tx, ce = op[1], op[2]
            n = len(b["tx"]) if about_tx else len(b["rx"])
            full, empty = n >= 3, n == 0
            want = (int(full) << 1 | int(empty)) if ce is None else int(empty if ce else full)
            if res != [0, want]:
                return ("C20/fifo-wrong", "fifo(%s, %s) = %s with %d entries" % (about_tx, ce, res, n))
        elif name == "tx_full" and self.fresh[cur]:
            if res != [0, int(len(b["tx"]) >= 3)]:
                return ("C20/tx-full-wrong", "tx_full = %s with %d entries" % (res, len(b["tx"])))
        elif name in ("irq_dr", "irq_ds", "irq_df") and self.fresh[cur]:
            bit = {"irq_dr": 0x40, "irq_ds": 0x20, "irq_df": 0x10}[name]
            if res != [0, int(bool(b["regs"][7] & bit))]:
                return ("C20/irq-flag-wrong", "%s = %s, STATUS=%02X" % (name, res, b["regs"][7]))
        elif name == "clear_status_flags":
            want = b["regs"][7] & ~((op[1] << 6) | (op[2] << 5) | (op[3] << 4))
            restarted = b["ce"] and not b["regs"][0] & 1 and b["tx"] and op[3]   # clearing MAX_RT with CE high re-starts the transmission
            if not restarted and (a["regs"][7] & 0x70) != (want & 0x70):
                return ("C20/clear-status-flags-wrong", "STATUS %02X -> %02X for %r" % (b["regs"][7], a["regs"][7], op[1:]))
        elif name == "flush_rx":
            if a["rx"] or a["tx"] != b["tx"]:
                return ("C20/flush-rx-wrong", "RX %d TX %d -> %d" % (len(a["rx"]), len(b["tx"]), len(a["tx"])))
            self.expect[cur] = []
        elif name == "flush_tx":
            if a["tx"] or a["rx"] != b["rx"]:
                return ("C20/flush-tx-wrong", "TX %d" % len(a["tx"]))
            self.acks[cur] = []
        if name not in ("update", "available", "any", "pipe", "tx_full", "irq_dr", "irq_ds", "irq_df", "fifo"):
            self.fresh[cur] = False
        return None


def setup_pair(r, kinds, dyn, L, rpipe, aw, ackpl, arc, late=False):
    """compatible configuration of two nodes; node 1 receives on rpipe[1], node 0 (if ping-pong) on rpipe[0]"""
    ch, rate = r.choice([0, 76, 125, r.randrange(126)]), r.choice([1, 2, 250])
    ops, addr = [], {}
    for n in (0, 1):
        ops += [("select", n), ("channel=", ch), ("data_rate=", rate), ("address_length=", aw), ("arc=", arc), ("ard=", r.choice([250, 1500, 4000]))]
        if kinds[n] == "full":
            ops += [("crc=", 2), ("auto_ack=", True), ("allow_ask_no_ack=", True)]
        if late and kinds[n] == "lite":
            # the documented reduction: on the lite driver `ack = True` switches dynamic payloads on for every pipe
            ops += [("dynamic_payloads=", False), ("payload_length=", L), ("ack=", True)]
        else:
            ops += [("dynamic_payloads=", dyn)]
            if not dyn:
                ops += [("payload_length=", L)]
            if ackpl:
                ops += [("ack=", True)]
        if rpipe[n] is not None:
            base = bytes(r.randrange(1, 255) for _ in range(5))
            if rpipe[n] < 2:
                ops += [("open_rx_pipe", rpipe[n], base)]
                addr[n] = base
            else:
                first = r.choice([x for x in range(1, 255) if x != base[0]])   # a pipe of its own, not a second name for pipe 1
                ops += [("open_rx_pipe", 1, base), ("open_rx_pipe", rpipe[n], bytes([first]))]
                addr[n] = bytes([first]) + base[1:]
    return ops, addr


def gen_traffic(r, kinds):
    dyn = r.random() < 0.6
    L = r.randrange(1, 33)
    aw = r.choice([3, 4, 5])
    ackpl = dyn and r.random() < 0.4
    both = r.random() < 0.4
    arc = r.choice([0, 1, 2, 3, 15])
    lossless = r.random() < 0.6
    rpipe = {1: r.randrange(6), 0: 0 if both else None}
    if both:
        rpipe[1] = 0 if r.random() < 0.7 else rpipe[1]
    late = "lite" in kinds and r.random() < 0.2
    if late:
        dyn = ackpl = True
    ops, addr = setup_pair(r, kinds, dyn, L, rpipe, aw, ackpl, arc, late)
    for n in (0, 1):
        if 1 - n in addr:
            ops += [("select", n), ("open_tx_pipe", addr[1 - n][:aw])]
    ops += [("select", 0), ("listen=", False), ("select", 1), ("listen=", True)]
    role = {0: "tx", 1: "rx"}
    pending = {0: 0, 1: 0}
    for _ in range(r.randrange(1, 9)):
        sender = 0 if role[0] == "tx" else 1
        recv = 1 - sender
        x = r.random()
        if x < 0.15 and ackpl:
            n = r.choice([0, 1, 5, 31, 32, 33, r.randrange(0, 34)])
            ops += [("select", recv), ("load_ack", bytes(r.randrange(256) for _ in range(n)), r.choice([rpipe[recv], rpipe[recv], -1, 6, r.randrange(6)]))]
            if r.random() < 0.35:      # back-to-back loads up to and beyond the 3 FIFO levels, nothing else on the bus in between
                for _ in range(r.randrange(1, 5)):
                    ops += [("load_ack", bytes(r.randrange(256) for _ in range(r.randrange(1, 33))), r.choice([rpipe[recv], r.randrange(6)]))]
        elif x < 0.55 and pending[recv] < 3:
            n = r.choice([0, 1, 2, L, 31, 32, 33, 40, r.randrange(1, 33), r.randrange(1, 33)])
            pl = bytes(r.randrange(256) for _ in range(n))
            pl = bytearray(pl) if r.random() < 0.5 else pl
            ops += [("select", sender)]
            if not lossless:
                force = r.choice([0, 0, 1, 2])
                fates = "".join(r.choice("DPA") for _ in range(r.randrange(0, (1 + arc) * (1 + force) + 1)))
                ops += [("oracle", fates), ("send", pl, r.random() < 0.15, force, r.random() < 0.5), ("air",)]
                if r.random() < 0.3:
                    ops += [("oracle", "".join(r.choice("DPA") for _ in range(r.randrange(0, arc + 2)))), ("resend", r.random() < 0.5), ("air",)]
                ops += [("oracle", "")]
            elif r.random() < 0.2 and pending[recv] < 2 and 1 <= n <= 32:
                pl2 = bytes(r.randrange(256) for _ in range(r.randrange(1, 33)))
                ops += [("send_list", [pl, pl2] if r.random() < 0.5 else (pl, pl2), False, 0, False), ("air",)]
                pending[recv] += 2
            else:
                ops += [("send", pl, r.random() < 0.15, 0, False), ("air",)]
                if 1 <= n <= 32 or (kinds[sender] == "full" and not dyn):
                    pending[recv] += 1
        elif x < 0.85 or not both:
            ops += [("select", recv), r.choice([("available",), ("update",)]), ("pipe",), ("any",), ("fifo", False, None),
                    ("fifo", False, r.random() < 0.5), ("irq_dr",), ("read", None)]
            pending[recv] = max(0, pending[recv] - 1)
            if r.random() < 0.3:
                ops += [("select", sender), ("update",), ("tx_full",), ("irq_ds",), ("irq_df",), ("fifo", True, None), ("fifo", True, True)]
            if r.random() < 0.15:
                ops += [("select", r.choice([0, 1])), r.choice([("flush_rx",), ("flush_tx",), ("clear_status_flags", r.random() < 0.5, r.random() < 0.5, r.random() < 0.5)])]
                pending = {0: 0, 1: 0} if ops[-1][0] == "flush_rx" else pending
                lossless_after = False if ops[-1][0] == "flush_rx" else lossless
                if not lossless_after and lossless:
                    # what is pending is unknown to the simple ghost after a flush on either side: stop judging contents
                    lossless = False
        else:
            ops += [("select", recv)]
            for _ in range(pending[recv]):
                ops += [("available",), ("pipe",), ("any",), ("read", None)]
            pending[recv] = 0
            ops += [("select", sender), ("listen=", True), ("select", recv), ("listen=", False), ("open_tx_pipe", addr[sender][:aw])]
            role[sender], role[recv] = "rx", "tx"
    for n in (0, 1):
        if role[n] == "rx":
            ops += [("select", n)]
            for _ in range(pending[n] + 1):
                ops += [("available",), ("pipe",), ("any",), ("read", None)]
    ops.append(("air",))
    meta = {"kinds": kinds, "dyn": dyn, "L": L, "rpipe": rpipe, "lossless": lossless and not any(o[0] == "flush_rx" for o in ops)}
    return ops, meta


def run(rep, model, tier, seed):
    r = common.rng(seed, "c20")
    depth = 3 if tier == "quick" else 4
    rep.rule = ("(a) configuration of one lite object: every single call of a boundary grid (getter after every setter), ALL sequences "
                "up to length %d over a 13-call pipe/role alphabet followed by listen=True, random sequences to length 30; (b) traffic "
                "on two radios with the lite driver as transmitter, as receiver and on both ends (peer: full RF24 or lite): static "
                "1..32 / dynamic payloads, receiving pipes 0..5, address widths 3..5, payload lengths 0..40 bytes/bytearray/list/tuple, "
                "ACK payloads via load_ack with 0..33 bytes on pipes -1..6, loss oracle patterns with force_retry/resend, role swaps, "
                "accessors after traffic; non-trivial = a setter or a transmission; distinct = distinct case" % depth)
    # (a) configuration
    g = grid_ops(r)
    check_case(rep, model, [True], [0], ["lite"], g, ConfigChecker(), "grid")
    rep.exhaustive.append("every call of the %d-call boundary grid on a fresh lite object" % len(g))
    n = 0
    for L in range(1, depth + 1):
        for w in itertools.product(CFG_ALPHA, repeat=L):
            if tier == "quick" and L == depth and n % 3:
                n += 1
                continue
            n += 1
            check_case(rep, model, [True], [0], ["lite"], list(w) + [("listen=", True), ("listen",), ("listen=", False)], ConfigChecker(), "sequences")
    rep.exhaustive.append("all sequences up to length %d over the 13-call alphabet (length %d sampled 1:3 in quick)" % (depth, depth))
    for _ in range(100 if tier == "quick" else 2500):
        ops = [r.choice(g + CFG_ALPHA * 3) for _ in range(r.randrange(1, 31))]
        check_case(rep, model, [True], [0], ["lite"], ops, ConfigChecker(), "random-config")
    # (b) traffic
    for i in range(450 if tier == "quick" else 9000):
        kinds = [["lite", "full"], ["full", "lite"], ["lite", "lite"]][i % 3]
        ops, meta = gen_traffic(r, kinds)
        check_case(rep, model, [True, True], [0, 1], kinds, ops, TrafficChecker(meta), "traffic",
                   nontrivial=any(o[0] in ("send", "send_list") for o in ops))
    rep.extra["also_sampled_only"] = True


def replay(path):
    import json
    d = json.load(open(path))
    for w in d.get("witnesses", d.get("disagreements", []))[:5]:
        print(json.dumps(w)[:2000])
    return 0

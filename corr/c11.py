"""C11 -- header and fragment wire formats are stable and TMRh20-compatible.

(a) RF24NetworkHeader / RF24NetworkFrame pack/unpack on a full boundary grid of field
    values, all 256 type and reserved bytes, string types, buffers of length 0..40, the
    frame id counter incl. wrap-around: real classes vs the extracted model, and vs an
    independent little-endian reading of the property text.
(b) RF24Network.write() for every message length 0..144 on a recording SPI shim, with
    no failure and with the transmission of fragment k failing for every k: the payloads
    handed to the radio vs the model's fragment_frames, fed to the extracted TMRh20-style
    reassembler, and the caller's header type after the call.
"""
import json

from circuitpython_nrf24l01.network.structs import RF24NetworkHeader, RF24NetworkFrame
from circuitpython_nrf24l01.rf24_network import RF24Network

from . import common, shim, vtime
from .netcodec import enc_bytes, enc_mtype, enc_frame, Stream, make_frame, obs_frame

TRUSTED = [
    "Coq 8.16.1 kernel incl. vm_compute (no native_compute); theorems closed under the global context",
    "hand-written Gallina models Net/Header.v (hdr_pack/unpack, frame_pack/unpack, next_id, fragment_frames, "
    "TMRh20-style receiver tm_run) tied to the code by this differential run",
    "extraction (ExtrOcamlBasic, ExtrOcamlNativeString; no Extract Constant) + ocaml/modelrun.ml glue",
    "python harness corr/c11.py, recording SPI shim corr/shim.py (no radio behaviour beyond TX_DS/MAX_RT flags), "
    "virtual time corr/vtime.py; native struct 'HHHBB' = little-endian on this host (big-endian hosts not checkable here)",
]

FIELD = [0, 1, 2, 0o5555, 0o4444, 0o100, 0xFFF, 0x1000, 0x1001, 0x7FFF, 0xFFFF, 0x10000, 0x10001, -1, -5]
IDS = [0, 1, 255, 256, 65535, 65536, 65537, -1]


def spec_pack(frm, to, fid, typ, res):
    """independent reading of the property: little-endian 16-bit origin, destination, id; type; reserved"""
    if isinstance(typ, str):
        if not typ:
            return None
        typ = ord(typ[0])
    out = []
    for v in (frm & 0xFFF, to & 0xFFF, fid & 0xFFFF):
        out += [v % 256, v // 256]
    return bytes(out + [typ % 256, res % 256])


def mk_header(frm, to, fid, typ, res):
    h = RF24NetworkHeader()
    h.from_node, h.to_node, h.frame_id, h.message_type, h.reserved = frm, to, fid, typ, res
    return h


def check_headers(rep, model, tier, r):
    cases = []
    for frm in FIELD:
        for to in FIELD:
            cases.append((frm, to, 7, 65, 0))
    for fid in IDS:
        for frm in (1, 0x1001, -1):
            cases.append((frm, 2, fid, 65, 0))
    for t in range(-2, 258):
        cases.append((1, 2, 3, t, 255 - (t % 256)))
        cases.append((1, 2, 3, 0, t))
    for t in ("T", "A", "\x00", "é", "€", "AB", "", "\U0001F600"):
        cases.append((1, 2, 3, t, 0))
    n = 300 if tier == "quick" else 5000
    for _ in range(n):
        cases.append((r.choice(FIELD + [r.randrange(-70000, 70000)]), r.choice(FIELD + [r.randrange(-70000, 70000)]),
                      r.choice(IDS + [r.randrange(-70000, 140000)]), r.randrange(-300, 600), r.randrange(-300, 600)))
    lines = ["run header 1 %d %d %d %s %d" % (c[0], c[1], c[2], " ".join(map(str, enc_mtype(c[3]))), c[4]) for c in cases]
    outs = model.batch(lines)
    unpack_cases = []
    for c, line in zip(cases, outs):
        h = mk_header(*c)
        try:
            b = h.pack()
            impl = list(b)
        except TypeError:
            b, impl = None, None
        ints = [int(x) for x in line.split()]
        mod = None if ints == [-1] else ints[1:]
        want = spec_pack(*c)
        rep.seen(("pack", c), nontrivial=impl is not None)
        rep.count("header.pack")
        case = {"op": "pack", "from": c[0], "to": c[1], "id": c[2], "type": c[3], "reserved": c[4]}
        key = None
        if (impl is None) != (want is None) or (impl is not None and bytes(impl) != want):
            key = "C11/header-layout"
            rep.finding(key, case, "packed %s, property text gives %s" % (bytes(impl).hex() if impl else None, want.hex() if want else None))
        if b is not None and (len(b) != 8 or len(h) != 8):
            rep.finding("C11/header-not-8-bytes", case, "len %d" % len(b))
        if impl != mod:
            rep.disagree("hdr_pack", case, mod, impl, key)
        if b is not None:
            unpack_cases.append((b, c))
    # unpack of packed bytes (+ trailing garbage), of short and of random buffers
    bufs = []
    for b, c in unpack_cases:
        bufs.append((bytes(b) + bytes(r.randrange(256) for _ in range(r.choice([0, 0, 1, 24]))), c))
    for ln in range(0, 41):
        for _ in range(3 if tier == "quick" else 20):
            bufs.append((bytes(r.randrange(256) for _ in range(ln)), None))
    outs = model.batch(["run header 2 " + " ".join(map(str, enc_bytes(b))) for b, _ in bufs])
    for (b, c), line in zip(bufs, outs):
        h = RF24NetworkHeader()
        before = (h.from_node, h.to_node, h.frame_id, h.message_type, h.reserved)
        ok = h.unpack(b)
        impl = [1, h.from_node, h.to_node, h.frame_id, 0, h.message_type, h.reserved] if ok else [0]
        mod = [int(x) for x in line.split()]
        rep.seen(("unpack", b), nontrivial=bool(ok))
        rep.count("header.unpack")
        case = {"op": "unpack", "buffer": b.hex()}
        key = None
        if ok != (len(b) >= 8):
            key = "C11/short-buffer-handling"
            rep.finding(key, case, "unpack returned %r for %d bytes" % (ok, len(b)))
        elif ok:
            want = (b[0] | b[1] << 8, b[2] | b[3] << 8, b[4] | b[5] << 8, b[6], b[7])
            got = (h.from_node, h.to_node, h.frame_id, h.message_type, h.reserved)
            if got != want:
                key = "C11/header-parse"
                rep.finding(key, case, "parsed %s, property text gives %s" % (got, want))
            if c is not None:
                t = ord(c[3][0]) if isinstance(c[3], str) else c[3]
                same = (c[0] & 0xFFF, c[1] & 0xFFF, c[2] & 0xFFFF, t & 0xFF, c[4] & 0xFF)
                if got != same:
                    key = "C11/header-roundtrip"
                    rep.finding(key, case, "fields %s came back as %s" % (same, got))
        elif (h.from_node, h.to_node, h.frame_id, h.message_type, h.reserved) != before:
            key = "C11/short-buffer-handling"
            rep.finding(key, case, "refused buffer still modified the header")
        if impl != mod:
            rep.disagree("hdr_unpack", case, mod, impl, key)
    rep.exhaustive.append("all 256 type bytes x reserved bytes, %dx%d address grid, id wrap values" % (len(FIELD), len(FIELD)))


def check_frames(rep, model, tier, r):
    cases = []
    for ln in list(range(0, 41)) + [100, 144]:
        for t in (0, 65, "T", 255, 300):
            cases.append({"frm": r.choice(FIELD), "to": r.choice(FIELD), "id": r.choice(IDS), "type": t,
                          "res": r.randrange(0, 256), "msg": bytes(r.randrange(256) for _ in range(ln)), "ba": ln % 2 == 0})
    outs = model.batch(["run header 3 " + " ".join(map(str, enc_frame(c))) for c in cases])
    packed = []
    for c, line in zip(cases, outs):
        f = make_frame(c)
        b = f.pack()
        ints = [int(x) for x in line.split()]
        mod = {"len": ints[0], "bytes": None if ints[1] == -1 else ints[2:]}
        impl = {"len": len(f), "bytes": list(b)}
        rep.seen(("fpack", bytes(b)), True)
        rep.count("frame.pack")
        case = {"op": "frame.pack", "frame": dict(c, msg=c["msg"].hex())}
        key = None
        if bytes(b)[8:] != bytes(c["msg"]) or bytes(b)[:8] != spec_pack(c["frm"], c["to"], c["id"], c["type"], c["res"]) \
                or len(f) != 8 + len(c["msg"]):
            key = "C11/frame-is-not-header-plus-message"
            rep.finding(key, case, bytes(b).hex())
        if impl != mod:
            rep.disagree("frame_pack", case, mod, impl, key)
        packed.append(bytes(b))
    bufs = packed + [bytes(r.randrange(256) for _ in range(ln)) for ln in range(0, 12)]
    outs = model.batch(["run header 4 " + " ".join(map(str, enc_bytes(b))) for b in bufs])
    for b, line in zip(bufs, outs):
        f = RF24NetworkFrame()
        ok = f.unpack(bytearray(b))
        impl = obs_frame(f) if ok else None
        mod = Stream([int(x) for x in line.split()]).optframe()
        rep.seen(("funpack", b), bool(ok))
        rep.count("frame.unpack")
        case = {"op": "frame.unpack", "buffer": b.hex()}
        key = None
        if ok != (len(b) >= 8) or (ok and bytes(f.message) != b[8:]):
            key = "C11/frame-unpack"
            rep.finding(key, case, "ok=%r message=%s" % (ok, bytes(f.message).hex()))
        if impl != mod:
            rep.disagree("frame_unpack", case, mod, impl, key)


def check_ids(rep, model):
    # the global frame id counter: consecutive headers get consecutive ids, wrapping at 2^16
    name = "_RF24NetworkHeader__next_id"
    saved = getattr(RF24NetworkHeader, name)
    try:
        for start in (0, 1, 65534, 65535, 40000):
            setattr(RF24NetworkHeader, name, start)
            ids = [RF24NetworkHeader(1, 1).frame_id for _ in range(4)]
            cur = start
            want = []
            for _ in range(4):
                a, b = [int(x) for x in model.ask("run header 6 %d" % cur).split()]
                want.append(a)
                cur = b
            rep.seen(("ids", start), True)
            rep.count("frame ids")
            case = {"op": "next_id", "counter": start}
            key = None
            if ids != [(start + i) % 65536 for i in range(4)]:
                key = "C11/frame-id-sequence"
                rep.finding(key, case, str(ids))
            if ids != want or getattr(RF24NetworkHeader, name) != cur:
                rep.disagree("next_id", case, want, ids, key)
    finally:
        setattr(RF24NetworkHeader, name, saved)


def new_node(addr=0o1):
    spi, csn, ce = shim.new_parts()
    net = RF24Network(spi, csn, ce, addr)
    return net, spi


def check_fragment_loop(rep, model, tier, r):
    vtime.install(vtime.FakeTime(step_ns=2_000_000))
    net, spi = new_node(0o1)
    lengths = list(range(0, 145))
    cases = []
    for n in lengths:
        t = r.choice([0, 1, 65, 84, 127, 128, 200, 255, 300, -5]) if n % 3 else r.randrange(0, 128)
        cases.append((n, t, None))
    # every failing-fragment position for a spread of lengths (all lengths in thorough)
    fl = lengths[25:] if tier == "thorough" else [25, 30, 47, 48, 49, 72, 73, 100, 120, 121, 143, 144]
    for n in fl:
        total = (n + 23) // 24
        for k in range(total):
            cases.append((n, r.choice([0, 65, 127, 200]), k))
    for n in (0, 1, 24):
        cases.append((n, 7, 0))
    req = []
    runs = []
    for n, t, fail in cases:
        data = bytes(r.randrange(256) for _ in range(n))
        hdr = RF24NetworkHeader(0, 0)
        hdr.message_type = t
        hdr.frame_id = r.choice([0, 7, 65535, 70000])
        hdr.reserved = r.choice([0, 0, 9])
        frame = RF24NetworkFrame(hdr, data)
        spi.tx.clear()
        spi.fail_index = fail
        spi.pending = None
        spi.regs[7][0] = 0x0E
        net._rf24._in[0] = 0x0E
        exc = None
        try:
            res = net.write(frame)
        except Exception as e:  # noqa
            res, exc = None, type(e).__name__
        sent = [bytes(p) for p in spi.tx]
        runs.append((n, t, fail, data, hdr, res, exc, sent))
        req.append("run header 5 %d %d %d %d %d %s %d" % (0o1, 0, hdr.frame_id, t, hdr.reserved,
                                                           " ".join(map(str, enc_bytes(data))), -1 if fail is None else fail))
    outs = model.batch(req)
    tm_req = ["run header 8 %d %s" % (len(s[7]), " ".join(" ".join(map(str, enc_bytes(p))) for p in s[7])) for s in runs]
    tms = model.batch(tm_req)
    for (n, t, fail, data, hdr, res, exc, sent), line, tm in zip(runs, outs, tms):
        s = Stream([int(x) for x in line.split()])
        k = s.get()
        mframes = []
        for _ in range(k):
            mframes.append(s.bytes())
        nd = s.get()
        mdel = []
        for _ in range(nd):
            mdel.append((s.get(), s.get(), s.bytes()))
        ts = Stream([int(x) for x in tm.split()])
        idel = [(ts.get(), ts.get(), ts.bytes()) for _ in range(ts.get())]
        case = {"op": "write", "len": n, "type": t, "frame_id": hdr.frame_id, "fail_fragment": fail, "message": data.hex()}
        rep.seen(("loop", n, t, fail), nontrivial=n > 24)
        rep.count("write len<=24" if n <= 24 else ("write fragmented" if fail is None else "write fragmented, fragment fails"))
        key = None
        total = (n + 23) // 24 if n > 24 else 1
        if exc:
            key = "C11/write-raised"
            rep.finding(key, case, exc)
        else:
            if hdr.message_type != t:
                key = "C11/header-type-not-restored"
                rep.finding(key, case, "caller's header.message_type is %r after write(), was %r" % (hdr.message_type, t))
            elif any(len(p) > 32 for p in sent):
                key = "C11/frame-longer-than-32"
                rep.finding(key, case, str([len(p) for p in sent]))
            elif fail is None and len(sent) != total:
                key = "C11/fragment-count"
                rep.finding(key, case, "emitted %d frames, ceil(n/24) = %d" % (len(sent), total))
            elif fail is None and idel != [(0o1, t & 0xFF, data)]:
                key = "C11/tmrh20-reassembly"
                rep.finding(key, case, "TMRh20-style receiver got %s" % [(a, b, c.hex()) for a, b, c in idel])
            elif fail is None and n > 24:
                # types / counters / ids, read off the wire independently of the model
                types = [p[6] for p in sent]
                ctr = [p[7] for p in sent]
                want_t = [148] + [149] * (total - 2) + [150]
                want_c = list(range(total, 1, -1)) + [t & 0xFF]
                if types != want_t or ctr != want_c or len({p[:6] for p in sent}) != 1:
                    key = "C11/fragment-typing-or-counter"
                    rep.finding(key, case, "types %s counters %s" % (types, ctr))
        if sent != mframes:
            rep.disagree("fragment loop", case, [m.hex() for m in mframes], [p.hex() for p in sent], key)
        rep.sample({"case": dict(case, message=case["message"][:16] + ".."), "payload_lengths": [len(p) for p in sent],
                    "result": res}, limit=4)
    rep.exhaustive.append("RF24Network.write for every message length 0..144; failing fragment at every position for %d lengths" % len(fl))


def run(rep, model, tier, seed):
    r = common.rng(seed, "c11")
    rep.rule = ("header pack/unpack over a boundary grid of all fields (all 256 type/reserved bytes, str types, out-of-range "
                "and negative values), buffers of length 0..40, frame pack/unpack for message lengths 0..40,100,144, the "
                "frame-id counter at its wrap-around, and RF24Network.write() for ALL message lengths 0..144 incl. a "
                "failing fragment at every position; non-trivial = accepted/encodable input (or fragmented write); "
                "distinct = distinct input")
    check_headers(rep, model, tier, r)
    check_frames(rep, model, tier, r)
    check_ids(rep, model)
    check_fragment_loop(rep, model, tier, r)


def replay(path):
    d = json.load(open(path))
    for w in d.get("witnesses", d.get("disagreements", []))[:8]:
        print(json.dumps(w)[:700])
    return 0

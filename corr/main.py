"""corr.main -- entry point of bin/check."""
import argparse
import importlib
import os
import sys

from . import common


def main():
    ap = argparse.ArgumentParser()
    ap.add_argument("prop")
    ap.add_argument("--quick", action="store_true")
    ap.add_argument("--thorough", action="store_true")
    ap.add_argument("--replay")
    args = ap.parse_args()
    prop = args.prop.upper()
    tier = "thorough" if args.thorough or os.environ.get("VERIF_TIER") == "thorough" else "quick"
    if args.quick:
        tier = "quick"
    seed = int(os.environ.get("VERIF_SEED", "20260926"))
    common.assert_repo_import()
    mod = importlib.import_module("corr." + prop.lower())
    if args.replay:
        sys.exit(mod.replay(args.replay))
    rep = common.Report(prop, tier, seed)
    proof = common.proof_step(prop)
    model = common.Model()
    try:
        mod.run(rep, model, tier, seed)
    finally:
        model.close()
    sys.exit(rep.finish(proof, mod.TRUSTED, proof["theorems"]))


if __name__ == "__main__":
    main()

"""C13 -- NETWORK_ACK: awaited only when needed, sent once, believed only if received.
(scenario shape: corr/netdeliver.py; the origin's True answer is exercised by NETWORK_ACK frames
that are already waiting in its RX FIFO when write() starts to wait)"""
from . import common
from . import netops as NO
from . import netscen as S
from . import netdeliver as D

TRUSTED = [
    "Coq 8.16.1 kernel incl. vm_compute (no native_compute); theorems closed under the global context",
    "environment model Env/Radio.v + Env/World.v (incl. the virtual clock): modelled, not verified; nodes run sequentially",
    "hand-written Gallina models Drv/RF24.v, Net/Node.v, tied to the code by this differential run",
    "extraction (ExtrOcamlBasic, ExtrOcamlNativeString; no Extract Constant) + ocaml/modelrun.ml glue (world server)",
    "python harness corr/c13.py, corr/netdeliver.py, corr/netops.py, corr/netscen.py",
]

CONSUMED = {128, 130, 131, 148, 149, 150, 193, 194, 195}


def hdr_bytes(frm, to, fid, typ, res=0):
    return bytes([frm & 255, frm >> 8, to & 255, to >> 8, fid & 255, fid >> 8, typ & 255, res & 255])


def gen_case(r):
    n = r.randrange(2, 7)
    specs = S.topology(r, n, kinds=("network", "network", "routing"))
    kinds = [k for (_i, k, _a) in specs]
    addrs = [a for (_i, _k, a) in specs]
    senders = [i for i, k in enumerate(kinds) if k == "network"]
    if not senders:
        specs[0] = (0, "network", 0)
        kinds[0] = "network"
        senders = [0]
    tx_to, route_to = r.choice([1, 2, 3]), r.choice([2, 4, 7])
    ops = []
    for i in range(n):
        ops += [("select", i), ("timeouts", tx_to, route_to)]
        if r.random() < 0.2:
            # multicast switched off (takes effect when the address is assigned: documented): routing goes another way
            ops += [("allow_multicast=", False), ("node_address=", addrs[i])]
        elif r.random() < 0.35:
            ops.append(("multicast_relay=", True))    # a multicast it receives is passed on one level down
    msgs = []
    for _ in range(r.randrange(1, 4)):
        si = r.choice(senders)
        di = r.choice([j for j in range(n) if j != si])
        typ = r.choice([r.randrange(256), r.randrange(65, 192), 64, 65, 191, 192, 193])
        while typ in CONSUMED - {193}:
            typ = r.randrange(256)
        fid = r.randrange(65536)
        mode = r.choice(["plain", "plain", "ack-waiting", "ack-and-more-waiting", "foreign-ack-waiting", "next-hop-deaf", "multicast",
                         "dst-absent", "relay-foreign-ack"])
        dst_addr = addrs[di]
        if mode == "dst-absent":
            # the destination does not exist: the last hop's transmission fails, every other hop works
            cand = [a | (d << (3 * S.level_of(a))) for a in addrs if S.level_of(a) < 4 for d in range(1, 6)]
            cand = [c for c in cand if c not in addrs and c != 0o4444 and S.parent_of(c) != addrs[si]]
            if cand:
                dst_addr = r.choice(cand)
            else:
                mode = "plain"
        m = {"src": si, "dst": di, "dst_addr": dst_addr, "type": typ, "id": fid, "mode": mode,
             "msg": bytes(r.randrange(256) for _ in range(r.randrange(0, 25)))}
        if mode == "relay-foreign-ack":
            # while waiting, the sender has to RELAY a NETWORK_ACK that belongs to one of its descendants
            kids = [a for a in addrs if a != addrs[si] and S.tree_path(0 if addrs[si] else a, a) and addrs[si] in ([0] + S.tree_path(a, 0))]
            kids = [a for a in kids if a != addrs[si]]
            if kids:
                kid = r.choice(kids)
                ops += [("inject", si, 1, hdr_bytes(kid, kid, r.randrange(65536), 193))]
            else:
                m["mode"] = mode = "plain"
        if mode in ("ack-waiting", "ack-and-more-waiting"):
            # a NETWORK_ACK addressed to the sender is already in its RX FIFO when it starts waiting
            ops += [("inject", si, 1, hdr_bytes(addrs[si], addrs[si], fid, 193))]
            if mode == "ack-and-more-waiting":
                # ... followed by more traffic for this node: read in the same poll
                other = r.choice([a for a in addrs if a != addrs[si]] or [0o5])
                for _ in range(r.choice([1, 2])):
                    ops += [("inject", si, 1, hdr_bytes(other, addrs[si], r.randrange(65536), r.choice([1, 5, 70])) + b"busy")]
        elif mode == "foreign-ack-waiting":
            other = r.choice([a for a in addrs if a != addrs[si]] or [0o5])
            ops += [("inject", si, 1, hdr_bytes(other, other, fid, 193))]
        elif mode == "next-hop-deaf":
            ops += [("select", si), ("oracle", "P" * 4000)]
        if mode == "multicast":
            ops += [("select", si), ("multicast", m["msg"], typ, r.choice([None, 0, 1, 2, 3])), ("air",)]
        else:
            ops += [("select", si), ("nwrite", {"to": dst_addr, "type": typ, "id": fid, "res": 0, "msg": m["msg"]}, 0o70), ("air",)]
        ops += [("select", si), ("oracle", "")]
        msgs.append(m)
        ops += D.rounds(n, 3 + 2 * len(S.tree_path(addrs[si], dst_addr)))
        ops += D.drain(n, kinds)
    return specs, ops, msgs, (tx_to, route_to)


class Checker(D.DeliveryChecker):
    def __init__(self, specs, msgs, pa, timeouts):
        super().__init__(specs, msgs, pa)
        self.timeouts = timeouts

    def finish(self):
        addrs = [a for (_i, _k, a) in self.specs]
        radio_of = {a: i for i, a in enumerate(addrs)}
        calls = [x for x in self.results]
        # split the air log per message: entries between this call and the next one
        bounds = []
        for m, (cur, op, res, t0, t1) in zip(self.messages, calls):
            bounds.append((cur, op, res, t0, t1))
        ks = sorted(set(k for k, _e in self.airlog))
        # index of the ("air") op right after each write: results are in order, air entries carry the op index
        call_ks = []
        j = 0
        per_msg = [[] for _ in self.messages]
        # a message's frames all carry its frame id; NETWORK_ACKs keep it
        for k, e in self.airlog:
            h = S.parse_hdr(e["data"])
            if not h:
                continue
            for mi, m in enumerate(self.messages):
                if m["mode"] != "multicast" and h["id"] == m["id"] and h["frm"] == addrs[m["src"]]:
                    per_msg[mi].append((e["from"], h, e))
        tx_to, route_to = self.timeouts
        for mi, (m, (cur, op, res, t0, t1)) in enumerate(zip(self.messages, calls)):
            src, dst = addrs[m["src"]], m["dst_addr"]
            if m["mode"] == "multicast":
                k0 = self.result_ks[mi]
                k1 = self.result_ks[mi + 1] if mi + 1 < len(self.result_ks) else 10 ** 9
                acks = [e for k, e in self.airlog if k0 <= k < k1 and (S.parse_hdr(e["data"]) or {}).get("type") == 193]
                if m["type"] != 193 and acks:
                    return ("C13/network-ack-for-a-multicast", "%d NETWORK_ACK transmissions after a multicast of type %d" % (len(acks), m["type"]))
                continue
            path = S.tree_path(src, dst)
            ack_t = 64 < m["type"] < 192
            inter = path[:-1]
            acks = [(frm_radio, h) for frm_radio, h, _e in per_msg[mi] if h["type"] == 193 and h["to"] == src]
            elapsed_ms = (t1 - t0) / 1e6
            if res[0] != 0:
                return ("C13/write-raised", str(res))
            ok = res == [0, 1]
            if m["mode"] == "dst-absent":
                # (for unacknowledged types write() only reports the first hop: True is correct there)
                if ok and 64 < m["type"] < 192:
                    return ("C13/true-although-never-delivered", "write() to the absent node %o returned True" % dst)
                if acks:
                    return ("C13/network-ack-for-undelivered-frame",
                            "NETWORK_ACK transmitted by %s although the last hop to %o failed" % ([oct(addrs[fr]) for fr, _h in acks], dst))
                continue
            if m["mode"] == "next-hop-deaf":
                if ok:
                    return ("C13/true-although-first-hop-never-acknowledged", "")
                if acks:
                    return ("C13/network-ack-for-undelivered-frame", "")
                if elapsed_ms > 4 * (tx_to + 3) + 1:
                    return ("C13/blocked-longer-than-the-timeouts-allow", "%.2f ms with tx_timeout %d" % (elapsed_ms, tx_to))
                continue
            if m["type"] == 193:
                # a NETWORK_ACK written by the application is just forwarded; it never triggers another one
                extra = [a for a in acks if a[0] != m["src"]]
                originated = [x for x in per_msg[mi] if x[1]["type"] == 193 and x[1]["to"] == x[1]["frm"] == src]
                if originated:
                    return ("C13/network-ack-caused-a-network-ack", "")
                continue
            if ack_t and inter:
                # awaited: True only with an ACK addressed to the sender in time
                if m["mode"] in ("ack-waiting", "ack-and-more-waiting"):
                    if not ok:
                        return ("C13/false-although-network-ack-arrived", "write() = %s after %.2f ms" % (res, elapsed_ms))
                else:
                    if ok:
                        return ("C13/true-without-network-ack",
                                "write() returned True (mode %s) although no NETWORK_ACK addressed to %o had arrived" % (m["mode"], src))
                    if elapsed_ms > (tx_to + route_to) + 3:
                        return ("C13/blocked-longer-than-the-timeouts-allow",
                                "%.2f ms with tx_timeout %d route_timeout %d" % (elapsed_ms, tx_to, route_to))
                # sent once, by the node that delivers to the destination, then relayed once per hop
                senders = [addrs[fr] for fr, _h in acks]
                want = [a for a in reversed(inter)]
                if senders != want:
                    key = "C13/network-ack-not-sent-exactly-once" if len(senders) != len(want) else "C13/network-ack-from-wrong-node"
                    return (key, "message %o -> %o type %d via %s: NETWORK_ACK transmitted by %s, expected %s" % (
                        src, dst, m["type"], [oct(a) for a in path], [oct(a) for a in senders], [oct(a) for a in want]))
            else:
                if acks:
                    return ("C13/network-ack-although-none-was-due",
                            "message %o -> %o type %d (route %s): %d NETWORK_ACK transmissions" % (src, dst, m["type"], [oct(a) for a in path], len(acks)))
                if not ok:
                    return ("C13/false-for-unacknowledged-type-on-loss-free-route", "write() = %s" % res)
                if elapsed_ms > tx_to + 3 and m["mode"] == "plain":
                    return ("C13/waited-although-no-network-ack-was-due", "%.2f ms" % elapsed_ms)
        return None


def run(rep, model, tier, seed):
    r = common.rng(seed, "c13")
    pa = S.PipeAddr(model)
    rep.rule = ("1-3 single-frame messages of all types 0..255 (minus those the network consumes) between random pairs of "
                "sampled topologies (routes of 1..8 hops), with a NETWORK_ACK / a foreign NETWORK_ACK already waiting at the "
                "sender, a deaf first hop, or as multicast; tx_timeout/route_timeout varied; then every node runs update() in "
                "rounds; non-trivial = acknowledged type over >= 1 intermediate node; distinct = distinct case")
    n = 250 if tier == "quick" else 5000
    for _ in range(n):
        specs, ops, msgs, timeouts = gen_case(r)
        chk = Checker(specs, msgs, pa, timeouts)
        v = NO.check_case(rep, model, [True] * len(specs), specs, ops, chk, "ack")
        if v is None:
            fv = chk.finish()
            if fv:
                rep.finding(fv[0], {"objects": [list(s) for s in specs], "ops": NO.jops(ops)}, fv[1])
        for m in msgs:
            rep.count("mode " + m["mode"])
            rep.count("ack type" if 64 < m["type"] < 192 else "other type")
    rep.extra["also_sampled_only"] = True


def replay(path):
    import json
    d = json.load(open(path))
    for w in d.get("witnesses", d.get("disagreements", []))[:5]:
        print(json.dumps(w)[:2000])
    return 0

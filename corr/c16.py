"""C16 -- the mesh master leases each logical address to at most one node ID.

A real RF24Mesh(node_id=0) on the extracted world is fed address requests (direct and
relayed through connected nodes of level 0..3), releases (frames and calls), set_address
calls and save/load cycles in both file formats; model == implementation after every call
(table as an ordered list, reply frames on the air, file bytes), and a checker written from
the property text judges table and replies.
"""
import itertools

from . import common
from . import netops as NO
from . import netscen as S

TRUSTED = [
    "Coq 8.16.1 kernel incl. vm_compute (no native_compute); theorems closed under the global context",
    "environment model Env/Radio.v + Env/World.v: modelled, not verified",
    "hand-written Gallina models Net/Mesh.v (dhcp_dict as insertion-ordered association list, _dhcp, set_address, "
    "release_address, binary/JSON persistence as list transformations), Net/Node.v, Drv/RF24.v, tied to the code by this differential run; "
    "the JSON text syntax itself is CPython's json module and only exercised, not modelled",
    "extraction (ExtrOcamlBasic, ExtrOcamlNativeString; no Extract Constant) + ocaml/modelrun.ml glue (world server)",
    "python harness corr/c16.py, corr/netops.py; scratch files under /verif/.scratch (removed after every case)",
]

VIAS = [None, 0o1, 0o3, 0o25, 0o444, 0o5, 0o123]


def hdr(frm, to, fid, typ, res):
    return bytes([frm & 255, frm >> 8, to & 255, to >> 8, fid & 255, fid >> 8, typ & 255, res & 255])


def request(via, nid, fid=7):
    return ("inject", 0, 1, hdr(0o4444 if via is None else via, 0, fid, 195, nid))


def release_frame(addr, fid=9):
    return ("inject", 0, 1, hdr(addr, 0, fid, 197, 0))


def valid(a):
    if a == 0:
        return True
    n = 0
    while a:
        if not 1 <= a & 7 <= 5 or n > 3:
            return False
        a >>= 3
        n += 1
    return True


class Checker:
    def start(self, run, snaps):
        self.run = run
        self.pending = None   # (via, id) of the request just injected
        self.table_before = None

    def step(self, k, cur, op, res, prev, snaps, obj, log):
        tbl = list(obj.dhcp_dict.items())
        addrs = [a for _i, a in tbl]
        if len(set(addrs)) != len(addrs):
            return ("C16/two-ids-on-one-address", "table %s after %r" % ([(i, oct(a)) for i, a in tbl], op[:3]))
        if op[0] == "update":
            if res[0] != 0:
                return ("C16/update-raised", str(NO.R.LAST_EXC[0]))
            self.after_update = tbl
            if self.pending is None:
                new = [kv for kv in tbl if kv not in self.tbl_before]
                if new:
                    return ("C16/lease-without-a-request", "table %s -> %s on a frame that is not an address request" % (self.tbl_before, tbl))
        if op[0] in ("load", "save") and res[0] != 0:
            return ("C16/persistence-raised", "%r: %s" % (op[:2], NO.R.LAST_EXC[0]))
        if op[0] == "save":
            data = bytes(res[2:])
            back = [(data[i], data[i + 2] | data[i + 3] << 8) for i in range(0, len(data) - 3, 4)]
            if back != tbl or len(data) != 4 * len(tbl):
                return ("C16/binary-file-does-not-hold-the-table", "table %s, file %s" % (tbl, data.hex()))
        if op[0] == "load":
            pairs = ([(op[2][i], op[2][i + 2] | op[2][i + 3] << 8) for i in range(0, len(op[2]) - 3, 4)] if op[1] == 1
                     else [tuple(p) for p in op[2]])
            before = getattr(self, "tbl_before", None)
            inj = len({a for _i, a in pairs}) == len(pairs) and len({i for i, _a in pairs}) == len(pairs)
            if inj and before is not None and (not before or dict(before) == dict(pairs)) and dict(tbl) != dict(pairs):
                return ("C16/load-does-not-reproduce-the-saved-table", "file %s loaded into %s gives %s" % (pairs, before, tbl))
            if inj and any(dict(tbl).get(i) != a for i, a in pairs):
                return ("C16/loaded-lease-missing", "file %s loaded into %s gives %s" % (pairs, before, tbl))
        return None

    def savejson(self, run):
        if run.last["savejson"] != run.last["savejson_table"]:
            return ("C16/json-file-does-not-hold-the-table", "table %s, file %s" % (run.last["savejson_table"], run.last["savejson"]))
        return None

    def air(self, k, log):
        if self.pending is None:
            stray = [S.parse_hdr(e["data"]) for e in log if (S.parse_hdr(e["data"]) or {}).get("type") == 128]
            if stray:
                return ("C16/address-response-without-a-request", "header %s" % stray[0])
            return None
        via, nid, before = self.pending
        self.pending = None
        after = self.after_update
        replies = [(e, S.parse_hdr(e["data"])) for e in log if (S.parse_hdr(e["data"]) or {}).get("type") == 128]
        base = 0 if via is None else via
        lvl = S.level_of(base)
        taken = {a for i, a in before if i != nid}
        free = [base | (d << (3 * lvl)) for d in range(5 if via is None else 4, 0, -1)]
        free = [a for a in free if a != 0o4444 and a not in taken]
        lease = dict(after).get(nid)
        if nid == 0:
            return None  # reserved == 0 is not a request
        if not free:
            if replies or after != before:
                return ("C16/lease-without-free-slot", "via %s id %d: table %s -> %s" % (via, nid, before, after))
            return None
        want = free[0]
        if lease != want:
            return ("C16/wrong-address-leased", "via %s id %d: leased %s, expected %s (largest free child slot); table before %s" % (
                oct(base), nid, None if lease is None else oct(lease), oct(want), [(i, oct(a)) for i, a in before]))
        if not valid(lease) or lease in (0, 0o4444) or S.parent_of(lease) != base:
            return ("C16/leased-address-not-a-valid-child", oct(lease))
        if [i for i, _a in after].count(nid) != 1:
            return ("C16/id-holds-several-leases", str(after))
        if not replies:
            return ("C16/no-reply-to-request", "via %s id %d" % (via, nid))
        for n_, (_e, first) in enumerate(replies):      # the reply, and every re-transmission of it
            if first["res"] != nid or first["msg"][:2] != bytes([lease & 255, lease >> 8]):
                return ("C16/reply-does-not-carry-id-and-address", "reply %d of %d: header %s" % (n_ + 1, len(replies), first))
            if first["to"] != (0o4444 if via is None else via):
                return ("C16/reply-not-addressed-to-requester-side", "reply %d of %d to %o, request came via %s" % (
                    n_ + 1, len(replies), first["to"], via))
        return None


def load_saved(fmt):
    def resolve(run):
        if fmt == 1:
            res = run.last.get("save")
            data = bytes(res[2:]) if res and res[0] == 0 else b""
            return ("load", 1, data)
        return ("load", 0, run.last.get("savejson", []))
    return resolve


def manual_set(nid, addr, by_addr):
    """a manual assignment that does not itself hand an address to a second ID (that would be the caller's own
    doing, outside the histories C16 quantifies over)"""
    def resolve(run):
        o = run.objs[run.cur]
        held = {a: i for i, a in o.dhcp_dict.items()}
        if not by_addr and held.get(addr, nid) != nid:
            return ("navailable",)
        return ("set_address", nid, addr, by_addr)
    return resolve


def gen_ops(r, events):
    ops = [("timeouts", 1, 1)]
    for ev in events:
        kind = ev[0]
        if kind == "req":
            ops += [("mark", ev[1], ev[2]), request(ev[1], ev[2], r.randrange(65536)), ("update",), ("air",)]
        elif kind == "reqbusy":
            # the relayed request is followed in the RX FIFO by a frame the master has to pass on to an absent node (the
            # failed transmission outlasts the first NETWORK_ACK wait) and by another node's frame, which is then read
            # during the wait that follows the re-transmitted response
            ops += [("mark", ev[1], ev[2], 3), request(ev[1], ev[2], r.randrange(65536)),
                    ("inject", 0, 1, hdr(0o15, ev[3], r.randrange(65536), 1, 0) + b"fwd"),
                    ("inject", 0, 1, hdr(0o2, 0, r.randrange(65536), ev[4], ev[5]) + bytes([ev[5], 0])),
                    ("update",), ("air",)]
        elif kind == "relframe":
            ops += [release_frame(ev[1]), ("update",), ("air",)]
        elif kind == "relcall":
            ops += [("mrelease", ev[1])]
        elif kind == "other":
            ops += [("inject", 0, 1, hdr(ev[1], 0, r.randrange(65536), ev[2], 0) + bytes(ev[3])), ("update",), ("air",)]
        elif kind == "set":
            ops += [manual_set(ev[1], ev[2], ev[3])]
        elif kind == "select":
            ops += [("select", ev[1])]
        elif kind == "save":
            ops += [("save",) if ev[1] else ("savejson",)]
        elif kind == "load":
            ops += [load_saved(ev[1])]
        elif kind == "loadforeign":
            ops += [("load", 0, ev[2])] if ev[1] == 0 else [("load", 1, b"".join(bytes([i, 0, a & 255, a >> 8]) for i, a in ev[2]))]
    return ops


def run_events(rep, model, events_list, domain, r, specs=((0, "mesh", 0),)):
    for events in events_list:
        ops = gen_ops(r, events)
        chk = Checker()
        # "mark" tells the checker which request the next update() serves
        real_ops = []
        marks = {}
        for op in ops:
            if not callable(op) and op[0] == "mark":
                marks[len(real_ops) + (op[3] if len(op) > 3 else 1)] = (op[1], op[2])   # index of the update op that follows the inject(s)
            else:
                real_ops.append(op)
        orig = chk.step

        def step(k, cur, op, res, prev, snaps, obj, log, chk=chk, orig=orig, marks=marks):
            if op[0] == "update" and k in marks:
                chk.pending = (marks[k][0], marks[k][1], chk.tbl_before)
            v = orig(k, cur, op, res, prev, snaps, obj, log)
            chk.tbl_before = list(obj.dhcp_dict.items())
            return v

        chk.tbl_before = []
        chk.after_update = []
        chk.step = step
        NO.check_case(rep, model, [True] * len(specs), list(specs), real_ops, chk, domain)


def busy_master_concurrent(rep, model, seed):
    """concurrent part (corr/des.py): a request relayed by the absent level-2 node 0o25 reaches the master through the
    present relay 0o5; the response needs a NETWORK_ACK that never comes, so the master transmits it twice and waits twice
    (route_timeout each); a third node writes to the master at a time that falls into the first wait, the second wait, or
    after both.  Whatever arrives while the master waits, the lease belongs to the ID the response carried."""
    from . import des
    for k, t_ns in enumerate([20_000_000, 60_000_000, 100_000_000, 120_000_000, 140_000_000, 400_000_000]):
        specs = [(0, "mesh", 0), (1, "network", 0o5), (2, "network", 0o2)]
        req = hdr(0o25, 0, 4242, 195, 21)
        scripts = [
            [("do", lambda run, t: run.world.inject(0, 1, req)), ("serve", 100_000, 300_000)],
            [("serve", 100_000, 300_000)],
            [("at", t_ns), ("call", ("nwrite", {"to": 0, "type": 1, "id": 77, "res": 0, "msg": b"while you wait"}, 0o70)),
             ("serve", 100_000, 300_000)],
        ]
        run = des.Run(model, [True] * 3, specs, scripts, seed + k, 10_000, 0, horizon_ns=5_000_000_000)
        run.go()
        master = run.tasks[0].obj
        tbl = dict(master.dhcp_dict)
        case = {"concurrent": "busy master", "third_node_writes_at_ms": t_ns / 1e6, "table": {str(i): oct(a) for i, a in tbl.items()}}
        rep.seen(case)
        rep.count("busy-master-concurrent")
        replies = [S.parse_hdr(e["data"]) for e in run.air if (S.parse_hdr(e["data"]) or {}).get("type") == 128 and e["from"] == 0]
        verdict = None
        for t in run.tasks:
            if t.exc is not None:
                verdict = ("C16/update-raised", "task %d: %r" % (t.idx, t.exc))
        if verdict is None:
            if not replies:
                verdict = ("C16/no-reply-to-request", "relayed request of id 21 never answered")
            else:
                a = replies[0]["msg"][0] | replies[0]["msg"][1] << 8
                if replies[0]["res"] != 21 or tbl.get(21) != a or any(i != 21 and x == a for i, x in tbl.items()) or set(tbl) - {21}:
                    verdict = ("C16/reply-and-table-disagree",
                               "the response gave %s to id %d; the table holds %s" % (oct(a), replies[0]["res"], case["table"]))
        if verdict:
            rep.finding(verdict[0], case, verdict[1])
        for t in run.tasks:
            d = run.replay(t)
            if d is not None:
                rep.disagree("busy-master-concurrent", dict(case, replay=d), d["model"], d["impl"], verdict[0] if verdict else None)
                break


def run(rep, model, tier, seed):
    r = common.rng(seed, "c16")
    busy_master_concurrent(rep, model, seed)
    rep.rule = ("event sequences for a real mesh master: ALL sequences of length <= %d over {request(id in 3 ids, via in "
                "direct/0o1/0o25), release frame/call of a leased address} plus random sequences to length 40 over ids 1..255, "
                "relays of every level, full and nearly full parents, set_address, binary save/load and JSON load of tables with "
                "0..255 entries; non-trivial = a request served; distinct = distinct sequence")
    depth = 3 if tier == "quick" else 4
    rep.rule = rep.rule % depth
    alpha = [("req", v, i) for v in (None, 0o1, 0o25) for i in (1, 2, 3)] + [("relframe", 0o5), ("relframe", 0o41), ("relcall", 0o4),
                                                                             ("relcall", 0o5), ("other", 0o2, 198, [0o5, 0]),
                                                                             ("req", None, 4), ("req", None, 5), ("req", None, 6)]
    ex = []
    for n in range(1, depth + 1):
        for w in itertools.product(alpha, repeat=n):
            if n == depth and r.random() > (0.125 if tier == "quick" else 0.2):
                continue
            ex.append(list(w))
    run_events(rep, model, ex, "exhaustive", r)
    rep.exhaustive.append("sequences up to length %d over a 17-event alphabet (length %d sampled 1:8 in quick, 1:5 in thorough)" % (depth, depth))
    rnd = []
    for _ in range(60 if tier == "quick" else 1500):
        evs = []
        saved = set()
        for _ in range(r.randrange(1, 41)):
            x = r.random()
            if x < 0.55:
                via = r.choice(VIAS)
                nid = r.choice([1, 2, 3, 4, 5, 6, 7, 200, 255, r.randrange(1, 256)])
                evs.append(("req", via, nid))
            elif x < 0.62:
                evs.append(("other", r.choice([0o1, 0o2, 0o5, 0o15]), r.choice([196, 198, 65, 1]), r.choice([[1], [5, 0], [1, 0]])))
            elif x < 0.7:
                evs.append(("relframe", r.choice([0o1, 0o2, 0o3, 0o4, 0o5, 0o15, 0o41, 0o1444])))
            elif x < 0.8:
                evs.append(("relcall", r.choice([0o1, 0o5, 0o45, 0o3])))
            elif x < 0.85:
                evs.append(("set", r.randrange(1, 256), r.choice([0o1, 0o2, 0o13, 0o5]), r.random() < 0.5))
            elif x < 0.91:
                f = r.randrange(2)
                saved.add(f)
                evs.append(("save", f))
            elif x < 0.97 and saved:
                evs.append(("load", r.choice(sorted(saved))))
            else:
                evs.append(("loadforeign", r.randrange(2), [(i, a) for i, a in zip(r.sample(range(1, 256), 3), r.sample(
                    [0o1, 0o2, 0o3, 0o14, 0o5, 0o4, 0o15], r.randrange(0, 4)))]))
        rnd.append(evs)
    run_events(rep, model, rnd, "random", r)
    # a busy master: requests relayed by a level-2 node (the response needs a NETWORK_ACK) with other traffic queued behind
    busy = []
    for via in (0o25, 0o15, 0o125):
        for absent in (0o3, 0o13, 0o4):
            for typ, res in ((195, 77), (198, 0), (196, 0), (195, 0)):
                busy.append([("req", None, 9), ("reqbusy", via, 21, absent, typ, res), ("req", via, 22), ("reqbusy", via, 23, absent, typ, res)])
    run_events(rep, model, busy if tier != "quick" else busy[::3], "relayed-busy", r, specs=[(0, "mesh", 0), (1, "network", 0o5)])
    # persistence: tables of 0, 1, 2, 50, 255 entries; save in each format, load into the same master and into a fresh one
    pers = []
    all_addrs = [a for a in range(1, 0o5556) if valid(a) and a != 0o4444]
    for size in (0, 1, 2, 50, 255) if tier == "quick" else (0, 1, 2, 3, 7, 50, 128, 254, 255):
        for f in (0, 1):
            ids = r.sample(range(1, 256), size)
            addrs = r.sample(all_addrs, size)
            sets = [("set", i, a, False) for i, a in zip(ids, addrs)]
            pers.append(sets + [("save", f), ("load", f), ("select", 1), ("load", f), ("save", 1 - f), ("load", 1 - f)])
    run_events(rep, model, pers, "persistence", r, specs=[(0, "mesh", 0), (1, "mesh", 0)])
    rep.extra["also_sampled_only"] = True


def replay(path):
    import json
    d = json.load(open(path))
    for w in d.get("witnesses", d.get("disagreements", []))[:5]:
        print(json.dumps(w)[:2000])
    return 0

"""Operation alphabet of the network / mesh classes for the correspondence checks: encoding for
the extracted model runner (Net/NodeRun.v run_net) and execution on real objects over the
world server."""
import json
import os
import shutil

from circuitpython_nrf24l01.network.structs import RF24NetworkHeader, RF24NetworkFrame, FrameQueueFrag, is_address_valid
from circuitpython_nrf24l01.rf24_network import RF24Network, RF24NetworkRoutingOnly
from circuitpython_nrf24l01.rf24_mesh import RF24Mesh, RF24MeshNoMaster

from . import common
from . import world as W
from . import rf24ops as R
from .netcodec import enc_frame, enc_mtype

KINDS = {"routing": (0, RF24NetworkRoutingOnly), "network": (1, RF24Network), "meshnode": (2, RF24MeshNoMaster),
         "mesh": (3, RF24Mesh)}
NEXT_ID = "_RF24NetworkHeader__next_id"


def next_id():
    return getattr(RF24NetworkHeader, NEXT_ID)


def optz(v):
    return [0] if v is None else [1, int(v)]


def bts(b):
    return [len(b)] + list(b)


def put_frame(f):
    if f is None:
        return [0]
    h = f.header
    return [1, h.from_node, h.to_node, h.frame_id] + enc_mtype(h.message_type) + [h.reserved] + bts(bytes(f.message))


def scratch_dir():
    d = os.path.join(common.SCRATCH, "dhcp-%d" % os.getpid())
    os.makedirs(d, exist_ok=True)
    return d


def cleanup_scratch():
    shutil.rmtree(os.path.join(common.SCRATCH, "dhcp-%d" % os.getpid()), ignore_errors=True)


def mk_user_frame(fr):
    h = RF24NetworkHeader(0, 0)
    setattr(RF24NetworkHeader, NEXT_ID, (next_id() - 1) & 0xFFFF)  # building the argument must not consume an id
    h.to_node, h.message_type, h.frame_id, h.reserved = fr["to"], fr["type"], fr["id"], fr["res"]
    h.from_node = fr.get("frm", 0o7777)
    return RF24NetworkFrame(h, bytes(fr["msg"]))


def do_load(o, fmt, data):
    path = os.path.join(scratch_dir(), "dhcp")
    if fmt == 0:
        open(path, "w").write(json.dumps({str(k): v for k, v in data}, indent=2))
        o.load_dhcp(path, as_bin=False)
    else:
        open(path, "wb").write(bytes(data))
        o.load_dhcp(path, as_bin=True)


def do_save(o):
    path = os.path.join(scratch_dir(), "dhcp.bin")
    o.save_dhcp(path, as_bin=True)
    return open(path, "rb").read()


def set_node_address(o, z):
    """the network classes have a setter; mesh classes change address through the inherited _begin()
    (what renew_address() does once it has an address) -- same guard, same effect"""
    if isinstance(o, RF24NetworkRoutingOnly):
        o.node_address = z
    elif is_address_valid(z):
        o._begin(z)


# name: (code, encoder, call, printer)
OPS = {
    "update": (100, lambda: [], lambda o: o.update(), R.r_int),
    "nwrite": (101, lambda fr, td: enc_frame(dict(fr, frm=fr.get("frm", 0o7777))) + [td],
               lambda o, fr, td: o.write(mk_user_frame(fr), td), R.r_bool),
    "multicast": (102, lambda m, t, lv: bts(m) + [t] + optz(lv), lambda o, m, t, lv: o.multicast(m, t, lv), R.r_bool),
    "node_address=": (103, lambda z: [z], lambda o, z: set_node_address(o, z), R.r_unit),
    "multicast_level=": (104, lambda z: [z], lambda o, z: setattr(o, "multicast_level", z), R.r_unit),
    "multicast_relay=": (105, lambda b: [int(b)], lambda o, b: setattr(o, "multicast_relay", b), R.r_unit),
    "fragmentation=": (106, lambda b: [int(b)], lambda o, b: setattr(o, "fragmentation", b), R.r_unit),
    "allow_multicast=": (107, lambda b: [int(b)], lambda o, b: setattr(o, "allow_multicast", b), R.r_unit),
    "nread": (108, lambda: [], lambda o: o.read(), put_frame),
    "npeek": (109, lambda: [], lambda o: o.peek(), put_frame),
    "navailable": (110, lambda: [], lambda o: o.available(), R.r_bool),
    "timeouts": (111, lambda a, b: [a, b], lambda o, a, b: (setattr(o, "tx_timeout", a), setattr(o, "route_timeout", b))[0], R.r_unit),
    "ret_sys_msg=": (112, lambda b: [int(b)], lambda o, b: setattr(o, "ret_sys_msg", b), R.r_unit),
    "max_queue_size=": (113, lambda z: [z], lambda o, z: setattr(o.queue, "max_queue_size", z), R.r_unit),
    "msend": (120, lambda i, t, m: [i, t] + bts(m) + [next_id()], lambda o, i, t, m: o.send(i, t, m), R.r_bool),
    "mwrite": (121, lambda a, t, m: [a, t] + bts(m) + [next_id()], lambda o, a, t, m: o.write(a, t, m), R.r_bool),
    "renew": (122, lambda ns: [ns], lambda o, ns: o.renew_address(ns / 1e9), lambda v: optz(v)),
    "release": (123, lambda: [], lambda o: RF24MeshNoMaster.release_address(o), R.r_bool),
    "lookup_address": (124, lambda a: optz(a), lambda o, a: o.lookup_address(a), R.r_int),
    "lookup_node_id": (125, lambda a: optz(a), lambda o, a: o.lookup_node_id(a), R.r_int),
    "check_connection": (126, lambda at, pm: [at, int(pm), next_id()], lambda o, at, pm: o.check_connection(at, pm), R.r_bool),
    "node_id=": (127, lambda z: [z], lambda o, z: setattr(o, "node_id", z), R.r_unit),
    "allow_children=": (128, lambda b: [int(b)], lambda o, b: setattr(o, "allow_children", b), R.r_unit),
    "mrelease": (129, lambda a: [a], lambda o, a: o.release_address(a), R.r_bool),
    "set_address": (130, lambda i, a, by: [i, a, int(by)], lambda o, i, a, by: o.set_address(i, a, by), R.r_unit),
    "load": (131, lambda fmt, data: [fmt, len(data)] + ([x for kv in data for x in kv] if fmt == 0 else list(data)),
             lambda o, fmt, data: do_load(o, fmt, data), R.r_unit),
    "save": (132, lambda: [], lambda o: do_save(o), R.r_bytes),
}


def dump_node(o):
    q = o.queue
    out = [o._addr, o._mask, o._mask_inv, o._net_lvl, o._parent, o._parent_pipe, int(bool(o._relay_enabled)),
           int(bool(o._frag_enabled)), o.tx_timeout, o.route_timeout, int(bool(o.allow_multicast)), int(bool(o.ret_sys_msg)),
           int(bool(o._parenthood)), o.max_message_length, 1 if isinstance(q, FrameQueueFrag) else 0, q.max_queue_size,
           len(q._queue)]
    for f in q._queue:
        out += put_frame(f)[1:]
    out += put_frame(o.frame_buf)[1:]
    mid = getattr(o, "_id", 0)
    dh = list(getattr(o, "dhcp_dict", {}).items())
    out += [mid, len(dh)] + [x for kv in dh for x in kv] + [int(bool(getattr(o, "_do_dhcp", False)))]
    return out


class NetRun:
    """objects: list of (radio index, kind name, arg)"""

    def __init__(self, model, plus, specs):
        self.world = W.World(model, "".join("T" if p else "F" for p in plus))
        W.install_time(self.world)
        setattr(RF24NetworkHeader, NEXT_ID, 0)
        self.nr = len(plus)
        self.objs, self.fids, self.cout = [], [], []
        for k, (ri, kind, arg) in enumerate(specs):
            spi, csn, ce = W.spidev_parts(self.world, ri) if k % 2 == 0 else W.busio_parts(self.world, ri)
            fid = (next_id() + 1) & 0xFFFF  # queue's cache frame takes one id, frame_buf the next
            try:
                o = KINDS[kind][1](spi, csn, ce, arg)
                o._verif_world = self.world
                self.objs.append(o)
                self.cout += [0]
            except ValueError:
                self.objs.append(None)
                self.cout += [1]
            except IndexError:
                self.objs.append(None)
                self.cout += [2]
            self.fids.append(fid)
        self.specs = specs

    def header(self):
        out = list(self.cout) + [-5, self.world.now_ns] + self.world.snap()
        for o in self.objs:
            out += [-7] + (dump_node(o) if o is not None else [])
        return out

    def request(self, plus, ops_enc):
        req = [len(plus)] + [int(p) for p in plus] + [len(self.specs)]
        for (ri, kind, arg), fid in zip(self.specs, self.fids):
            req += [ri, KINDS[kind][0], arg, fid]
        return "run net " + " ".join(str(x) for x in req + ops_enc)


def apply_op(obj, op):
    name, args = op[0], [R.copy_arg(a) for a in op[1:]]
    _c, _e, call, pr = OPS[name]
    wd = getattr(obj, "_verif_world", None)
    if wd is not None:
        wd.transfers = 0
        wd.watchdog = 400000
    R.LAST_EXC[0] = None
    try:
        v = call(obj, *args)
    except W.Watchdog as e:
        R.LAST_EXC[0] = e
        return [9]
    except Exception as e:  # noqa
        R.LAST_EXC[0] = e
        for cls, code in R.EXN.items():
            if isinstance(e, cls):
                return [code]
        return [8]
    return [0] + pr(v)


def encode(op):
    name, args = op[0], op[1:]
    if name in ("oracle", "inject", "select", "air"):
        return R.encode(op)
    if name == "idle":
        return [94, args[0]]
    code, enc = OPS[name][0], OPS[name][1]
    return [code] + enc(*args)


def checked_run(model, plus, specs, ops, checker):
    """runs ops on real objects; the model request is assembled alongside (some encodings need the
    live frame-id counter).  returns (impl stream, model stream, verdict)"""
    run = NetRun(model, plus, specs)
    out = run.header()
    nr = len(plus)
    prev = W.parse_snaps(run.world.snap(), nr)[0]
    pins = [None] * nr
    for o, (ri, _k, _a) in zip(run.objs, specs):
        if o is not None:
            pins[ri] = o._rf24._ce_pin
    log = R.SpiLog(run.world, pins)
    checker.start(run, prev)
    verdict = None
    cur = 0
    enc = []
    run.last = {}
    for k, op in enumerate(ops):
        run.cur = cur
        if callable(op):          # late-bound op (e.g. "load what was saved earlier in this run")
            op = ops[k] = op(run)
        name = op[0]
        if name == "savejson":    # harness-only: JSON text is CPython's json module, not modelled; the state is untouched
            o = run.objs[cur]
            path = os.path.join(scratch_dir(), "dhcp.json")
            o.save_dhcp(path)
            run.last["savejson"] = [(int(a), b) for a, b in json.load(open(path)).items()]
            run.last["savejson_table"] = list(o.dhcp_dict.items())
            if verdict is None and hasattr(checker, "savejson"):
                v = checker.savejson(run)
                if v:
                    verdict = (v[0], v[1], k)
            continue
        enc += encode(op)
        if name == "oracle":
            run.world.oracle(op[1])
            continue
        if name == "inject":
            run.world.inject(op[1], op[2], op[3])
            prev = W.parse_snaps(run.world.snap(), nr)[0]
            continue
        if name == "select":
            cur = op[1]
            continue
        if name == "idle":
            run.world.now_ns += op[1]
            continue
        if name == "air":
            lg = run.world.air()
            out += [-4, len(lg)]
            for e in lg:
                out += [e["from"]] + bts(e["addr"]) + bts(e["data"]) + [int(e["noack"]), e["attempts"], int(e["ok"]),
                                                                         len(e["receivers"])]
                for a, b in e["raw_receivers"]:
                    out += [a, b]
            if verdict is None:
                v = checker.air(k, lg)
                if v:
                    verdict = (v[0], v[1], k)
            continue
        obj = run.objs[cur]
        if obj is None:
            continue
        log.clear()
        res = apply_op(obj, op)
        run.last[name] = res
        snapi = run.world.snap()
        out += [-1] + res + [-5, run.world.now_ns] + snapi + [-6] + R.dump_obj(obj._rf24) + [-7] + dump_node(obj)
        snaps = W.parse_snaps(snapi, nr)[0]
        if verdict is None:
            v = checker.step(k, cur, op, res, prev, snaps, obj, log)
            if v:
                verdict = (v[0], v[1], k)
        prev = snaps
    out += [-2]
    mline = model.ask(run.request(plus, enc))
    mout = [int(x) for x in mline.split()]
    cleanup_scratch()
    return out, mout, verdict


def jops(ops):
    def j(a):
        if isinstance(a, (bytes, bytearray)):
            return {"bytes": bytes(a).hex()}
        if isinstance(a, dict):
            return {"frame": {k: (j(v) if isinstance(v, (bytes, bytearray)) else v) for k, v in a.items()}}
        if isinstance(a, (list, tuple)):
            return {"seq": [j(x) for x in a]}
        return a
    return [[op[0]] + [j(a) for a in op[1:]] for op in ops]


def check_case(rep, model, plus, specs, ops, checker, domain, nontrivial=True):
    ops = list(ops)
    iout, mout, verdict = checked_run(model, plus, specs, ops, checker)
    case = {"plus": plus, "objects": [list(s) for s in specs], "ops": jops(ops)}
    rep.seen(case, nontrivial=nontrivial)
    for o in ops:
        rep.count(o[0])
    if verdict:
        rep.finding(verdict[0], dict(case, step=verdict[2]), verdict[1])
    if iout != mout:
        isteps, msteps = R.split_steps(iout), R.split_steps(mout)
        k = next((j for j in range(min(len(isteps), len(msteps))) if isteps[j] != msteps[j]), min(len(isteps), len(msteps)))
        di = None
        if k < len(isteps) and k < len(msteps):
            a, b = isteps[k], msteps[k]
            di = next((x for x in range(min(len(a), len(b))) if a[x] != b[x]), min(len(a), len(b)))
        rep.disagree(domain, dict(case, first_differing_step=k - 1, first_differing_index=di),
                     msteps[k][max(0, (di or 0) - 8):(di or 0) + 24] if k < len(msteps) else None,
                     isteps[k][max(0, (di or 0) - 8):(di or 0) + 24] if k < len(isteps) else None,
                     verdict[0] if verdict else None)
    rep.sample({"objects": case["objects"], "ops": case["ops"][:5], "n_ops": len(ops)}, limit=3)
    return verdict

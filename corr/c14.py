"""C14 -- a multicast reaches exactly the chosen network level, unacknowledged.
(scenario shape: corr/netdeliver.py)"""
from . import common
from . import netops as NO
from . import netscen as S
from . import netdeliver as D

TRUSTED = [
    "Coq 8.16.1 kernel incl. vm_compute (no native_compute); theorems closed under the global context",
    "environment model Env/Radio.v + Env/World.v (a packet is received by every listening radio with a matching pipe): modelled, not verified",
    "hand-written Gallina models Drv/RF24.v, Net/Node.v, tied to the code by this differential run",
    "extraction (ExtrOcamlBasic, ExtrOcamlNativeString; no Extract Constant) + ocaml/modelrun.ml glue (world server)",
    "python harness corr/c14.py, corr/netdeliver.py, corr/netops.py, corr/netscen.py",
]


def populated_topology(r):
    """master, some level-1 nodes incl. 0o1 often, and deeper levels"""
    addrs = [0]
    l1 = r.sample([0o1, 0o2, 0o3, 0o4, 0o5], r.randrange(1, 4))
    if r.random() < 0.6 and 0o1 not in l1:
        l1[0] = 0o1
    addrs += l1
    for a in list(l1):
        if r.random() < 0.6:
            c = a | (r.randrange(1, 6) << 3)
            addrs.append(c)
            if r.random() < 0.5:
                g = c | (r.randrange(1, 6) << 6)
                addrs.append(g)
                if r.random() < 0.5:
                    addrs.append(g | (r.randrange(1, 6) << 9))
    addrs = addrs[:7]
    return [(i, "network", a) for i, a in enumerate(addrs)]


def gen_case(r):
    specs = populated_topology(r)
    n = len(specs)
    addrs = [a for (_i, _k, a) in specs]
    ops = []
    relay, amc = {}, {}
    for i in range(n):
        ops += [("select", i), ("timeouts", 2, 3)]
        amc[i] = r.random() > 0.15
        if not amc[i]:
            # takes effect when the address is (re)assigned: documented
            ops += [("allow_multicast=", False), ("node_address=", addrs[i])]
        relay[i] = amc[i] and r.random() < 0.3
        if relay[i]:
            ops.append(("multicast_relay=", True))
    # unicast traffic before the multicasts (acknowledged types to non-neighbours leave the radio through
    # another path of _write)
    pre = []
    for _ in range(r.choice([0, 0, 1, 2])):
        si, di = r.randrange(n), r.randrange(n)
        if si != di:
            ops += [("select", si), ("nwrite", {"to": addrs[di], "type": r.choice([5, 70, 100, 190]), "id": r.randrange(65536),
                                                "res": 0, "msg": b"pre"}, 0o70), ("air",)]
            pre.append((si, di))
    if pre:
        ops += D.rounds(n, 4)
        ops += D.drain(n, ["network"] * n, k=4)
    casts = []
    hoard = r.random() < 0.25   # relays do not read their own queue: it fills up
    for _ in range(r.randrange(1, 3) if not hoard else r.randrange(7, 10)):
        si = r.choice([i for i in range(n) if amc[i]] or [0])
        lvl = r.choice([None, 0, 1, 2, 3, 4])
        ln = r.choice([0, 1, 24, 25, 49, 72])
        m = {"src": si, "level": lvl, "type": r.choice([0, 5, 66, 100, 200]), "msg": bytes(r.randrange(256) for _ in range(ln))}
        casts.append(m)
        ops += [("select", si), ("multicast", m["msg"], m["type"], lvl), ("air",)]
        ops += D.rounds(n, 3)
        ops += D.drain(n, ["routing" if (hoard and relay[j]) else "network" for j in range(n)], k=4)
    if hoard:
        ops += D.drain(n, ["network"] * n, k=8)
    return specs, ops, casts, relay, amc, hoard


class Checker(D.DeliveryChecker):
    def __init__(self, specs, casts, pa, relay, amc, hoard=False):
        super().__init__(specs, casts, pa)
        self.relay, self.amc, self.hoard = relay, amc, hoard

    def finish(self):
        addrs = [a for (_i, _k, a) in self.specs]
        levels = [S.level_of(a) for a in addrs]
        got = {i: [D.decode_read(x) for x in v] for i, v in self.reads.items()}
        mc = [x for x in self.results if x[1][0] == "multicast"]
        # expected receptions
        want = {i: [] for i in range(len(addrs))}
        for m, (cur, op, res, _a, _b) in zip(self.messages, mc):
            lvl = levels[m["src"]] if m["level"] is None else m["level"]
            if res != [0, 1]:
                return ("C14/multicast-did-not-return-true", "multicast(level=%s) from %o returned %s" % (m["level"], addrs[m["src"]], res))
            frontier = [(lvl, m["src"])]
            seen_levels = set()
            while frontier:
                L, sender = frontier.pop()
                if L in seen_levels or L > 4:
                    continue
                seen_levels.add(L)
                for i in range(len(addrs)):
                    # the original sender hears its own frame again only through a relay below/above it
                    if i != sender and levels[i] == L and self.amc[i] and (i != m["src"] or sender != m["src"]):
                        want[i].append((addrs[m["src"]], m["type"], m["msg"]))
                        if self.relay[i] and 1 <= L <= 3:
                            frontier.append((L + 1, i))
        for i in range(len(addrs)):
            h = [(f["frm"], f["type"], f["msg"]) for f in got[i] if f["msg"] != b"pre"]
            w = want[i]
            if self.hoard and self.relay[i]:
                # a relay that never reads keeps at most max_queue_size frames for itself (that is the queue's
                # contract, C12); what it owes the next level is checked at the next level
                if len(h) <= 6 and all(x in w for x in h):
                    continue
            if sorted(h) != sorted(w):
                missing = [x for x in w if x not in h]
                extra = [x for x in h if x not in w]
                key = ("C14/level-member-did-not-receive" if missing and not extra else
                       "C14/received-by-node-outside-level-or-twice")
                return (key, "node %o (level %d): received %s, expected %s" % (
                    addrs[i], levels[i], [(oct(a), t, len(b)) for a, t, b in h], [(oct(a), t, len(b)) for a, t, b in w]))
        # unacknowledged: every multicast transmission is a single attempt that nobody acks
        for _k, e in self.airlog:
            h = S.parse_hdr(e["data"])
            if h and h["to"] == 0o100 and e["attempts"] != 1:
                return ("C14/multicast-waited-for-acknowledgement", "%d attempts" % e["attempts"])
            if h and h["to"] == 0o100 and e["acked_by"]:
                return ("C14/receiver-acknowledged-multicast", "radios %s acknowledged a multicast frame" % e["acked_by"])
        return None


def run(rep, model, tier, seed):
    r = common.rng(seed, "c14")
    pa = S.PipeAddr(model)
    rep.rule = ("multicasts from every sender class (master, 0o1, other level-1, deeper levels) to target level None/0..4 over "
                "populated topologies (<= 7 nodes), relay and allow_multicast set per node, lengths 0..72; every node then runs "
                "update() in rounds and all queues are drained; non-trivial = at least one expected receiver; distinct = distinct case")
    n = 200 if tier == "quick" else 4000
    for _ in range(n):
        specs, ops, casts, relay, amc, hoard = gen_case(r)
        chk = Checker(specs, casts, pa, relay, amc, hoard)
        v = NO.check_case(rep, model, [True] * len(specs), specs, ops, chk, "multicast")
        if v is None:
            fv = chk.finish()
            if fv:
                rep.finding(fv[0], {"objects": [list(s) for s in specs], "ops": NO.jops(ops)}, fv[1])
        for m in casts:
            rep.count("level %s" % m["level"])
    rep.extra["also_sampled_only"] = True


def replay(path):
    import json
    d = json.load(open(path))
    for w in d.get("witnesses", d.get("disagreements", []))[:5]:
        print(json.dumps(w)[:2000])
    return 0

"""C05 -- a network message reaches its destination exactly once, intact, over any tree.
(see corr/netdeliver.py for the scenario shape and its scheduling limits)"""
from . import common
from . import netops as NO
from . import netscen as S
from . import netdeliver as D

TRUSTED = [
    "Coq 8.16.1 kernel incl. vm_compute (no native_compute); theorems closed under the global context",
    "environment model Env/Radio.v + Env/World.v: modelled, not verified; exchanges are atomic and nodes run sequentially",
    "hand-written Gallina models Drv/RF24.v, Net/Node.v (+ Net/Queue.v, Net/Header.v, Net/Addr.v), tied to the code by this differential run",
    "extraction (ExtrOcamlBasic, ExtrOcamlNativeString; no Extract Constant) + ocaml/modelrun.ml glue (world server)",
    "python harness corr/c05.py, corr/netdeliver.py, corr/netops.py, corr/netscen.py",
]


def gen_case(r, tier):
    n = r.randrange(2, 7)
    specs = S.topology(r, n, kinds=("network", "network", "network", "routing"))
    if r.random() < 0.25:
        # "child number 5" topologies: a parent reaches child C on C's pipe 5, and C's fifth child talks to C
        # on that same pipe -- the one place where two different senders share a physical address
        base = r.choice([[0, 0o1, 0o51], [0, 0o5, 0o55, 0o1], [0, 0o2, 0o52, 0o552]])
        specs = [(i, "network", a) for i, a in enumerate(base)]
        n = len(specs)
    addrs = [a for (_i, _k, a) in specs]
    kinds = [k for (_i, k, _a) in specs]
    senders = [i for i, k in enumerate(kinds) if k == "network"]
    if not senders:
        specs[0] = (0, "network", 0)
        kinds[0] = "network"
        senders = [0]
    ops = []
    frag_off = r.random() < 0.15
    for i in range(n):
        ops += [("select", i), ("timeouts", 2, 3)]
        if frag_off:
            ops.append(("fragmentation=", False))
    if r.random() < 0.3:
        # nodes that listen to another level's multicasts: routing is by address, not by the level they listen on
        for i in range(n):
            if r.random() < 0.5:
                ops += [("select", i), ("multicast_level=", r.randrange(0, 5))]
    msgs = []
    for _ in range(r.randrange(1, 5)):
        si = r.choice(senders)
        di = r.choice([j for j in range(n) if j != si])
        ln = r.choice([0, 1, 24]) if frag_off else r.choice([0, 1, 23, 24, 25, 47, 48, 49, 71, 72, r.randrange(0, 73)])
        typ = r.randrange(0, 128)
        m = {"src": si, "dst": di, "type": typ, "id": r.randrange(65536), "msg": bytes(r.randrange(256) for _ in range(ln))}
        msgs.append(m)
        ops += [("select", si), ("nwrite", {"to": addrs[di], "type": typ, "id": m["id"], "res": 0, "msg": m["msg"]}, 0o70), ("air",)]
        ops += D.rounds(n, 2 + len(S.tree_path(addrs[si], addrs[di])))
        ops += D.drain(n, kinds)
    return specs, ops, msgs


class Checker(D.DeliveryChecker):
    def finish(self):
        addrs = [a for (_i, _k, a) in self.specs]
        kinds = [k for (_i, k, _a) in self.specs]
        got = {i: [D.decode_read(x) for x in v] for i, v in self.reads.items()}
        # on-air frames at most 32 bytes
        for _k, e in self.airlog:
            if len(e["data"]) > 32:
                return ("C05/frame-longer-than-32-on-air", "%d bytes" % len(e["data"]))
        wr = [x for x in self.results if x[1][0] == "nwrite"]
        for m, (cur, op, res, _t0, _t1) in zip(self.messages, wr):
            src, dst = addrs[m["src"]], addrs[m["dst"]]
            path = S.tree_path(src, dst)
            multi_hop_ack = 64 < m["type"] < 192 and len(path) > 1
            if res[0] != 0:
                return ("C05/write-raised", "%s" % res)
            if not multi_hop_ack and res != [0, 1]:
                return ("C05/write-returned-false-on-loss-free-network",
                        "write() from %o to %o (type %d, %d bytes) returned %s" % (src, dst, m["type"], len(m["msg"]), res))
        # destination queues: exactly the messages written for them, in order, nothing else anywhere
        for i in range(len(self.specs)):
            want = [m for m in self.messages if m["dst"] == i]
            have = got[i]
            if kinds[i] == "routing":
                continue
            w = [(addrs[m["src"]], m["type"], m["msg"]) for m in want]
            h = [(f["frm"], f["type"], f["msg"]) for f in have]
            if h != w:
                missing = [x for x in w if x not in h]
                extra = [x for x in h if x not in w]
                key = "C05/message-not-delivered" if missing and not extra else (
                    "C05/message-delivered-twice-or-to-wrong-node" if extra else "C05/order")
                return (key, "node %o received %s, expected %s" % (addrs[i], [(oct(a), t, len(b)) for a, t, b in h],
                                                                     [(oct(a), t, len(b)) for a, t, b in w]))
        return None


def run(rep, model, tier, seed):
    r = common.rng(seed, "c05")
    pa = S.PipeAddr(model)
    rep.rule = ("1-3 messages, one at a time, between random node pairs of sampled parent-closed topologies (2-6 nodes, depth <= 4, "
                "mixed routing-only/full nodes), lengths 0..72 (0..24 with fragmentation off; longer messages need the receiver to drain its 3-deep RX FIFO while the sender is still transmitting, which sequential scheduling cannot do), user types 0..127, loss-free; every "
                "node then runs update() until quiet and all queues are drained; non-trivial = a message crossing at least one "
                "intermediate node or fragmented; distinct = distinct case")
    n = 200 if tier == "quick" else 4000
    for _ in range(n):
        specs, ops, msgs = gen_case(r, tier)
        chk = Checker(specs, msgs, pa)
        v = NO.check_case(rep, model, [True] * len(specs), specs, ops, chk, "delivery")
        if v is None:
            fv = chk.finish()
            if fv:
                rep.finding(fv[0], {"objects": [list(s) for s in specs], "ops": NO.jops(ops)}, fv[1])
        for m in msgs:
            rep.count("len>24" if len(m["msg"]) > 24 else "len<=24")
    rep.extra["also_sampled_only"] = True


def replay(path):
    import json
    d = json.load(open(path))
    for w in d.get("witnesses", d.get("disagreements", []))[:5]:
        print(json.dumps(w)[:2000])
    return 0

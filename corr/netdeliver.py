"""Message scenarios on multi-node worlds for C05 / C13 / C14 (see netscen.py): one message at a
time is written / multicast at one node, then every node runs update() in rounds until the
air is quiet; finally every queue is drained.  Sequential scheduling: a node that waits for a
NETWORK_ACK inside write() cannot be answered in time (nobody else runs meanwhile), so for
multi-hop acknowledged types the origin's return value is only checked through pre-injected
NETWORK_ACK frames (C13); delivery itself does not depend on it."""
from . import common
from . import netops as NO
from . import netscen as S


def rounds(nnodes, n):
    ops = []
    for _ in range(n):
        for j in range(nnodes):
            ops += [("select", j), ("update",), ("air",)]
    return ops


def drain(nnodes, kinds, k=3):
    ops = []
    for j in range(nnodes):
        if kinds[j] != "routing":
            ops += [("select", j)] + [("nread",)] * k
    return ops


class DeliveryChecker:
    """collects: write results, frames on air, frames read from queues"""

    def __init__(self, specs, messages, pa):
        self.specs, self.messages, self.pa = specs, messages, pa

    def start(self, run, snaps):
        self.run = run
        self.results = []   # (node index, op, res)
        self.result_ks = []
        self.airlog = []    # (k, entry)
        self.reads = {i: [] for i in range(len(self.specs))}
        self.clock_before = 0

    def step(self, k, cur, op, res, prev, snaps, obj, log):
        name = op[0]
        if res == [9]:
            return ("CXX/call-does-not-terminate", "%r" % (op[:2],))
        if name in ("nwrite", "multicast"):
            self.results.append((cur, op, res, self.clock_before, self.run.world.now_ns))
            self.result_ks.append(k)
        if name == "nread" and res[0] == 0 and res[1] == 1:
            self.reads[cur].append(res[2:])
        if name == "update" and res[0] != 0:
            return ("CXX/update-raised", "%s" % NO.R.LAST_EXC[0])
        self.clock_before = self.run.world.now_ns
        return None

    def air(self, k, log):
        for e in log:
            self.airlog.append((k, e))
        return None


def decode_read(ints):
    """[from,to,id,0,type,res,len,bytes...] as printed by put_frame (int type)"""
    frm, to, fid = ints[0], ints[1], ints[2]
    assert ints[3] == 0
    typ, res, n = ints[4], ints[5], ints[6]
    return {"frm": frm, "to": to, "id": fid, "type": typ, "res": res, "msg": bytes(ints[7:7 + n])}

"""C03 -- setters program the radio with the documented encoding; getters agree.

The real RF24 class runs on the extracted Coq radio model (world server); the Gallina
driver model (Drv/RF24.v) runs the same call sequence on the same radio model; after every
call the complete register file, FIFOs, CE and the driver's cached attributes are compared.
Independently, a checker written from the property text / docs judges every call of the
implementation: legal register writes only, footprint, cached view == radio, getters ==
documented value.
"""
import itertools
import json

from circuitpython_nrf24l01.rf24 import RF24

from . import common
from . import world as W
from . import rf24ops as R

TRUSTED = [
    "Coq 8.16.1 kernel incl. vm_compute (no native_compute); theorems closed under the global context",
    "environment model Env/Radio.v + Env/World.v (nRF24L01+ register map, SPI command set, pre-command STATUS byte): modelled, not verified",
    "hand-written Gallina model Drv/RF24.v of rf24.py, tied to the code by this differential run",
    "extraction (ExtrOcamlBasic, ExtrOcamlNativeString; no Extract Constant) + ocaml/modelrun.ml glue (world server)",
    "python harness corr/c03.py, corr/rf24ops.py, corr/world.py (SPI shims, virtual time) incl. the documented-encoding checker",
]

REG = {"CONFIG": 0, "EN_AA": 1, "EN_RXADDR": 2, "SETUP_AW": 3, "SETUP_RETR": 4, "RF_CH": 5, "RF_SETUP": 6,
       "DYNPD": 28, "FEATURE": 29}


def make_rf24(world, ri, k):
    spi, csn, ce = W.spidev_parts(world, ri) if k % 2 == 0 else W.busio_parts(world, ri)
    return RF24(spi, csn, ce)


# ------------------------------------------------------------------ argument grids
INTS = {
    "channel=": [-1, 0, 1, 76, 125, 126, 255, 300],
    "data_rate=": [0, 1, 2, 250, 3, -1, 1000],
    "pa_level=": [-18, -12, -6, 0, -5, 6, 1, False, True, (-12, False), (0, True), [-18, 0], (-6,), (-7, True)],
    "crc=": [-1, 0, 1, 2, 3, -5],
    "address_length=": [-1, 0, 2, 3, 4, 5, 6],
    "ard=": [-1, 0, 249, 250, 251, 499, 500, 1500, 3999, 4000, 4001, 10 ** 6],
    "arc=": [-1, 0, 1, 5, 15, 16, 300],
    "auto_ack=": [True, False, 0, 1, 0x3E, 0x3F, 0x40, 0xFF, -1, [1, 0, 1], [0] * 6, [-1, 1, -1, 0], [True, False] * 4,
                  (0, -2, 1)],
    "dynamic_payloads=": [True, False, 0, 1, 0x3E, 0x3F, 0x7F, -1, [1, 0, 1], [0] * 6, [-1, 1, -1, 0], [True, False] * 4],
    "payload_length=": [-1, 0, 1, 8, 32, 33, 255, [1, 2, 3, 4, 5, 6], [0, 40, -3, 16], [32] * 8, True],
    "ack=": [True, False],
    "allow_ask_no_ack=": [True, False],
    "power=": [True, False],
    "listen=": [True, False],
}
PIPES = [-1, 0, 1, 2, 5, 6, None]
ADDRS = [b"1Node", b"2Node", b"abc", b"\xe7" * 5, bytearray(b"xy"), b"\x01\x02\x03\x04\x05"]


def all_single_ops():
    ops = []
    for name, vals in INTS.items():
        for v in vals:
            ops.append((name, v))
    for z in (250, 4000, -5, 1234):
        for c in (0, 15, 16, -1):
            ops.append(("set_auto_retries", z, c))
    for b in (True, False):
        for p in PIPES:
            ops.append(("set_auto_ack", b, p))
            ops.append(("set_dynamic_payloads", b, p))
    for z in (-1, 0, 1, 5, 32, 33, 40, 300):
        for p in PIPES:
            ops.append(("set_payload_length", z, p))
    for p in (-1, 0, 1, 5, 6):
        ops.append(("get_payload_length", p))
        ops.append(("get_auto_ack", p))
        ops.append(("get_dynamic_payloads", p))
        ops.append(("close_rx_pipe", p))
        ops.append(("address", p))
        for a in ADDRS[:3]:
            ops.append(("open_rx_pipe", p, a))
    for a in ADDRS:
        ops.append(("open_tx_pipe", a))
    for a, b, c in itertools.product((True, False), repeat=3):
        ops.append(("interrupt_config", a, b, c))
    for g in ("channel", "data_rate", "pa_level", "is_lna_enabled", "crc", "address_length", "ard", "arc",
              "get_auto_retries", "auto_ack", "dynamic_payloads", "payload_length", "ack", "allow_ask_no_ack",
              "power", "listen"):
        ops.append((g,))
    ops.append(("load_ack", b"ack", 1))
    ops.append(("load_ack", b"", 1))
    ops.append(("load_ack", b"x" * 33, 0))
    ops.append(("load_ack", b"ok", 6))
    return ops


# ------------------------------------------------------------------ documented-encoding checker
def clamp(v, lo, hi):
    return max(lo, min(hi, v))


class Spec:
    """what the docs say each accepted setter must leave in the radio, as predicates on the
    register snapshot; and which registers/bits a call may touch at all"""

    ALL = set(range(30)) | {"p0", "p1", "tx_addr", "ce", "txfifo"}

    @staticmethod
    def footprint(op):
        n = op[0]
        if n.endswith("=") or n.startswith(("set_", "open_", "close_")) or n in ("interrupt_config", "load_ack"):
            pass
        else:
            return {}  # getters and address(): nothing may change
        fp = {
            "channel=": {5: 0x7F}, "data_rate=": {6: 0x28}, "pa_level=": {6: 0x07}, "crc=": {0: 0x0C},
            "address_length=": {3: 0x03}, "ard=": {4: 0xF0}, "arc=": {4: 0x0F}, "set_auto_retries": {4: 0xFF},
            "auto_ack=": {1: 0x3F}, "set_auto_ack": {1: 0x3F},
            "dynamic_payloads=": {28: 0x3F, 29: 0x04}, "set_dynamic_payloads": {28: 0x3F, 29: 0x04},
            "payload_length=": {17: 63, 18: 63, 19: 63, 20: 63, 21: 63, 22: 63},
            "ack=": {29: 0x06, 28: 0x01, 1: 0x01}, "allow_ask_no_ack=": {29: 0x01},
            "interrupt_config": {0: 0x70}, "power=": {0: 0x02},
            "listen=": {0: 0x03, 2: 0x01, "p0": None, "ce": None, "txfifo": None},
            "open_tx_pipe": {"tx_addr": None, "p0": None, 2: 0x01},  # pipe 0 is appropriated for the ACK
            "load_ack": {29: 0x06, 28: 0x01, 1: 0x01, "txfifo": None},
        }
        if n == "set_payload_length":
            p = op[2]
            return fp["payload_length="] if p is None else ({17 + p: 63} if 0 <= p <= 5 else {})
        if n == "open_rx_pipe":
            p = op[1]
            if not 0 <= p <= 5:
                return {}
            return {2: 1 << p, ("p0" if p == 0 else "p1" if p == 1 else 10 + p): None}
        if n == "close_rx_pipe":
            p = op[1]
            return {2: 1 << p} if 0 <= p <= 5 else {}
        return fp.get(n, {})

    @staticmethod
    def expected(op, snap):
        """(ok, predicate description) for accepted scalar setters: register fields after the call"""
        n, a = op[0], op[1:]
        regs = snap["regs"]
        v = a[0] if a else None
        isint = isinstance(v, int) and not isinstance(v, bool)
        if n == "channel=" and isint and 0 <= v <= 125:
            return regs[5] == v, "RF_CH == %d" % v
        if n == "data_rate=" and v in (1, 2, 250) and isint:
            return regs[6] & 0x28 == {1: 0, 2: 8, 250: 0x20}[v], "RF_SETUP rate bits for %d" % v
        if n == "pa_level=":
            # documented forms: the level alone (LNA "always enabled" by default), or a list/tuple with the level at index 0
            # and a bool controlling the LNA at index 1 (further indices discarded); theorem C03_pa_level_bits
            p, lna = v, True
            if isinstance(v, (list, tuple)) and len(v) > 1:
                p, lna = v[0], bool(v[1])
            if isinstance(p, int) and not isinstance(p, bool) and p in (-18, -12, -6, 0):
                want = {-18: 0, -12: 2, -6: 4, 0: 6}[p] | int(lna)
                return regs[6] & 7 == want, "RF_PWR bits for %d dBm and LNA_HCURR == %d" % (p, lna)
        if n == "crc=" and isint:
            c = clamp(v, 0, 2)
            want = 0 if c == 0 else (0x08 if c == 1 else 0x0C)
            return regs[0] & 0x0C == want, "CONFIG CRC bits for crc clamped to %d" % c
        if n == "address_length=" and isint:
            return regs[3] == (v - 2 if 3 <= v <= 5 else 0), "SETUP_AW"
        if n == "ard=" and isint:
            return regs[4] >> 4 == (clamp(v, 250, 4000) - 250) // 250, "ARD field"
        if n == "arc=" and isint:
            return regs[4] & 15 == clamp(v, 0, 15), "ARC field"
        if n == "set_auto_retries":
            return regs[4] == ((clamp(a[0], 250, 4000) - 250) // 250) << 4 | clamp(a[1], 0, 15), "SETUP_RETR"
        if n == "payload_length=" and isint:
            w = clamp(v, 1, 32)
            return all(regs[17 + i] == w for i in range(6)), "all RX_PW == %d" % w
        if n == "set_payload_length" and a[1] is not None and 0 <= a[1] <= 5:
            return regs[17 + a[1]] == clamp(a[0], 1, 32), "RX_PW_P%d == clamp(%d)" % (a[1], a[0])
        if n == "auto_ack=" and isinstance(v, bool):
            return regs[1] == (0x3F if v else 0), "EN_AA all/none"
        if n == "dynamic_payloads=" and isinstance(v, bool):
            return regs[28] == (0x3F if v else 0) and bool(regs[29] & 4) == v, "DYNPD all/none + EN_DPL"
        if n in ("set_auto_ack", "set_dynamic_payloads") and a[1] is not None and 0 <= a[1] <= 5:
            r = 1 if n == "set_auto_ack" else 28
            return bool(regs[r] >> a[1] & 1) == bool(a[0]), "bit %d" % a[1]
        if n == "allow_ask_no_ack=":
            return bool(regs[29] & 1) == bool(v), "EN_DYN_ACK"
        if n == "power=":
            return bool(regs[0] & 2) == bool(v), "PWR_UP"
        if n == "open_tx_pipe" and 1 <= len(v) <= 5:
            ok = snap["tx_addr"][:len(v)] == bytes(v)
            if regs[1] & 1:     # auto-ack on pipe 0: "RX pipe 0 is appropriated with the TX address", open in TX mode
                ok = ok and snap["p0"] == snap["tx_addr"] and bool(regs[0] & 1 or regs[2] & 1)
            return ok, "TX_ADDR starting with %s%s" % (bytes(v).hex(), ", RX_ADDR_P0 == TX_ADDR and pipe 0 open for the ACK"
                                                        if regs[1] & 1 else "")
        if n == "interrupt_config":
            return regs[0] & 0x70 == ((not a[0]) << 6 | (not a[1]) << 5 | (not a[2]) << 4), "IRQ mask bits"
        return True, ""

    GETTERS = {
        "channel": lambda s: s["regs"][5],
        "data_rate": lambda s: {0: 1, 8: 2, 0x20: 250}.get(s["regs"][6] & 0x28, 250),
        "pa_level": lambda s: -18 + 6 * ((s["regs"][6] & 6) >> 1),
        "is_lna_enabled": lambda s: s["regs"][6] & 1,
        "address_length": lambda s: s["regs"][3] + 2,
        "ard": lambda s: 250 * (1 + (s["regs"][4] >> 4)),
        "arc": lambda s: s["regs"][4] & 15,
        "auto_ack": lambda s: s["regs"][1],
        "dynamic_payloads": lambda s: s["regs"][28],
        "payload_length": lambda s: s["regs"][17],
        "allow_ask_no_ack": lambda s: s["regs"][29] & 1,
        "power": lambda s: (s["regs"][0] >> 1) & 1,
        "crc": lambda s: (2 if s["regs"][0] & 4 else 1) if s["regs"][1] else max(0, ((s["regs"][0] & 0x0C) >> 2) - 1),
    }


def legal_write(reg, data):
    """no out-of-range or reserved value goes to a register"""
    v = data[0] if data else 0
    if reg == 0:
        return v < 0x80
    if reg in (1, 2, 28):
        return v < 0x40
    if reg == 3:
        return v <= 3
    if reg == 5:
        return v <= 125
    if reg == 6:
        return v & 0x40 == 0 and v & 0x28 != 0x28
    if 17 <= reg <= 22:
        return v <= 32
    if reg == 29:
        return v < 8
    if reg in (10, 11, 16):
        return 1 <= len(data) <= 5
    if reg == 7:
        return v & 0x8F == 0
    if reg in (4, 12, 13, 14, 15):
        return True
    return False  # read-only / non-existent register (8, 9, 0x17 ... )


def sync_violation(obj, snap):
    """the driver's cached view vs the radio"""
    regs = snap["regs"]
    pairs = [("_config", obj._config, regs[0]), ("_aa", obj._aa, regs[1]), ("_open_pipes", obj._open_pipes, regs[2]),
             ("_addr_len", obj._addr_len - 2, regs[3]), ("_retry_setup", obj._retry_setup, regs[4]),
             ("_channel", obj._channel, regs[5]), ("_rf_setup", obj._rf_setup, regs[6]),
             ("_dyn_pl", obj._dyn_pl, regs[28]), ("_features", obj._features, regs[29]),
             ("_pipes[0]", bytes(obj._pipes[0]), snap["p0"]), ("_pipes[1]", bytes(obj._pipes[1]), snap["p1"]),
             ("_tx_address", bytes(obj._tx_address), snap["tx_addr"])]
    pairs += [("_pl_len[%d]" % i, obj._pl_len[i], regs[17 + i]) for i in range(6)]
    pairs += [("_pipes[%d]" % i, obj._pipes[i], regs[10 + i]) for i in range(2, 6)]
    for name, a, b in pairs:
        if a != b:
            return "%s = %r but the radio holds %r" % (name, a, b)
    return None


class Logger:
    """records W_REGISTER transfers of the current call"""

    def __init__(self, world):
        self.w = world
        self.writes = []
        orig = world.spi

        def spi(i, mosi):
            if 0x20 <= mosi[0] < 0x40:
                self.writes.append((mosi[0] - 0x20, list(mosi[1:])))
            return orig(i, mosi)

        world.spi = spi


def judge_sequence(ops, run):
    """replays the implementation's run step by step with the checker; returns first (key, detail, step)"""
    return run.verdict


def run_case(model, ops, plus=True):
    impl = R.ImplRun(model, [plus], [0], make_rf24)
    log = Logger(impl.world)
    obj = impl.objs[0]
    verdict = None
    out = list(impl.out)
    prev = W.parse_snaps(impl.world.snap(), 1)[0][0]
    for k, op in enumerate(ops):
        log.writes.clear()
        res = R.apply_op(obj, op)
        snapi = impl.world.snap()
        out += [-1] + res + [-5, impl.world.now_ns] + snapi + [-6] + R.dump_obj(obj)
        snap = W.parse_snaps(snapi, 1)[0][0]
        if verdict is None:
            # (1) legal writes
            for reg, data in log.writes:
                if not legal_write(reg, data):
                    verdict = ("C03/illegal-register-write", "W_REGISTER 0x%02X <- %s during %r" % (reg, data, op), k)
                    break
        if verdict is None:
            # (2) footprint
            fp = Spec.footprint(op)
            for reg in range(30):
                if reg in (7, 8, 9, 23, 10, 11, 16):
                    continue
                ch = prev["regs"][reg] ^ snap["regs"][reg]
                allowed = fp.get(reg, 0)
                if allowed is None:
                    continue
                if ch & ~allowed:
                    verdict = ("C03/register-outside-footprint",
                               "%r changed register 0x%02X from %02X to %02X" % (op, reg, prev["regs"][reg], snap["regs"][reg]), k)
                    break
            for nm in ("p0", "p1", "tx_addr", "ce"):
                if verdict is None and prev[nm] != snap[nm] and nm not in fp:
                    verdict = ("C03/register-outside-footprint", "%r changed %s" % (op, nm), k)
        if verdict is None and res[0] == 0:
            ok, what = Spec.expected(op, snap)
            if not ok:
                verdict = ("C03/documented-encoding", "after %r: expected %s; registers %s" % (op, what, snap["regs"]), k)
        if verdict is None and res[0] == 0 and op[0] in Spec.GETTERS:
            want = Spec.GETTERS[op[0]](snap)
            if res[1] != want:
                verdict = ("C03/getter-disagrees", "%s returned %r, radio says %r" % (op[0], res[1], want), k)
        if verdict is None and op[0] == "close_rx_pipe" and op[1] == 0 and res[0] == 0 and obj._pipe0_read_addr is not None:
            verdict = ("C03/cached-view-differs-from-radio",
                       "after close_rx_pipe(0) the driver still remembers a pipe-0 reading address (%s): the next listen = True "
                       "would re-open the pipe the user closed" % bytes(obj._pipe0_read_addr).hex(), k)
        if verdict is None:
            sv = sync_violation(obj, snap)
            if sv:
                verdict = ("C03/cached-view-differs-from-radio", "after %r: %s" % (op, sv), k)
        prev = snap
    out += [-2]
    return out, verdict


def jops(ops):
    def j(a):
        if isinstance(a, (bytes, bytearray)):
            return {"bytes": bytes(a).hex(), "ba": isinstance(a, bytearray)}
        if isinstance(a, (list, tuple)):
            return {"seq": [j(x) for x in a], "tuple": isinstance(a, tuple)}
        return a
    return [[op[0]] + [j(a) for a in op[1:]] for op in ops]


def unj(jo):
    def u(a):
        if isinstance(a, dict) and "bytes" in a:
            b = bytes.fromhex(a["bytes"])
            return bytearray(b) if a["ba"] else b
        if isinstance(a, dict) and "seq" in a:
            s = [u(x) for x in a["seq"]]
            return tuple(s) if a["tuple"] else s
        return a
    return [tuple([op[0]] + [u(a) for a in op[1:]]) for op in jo]


def check_cases(rep, model, cases, domain, plus=True):
    reqs = [R.request([plus], [0], ops) for ops in cases]
    # the model runs are pure: ask them first (the implementation run reuses the same process's world)
    mouts = model.batch(reqs)
    for ops, mline in zip(cases, mouts):
        iout, verdict = run_case(model, ops, plus)
        mout = [int(x) for x in mline.split()]
        case = {"plus_variant": plus, "ops": jops(ops)}
        rep.seen(case["ops"], nontrivial=any(o[0].endswith("=") or o[0].startswith(("set_", "open_", "close_")) for o in ops))
        for o in ops:
            rep.count(o[0])
        if verdict:
            rep.finding(verdict[0], dict(case, step=verdict[2]), verdict[1])
        if iout != mout:
            isteps, msteps = R.split_steps(iout), R.split_steps(mout)
            k = next((i for i in range(min(len(isteps), len(msteps))) if isteps[i] != msteps[i]), min(len(isteps), len(msteps)))
            rep.disagree(domain, dict(case, first_differing_step=k - 1),
                         msteps[k][:200] if k < len(msteps) else None, isteps[k][:200] if k < len(isteps) else None,
                         verdict[0] if verdict else None)
        rep.sample({"ops": case["ops"][:6], "n_ops": len(ops)}, limit=3)


def random_seq(r, singles, n):
    return [r.choice(singles) for _ in range(n)]


def run(rep, model, tier, seed):
    r = common.rng(seed, "c03")
    singles = all_single_ops()
    rep.rule = ("configuration call sequences on a real RF24 object over the extracted radio model: every single call of "
                "a %d-call boundary grid, all ordered pairs of a %d-call subset, triples over the registers shared by several "
                "attributes, random sequences to depth 40 (plus and non-plus radio variants); non-trivial = sequence with at "
                "least one setter; distinct = distinct sequence")
    cases = [[op] for op in singles]
    # pairs over a representative subset (one or two values per attribute, incl. the shared-register ones)
    sub = [op for op in singles if r.random() < (0.22 if tier == "quick" else 0.5)]
    rep.rule = rep.rule % (len(singles), len(sub))
    npairs = 2500 if tier == "quick" else 40000
    pairs = list(itertools.product(sub, repeat=2))
    r.shuffle(pairs)
    cases += [list(p) for p in pairs[:npairs]]
    shared = [op for op in singles if op[0] in ("data_rate=", "pa_level=", "crc=", "interrupt_config", "power=", "listen=",
                                                "ack=", "allow_ask_no_ack=", "dynamic_payloads=", "ard=", "arc=",
                                                "auto_ack=", "set_auto_ack", "set_dynamic_payloads")]
    ntrip = 800 if tier == "quick" else 20000
    cases += [[r.choice(shared) for _ in range(3)] for _ in range(ntrip)]
    nrand = 150 if tier == "quick" else 3000
    cases += [random_seq(r, singles, r.randrange(4, 41)) for _ in range(nrand)]
    # pipe / role alphabet, exhaustively to depth 3 (4 in thorough)
    PA = [("open_rx_pipe", 0, b"1Node"), ("open_rx_pipe", 1, b"2Node"), ("open_rx_pipe", 2, b"3Node"),
          ("close_rx_pipe", 0), ("close_rx_pipe", 1), ("open_tx_pipe", b"1Node"), ("open_tx_pipe", b"9Peer"),
          ("listen=", True), ("listen=", False), ("auto_ack=", 0), ("auto_ack=", True)]
    for n in range(2, 4 if tier == "quick" else 5):
        cases += [list(w) for w in itertools.product(PA, repeat=n)]
    rep.exhaustive.append("all sequences up to length %d over the 11-call pipe/role alphabet" % (3 if tier == "quick" else 4))
    corpus = [[("set_payload_length", 40, 0)], [("set_payload_length", 5, -1)], [("crc=", -1)],
              [("data_rate=", 2), ("data_rate=", 250), ("data_rate",)]]
    check_cases(rep, model, corpus, "corpus")
    for i in range(0, len(cases), 500):
        check_cases(rep, model, cases[i:i + 500], "grid/random")
    # the non-plus variant: a sample
    check_cases(rep, model, [random_seq(r, singles, 12) for _ in range(60 if tier == "quick" else 600)], "non-plus", plus=False)
    rep.exhaustive.append("every single call of the boundary grid (%d calls)" % len(singles))
    rep.extra["also_sampled_only"] = True


def replay(path):
    d = json.load(open(path))
    model = common.Model()
    try:
        for w in d.get("witnesses", d.get("disagreements", []))[:5]:
            ops = unj(w["case"]["ops"])
            iout, verdict = run_case(model, ops, w["case"].get("plus_variant", True))
            print("ops:", ops)
            print("  checker verdict on the implementation:", verdict)
            mout = [int(x) for x in model.ask(R.request([w["case"].get("plus_variant", True)], [0], ops)).split()]
            print("  model == impl:", mout == iout)
    finally:
        model.close()
    return 0

"""C07 -- after any network operation the node listens again on all its addresses.

Random call sequences (write / send-by-frame / multicast / update / node_address and
multicast_level assignments / mesh calls) on the nodes of sampled topologies sharing one
extracted world, with failing transmissions (lost packets and ACKs, absent next hops,
missing NETWORK_ACKs), loop-back writes and injected traffic; model == implementation after
every call, and after every call that returns the checker evaluates the property's
predicate on the world snapshot of that node's radio.
"""
from . import common
from . import netops as NO
from . import netscen as S

TRUSTED = [
    "Coq 8.16.1 kernel incl. vm_compute (no native_compute); theorems closed under the global context",
    "environment model Env/Radio.v + Env/World.v: modelled, not verified",
    "hand-written Gallina models Drv/RF24.v, Net/Node.v, Net/Mesh.v, tied to the code by this differential run",
    "extraction (ExtrOcamlBasic, ExtrOcamlNativeString; no Extract Constant) + ocaml/modelrun.ml glue (world server)",
    "python harness corr/c07.py, corr/netops.py, corr/netscen.py; expected pipe addresses come from the extracted, C04-proved _pipe_address model",
]

PUBLIC = ("update", "nwrite", "multicast", "node_address=", "multicast_level=", "msend", "mwrite", "renew", "release",
          "lookup_address", "lookup_node_id", "check_connection", "node_id=")


class Checker:
    def __init__(self, pa):
        self.pa = pa

    def start(self, run, snaps):
        self.run = run
        self.p0 = {i: (S.expected_p0(self.pa, o) if o is not None else None) for i, o in enumerate(run.objs)}
        self.addr = {i: (o._addr if o is not None else None) for i, o in enumerate(run.objs)}

    def air(self, k, log):
        return None

    def step(self, k, cur, op, res, prev, snaps, obj, log):
        if obj._addr != self.addr[cur] or (op[0] == "node_address=" and res[0] == 0 and NO.is_address_valid(op[1])):
            # _begin ran (address assignment, mesh join / release)
            self.p0[cur] = S.expected_p0(self.pa, obj)
            self.addr[cur] = obj._addr
        if op[0] == "multicast_level=" and res[0] == 0:
            self.p0[cur] = S.expected_p0(self.pa, obj, op[1])
        if op[0] in PUBLIC:
            if res == [9]:
                return ("C07/call-does-not-terminate", "%r" % (op,))
            if res[0] == 0:
                ri = self.run.specs[cur][0]
                v = S.listening_violation(self.pa, snaps[ri], obj, self.p0[cur])
                if v:
                    return ("C07/not-listening-after-" + op[0].rstrip("="), "after %r returned %s on node %o: %s" % (op[:2], res[:3], obj._addr, v))
        return None


def gen_case(r):
    n = r.randrange(2, 5)
    specs = S.topology(r, n, kinds=("network", "network", "routing"))
    mesh = r.random() < 0.35
    if mesh:
        specs.append((len(specs), r.choice(["meshnode", "mesh"]), r.choice([3, 77, 0])))
    addrs = [a for (_i, _k, a) in specs[: n]]
    ops = []
    for i in range(len(specs)):
        ops += [("select", i), ("timeouts", r.choice([1, 2]), r.choice([1, 3]))]
    for _ in range(r.randrange(2, 9)):
        i = r.randrange(len(specs))
        kind = specs[i][1]
        ops.append(("select", i))
        if r.random() < 0.5:
            ops.append(("oracle", "".join(r.choice("DDPA") for _ in range(r.randrange(0, 8)))))
        x = r.random()
        if kind in ("meshnode", "mesh"):
            c = r.choice(["update", "renew", "release", "lookup_address", "lookup_node_id", "check_connection", "msend",
                          "mwrite", "node_id="])
            if c == "update":
                ops.append(("update",))
            elif c == "renew":
                ops.append(("renew", r.choice([1, 30000001, 90000007])))
            elif c == "release":
                ops.append(("release",))
            elif c == "lookup_address":
                ops.append(("lookup_address", r.choice([None, 0, 5, 77])))
            elif c == "lookup_node_id":
                ops.append(("lookup_node_id", r.choice([None, 0, 0o5, 0o21])))
            elif c == "check_connection":
                ops.append(("check_connection", r.choice([1, 2]), r.random() < 0.5))
            elif c == "msend":
                ops.append(("msend", r.choice([0, 3, 9]), r.choice([5, 70]), bytes(r.randrange(256) for _ in range(r.randrange(0, 30)))))
            elif c == "mwrite":
                ops.append(("mwrite", r.choice(addrs + [0o444]), r.choice([5, 70, 200]), bytes(r.randrange(256) for _ in range(r.randrange(0, 60)))))
            else:
                ops.append(("node_id=", r.choice([0, 4, 300])))
        elif kind == "routing":
            if x < 0.7:
                ops.append(("update",))
            elif x < 0.85:
                ops.append(("node_address=", r.choice([0o2, 0o15, 0o7, 0o4444, specs[i][2]])))
            else:
                ops.append(("multicast_level=", r.randrange(-1, 6)))
        else:
            if x < 0.4:
                dst = r.choice(addrs + [0o5, 0o35, 0o4444, 0o100, specs[i][2]])
                fr = {"to": dst, "type": r.choice([0, 1, 64, 65, 100, 127, 130, 191, 192, 200]), "id": r.randrange(65536),
                      "res": 0, "msg": bytes(r.randrange(256) for _ in range(r.choice([0, 1, 24, 25, 49, 60])))}
                td = r.choice([0o70, 0o70, 0o70, dst, r.choice(addrs)])
                ops.append(("nwrite", fr, td))
            elif x < 0.55:
                ops.append(("multicast", bytes(r.randrange(256) for _ in range(r.choice([0, 5, 24, 30]))), r.choice([0, 66, 200]),
                            r.choice([None, 0, 1, 2, 3, 4, 7])))
            elif x < 0.8:
                ops.append(("update",))
            elif x < 0.87:
                ops.append(("node_address=", r.choice([0o3, 0o25, 0o60, 0o4444, specs[i][2]])))
            elif x < 0.93:
                ops.append(("multicast_level=", r.randrange(-1, 6)))
            elif x < 0.97:
                ops.append(("allow_multicast=", r.random() < 0.5))
            else:
                ops.append(("fragmentation=", r.random() < 0.5))
        ops.append(("air",))
        if r.random() < 0.5:
            # let the others process what arrived
            for j in range(len(specs)):
                ops += [("select", j), ("update",), ("air",)]
    return specs, ops


def run(rep, model, tier, seed):
    r = common.rng(seed, "c07")
    pa = S.PipeAddr(model)
    rep.rule = ("random sequences of network/mesh API calls on the nodes of sampled parent-closed topologies (2-4 network/routing "
                "nodes + optionally a mesh node or master) in one world, with random loss oracles, absent next hops, loop-back "
                "writes, address / level changes; non-trivial = a transmitting call followed by the predicate check; distinct = "
                "distinct sequence")
    n = 250 if tier == "quick" else 5000
    for _ in range(n):
        specs, ops = gen_case(r)
        NO.check_case(rep, model, [True] * len(specs), specs, ops, Checker(pa), "sequence",
                      nontrivial=any(o[0] in ("nwrite", "multicast", "msend", "mwrite", "renew") for o in ops))
    rep.extra["also_sampled_only"] = True


def replay(path):
    import json
    d = json.load(open(path))
    for w in d.get("witnesses", d.get("disagreements", []))[:5]:
        print(json.dumps(w)[:2000])
    return 0

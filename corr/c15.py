"""C15 -- correspondence for the validity predicate (exhaustive over 16-bit values).
The update()-totality part is in c15_update (added with the node model)."""
from circuitpython_nrf24l01.network.structs import is_address_valid

from . import common

TRUSTED = [
    "Coq 8.16.1 kernel incl. vm_compute (no native_compute); theorems closed under the global context",
    "hand-written Gallina model Net/Addr.v of is_address_valid, tied to the code by this exhaustive run",
    "extraction (ExtrOcamlBasic, ExtrOcamlNativeString; no Extract Constant) + ocaml/modelrun.ml glue",
    "python harness corr/c15.py; CPython 3.12 semantics of int >> and &",
]


def spec(a):
    """independent reading of the property text"""
    if a in (0, 0o100, 0o10, 0o1000):
        return True
    digs = []
    while a:
        digs.append(a & 7)
        a >>= 3
    return 1 <= len(digs) <= 4 and all(1 <= d <= 5 for d in digs)


def run(rep, model, tier, seed):
    rep.rule = ("all 65536 16-bit addresses (+ None, + 2000 larger values) through the real "
                "is_address_valid vs the extracted model; non-trivial = address accepted, or rejected "
                "only because of its length/one digit; distinct = distinct address")
    dom = list(range(65536))
    r = common.rng(seed, "c15")
    dom += [r.randrange(65536, 1 << 40) for _ in range(2000)]
    outs = model.batch(["valid %d" % a for a in dom])
    for a, m in zip(dom, outs):
        i = "T" if is_address_valid(a) else "F"
        rep.seen(a, nontrivial=(i == "T" or spec(a >> 3) or spec(a & 0o7777)))
        rep.count("accepted" if i == "T" else "rejected")
        if i != m:
            key = None
            if (i == "T") != spec(a):
                key = "C15/valid-predicate-accepts-invalid" if i == "T" else "C15/valid-predicate-rejects-valid"
            rep.disagree("is_address_valid", {"address": a, "octal": oct(a)}, m, i, key)
    if is_address_valid(None) is not False:
        rep.disagree("is_address_valid", {"address": None}, "F", "T", "C15/valid-predicate-accepts-invalid")
    rep.evaluations += 1
    rep.exhaustive.append("is_address_valid over 0..65535")
    rep.sample({"call": "is_address_valid(0o4444)", "impl": is_address_valid(0o4444), "model": outs[0o4444]})
    rep.sample({"call": "is_address_valid(0o11111)", "impl": is_address_valid(0o11111), "model": outs[0o11111]})


def replay(path):
    import json
    d = json.load(open(path))
    for w in d.get("witnesses", d.get("disagreements", [])):
        a = w["case"]["address"]
        print("is_address_valid(%s) impl=%s model=%s spec=%s" % (
            oct(a) if a is not None else None, is_address_valid(a), w["model"], spec(a) if a is not None else False))
    return 0

"""C15 -- correspondence for the validity predicate (exhaustive over 16-bit values).
The update()-totality part is in c15_update (added with the node model)."""
from circuitpython_nrf24l01.network.structs import is_address_valid

from . import common

TRUSTED = [
    "Coq 8.16.1 kernel incl. vm_compute (no native_compute); theorems closed under the global context",
    "hand-written Gallina model Net/Addr.v of is_address_valid, tied to the code by this exhaustive run",
    "extraction (ExtrOcamlBasic, ExtrOcamlNativeString; no Extract Constant) + ocaml/modelrun.ml glue",
    "python harness corr/c15.py; CPython 3.12 semantics of int >> and &",
]


def spec(a):
    """independent reading of the property text"""
    if a in (0, 0o100, 0o10, 0o1000):
        return True
    digs = []
    while a:
        digs.append(a & 7)
        a >>= 3
    return 1 <= len(digs) <= 4 and all(1 <= d <= 5 for d in digs)


def run(rep, model, tier, seed):
    rep.rule = ("all 65536 16-bit addresses (+ None, + 2000 larger values) through the real "
                "is_address_valid vs the extracted model; non-trivial = address accepted, or rejected "
                "only because of its length/one digit; distinct = distinct address")
    dom = list(range(65536))
    r = common.rng(seed, "c15")
    dom += [r.randrange(65536, 1 << 40) for _ in range(2000)]
    outs = model.batch(["valid %d" % a for a in dom])
    for a, m in zip(dom, outs):
        i = "T" if is_address_valid(a) else "F"
        rep.seen(a, nontrivial=(i == "T" or spec(a >> 3) or spec(a & 0o7777)))
        rep.count("accepted" if i == "T" else "rejected")
        if i != m:
            key = None
            if (i == "T") != spec(a):
                key = "C15/valid-predicate-accepts-invalid" if i == "T" else "C15/valid-predicate-rejects-valid"
            rep.disagree("is_address_valid", {"address": a, "octal": oct(a)}, m, i, key)
    if is_address_valid(None) is not False:
        rep.disagree("is_address_valid", {"address": None}, "F", "T", "C15/valid-predicate-accepts-invalid")
    rep.evaluations += 1
    rep.exhaustive.append("is_address_valid over 0..65535")
    rep.sample({"call": "is_address_valid(0o4444)", "impl": is_address_valid(0o4444), "model": outs[0o4444]})
    rep.sample({"call": "is_address_valid(0o11111)", "impl": is_address_valid(0o11111), "model": outs[0o11111]})


def replay(path):
    import json
    d = json.load(open(path))
    for w in d.get("witnesses", d.get("disagreements", [])):
        a = w["case"]["address"]
        print("is_address_valid(%s) impl=%s model=%s spec=%s" % (
            oct(a) if a is not None else None, is_address_valid(a), w["model"], spec(a) if a is not None else False))
    return 0


# ====================================================================== update() totality
from . import netops as NO  # noqa: E402

TRUSTED += [
    "environment model Env/Radio.v + Env/World.v and the Gallina models Drv/RF24.v, Net/Node.v, Net/Mesh.v of rf24.py, "
    "network/mixins.py, rf24_network.py, rf24_mesh.py (tied to the code by this differential run: every register, FIFO, the "
    "virtual clock, every driver/node attribute, the queue and frame_buf after every call)",
]

ROLES = ["routing", "network", "meshnode", "mesh"]
ADDRS_BY_LEVEL = {0: [0], 1: [0o1, 0o5], 2: [0o21, 0o55], 3: [0o321, 0o555], 4: [0o4321, 0o1234, 0o5555]}


def pack_hdr(frm, to, fid, typ, res):
    return bytes([frm & 255, frm >> 8 & 255, to & 255, to >> 8 & 255, fid & 255, fid >> 8 & 255, typ & 255, res & 255])


def dest_classes(r, addr, lvl):
    """destination address classes relative to the node under test"""
    out = {"self": addr, "multicast": 0o100, "mc2": 0o10, "mc4": 0o1000, "default": 0o4444,
           "invalid-digit": r.choice([0o7, 0o60, 0o106, 0o6000]), "too-long": r.choice([0o11111, 0o111111, 0o54321]),
           "other-branch": r.choice([0o2, 0o13, 0o224, 0o3555])}
    if lvl < 4:
        d = r.randrange(1, 6)
        out["child"] = addr | (d << (3 * lvl))
    if lvl < 3:
        out["descendant"] = addr | (r.randrange(1, 6) << (3 * lvl)) | (r.randrange(1, 6) << (3 * (lvl + 1)))
    if lvl > 0:
        out["parent"] = addr & ((1 << (3 * (lvl - 1))) - 1)
    return out


def gen_update_case(r, tier):
    role = r.choice(ROLES)
    if role in ("routing", "network"):
        lvl = r.randrange(5)
        addr = r.choice(ADDRS_BY_LEVEL[lvl])
        specs = [(0, role, addr)]
    elif role == "meshnode":
        specs = [(0, "meshnode", r.choice([3, 200]))]
        addr, lvl = 0o4444, 4
    else:
        specs = [(0, "mesh", 0)]
        addr, lvl = 0, 0
    ops = [("timeouts", r.choice([1, 2, 3]), r.choice([1, 3, 6]))]
    if role == "meshnode" and r.random() < 0.5:
        # a connected mesh node: give it an address the way renew_address() would
        lvl = r.randrange(1, 5)
        addr = r.choice(ADDRS_BY_LEVEL[lvl])
        ops.append(("node_address_begin", addr))
    if role == "mesh" and r.random() < 0.7:
        for _ in range(r.randrange(1, 6)):
            ops.append(("set_address", r.randrange(1, 256), r.choice([0o1, 0o2, 0o3, 0o4, 0o5, 0o15, 0o25]), False))
    if r.random() < 0.3:
        ops.append(("allow_multicast=", False))
    if r.random() < 0.3:
        ops.append(("multicast_relay=", True))
    if r.random() < 0.2:
        ops.append(("fragmentation=", False))
    if r.random() < 0.2 and role not in ("mesh", "meshnode"):
        # (mesh classes assert ret_sys_msg and rely on it: "This bool attribute is asserted on mesh network nodes")
        ops.append(("ret_sys_msg=", r.random() < 0.5))
    frames = []
    table = [(op[1], op[2]) for op in ops if op[0] == "set_address"]
    for _ in range(r.randrange(1, 5)):
        x = r.random()
        if role == "mesh" and r.random() < 0.5:
            # mesh protocol traffic addressed to the master
            typ = r.choice([195, 196, 197, 198])
            frm = r.choice([a for _i, a in table] + [0o4444, 0o1, 0o3, 0o23]) if table else r.choice([0o4444, 0o1, 0o23])
            res = r.choice([i for i, _a in table] + [0, 7, 255]) if table else r.choice([0, 7])
            if typ == 196:
                body = r.choice([b"", bytes([r.choice([i for i, _a in table] + [9])]) if table else b"\x09", b"\x00"])
            elif typ == 198:
                a = r.choice([a for _i, a in table] + [0o44]) if table else 0o44
                body = r.choice([b"", b"\x05", bytes([a & 255, a >> 8]), b"\x00\x00"])
            else:
                body = b""
            payload = pack_hdr(frm, 0, r.randrange(65536), typ, res) + body
            frames.append(("mesh-protocol-%d" % typ, payload))
            continue
        if x < 0.12:
            payload = bytes(r.randrange(256) for _ in range(r.randrange(0, 33)))
            kind = "random-bytes"
        else:
            dc = dest_classes(r, addr, lvl)
            cls = r.choice(sorted(dc))
            to = dc[cls]
            oc = r.random()
            frm = (r.choice([0o1, 0o2, 0o34, 0o555, 0o4321, 0]) if oc < 0.6 else 0o4444 if oc < 0.75 else addr if oc < 0.85
                   else r.choice([0o7, 0o70, 0o11111, 0xFFFF, 0o6001]))
            typ = r.choice([r.randrange(256), r.randrange(256), 128, 130, 131, 148, 149, 150, 193, 194, 195, 196, 197, 198, 65, 0])
            res = r.choice([0, 0, 1, 2, 3, 131, 255, r.randrange(256)])
            n = r.choice([0, 0, 1, 2, 3, 8, 23, 24])
            payload = pack_hdr(frm, to, r.randrange(65536), typ, res) + bytes(r.randrange(256) for _ in range(n))
            if r.random() < 0.08:
                payload = payload[: r.randrange(0, 8)]
            kind = "to-" + cls
        frames.append((kind, payload))
    if role == "mesh" and r.random() < 0.2:
        # a relayed address request whose answer cannot be delivered (no NETWORK_ACK ever comes), and LATER a frame that has
        # to be dropped: nothing of the first may be left over to act on the second
        req = pack_hdr(r.choice([0o12, 0o23, 0o1234, 0o15]), 0, r.randrange(65536), 195, r.choice([7, 200, 3]))
        bad = pack_hdr(r.choice([0o6, 0xFFFF, 0o3, 0o20, 0o7]), r.choice([0, 0o7777, 0xFFFF, 0]), r.randrange(65536),
                       r.choice([0, 1, 195, 65]), r.choice([9, 0, 44])) + bytes(r.randrange(256) for _ in range(r.choice([0, 2])))
        if not (spec(bad[0] | bad[1] << 8) and spec(bad[2] | bad[3] << 8)):
            frames = [("relayed-request", req), ("dropped-later", bad)] + frames[:1]
            for kind, payload in frames:
                ops += [("inject", 0, 1, payload), ("update",), ("air",)]
            ops += [("update",), ("air",)]
            return specs, ops, {"role": role, "addr": addr, "frames": [(k, p.hex()) for k, p in frames]}
    together = r.random() < 0.25      # several frames waiting in the RX FIFO for ONE update()
    if together:
        # ... the last of them one that must be dropped
        bad = pack_hdr(r.choice([0o7, 0o70, 0o6001, 0o1]), r.choice([0, addr, 0o6, 0o100]), r.randrange(65536),
                       r.choice([0, 1, 65, 195, 196, 198]), r.choice([0, 3, 200])) + bytes(r.randrange(256) for _ in range(r.choice([0, 1, 2])))
        if not (spec(bad[0] | bad[1] << 8) and spec(bad[2] | bad[3] << 8)):
            frames = frames[:2] + [("dropped-last", bad)]
    for kind, payload in frames:
        ops.append(("inject", 0, r.choice([0, 1, 1, 2, 5]), payload))
        if not together and r.random() < 0.75:
            ops += [("update",), ("air",)]
    ops += [("update",), ("air",), ("update",), ("air",)]
    return specs, ops, {"role": role, "addr": addr, "frames": [(k, p.hex()) for k, p in frames]}


class UpdateChecker:
    def start(self, run, snaps):
        self.pending = []  # payloads injected since the last update()
        self.last_update = None

    def step(self, k, cur, op, res, prev, snaps, obj, log):
        if op[0] == "update":
            if res == [9]:
                return ("C15/update-does-not-terminate", "update() polled the radio more than 400000 times")
            if res[0] != 0:
                e = NO.R.LAST_EXC[0]
                return ("C15/update-raised-%s" % type(e).__name__,
                        "%s: %s; frames injected before this call: %s" % (type(e).__name__, e, [p.hex() for p in self.pending]))
            t = res[1]
            good = {f[6] for f in self.pending if len(f) >= 8 and spec(f[2] | f[3] << 8) and spec(f[0] | f[1] << 8)}
            if t not in good | {0, 131}:
                return ("C15/update-reports-a-dropped-frame",
                        "update() returned message type %d; no frame of that type with valid origin and destination was received "
                        "(received: %s)" % (t, [p.hex() for p in self.pending]))
            h = obj.frame_buf.header
            if t not in (0, 131) and not (spec(h.to_node) and spec(h.from_node)):
                # update() hands (message type, frame_buf) to the caller -- and to the mesh layer above it -- as a pair
                return ("C15/update-reports-a-type-with-a-dropped-frame-in-frame_buf",
                        "update() returned %d while frame_buf holds %s (invalid address: that frame was dropped); received: %s"
                        % (t, h.to_string(), [p.hex() for p in self.pending]))
            self.last_update = (list(self.pending), len(obj.queue._queue))
            self.pending = []
        return None

    def note_inject(self, payload):
        self.pending.append(payload)

    def air(self, k, log):
        if self.last_update is None:
            return None
        frames, _qlen = self.last_update
        self.last_update = None
        for e in log:
            d = e["data"]
            if len(d) < 8:
                return ("C15/transmitted-garbage", "a %d-byte payload was put on the air: %s" % (len(d), d.hex()))
            to = d[2] | d[3] << 8
            frm = d[0] | d[1] << 8
            if d in frames:
                if not (spec(to) and spec(frm)):
                    return ("C15/forwarded-frame-with-invalid-address", d.hex())
                continue
            if not (spec(to) and spec(frm)):
                return ("C15/transmitted-frame-with-invalid-address", d.hex())
            if d[6] not in (193, 194, 195, 128, 196, 198) and d not in frames:
                # relayed frames may have had to/from rewritten (address request / response relays)
                if not any(d[4:] == f[4:] for f in frames if len(f) >= 8):
                    return ("C15/transmitted-frame-that-is-neither-forward-nor-documented-reply", d.hex())
        return None


def run_update(rep, model, tier, seed):
    r = common.rng(seed, "c15u")
    n = 300 if tier == "quick" else 8000
    for _ in range(n):
        specs, ops, meta = gen_update_case(r, tier)
        # "node_address_begin": mesh nodes get their address through renew_address(); in single-node runs it is
        # set through the NetworkMixin._begin used by renew_address (no public setter on mesh classes)
        ops2 = [("node_address=", op[1]) if op[0] == "node_address_begin" else op for op in ops]
        chk = UpdateChecker()
        # let the checker see injected payloads
        orig_step = chk.step
        injected = [op[3] for op in ops2 if op[0] == "inject"]
        it = iter(ops2)

        def step(k, cur, op, res, prev, snaps, obj, log, ops2=ops2, chk=chk, orig_step=orig_step):
            # payloads injected between the previous API call and this one
            # every payload injected so far may still sit in the RX FIFO (update() returns early on
            # some frame types), so all of them count as "received"
            chk.pending = [o[3] for o in ops2[:k] if o[0] == "inject"]
            return orig_step(k, cur, op, res, prev, snaps, obj, log)

        chk.step = step
        NO.check_case(rep, model, [True], specs, ops2, chk, "update", nontrivial=True)
        rep.count("role " + meta["role"])
        for kd, _p in meta["frames"]:
            rep.count("frame " + kd)


_run_valid = run


def run(rep, model, tier, seed):  # noqa: F811
    _run_valid(rep, model, tier, seed)
    rep.rule += ("; update(): single nodes of every role (routing-only, network, unconnected/connected mesh node, mesh master "
                 "with a table) at every level with frames injected into the RX FIFO over type x length x destination class "
                 "x origin class incl. truncated and random byte strings, then update(); model == implementation on every "
                 "observable and the checker judges no-raise / termination / nothing-transmitted-for-dropped-frames")
    run_update(rep, model, tier, seed)
    rep.extra["also_sampled_only"] = True

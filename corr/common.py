"""Shared plumbing for the correspondence checks (trusted harness code).

Run under /venv/bin/python with PYTHONPATH=/repo (bin/check arranges that), so
the implementation exercised is /repo's *current working tree*.
"""
import fcntl
import hashlib
import json
import os
import random
import re
import subprocess
import sys
import time

VERIF = os.path.dirname(os.path.dirname(os.path.abspath(__file__)))
COQ = os.path.join(VERIF, "coq")
OCAML = os.path.join(VERIF, "ocaml")
MODELRUN = os.path.join(OCAML, "modelrun")
EVIDENCE = os.path.join(VERIF, "evidence")
REPLAYS = os.path.join(VERIF, "replays")
SCRATCH = os.path.join(VERIF, ".scratch")
KNOWN = os.path.join(VERIF, "known_findings.json")

ALLOWED_AXIOMS = set()  # every property theorem is closed under the global context

FORBIDDEN = re.compile(
    r"\b(Admitted|admit|Axiom|Axioms|Parameter|Parameters|Conjecture|Conjectures|Hypothesis|Hypotheses|Variable|Variables|"
    r"Unset Guard Checking|bypass_check|type-in-type|impredicative-set|Admit Obligations|"
    r"native_compute)\b"
)


def assert_repo_import():
    import circuitpython_nrf24l01

    path = os.path.realpath(circuitpython_nrf24l01.__file__)
    if not path.startswith("/repo/"):
        raise SystemExit("harness error: circuitpython_nrf24l01 imported from %s" % path)


# --------------------------------------------------------------------------- build
def build(log=None):
    """(Re)build the Coq development and the extracted model runner (incremental)."""
    os.makedirs(SCRATCH, exist_ok=True)
    lock = open(os.path.join(SCRATCH, "build.lock"), "w")
    fcntl.flock(lock, fcntl.LOCK_EX)
    try:
        t0 = time.time()
        proc = subprocess.run(
            ["make", "-s", "-C", VERIF, "build"],
            stdout=subprocess.PIPE,
            stderr=subprocess.STDOUT,
            text=True,
            timeout=3000,
        )
        if proc.returncode != 0:
            sys.stdout.write(proc.stdout[-6000:])
            raise SystemExit("harness error: build of the Coq development failed")
        return time.time() - t0
    finally:
        fcntl.flock(lock, fcntl.LOCK_UN)
        lock.close()


def scan_forbidden():
    """grep the Coq sources for anything that would declare an axiom or disable a check.
    Section-local Variable/Hypothesis are allowed only inside 'Section' blocks; we use
    none, so the plain grep must be empty (comments are stripped first)."""
    hits = []
    for root, _dirs, files in os.walk(os.path.join(COQ, "theories")):
        for f in files:
            if not f.endswith(".v"):
                continue
            path = os.path.join(root, f)
            src = open(path).read()
            src = strip_coq_comments(src)
            # Section nesting at every position: Variable/Hypothesis are legitimate only
            # inside a Section (they are discharged at End and declare no axiom)
            marks = [(m.start(), +1) for m in re.finditer(r"^\s*Section\s+\w+\s*\.", src, re.M)]
            marks += [(m.start(), -1) for m in re.finditer(r"^\s*End\s+\w+\s*\.", src, re.M)]
            marks.sort()

            def depth_at(pos):
                d = 0
                for p, k in marks:
                    if p < pos:
                        d += k
                return d

            for m in FORBIDDEN.finditer(src):
                if m.group(0) in ("Variable", "Hypothesis", "Variables", "Hypotheses") and depth_at(m.start()) > 0:
                    continue
                line = src.count("\n", 0, m.start()) + 1
                hits.append("%s:%d:%s" % (os.path.relpath(path, VERIF), line, m.group(0)))
    return hits


def strip_coq_comments(src):
    out = []
    depth = 0
    i = 0
    n = len(src)
    while i < n:
        if src.startswith("(*", i):
            depth += 1
            i += 2
        elif src.startswith("*)", i) and depth:
            depth -= 1
            i += 2
        else:
            if depth == 0:
                out.append(src[i])
            elif src[i] == "\n":
                out.append("\n")
            i += 1
    return "".join(out)


def check_props(prop):
    """Re-compile Props/<prop>.v (it only contains 'exact lemma' theorems followed by
    Print Assumptions) and parse the assumptions of every property theorem."""
    vfile = os.path.join(COQ, "theories", "Props", prop + ".v")
    t0 = time.time()
    proc = subprocess.run(
        ["coqc", "-Q", "theories", "NRF", "-w", "-notation-overridden", vfile],
        cwd=COQ,
        stdout=subprocess.PIPE,
        stderr=subprocess.STDOUT,
        text=True,
        timeout=1500,
    )
    out = proc.stdout
    src = strip_coq_comments(open(vfile).read())
    theorems = re.findall(r"^\s*(?:Theorem|Corollary)\s+([A-Za-z0-9_']+)", src, re.M)
    printed = re.findall(r"Print Assumptions\s+([A-Za-z0-9_']+)", src)
    res = {
        "file": os.path.relpath(vfile, VERIF),
        "ok": proc.returncode == 0,
        "theorems": theorems,
        "closed": out.count("Closed under the global context"),
        "axioms": [],
        "wall_s": round(time.time() - t0, 2),
        "output_tail": out[-1500:] if proc.returncode != 0 else "",
    }
    # anything printed under "Axioms:" blocks
    for blk in re.findall(r"Axioms:\n((?:.+\n?)+?)(?=\n\S|\Z)", out):
        for line in blk.splitlines():
            m = re.match(r"^(\S+)\s*:", line)
            if m:
                res["axioms"].append(m.group(1))
    res["unprinted"] = [t for t in theorems if t not in printed]
    return res


def cone_stats(prop):
    """Count the lemmas/theorems compiled in the dependency cone of Props/<prop>.v."""
    proc = subprocess.run(
        ["coqdep", "-Q", "theories", "NRF", "-sort", os.path.join("theories", "Props", prop + ".v")],
        cwd=COQ,
        stdout=subprocess.PIPE,
        stderr=subprocess.DEVNULL,
        text=True,
    )
    files = [f for f in proc.stdout.split() if f.endswith(".v")]
    n = 0
    for f in files:
        src = strip_coq_comments(open(os.path.join(COQ, f)).read())
        n += len(re.findall(r"^\s*(?:Theorem|Lemma|Corollary|Fact|Example)\s", src, re.M))
    return files, n


# --------------------------------------------------------------------------- model runner
class Model:
    """One long-lived modelrun process; request/response one line each."""

    def __init__(self):
        def big_stack():  # recordings of concurrent runs are lists of 10^5..10^6 tokens; OCaml's List.map recurses
            import resource
            try:
                resource.setrlimit(resource.RLIMIT_STACK, (resource.RLIM_INFINITY, resource.RLIM_INFINITY))
            except (ValueError, OSError):
                pass
        self.p = subprocess.Popen(
            [MODELRUN], stdin=subprocess.PIPE, stdout=subprocess.PIPE, text=True, bufsize=1 << 16, preexec_fn=big_stack
        )

    def ask(self, line):
        self.p.stdin.write(line + "\n")
        self.p.stdin.flush()
        return self.p.stdout.readline().rstrip("\n")

    def batch(self, lines):
        """Send many requests, read as many replies (threaded writer avoids pipe deadlock)."""
        import threading

        def wr():
            for i in range(0, len(lines), 4096):
                self.p.stdin.write("\n".join(lines[i : i + 4096]) + "\n")
            self.p.stdin.flush()

        t = threading.Thread(target=wr)
        t.start()
        out = [self.p.stdout.readline().rstrip("\n") for _ in lines]
        t.join()
        return out

    def close(self):
        try:
            self.p.stdin.close()
            self.p.wait(timeout=10)
        except Exception:
            self.p.kill()


def hx(b):
    return "x" + bytes(b).hex()


def unhx(t):
    assert t.startswith("x"), t
    return bytes.fromhex(t[1:])


# --------------------------------------------------------------------------- reporting
class Report:
    """Collects what a check run covered and decides the exit status."""

    def __init__(self, prop, tier, seed):
        self.prop, self.tier, self.seed = prop, tier, seed
        self.t0 = time.time()
        self.evaluations = 0
        self.nontrivial = set()
        self.samples = []
        self.hist = {}
        self.disagreements = []  # (domain, case, model, impl, key or None)
        self.exhaustive = []
        self.notes = []
        self.known = load_known()
        self.rule = ""
        self.extra = {}

    def count(self, bucket, n=1):
        self.hist[bucket] = self.hist.get(bucket, 0) + n

    def sample(self, obj, limit=6):
        if len(self.samples) < limit:
            self.samples.append(obj)

    def seen(self, canon, nontrivial=True):
        self.evaluations += 1
        if nontrivial:
            self.nontrivial.add(hashlib.blake2b(repr(canon).encode(), digest_size=8).digest())

    def disagree(self, domain, case, model, impl, key=None, detail=None):
        """Model and implementation differ on an observable of `case`.
        key = finding key if the property itself is violated by the implementation on
        this input (judged by the property-level predicate), else None."""
        self.disagreements.append(
            {"domain": domain, "case": case, "model": model, "impl": impl, "key": key, "detail": detail}
        )

    def finding(self, key, case, detail=None):
        """The property-level checker judged the IMPLEMENTATION's behaviour on `case` a
        violation of the property (independently of whether the model agrees)."""
        self.disagreements.append(
            {"domain": "checker", "case": case, "model": None, "impl": None, "key": key, "detail": detail}
        )

    # ---- final decision
    def finish(self, proof, level_note_trusted, theorem_names):
        os.makedirs(EVIDENCE, exist_ok=True)
        os.makedirs(REPLAYS, exist_ok=True)
        violations = 0
        lines = []
        proof_ok = (
            proof["ok"]
            and not proof["axioms_disallowed"]
            and not proof["forbidden"]
            and proof["closed"] + len(proof["axioms_allowed_theorems"]) >= len(proof["theorems"])
            and not proof["unprinted"]
        )
        if not proof_ok:
            violations += 1
            path = os.path.join(REPLAYS, "%s-proof.json" % self.prop)
            json.dump({"property": self.prop, "what": "proof obligations no longer check", "proof": proof},
                      open(path, "w"), indent=1)
            lines.append("VIOLATION property=%s replay=%s no-failing-input-found" % (self.prop, path))
        # group disagreements by finding key
        known_keys = {k["key"]: k for k in self.known if k["property"] == self.prop and k["status"] == "known"}
        with_key = [d for d in self.disagreements if d["key"]]
        without = [d for d in self.disagreements if not d["key"]]
        bykey = {}
        for d in with_key:
            bykey.setdefault(d["key"], []).append(d)
        for key, ds in sorted(bykey.items()):
            if key in known_keys:
                lines.append("KNOWN-FINDING: property=%s %s (%s; %d witnesses this run, e.g. %s)" % (
                    self.prop, key, known_keys[key]["what"], len(ds), json.dumps(ds[0]["case"])[:200]))
                continue
            violations += 1
            h = hashlib.blake2b((key + json.dumps(ds[0]["case"], sort_keys=True)).encode(), digest_size=5).hexdigest()
            path = os.path.join(REPLAYS, "%s-%s.json" % (self.prop, h))
            json.dump({"property": self.prop, "finding_key": key, "contradicts": theorem_names,
                       "witnesses": ds[:10], "n_witnesses": len(ds)}, open(path, "w"), indent=1)
            lines.append("VIOLATION property=%s replay=%s" % (self.prop, path))
        if without and not any(k not in known_keys for k in bykey):
            # correspondence broken but the property predicate found no failing input
            violations += 1
            path = os.path.join(REPLAYS, "%s-corr.json" % self.prop)
            json.dump({"property": self.prop,
                       "what": "correspondence between model and implementation no longer checks; "
                               "no input violating the property itself was found",
                       "theorems_no_longer_tied": theorem_names,
                       "disagreements": without[:10], "n": len(without)}, open(path, "w"), indent=1)
            lines.append("VIOLATION property=%s replay=%s no-failing-input-found" % (self.prop, path))
        elif without:
            self.notes.append("%d further disagreements without own failing input (same run)" % len(without))
        cov = {
            "obligations": proof["obligations"],
            "discharged": proof["obligations"] if proof_ok else 0,
            "checker_cmd": proof["checker_cmd"],
            "trusted_base": level_note_trusted,
            "property_theorems": proof["theorems"],
            "print_assumptions": "%d theorems: %d closed under the global context; axioms: %s" % (
                len(proof["theorems"]), proof["closed"], proof["axioms"] or "none"),
            "evaluations": self.evaluations,
            "distinct_nontrivial": len(self.nontrivial),
            "traces_validated_against_impl": self.evaluations,
            "rule": self.rule,
            "samples": self.samples,
            "exhaustive": bool(self.exhaustive) and not self.extra.get("also_sampled_only", False),
            "exhaustive_domains": self.exhaustive,
            "input_distribution": self.hist,
            "disagreements": len(self.disagreements),
            "notes": self.notes,
        }
        cov.update(self.extra)
        ev = {
            "property_id": self.prop,
            "tier": self.tier,
            "seed": self.seed,
            "level": "proof",
            "coverage": cov,
            "assumptions": level_note_trusted,
            "wall_s": round(time.time() - self.t0, 2),
            "violations": violations,
        }
        json.dump(ev, open(os.path.join(EVIDENCE, self.prop + ".json"), "w"), indent=1)
        for l in lines:
            print(l)
        print("%s %s: %d evaluations, %d distinct non-trivial, %d disagreements, proof %s, %.1fs" % (
            self.prop, self.tier, self.evaluations, len(self.nontrivial), len(self.disagreements),
            "ok" if proof_ok else "BROKEN", time.time() - self.t0))
        return 1 if violations else 0


def load_known():
    if not os.path.exists(KNOWN):
        return []
    return json.load(open(KNOWN))["findings"]


def proof_step(prop):
    """Build everything, re-check Props/<prop>.v, return the proof record."""
    tb = build()
    forb = scan_forbidden()
    pr = check_props(prop)
    files, n_lemmas = cone_stats(prop)
    pr["forbidden"] = forb
    pr["axioms_disallowed"] = [a for a in pr["axioms"] if a not in ALLOWED_AXIOMS]
    pr["axioms_allowed_theorems"] = []
    pr["obligations"] = n_lemmas
    pr["cone_files"] = files
    pr["build_s"] = round(tb, 1)
    pr["checker_cmd"] = (
        "make -C /verif build (coq_makefile full .vo build, Coq 8.16.1) && "
        "coqc -Q theories NRF theories/Props/%s.v (Print Assumptions under every property theorem)" % prop
    )
    return pr


def rng(seed, salt):
    return random.Random("%s/%s" % (seed, salt))

"""C02 -- send()/resend() report the true fate of the payload and always terminate.

A real RF24 transmitter and receiver on two radios of the extracted world model; every
attempt's fate (delivered / packet lost / ACK lost) comes from a loss oracle.  Exhaustive
over all loss patterns for small arc/force_retry, random beyond; the ground truth is
recomputed from the model's air log by a checker written from the property text.
"""
import itertools

from circuitpython_nrf24l01.rf24 import RF24

from . import common
from . import world as W
from . import rf24ops as R

TRUSTED = [
    "Coq 8.16.1 kernel incl. vm_compute (no native_compute); theorems closed under the global context",
    "environment model Env/Radio.v + Env/World.v (ESB exchange with loss oracle, ARC retries, MAX_RT keeps the payload, "
    "STATUS shifted out before the command takes effect, exchange atomic at CE high): modelled, not verified",
    "hand-written Gallina model Drv/RF24.v of rf24.py, tied to the code by this differential run",
    "extraction (ExtrOcamlBasic, ExtrOcamlNativeString; no Extract Constant) + ocaml/modelrun.ml glue (world server)",
    "python harness corr/c02.py, corr/rf24ops.py, corr/world.py incl. the fate checker and the SPI-transfer watchdog",
]

ADDR = b"1Node"


def make_rf24(world, ri, k):
    spi, csn, ce = W.spidev_parts(world, ri) if k % 2 == 0 else W.busio_parts(world, ri)
    return RF24(spi, csn, ce)


def setup(arc, ard, mode, peer_listening, dyn=True):
    """mode: 'aa' auto-ack, 'noaa' auto-ack off, 'ackpl' ACK payloads"""
    ops = []
    for node in (0, 1):
        ops += [("select", node), ("set_auto_retries", ard, arc)]
        if mode == "noaa":
            ops.append(("auto_ack=", False))
        if mode == "ackpl":
            ops.append(("ack=", True))
    ops += [("select", 1), ("open_rx_pipe", 1, ADDR), ("listen=", bool(peer_listening))]
    ops += [("select", 0), ("listen=", False), ("open_tx_pipe", ADDR)]
    return ops


class Checker:
    def __init__(self, meta):
        self.m = meta

    def start(self, impl, snaps):
        self.pending_call = None
        self.failed = None  # payload of the most recent failed send still in the TX FIFO
        self.acks = []  # ACK payloads loaded at the peer, oldest first
        self.call = None

    def step(self, k, cur, op, res, prev, snaps, obj, log):
        name = op[0]
        m = self.m
        if name == "load_ack" and cur == 1 and res == [0, 1]:
            self.acks.append(bytes(op[1]))
        if cur == 0 and name in ("send", "resend"):
            if res == [9]:
                return ("C02/call-does-not-terminate", "%r polled the radio more than 3000 times" % (op,))
            self.call = (name, op, res, snaps)
        return None

    def air(self, k, log):
        """called right after each send/resend: `log` = packets put on the air during that call"""
        if self.call is None:
            return None
        name, op, res, snaps = self.call
        self.call = None
        m = self.m
        mine = [e for e in log if e["from"] == 0]
        delivered = any(e["ok"] for e in mine)
        if name == "send":
            payload, noack, force, send_only = bytes(op[1]), op[2], op[3], op[4]
            want_payload = payload
        else:
            send_only = op[1]
            want_payload = self.failed
            if self.failed is None:
                if mine:
                    return ("C02/resend-transmitted-with-nothing-to-resend", "%d packets on air" % len(mine))
                if res != [0, 0, 0]:
                    return ("C02/resend-result-with-empty-fifo", "resend() returned %s with an empty TX FIFO" % res)
                return None
        for e in mine:
            if e["data"] != want_payload:
                return ("C02/stale-or-foreign-payload-on-air",
                        "%s put %s on the air, expected only %s" % (name, e["data"].hex(), want_payload.hex()))
        if res[0] != 0:
            return ("C02/call-raised", "%r -> %s" % (op, res))
        if name == "send" and op[2] and mine and not all(e["noack"] and e["attempts"] == 1 and e["ok"] for e in mine[:1]):
            # ask_no_ack (allowed by default): sent once, without waiting for an acknowledgement
            return ("C02/ask-no-ack-ignored", "air log %s" % [(e["noack"], e["attempts"], e["ok"]) for e in mine])
        # ground truth vs reported result
        val = res[1:]
        if val[0] == 0:
            reported = bool(val[1])
            got_payload = None
        else:
            reported = val[1] == 1  # a payload (truthy) or None
            got_payload = bytes(val[3:]) if val[1] == 1 else None
        if delivered and not reported:
            return ("C02/reported-false-although-delivered",
                    "%s returned %s but the radio completed the transmission (attempts %s)" % (name, val, [(e["attempts"], e["ok"]) for e in mine]))
        if reported and not delivered:
            return ("C02/reported-true-although-never-delivered",
                    "%s returned %s, air log %s" % (name, val, [(e["attempts"], e["ok"]) for e in mine]))
        noack = name == "send" and op[2]
        acked = delivered and not noack and any(e["receivers"] for e in mine if e["ok"])
        if acked and m["mode"] == "ackpl" and not send_only and m["peer"]:
            exp = self.acks.pop(0) if self.acks else None
            if exp is not None and got_payload != exp:
                return ("C02/ack-payload-not-returned", "returned %s, the peer had loaded %s" % (val, exp.hex()))
        elif acked and m["mode"] == "ackpl" and m["peer"] and self.acks:
            self.acks.pop(0)
        # leak: after the call the TX FIFO holds at most the payload that just failed
        txf = snaps[0]["tx"]
        if delivered:
            self.failed = None
            if txf:
                return ("C02/payload-left-in-tx-fifo", "TX FIFO %s after a completed transmission" % [b.hex() for _k, b in txf])
        else:
            self.failed = want_payload
            if [b for _k, b in txf] != [want_payload]:
                return ("C02/tx-fifo-after-failure", "TX FIFO %s, expected exactly the failed payload" % [b.hex() for _k, b in txf])
        return None


def traffic(r, calls, arc, mode, peer, ask_no_ack_ok=True, always_ack=False):
    """calls: list of ('send', force, send_only, fates) | ('resend', send_only, fates)"""
    ops = []
    n = 0
    for c in calls:
        if mode == "ackpl" and peer and (always_ack or r.random() < 0.8):
            ops += [("select", 1), ("load_ack", b"ack%d" % n, 1)]
        ops += [("select", 0), ("oracle", c[-1])]
        if c[0] == "send":
            n += 1
            ops.append(("send", b"payload-%d" % n + bytes(r.randrange(256) for _ in range(r.randrange(0, 8))), c[3] if len(c) > 4 else False, c[1], c[2]))
        else:
            ops.append(("resend", c[1]))
        ops.append(("air",))
    return ops


def run(rep, model, tier, seed):
    r = common.rng(seed, "c02")
    rep.rule = ("send()/resend() histories on a 2-radio world with a loss oracle: ALL loss patterns over the (1+arc)(1+force_retry) "
                "attempts for arc<=2, force_retry<=1 (auto-ack mode, peer listening), each followed by a second send and a "
                "resend; random histories (arc 0..15, all ard, force_retry 0..3, auto-ack / no auto-ack / ask_no_ack / ACK "
                "payloads, send_only on/off, peer listening or not, up to 8 consecutive calls); non-trivial = at least one "
                "attempt lost; distinct = distinct case")
    cases = []
    for arc in (0, 1, 2):
        for force in (0, 1):
            n = (1 + arc) * (1 + force)
            for pat in itertools.product("DPA", repeat=n):
                fates = "".join(pat)
                meta = {"mode": "aa", "peer": True, "arc": arc}
                ops = setup(arc, 250, "aa", True) + traffic(r, [("send", force, True, fates), ("send", 0, True, "D"),
                                                               ("resend", True, "D")], arc, "aa", True)
                cases.append((ops, meta))
    rep.exhaustive.append("all %d loss patterns for arc<=2 x force_retry<=1" % len(cases))
    # ACK payloads: every history of 3 (thorough: 4) calls over successful / failed / retried send() and resend() with
    # send_only on and off -- what a call returns must be the ACK payload attached to *its* packet
    alphabet = [("send", 0, True, False, "D"), ("send", 0, True, False, "PP"), ("send", 0, False, False, "D"),
                ("send", 0, False, False, "PP"), ("send", 0, True, False, "AD"), ("resend", True, "D"), ("resend", False, "D")]
    depth = 3 if tier == "quick" else 4
    nack = 0
    for calls in itertools.product(alphabet, repeat=depth):
        meta = {"mode": "ackpl", "peer": True, "arc": 1}
        cases.append((setup(1, 250, "ackpl", True) + traffic(r, list(calls), 1, "ackpl", True, always_ack=True), meta))
        nack += 1
    rep.exhaustive.append("all %d histories of %d calls over %d kinds of call with ACK payloads" % (nack, depth, len(alphabet)))
    nrand = 250 if tier == "quick" else 6000
    for _ in range(nrand):
        arc = r.choice([0, 1, 2, 3, 5, 15])
        ard = r.choice([250, 500, 1500, 4000, r.randrange(250, 4001)])
        mode = r.choice(["aa", "aa", "noaa", "ackpl"])
        peer = r.random() < 0.8
        calls = []
        for _ in range(r.randrange(1, 9)):
            if r.random() < 0.7:
                force = r.choice([0, 0, 1, 2, 3])
                n = (1 + arc) * (1 + force)
                fates = "".join(r.choice("DDPA" if r.random() < 0.5 else "PA") for _ in range(r.randrange(0, n + 1)))
                calls.append(("send", force, r.random() < 0.5, r.random() < 0.2, fates))
            else:
                fates = "".join(r.choice("DPA") for _ in range(r.randrange(0, arc + 2)))
                calls.append(("resend", r.random() < 0.5, fates))
        meta = {"mode": mode, "peer": peer, "arc": arc}
        cases.append((setup(arc, ard, mode, peer) + traffic(r, calls, arc, mode, peer), meta))
    for ops, meta in cases:
        R.check_cases(rep, model, [ops], "history", [True, True], [0, 1], make_rf24, lambda: Checker(meta),
                      lambda o: any(x[0] == "oracle" and set(x[1]) & set("PA") for x in o))
        rep.count("mode " + meta["mode"])
    rep.extra["also_sampled_only"] = True


def replay(path):
    import json
    d = json.load(open(path))
    for w in d.get("witnesses", d.get("disagreements", []))[:5]:
        print(json.dumps(w)[:1500])
    return 0

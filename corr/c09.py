"""C09 -- `with` restores an object's complete radio configuration.

(1) 2-3 real RF24 objects sharing ONE radio of the extracted world model, random
    interleavings of their `with` blocks each performing random configuration calls:
    compared call by call with the Gallina driver model (several driver records on one
    radio) and judged by a snapshot checker (registers right after __enter__ == registers
    right before that object's previous __exit__; powered down with CE low after __exit__).
(2) mixes of RF24 / FakeBLE / RF24Network / RF24Mesh objects on one radio: the same checker
    on the real classes (the network/BLE layers are not part of the driver model; their
    context managers delegate to RF24.__enter__/__exit__).
"""
from circuitpython_nrf24l01.rf24 import RF24
from circuitpython_nrf24l01.fake_ble import FakeBLE
from circuitpython_nrf24l01.rf24_network import RF24Network
from circuitpython_nrf24l01.rf24_mesh import RF24Mesh

from . import common
from . import world as W
from . import rf24ops as R
from . import c03

TRUSTED = [
    "Coq 8.16.1 kernel incl. vm_compute (no native_compute); theorems closed under the global context",
    "environment model Env/Radio.v + Env/World.v: modelled, not verified",
    "hand-written Gallina model Drv/RF24.v of rf24.py (__enter__/__exit__ and the configuration API), tied to the code by this differential run",
    "extraction (ExtrOcamlBasic, ExtrOcamlNativeString; no Extract Constant) + ocaml/modelrun.ml glue (world server)",
    "python harness corr/c09.py, corr/rf24ops.py, corr/world.py incl. the snapshot checker; FakeBLE/RF24Network/RF24Mesh "
    "objects are exercised by the checker only (part 2)",
]

CONFIG_REGS = [0, 1, 2, 3, 4, 5, 6, 12, 13, 14, 15, 17, 18, 19, 20, 21, 22, 28, 29]


def cfg_view(s):
    """every configuration register; PWR_UP is masked out (a block may end powered down, __enter__ powers up)"""
    regs = [s["regs"][i] for i in CONFIG_REGS]
    regs[0] |= 2
    return (regs, s["p0"], s["p1"], s["tx_addr"])


def diff_view(a, b):
    out = []
    for i, (x, y) in zip(CONFIG_REGS, zip(a[0], b[0])):
        if x != y:
            out.append("reg 0x%02X: %02X -> %02X" % (i, x, y))
    for nm, x, y in (("RX_ADDR_P0", a[1], b[1]), ("RX_ADDR_P1", a[2], b[2]), ("TX_ADDR", a[3], b[3])):
        if x != y:
            out.append("%s: %s -> %s" % (nm, x.hex(), y.hex()))
    return "; ".join(out)


def make_rf24(world, ri, k):
    spi, csn, ce = W.spidev_parts(world, ri) if k % 2 == 0 else W.busio_parts(world, ri)
    return RF24(spi, csn, ce)


class Checker:
    def start(self, impl, snaps):
        self.saved = {}
        self.inside = None

    def air(self, k, log):
        return None

    def step(self, k, cur, op, res, prev, snaps, obj, log):
        s, p = snaps[0], prev[0]
        name = op[0]
        if name == "exit" and res[0] == 0:
            self.saved[cur] = cfg_view(p)
            self.inside = None
            if s["regs"][0] & 2 or s["ce"]:
                return ("C09/not-powered-down-after-exit", "CONFIG %02X CE %d after __exit__" % (s["regs"][0], s["ce"]))
        elif name == "enter" and res[0] == 0:
            self.inside = cur
            if s["ce"]:
                return ("C09/ce-high-after-enter", "")
            if not s["regs"][0] & 2:
                return ("C09/not-powered-up-after-enter", "CONFIG %02X" % s["regs"][0])
            if cur in self.saved and cfg_view(s) != self.saved[cur]:
                return ("C09/configuration-not-restored",
                        "object %d re-entered: %s" % (cur, diff_view(self.saved[cur], cfg_view(s))))
        return None


BLOCK_OPS = None


def block_ops(r):
    global BLOCK_OPS
    if BLOCK_OPS is None:
        BLOCK_OPS = [op for op in c03.all_single_ops()
                     if op[0] not in ("load_ack",) and (op[0].endswith("=") or op[0].startswith(("set_", "open_", "close_", "interrupt")))]
    return [r.choice(BLOCK_OPS) for _ in range(r.randrange(0, 7))]


def pipe0_ops(r):
    """pipe 0 is shared between reading and ACK reception: histories over the calls that move its address"""
    def addr():
        a = bytes(r.choice([0x11, 0x22, 0xC3]) for _ in range(5))
        return bytearray(a) if r.random() < 0.5 else a     # (the harness overwrites bytearrays after the call)
    out = []
    for _ in range(r.randrange(1, 6)):
        out.append(r.choice([("open_rx_pipe", 0, addr()), ("open_tx_pipe", addr()), ("open_tx_pipe", addr()),
                             ("close_rx_pipe", 0), ("listen=", True), ("listen=", False), ("open_rx_pipe", 1, addr()),
                             ("address_length=", r.choice([3, 4, 5])), ("auto_ack=", r.random() < 0.5)]))
    return out


def gen_rf24_case(r):
    k = r.choice([2, 3])
    ops = []
    p0 = r.random() < 0.35
    for _ in range(r.randrange(3, 9)):
        o = r.randrange(k)
        if p0:
            ops += [("select", o), ("enter",)] + pipe0_ops(r) + [("exit",)]
            continue
        tail = r.choice([[], [], [("listen=", True)], [("listen=", True), ("power=", False)], [("power=", False)],
                         [("listen=", False)]])
        ops += [("select", o), ("enter",)] + block_ops(r) + tail + [("exit",)]
    return k, ops


# ---------------------------------------------------------------- part 2: mixed classes (checker only)
def mixed_ops(r, kind):
    n = r.randrange(0, 6)
    out = []
    for _ in range(n):
        if kind == "rf24":
            out.append(r.choice(block_ops(r) or [("channel=", 5)]))
        elif kind == "ble":
            out.append(r.choice([("pa_level=", r.choice([-18, -12, -6, 0])), ("hop",), ("name", r.choice([None, b"n", b"nRF24"])),
                                 ("show_pa", r.random() < 0.5), ("arc=", r.randrange(16)), ("payload_length=", r.randrange(1, 33)),
                                 ("interrupt_config", r.random() < 0.5, True, r.random() < 0.5), ("listen=", r.random() < 0.5)]))
        else:
            out.append(r.choice([("channel=", r.randrange(126)), ("pa_level=", r.choice([-18, -12, -6, 0])),
                                 ("data_rate=", r.choice([1, 2, 250])), ("crc=", r.randrange(3)),
                                 ("set_auto_retries", r.randrange(250, 4001), r.randrange(16)),
                                 ("set_dynamic_payloads", r.random() < 0.5, r.choice([None, 0, 3])),
                                 ("interrupt_config", r.random() < 0.5, True, r.random() < 0.5),
                                 ("multicast_level=", r.randrange(5)), ("listen=", r.random() < 0.5)]))
    return out


def apply_mixed(obj, op):
    n = op[0]
    try:
        if n == "hop":
            obj.hop_channel()
        elif n == "name":
            obj.name = op[1]
        elif n == "show_pa":
            obj.show_pa_level = op[1]
        elif n == "multicast_level=":
            obj.multicast_level = op[1]
        elif n.endswith("="):
            setattr(obj, n[:-1], op[1])
        elif n == "set_auto_retries":
            obj.set_auto_retries(op[1], op[2])
        elif n == "set_dynamic_payloads":
            obj.set_dynamic_payloads(op[1], op[2])
        elif n == "interrupt_config":
            obj.interrupt_config(op[1], op[2], op[3])
        else:
            R.apply_op(obj, op)
    except (ValueError, IndexError, NotImplementedError, TypeError):
        pass


def run_mixed(rep, model, r, ncases):
    kinds_all = ["rf24", "ble", "net", "mesh"]
    for _ in range(ncases):
        world = W.World(model, "T")
        W.install_time(world)
        kinds = [r.choice(kinds_all) for _ in range(r.choice([2, 3]))]
        objs = []
        for i, kd in enumerate(kinds):
            spi, csn, ce = W.spidev_parts(world, 0) if i % 2 == 0 else W.busio_parts(world, 0)
            if kd == "rf24":
                objs.append(RF24(spi, csn, ce))
            elif kd == "ble":
                objs.append(FakeBLE(spi, csn, ce))
            elif kd == "net":
                objs.append(RF24Network(spi, csn, ce, r.choice([0, 0o1, 0o23, 0o1234])))
            else:
                objs.append(RF24Mesh(spi, csn, ce, r.choice([0, 3, 200])))
        saved = {}
        trace = []
        verdict = None
        for _ in range(r.randrange(3, 9)):
            o = r.randrange(len(objs))
            obj = objs[o]
            obj.__enter__()
            s = W.parse_snaps(world.snap(), 1)[0][0]
            trace.append(["enter", o, kinds[o]])
            if verdict is None:
                if s["ce"] or not s["regs"][0] & 2:
                    verdict = ("C09/not-powered-up-after-enter", "%s object: CONFIG %02X CE %d" % (kinds[o], s["regs"][0], s["ce"]))
                elif o in saved and cfg_view(s) != saved[o]:
                    verdict = ("C09/configuration-not-restored",
                               "%s object %d re-entered: %s" % (kinds[o], o, diff_view(saved[o], cfg_view(s))))
            for op in mixed_ops(r, kinds[o]) + r.choice([[], [("listen=", True)], [("listen=", True), ("power=", False)]]):
                apply_mixed(obj, op)
                trace.append([str(x) for x in op])
            before = W.parse_snaps(world.snap(), 1)[0][0]
            # the block's last word on PWR_UP does not count ("up to PWR_UP")
            saved[o] = cfg_view(before)
            obj.__exit__(None, None, None)
            s = W.parse_snaps(world.snap(), 1)[0][0]
            trace.append(["exit", o])
            if verdict is None and (s["regs"][0] & 2 or s["ce"]):
                verdict = ("C09/not-powered-down-after-exit", "%s object: CONFIG %02X CE %d" % (kinds[o], s["regs"][0], s["ce"]))
        rep.seen(trace, True)
        rep.count("mixed:" + "+".join(sorted(kinds)))
        if verdict:
            rep.finding(verdict[0], {"kinds": kinds, "trace": trace}, verdict[1])
        rep.sample({"mixed_kinds": kinds, "trace": trace[:8]}, limit=5)


def run(rep, model, tier, seed):
    r = common.rng(seed, "c09")
    rep.rule = ("interleavings of `with` blocks (3..8 blocks) of 2-3 objects sharing one radio, each block performing 0..6 random "
                "configuration calls of the C03 alphabet: RF24-only groups are compared with the driver model; mixed groups of "
                "RF24/FakeBLE/RF24Network/RF24Mesh are judged by the snapshot checker; non-trivial = an object is entered "
                "twice with another object's block in between; distinct = distinct interleaving")
    n = 300 if tier == "quick" else 6000
    for _ in range(n):
        k, ops = gen_rf24_case(r)
        R.check_cases(rep, model, [ops], "rf24-only", [True], [0] * k, make_rf24, Checker, lambda o: True)
    run_mixed(rep, model, r, 150 if tier == "quick" else 3000)
    rep.extra["also_sampled_only"] = True


def replay(path):
    import json
    d = json.load(open(path))
    for w in d.get("witnesses", d.get("disagreements", []))[:5]:
        print(json.dumps(w)[:1500])
    return 0

"""C01 -- link payload integrity: what send() is given is what the peer's read() returns.

Two real RF24 objects on two radios of the extracted world model (one through the
spidev-style wrapper, one through adafruit's SPIDevice), configured compatibly over the
property's whole quantifier; payload streams are sent and read back; everything is compared
with the Gallina driver model running on the same world, and judged by a checker written
from the property text (normalisation, order, pipe attribution, rejection before anything
reaches the radio, caller's buffer untouched).
"""
from circuitpython_nrf24l01.rf24 import RF24

from . import common
from . import world as W
from . import rf24ops as R

TRUSTED = [
    "Coq 8.16.1 kernel incl. vm_compute (no native_compute); theorems closed under the global context",
    "environment model Env/Radio.v + Env/World.v (Enhanced ShockBurst exchange, pipe address matching, FIFOs): modelled, not verified",
    "hand-written Gallina model Drv/RF24.v of rf24.py, tied to the code by this differential run",
    "extraction (ExtrOcamlBasic, ExtrOcamlNativeString; no Extract Constant) + ocaml/modelrun.ml glue (world server)",
    "python harness corr/c01.py, corr/rf24ops.py, corr/world.py incl. the delivery checker",
]


def make_rf24(world, ri, k):
    spi, csn, ce = W.spidev_parts(world, ri) if k % 2 == 0 else W.busio_parts(world, ri)
    return RF24(spi, csn, ce)


def norm(payload, dyn, L):
    if dyn:
        return bytes(payload)
    return (bytes(payload) + bytes(L))[:L]


def rx_setup(r, pipe, aw):
    """(ops to open `pipe` for reading, the address a peer must transmit to)"""
    base = bytes(r.randrange(1, 255) for _ in range(5))
    first = r.choice([x for x in range(1, 255) if x != base[0]])   # a pipe of its own, not a second name for pipe 1
    if pipe < 2:
        return [("open_rx_pipe", pipe, base)], base
    return [("open_rx_pipe", 1, base), ("open_rx_pipe", pipe, bytes([first]))], bytes([first]) + base[1:]


def gen_case(r):
    """configuration + traffic; returns (ops, meta)"""
    aw = r.choice([3, 4, 5])
    dyn = r.random() < 0.5
    L = r.randrange(1, 33)
    ch = r.choice([0, 1, 76, 124, 125, r.randrange(126)])
    rate = r.choice([1, 2, 250])
    crc = r.choice([0, 1, 2])
    noack = r.random() < 0.3
    both = r.random() < 0.45  # ping-pong: both nodes receive (role swaps)
    rpipe = {1: r.randrange(6), 0: (0 if r.random() < 0.7 else r.randrange(6)) if both else None}
    if both and r.random() < 0.7:
        rpipe[1] = 0
    cfg = [("channel=", ch), ("data_rate=", rate), ("crc=", crc), ("address_length=", aw)]
    ops = []
    addr = {}
    for node in (0, 1):
        ops += [("select", node)] + cfg
        if dyn:
            ops.append(("dynamic_payloads=", True))
        else:
            # static lengths per pipe: L on the pipe that matters (pipe 0 for transmitting, the
            # receiving pipe for receiving), anything else elsewhere
            lens = [r.randrange(1, 33) for _ in range(6)]
            if node == 0 or both:
                lens[0] = L
            if rpipe[node] is not None:
                lens[rpipe[node]] = L
            ops += [("dynamic_payloads=", False), ("payload_length=", lens)]
        if rpipe[node] is not None:
            o, a = rx_setup(r, rpipe[node], aw)
            ops += o
            addr[node] = a
    for node in (0, 1):
        peer = 1 - node
        if peer in addr:
            a = addr[peer]
            ops += [("select", node), ("open_tx_pipe", a[:aw] if r.random() < 0.5 else a)]
    role = {0: "tx", 1: "rx"}
    ops += [("select", 0), ("listen=", False), ("select", 1), ("listen=", True)]
    pending = {0: 0, 1: 0}
    for _ in range(r.randrange(1, 8)):
        x = r.random()
        sender = 0 if role[0] == "tx" else 1
        recv = 1 - sender
        if x < 0.12 and pending[recv] == 0:
            # the streaming idiom: fill the TX FIFO with CE low, then start transmitting
            ops += [("select", sender), ("ce_pin=", False)]
            for _ in range(r.choice([1, 2, 3, 4, 4, 5, 6])):
                n = r.choice([r.randrange(1, 33)] * 5 + [0, 33, 40]) if dyn else r.choice([1, L, 32, 33, r.randrange(1, 41)])
                pl = bytes(r.randrange(256) for _ in range(n))
                ops.append(("write", bytearray(pl) if r.random() < 0.5 else pl, noack, True))
            ops += [("ce_pin=", True), ("update",), ("ce_pin=", False)]
            pending[recv] = 3            # at most: the FIFO has three levels
        elif x < 0.5 and pending[recv] < 3:
            n = r.choice([0, 1, 2, 5, L, 31, 32, 33, 40, r.randrange(0, 41)])
            pl = bytes(r.randrange(256) for _ in range(n))
            pl = bytearray(pl) if r.random() < 0.5 else pl
            ops += [("select", sender)]
            if r.random() < 0.25 and pending[recv] < 2:
                pl2 = bytes(r.randrange(256) for _ in range(r.randrange(1, 33)))
                lst = [pl, pl2] if r.random() < 0.5 else (pl, pl2)
                ops.append(("send_list", lst, noack, 0, False))
                for q in lst:
                    if dyn and (len(q) == 0 or len(q) > 32):
                        break
                    pending[recv] += 1
            else:
                ops.append(("send", pl, noack, 0, False))
                if not (dyn and (n == 0 or n > 32)):
                    pending[recv] += 1
        elif x < 0.8 or not both:
            ops += [("select", recv), ("available",), ("pipe",), ("any",), ("read", None)]
            pending[recv] = max(0, pending[recv] - 1)
        else:
            # swap roles (drain first so that nothing is lost to flush_rx on the new sender)
            ops += [("select", recv)]
            for _ in range(pending[recv]):
                ops += [("available",), ("pipe",), ("any",), ("read", None)]
            pending[recv] = 0
            ops += [("select", sender), ("listen=", True), ("select", recv), ("listen=", False)]
            # pipe 0 doubles as the ACK pipe: the new sender re-binds it (C08: "immediately after open_tx_pipe()")
            ops.append(("open_tx_pipe", addr[sender]))
            role[sender], role[recv] = "rx", "tx"
    for node in (0, 1):
        if role[node] == "rx":
            ops += [("select", node)]
            for _ in range(pending[node] + 1):
                ops += [("available",), ("pipe",), ("any",), ("read", None)]
    ops.append(("air",))
    meta = {"aw": aw, "rpipe": rpipe, "dyn": dyn, "L": L, "noack": noack, "rate": rate, "crc": crc, "channel": ch, "both": both}
    return ops, meta


class Checker:
    def __init__(self, meta):
        self.m = meta

    def start(self, impl, snaps):
        self.expect = {0: [], 1: []}  # per receiving node: normalised payloads sent and not yet read

    def air(self, k, log):
        return None

    def step(self, k, cur, op, res, prev, snaps, obj, log):
        m = self.m
        name = op[0]
        peer = 1 - cur
        if name in ("send", "send_list"):
            exp = self.expect[peer]
            bufs = [op[1]] if name == "send" else list(op[1])
            passed = R.LAST_ARGS[0]
            objs = [passed] if name == "send" else list(passed)
            for orig, now in zip(bufs, objs):
                if bytes(now) != bytes(orig) or type(now) is not type(orig):
                    return ("C01/caller-buffer-modified",
                            "%s of %d bytes became %d bytes after %s()" % (type(orig).__name__, len(orig), len(now), name))
            stop = False
            nloaded = 0
            for q in bufs:
                if m["dyn"] and (len(q) == 0 or len(q) > 32):
                    stop = True
                    break
                exp.append(norm(q, m["dyn"], m["L"]))
                nloaded += 1
            loads = [mo for (i, mo, ce) in log.items if i == cur and mo[0] in (0xA0, 0xB0)]
            if stop:
                if res[0] != 1:
                    return ("C01/oversize-or-empty-payload-not-rejected", "result %s for lengths %s" % (res, [len(q) for q in bufs]))
                if len(loads) != nloaded:
                    return ("C01/rejected-payload-reached-the-radio", "%d payload writes for %d acceptable payloads" % (len(loads), nloaded))
            else:
                if res[0] != 0:
                    return ("C01/send-raised", "result %s" % res)
                flat = res[1:] if name == "send" else res[2:]
                if flat != [0, 1] * len(bufs):
                    return ("C01/send-not-reported-delivered", "send returned %s on a loss-free compatible link" % res)
                if nloaded and [bytes(l[1:]) for l in loads] != exp[-nloaded:]:
                    return ("C01/payload-written-to-radio-differs", "loaded %s" % [bytes(l[1:]).hex() for l in loads])
            fifo = snaps[peer]["rx"]
            if [b for (_p, b) in fifo] != exp or any(p != m["rpipe"][peer] for (p, _b) in fifo):
                return ("C01/peer-fifo-differs-from-what-was-sent",
                        "peer RX FIFO %s, expected %s on pipe %s" % ([(p, b.hex()) for p, b in fifo], [e.hex() for e in exp], m["rpipe"][peer]))
        elif name == "write":
            exp = self.expect[peer]
            if bytes(R.LAST_ARGS[0]) != bytes(op[1]) or type(R.LAST_ARGS[0]) is not type(op[1]):
                return ("C01/caller-buffer-modified", "%s of %d bytes after write()" % (type(op[1]).__name__, len(op[1])))
            if m["dyn"] and (len(op[1]) == 0 or len(op[1]) > 32):
                # rejected before anything reaches the radio -- whatever state the TX FIFO is in
                if res[0] != 1:
                    return ("C01/oversize-or-empty-payload-not-rejected", "write() of %d bytes -> %s" % (len(op[1]), res))
                mine = [mo for (i, mo, ce) in log.items if i == cur]
                if mine:
                    return ("C01/rejected-payload-reached-the-radio", "write() of %d bytes: SPI traffic %s" % (
                        len(op[1]), [bytes(x).hex() for x in mine]))
                return None
            if res[0] != 0:
                return ("C01/write-raised", "result %s for a %d-byte payload" % (res, len(op[1])))
            if res[1]:          # accepted: it has to come out of the peer's read(), once, in order
                exp.append(norm(op[1], m["dyn"], m["L"]))
                self.burst = getattr(self, "burst", 0) + 1
        elif name == "ce_pin=" and op[1] and getattr(self, "burst", 0):
            self.burst = 0
            exp = self.expect[peer]
            fifo = snaps[peer]["rx"]
            if [b for (_p, b) in fifo] != exp or any(p != m["rpipe"][peer] for (p, _b) in fifo):
                return ("C01/peer-fifo-differs-from-what-was-sent",
                        "after a write(write_only=True) burst: peer RX FIFO %s, write() accepted %s" %
                        ([(p, b.hex()) for p, b in fifo], [e.hex() for e in exp]))
        elif name in ("available", "pipe", "any", "read"):
            exp = self.expect[cur]
            if name == "available":
                if res != [0, 1 if exp else 0]:
                    return ("C01/available-wrong", "available() = %s with %d payloads pending" % (res, len(exp)))
            elif name == "pipe":
                want = [0, 1, m["rpipe"][cur]] if exp else [0, 0]
                if res != want:
                    return ("C01/pipe-attribution-wrong", "pipe = %s, expected %s" % (res, want))
            elif name == "any":
                want = [0, len(exp[0])] if exp else [0, 0]
                if res != want:
                    return ("C01/any-wrong", "any() = %s, expected %s" % (res, want))
            elif name == "read":
                if exp:
                    e = exp.pop(0)
                    if res != [0, 1, len(e)] + list(e):
                        return ("C01/read-returns-other-bytes", "read() = %s, sent %s" % (res[:40], e.hex()))
                elif res != [0, 0]:
                    return ("C01/read-returns-payload-never-sent", "read() = %s with nothing pending" % (res[:40],))
        return None


def run(rep, model, tier, seed):
    r = common.rng(seed, "c01")
    rep.rule = ("two real RF24 objects on two world radios, compatible configurations drawn over channel x rate x CRC x address "
                "width 3..5 x receiving pipe 0..5 x static length 1..32 | dynamic x ask_no_ack, payload lengths 0..40 "
                "(bytes/bytearray, single/list/tuple), 0..3 pending reads; non-trivial = at least one payload delivered and "
                "read back; distinct = distinct case")
    n = 500 if tier == "quick" else 12000
    for _ in range(n):
        ops, meta = gen_case(r)
        R.check_cases(rep, model, [ops], "random", [True, True], [0, 1], make_rf24, lambda: Checker(meta),
                      lambda o: any(x[0] in ("send", "send_list", "write") for x in o))
        rep.count("rx pipe %d" % meta["rpipe"][1])
        rep.count("ping-pong" if meta["both"] else "one-way")
        rep.count("dynamic" if meta["dyn"] else "static")
    rep.extra["also_sampled_only"] = True


def replay(path):
    import json
    d = json.load(open(path))
    for w in d.get("witnesses", d.get("disagreements", []))[:5]:
        print(json.dumps(w)[:1500])
    return 0

"""Concurrent runs: every node is a real object in its own thread with its own virtual clock;
a bus operation (SPI transfer, CE write, clock reading) of the node whose clock is smallest
(ties: lowest index) always goes first, so the interleaving is a deterministic function of
the scenario (costs and jitter come from one seeded PRNG).  All radios live in ONE extracted
world (Env/World.v) -- the environment of the run is the model's.

Correspondence under concurrency: what each node saw on its bus is recorded; the Gallina node
model is then run on that recording (Net/Replay.v, bus RB).  The model must issue exactly the
recorded bus operations, return the same results and reach the same node state.
"""
import random
import threading

from circuitpython_nrf24l01.network.structs import RF24NetworkHeader

from . import common
from . import world as W
from . import netops as NO
from . import rf24ops as R

NEXT_ID = NO.NEXT_ID


class Task:
    def __init__(self, idx, radio):
        self.idx, self.radio = idx, radio
        self.clock = 0
        self.tape = []       # ints, Net/Replay.v take_tape layout
        self.ntape = 0
        self.log = []        # dicts: op, enc, res, dump, t0, t1
        self.ops_enc = []
        self.next_id = 0
        self.done = False
        self.scripted = True  # still has scripted (non-serve) steps to do
        self.sem = threading.Semaphore(0)
        self.exc = None
        self.calls = 0
        self.transfers = 0
        self.obj = None
        self.cout = None
        self.held = False
        self.write_fids = []


class DesWorld(W.World):
    def __init__(self, model, plus, fates, rnd, spi_cost=10_000, jitter=0, now_cost=1_000):
        super().__init__(model, plus, fates)
        self.tasks = []
        self.rnd = rnd
        self.spi_cost_ns, self.jitter, self.now_cost = spi_cost, jitter, now_cost
        self.local = threading.local()
        self.forced = None
        self.main_sem = threading.Semaphore(0)
        self.switches = 0
        self.bus_ops = 0
        self.holds = 0
        self.airlog = []
        self.quantum = 150_000
        self.max_call_transfers = 400_000

    # ---- scheduling
    def cur(self):
        return self.forced if self.forced is not None else self.local.task

    def _min(self):
        best = None
        for t in self.tasks:
            if not t.done and (best is None or (t.clock, t.idx) < (best.clock, best.idx)):
                best = t
        return best

    def _enter(self, t):
        setattr(RF24NetworkHeader, NEXT_ID, t.next_id)

    def _leave(self, t):
        t.next_id = getattr(RF24NetworkHeader, NEXT_ID)

    def gate(self, t):
        if self.forced is not None:
            return
        nxt = self._min()
        # nodes share no clock: letting one run up to `quantum` ahead of the slowest is a skew no node can observe
        if nxt is not t and (t.held or t.done or t.clock > nxt.clock + self.quantum):
            self.switches += 1
            self._leave(t)
            nxt.sem.release()
            t.sem.acquire()
            self._enter(t)

    def _cost(self, base):
        return base + (self.rnd.randrange(self.jitter + 1) if self.jitter else 0)

    # ---- bus operations (each recorded on the task's tape)
    def spi(self, i, mosi):
        t = self.cur()
        self.gate(t)
        t.transfers += 1
        if t.transfers > self.max_call_transfers:
            raise W.Watchdog("more than %d SPI transfers in one call" % self.max_call_transfers)
        self.bus_ops += 1
        t.clock += self._cost(self.spi_cost_ns)
        r = self.m.ask("wspi %d %s" % (i, common.hx(mosi)))
        if not r.startswith("x"):
            raise RuntimeError("world server: " + r)
        out = common.unhx(r)
        t.tape += [0, len(mosi)] + list(mosi) + [len(out)] + list(out)
        t.ntape += 1
        if mosi and mosi[0] in (0xA0, 0xB0, 0xE3):
            self.collect_air(t)
        return out

    def listening_map(self):
        snaps = W.parse_snaps(self.snap(), self.n)[0]
        return [(sn["regs"][0] & 3) == 3 and bool(sn["ce"]) for sn in snaps], snaps

    @staticmethod
    def hears(sn, addr):
        """does this radio have an enabled RX pipe on `addr`? (scheduling policy only; the world decides deliveries)"""
        w = (sn["regs"][3] & 3) + 2
        en = sn["regs"][2]
        pipes = [sn["p0"][:w], sn["p1"][:w]] + [bytes([sn["regs"][10 + p]]) + sn["p1"][1:w] for p in range(2, 6)]
        return any(en >> p & 1 and pipes[p] == addr[:w] for p in range(6))

    def hold_transmitter(self, t, i):
        """Enhanced ShockBurst repeats an unacknowledged frame ARC times, ARD apart; the world's exchange is one
        instant.  A node about to start a transmission is therefore held back (its clock advanced by ARD, others run)
        while the radio it addresses is momentarily deaf -- in TX mode or in standby in the middle of one of its own
        calls -- at most ARC times: the schedule a retransmitting radio would have produced.  Frames sent without
        auto-ack are not repeated by the hardware and are not held."""
        for attempt in range(16):
            lst, snaps = self.listening_map()
            me = snaps[i]
            if me["regs"][0] & 1 or not me["tx"]:
                return          # not a transmission
            if me["tx"][0][0] == 1 or not (me["regs"][1] & 1):
                return          # W_TX_PAYLOAD_NOACK / auto-ack off: sent once
            arc, ard = me["regs"][4] & 15, ((me["regs"][4] >> 4) + 1) * 250_000
            if attempt >= arc:
                return
            deaf = [u for u in self.tasks if u is not t and not u.done and not u.held and not lst[u.radio]
                    and self.hears(snaps[u.radio], me["tx_addr"])]
            if not deaf:
                return
            self.holds += 1
            t.clock += ard
            t.held = True
            self.gate(t)
            t.held = False

    def collect_air(self, t):
        """transmissions the world performed since the last call, stamped with the transmitter's clock"""
        for e in self.air():
            e["t"] = t.clock
            self.airlog.append(e)

    def ce(self, i, v):
        t = self.cur()
        self.gate(t)
        if v and self.forced is None:
            self.hold_transmitter(t, i)
        self.m.ask("wce %d %d" % (i, 1 if v else 0))
        t.tape += [1, 1 if v else 0]
        t.ntape += 1
        if v:
            self.collect_air(t)

    def monotonic_ns(self):
        t = self.cur()
        self.gate(t)
        t.clock += self._cost(self.now_cost)
        t.tape += [2, t.clock]
        t.ntape += 1
        return t.clock

    def sleep(self, s):
        t = self.cur()
        ns = max(0, int(round(s * 1e9)))
        t.clock += ns
        t.tape += [3, ns]
        t.ntape += 1

    @property
    def now_ns(self):
        t = getattr(self.local, "task", None) if self.forced is None else self.forced
        return t.clock if t is not None else 0

    @now_ns.setter
    def now_ns(self, v):
        pass


_CURRENT = {"world": None}
_orig_mesh_write = None


def _install_write_probe():
    """record the frame id RF24MeshNoMaster.write() is about to use (harness-side wrapper, not a source hook)"""
    global _orig_mesh_write
    from circuitpython_nrf24l01.rf24_mesh import RF24MeshNoMaster
    if _orig_mesh_write is not None:
        return
    _orig_mesh_write = RF24MeshNoMaster.write

    def write(self, to_node, message_type, message):
        w = _CURRENT["world"]
        if w is not None:
            try:
                w.cur().write_fids.append(getattr(RF24NetworkHeader, NEXT_ID))
            except AttributeError:
                pass
        return _orig_mesh_write(self, to_node, message_type, message)
    RF24MeshNoMaster.write = write


class Run:
    """specs: list of (radio, kind, arg); scripts: per object a list of steps
         ("at", ns)                 idle until the node's clock reaches ns (no bus activity)
         ("call", op)               one API call (netops OPS names), logged with result and full dump
         ("call", f)                f(run, task) -> op, bound when the step is reached
         ("serve", gap_lo, gap_hi)  update() then other work for gap ns, until every node finished its scripted steps
         ("until", pred, lo, hi)    the same until pred(run, task) holds
         ("do", f)                  f(run, task): harness bookkeeping, no bus traffic
    """

    def __init__(self, model, plus, specs, scripts, seed, spi_cost=10_000, jitter=0, fates="-", horizon_ns=60_000_000_000):
        self.model = model
        self.rnd = random.Random(seed)
        self.world = DesWorld(model, "".join("T" if p else "F" for p in plus), fates, self.rnd, spi_cost, jitter)
        W.install_time(self.world)
        _install_write_probe()
        _CURRENT["world"] = self.world
        self.specs, self.scripts = specs, scripts
        self.horizon = horizon_ns
        self.quiet_since, self.drain_ns = 0, 60_000_000
        self.tasks = []
        for k, (ri, kind, arg) in enumerate(specs):
            t = Task(k, ri)
            self.tasks.append(t)
        self.world.tasks = self.tasks
        # construction: sequential, each on its own clock and tape
        for k, (ri, kind, arg) in enumerate(specs):
            t = self.tasks[k]
            self.world.forced = t
            setattr(RF24NetworkHeader, NEXT_ID, 0)
            spi, csn, ce = W.spidev_parts(self.world, ri) if k % 2 == 0 else W.busio_parts(self.world, ri)
            t.fid = 1      # the queue's cache frame takes id 0, frame_buf the next
            try:
                o = NO.KINDS[kind][1](spi, csn, ce, arg)
                o._verif_world = self.world
                t.obj, t.cout = o, 0
            except ValueError:
                t.cout = 1
            except IndexError:
                t.cout = 2
            t.next_id = getattr(RF24NetworkHeader, NEXT_ID)
        self.world.forced = None

    # ---- steps
    def end_scripted(self, t):
        if t.scripted:
            t.scripted = False
            if not self.scripted_left():   # frames still in flight get drain_ns to arrive
                self.quiet_since = max(x.clock for x in self.tasks)

    def scripted_left(self):
        return any(t.scripted and not t.done for t in self.tasks)

    def call(self, t, op, dump=True):
        w = self.world
        t.transfers = 0
        t0 = t.clock
        t.write_fids = []
        id_before = NO.next_id()
        res = NO.apply_op(t.obj, op)
        # frame ids: every node has its own counter, and FrameQueue.enqueue() burns one id per queued frame (it builds a
        # fresh RF24NetworkFrame); under concurrency frames are queued while a call is in progress, so the id a mesh
        # write() gives its header is only known when write() is entered (recorded by the wrapper below)
        if op[0] in ("msend", "mwrite", "check_connection"):
            fid = t.write_fids[0] if t.write_fids else id_before
            saved = getattr(RF24NetworkHeader, NEXT_ID)
            setattr(RF24NetworkHeader, NEXT_ID, fid)
            enc = NO.encode(op)
            setattr(RF24NetworkHeader, NEXT_ID, saved)
        else:
            enc = NO.encode(op)
        exc = R.LAST_EXC[0]
        entry = {"op": op, "res": res, "t0": t0, "t1": t.clock, "addr": t.obj._addr, "exc": repr(exc) if exc else None}
        t.ops_enc += enc
        if dump:
            entry["dump"] = R.dump_obj(t.obj._rf24) + NO.dump_node(t.obj)
            t.ops_enc += [95]
        t.log.append(entry)
        t.calls += 1
        return entry

    def _body(self, t):
        w = self.world
        w.local.task = t
        t.sem.acquire()
        w._enter(t)
        try:
            if t.obj is not None:
                for step in self.scripts[t.idx]:
                    if step[0] == "at":
                        t.clock = max(t.clock, step[1])
                    elif step[0] == "call":
                        op = step[1](self, t) if callable(step[1]) else step[1]
                        if op is not None:
                            self.call(t, op)
                    elif step[0] == "until":   # ("until", pred, gap_lo, gap_hi): keep serving until pred(run, task)
                        while not step[1](self, t) and t.clock < self.horizon:
                            self.call(t, ("update",), dump=False)
                            t.clock += self.rnd.randrange(step[2], step[3] + 1)
                            w.gate(t)
                    elif step[0] == "do":      # harness-side action without bus traffic: f(run, task)
                        step[1](self, t)
                    elif step[0] == "serve":
                        self.end_scripted(t)
                        while (self.scripted_left() or t.clock < self.quiet_since + self.drain_ns) and t.clock < self.horizon:
                            self.call(t, ("update",), dump=False)
                            t.clock += self.rnd.randrange(step[1], step[2] + 1)   # the application's own work: not on the bus
                            w.gate(t)
        except BaseException as e:  # noqa
            t.exc = e
        finally:
            self.end_scripted(t)
            t.done = True
            w._leave(t)
            nxt = w._min()
            if nxt is not None:
                nxt.sem.release()
            else:
                w.main_sem.release()

    def go(self):
        ths = [threading.Thread(target=self._body, args=(t,), daemon=True) for t in self.tasks]
        for th in ths:
            th.start()
        first = self.world._min()
        first.sem.release()
        self.world.main_sem.acquire()
        for th in ths:
            th.join(timeout=5)
        # final full dump of every node, on the main thread
        for t in self.tasks:
            if t.obj is not None:
                t.final = R.dump_obj(t.obj._rf24) + NO.dump_node(t.obj)
                t.ops_enc += [95]
        self.world.collect_air(self.tasks[0])
        self.air = self.world.airlog
        return self

    # ---- model on the recording
    def replay(self, t):
        """returns None when the model reproduces the node's run, else a description of the first difference"""
        ri, kind, arg = self.specs[t.idx]
        req = [NO.KINDS[kind][0], arg, t.fid, t.ntape] + t.tape + t.ops_enc
        line = self.model.ask("run replay " + " ".join(map(str, req)))
        out = [int(x) for x in line.split()]
        exp = [t.cout]
        if t.obj is not None:
            for e in t.log:
                exp += [-1] + e["res"]
                if "dump" in e:
                    exp += [-7] + e["dump"]
            exp += [-7] + t.final
        exp += [-2, -8, 0, t.ntape, -1]
        if out == exp:
            return None
        k = next((j for j in range(min(len(out), len(exp))) if out[j] != exp[j]), min(len(out), len(exp)))
        # which call?
        pos, call = 1, -1
        for n, e in enumerate(t.log):
            ln = 1 + len(e["res"]) + ((1 + len(e["dump"])) if "dump" in e else 0)
            if pos + ln > k:
                call = n
                break
            pos += ln
        return {"node": t.idx, "first_differing_index": k, "call_index": call,
                "call": NO.jops([t.log[call]["op"]])[0] if 0 <= call < len(t.log) else "final state / tape status",
                "model": out[max(0, k - 6): k + 12], "impl": exp[max(0, k - 6): k + 12], "model_tail": out[-4:]}

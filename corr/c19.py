"""C19 -- received BLE packets decode to what was advertised; all else is ignored safely.

Transmitter: a real FakeBLE (its 32 transmitted bytes are taken from the world's air log) or the
independent encoder of corr/bleref.py.  Receiver: a real FakeBLE whose RX FIFO gets those bytes,
next to the Gallina model of available()/QueueElement/read() (Ble/Ble.v).  The checker compares
what read() returns with what the transmitter was told to advertise.
"""
import struct

import circuitpython_nrf24l01.fake_ble as FB

from . import common
from . import bleops as B
from . import bleref as REF

TRUSTED = [
    "Coq 8.16.1 kernel incl. vm_compute (no native_compute); theorems closed under the global context",
    "hand-written Gallina model Ble/Ble.v of fake_ble.py (available(): de-whitening, length/CRC validation, QueueElement parsing; read()), "
    "tied to the code by this differential run; ServiceData value codecs (float/int/str <-> bytes) are exercised on the real classes and "
    "judged by the checker, their byte images are compared with the model",
    "independent Python encoder/decoder corr/bleref.py (transcription of Core Spec v4.0 Vol 6 Part B 2.3, 3.1.1, 3.2)",
    "environment model Env/Radio.v + Env/World.v (RX FIFO of the receiving radio): modelled, not verified",
    "extraction (ExtrOcamlBasic, ExtrOcamlNativeString; no Extract Constant) + ocaml/modelrun.ml glue",
    "python harness corr/c19.py, corr/bleops.py",
]

RF = [2, 26, 80]
PREFIX = ["http://www.", "https://www.", "http://", "https://"]
SUFFIX = [".com", ".org", ".edu", ".net", ".info", ".biz", ".gov"]


def gen_url(r):
    s = r.choice(PREFIX) + "".join(r.choice("abcdefghijklmnopqrstuvwxyz0123456789-") for _ in range(r.randrange(1, 6)))
    if r.random() < 0.7:
        s += r.choice(SUFFIX) + r.choice(["", "/"])
    if r.random() < 0.3:
        s += "".join(r.choice("abcxyz019_~") for _ in range(r.randrange(0, 3)))
    return s


def gen_content(r):
    """what the transmitter is told to advertise; returns (name, show, pa, [items]) with items
    ('battery', int) | ('temp', float) | ('url', str, power) | ('raw', type, bytes)"""
    name = r.choice([None, None, b"n", "nRF24", b"\xff\xfe", "ab"])
    show = r.random() < 0.4
    pa = r.choice([-18, -12, -6, 0])
    items = []
    for _ in range(r.randrange(0, 3)):
        k = r.random()
        if k < 0.3:
            items.append(("battery", r.choice([0, 1, 100, 127, 128, 255, r.randrange(256)])))
        elif k < 0.6:
            cents = r.choice([0, 1, -1, 29, 2345, -2345, 30000, -30000, 12799, 12800, -12800, r.randrange(-30000, 30001)])
            items.append(("temp", cents / 100))
        elif k < 0.8:
            items.append(("url", gen_url(r), r.choice([-25, 0, -128, 127, -1])))
        else:
            items.append(("raw", r.choice([0xFF, 0x16, 0x2A, 0x03]), bytes(r.randrange(256) for _ in range(r.randrange(0, 8)))))
    return name, show, pa, items


def build_chunks(items):
    out = []
    for it in items:
        if it[0] == "battery":
            s = FB.BatteryServiceData()
            s.data = it[1]
            out.append(FB.chunk(s.buffer))
        elif it[0] == "temp":
            s = FB.TemperatureServiceData()
            s.data = it[1]
            out.append(FB.chunk(s.buffer))
        elif it[0] == "url":
            s = FB.UrlServiceData()
            s.pa_level_at_1_meter = it[2]
            s.data = it[1]
            out.append(FB.chunk(s.buffer))
        else:
            out.append(FB.chunk(it[2], it[1]))
    return out


def judge_element(e, mac, name, show, pa, items):
    if e is None:
        return ("C19/advertised-packet-not-queued", "read() returned None")
    if bytes(e.mac) != bytes(mac):
        return ("C19/mac-differs", "%s vs %s" % (bytes(e.mac).hex(), bytes(mac).hex()))
    want_name = None if name is None else (name if isinstance(name, str) else bytes(name))
    got = e.name
    if isinstance(want_name, bytes):
        try:
            want_name = want_name.decode()
        except UnicodeError:
            pass
    if got != want_name:
        return ("C19/name-differs", "%r vs advertised %r" % (got, want_name))
    if e.pa_level != (pa if show else None):
        return ("C19/pa-level-differs", "%r vs advertised %r" % (e.pa_level, pa if show else None))
    data = list(e.data)
    if data and bytes(getattr(data[0], "buffer", data[0])) == b"\x02\x01\x05":
        data = data[1:]      # the flags field of the packet, kept as a raw structure
    if len(data) != len(items):
        return ("C19/number-of-data-items-differs", "%d decoded, %d advertised: %r" % (len(data), len(items), data))
    for d, it in zip(data, items):
        if it[0] == "battery":
            if not isinstance(d, FB.BatteryServiceData) or d.data != it[1]:
                return ("C19/battery-differs", "%r vs advertised %d" % (d, it[1]))
        elif it[0] == "temp":
            if not isinstance(d, FB.TemperatureServiceData) or abs(d.data - it[1]) > 0.00501:
                return ("C19/temperature-differs", "decoded %r, advertised %r" % (getattr(d, "data", d), it[1]))
        elif it[0] == "url":
            if not isinstance(d, FB.UrlServiceData) or d.data != it[1] or d.pa_level_at_1_meter != it[2]:
                return ("C19/url-differs", "decoded %r power %r, advertised %r power %r" % (
                    getattr(d, "data", d), getattr(d, "pa_level_at_1_meter", None), it[1], it[2]))
        else:
            want = bytes([len(it[2]) + 1, it[1]]) + it[2]
            if it[1] == 0x16 and len(it[2]) >= 2:
                # service data of a UUID this library does not know: kept as the raw structure without its length byte
                if bytes(getattr(d, "buffer", d)) not in (want, want[1:]):
                    return ("C19/raw-chunk-differs", "%r vs advertised %s" % (d, want.hex()))
            elif isinstance(d, FB.ServiceData) or bytes(d) != want:
                return ("C19/raw-chunk-differs", "%r vs advertised %s" % (d, want.hex()))
    return None


def pair_case(rep, model, r, seed, n):
    """real transmitter -> real receiver"""
    name, show, pa, items = gen_content(r)
    ch = r.choice(RF)
    tx = B.BleRun(model, seed + 1000003 * n, busio=bool(n % 2))
    tx.step(("enter",))
    ops_tx = [("mac=", bytes(r.randrange(256) for _ in range(6))), ("channel=", ch), ("pa_level=", pa)]
    ops_tx += [("name=", name), ("show_pa_level=", show)]
    if r.random() < 0.5:
        # what is advertised is what is set when advertise() is called, in whatever order it was set -- and re-set
        r.shuffle(ops_tx)
        if r.random() < 0.5:
            k = r.randrange(len(ops_tx))
            ops_tx.insert(k, ("pa_level=", r.choice([-18, -12, -6, 0])))
            last = [o for o in ops_tx if o[0] == "pa_level="][-1]
            ops_tx.remove(last)
            ops_tx.append(("pa_level=", pa))
        rep.count("sender-setters-shuffled")
    chunks = build_chunks(items)
    ops_tx.append(("advertise", chunks))
    res = None
    for op in ops_tx:
        tx.world.transfers, tx.world.watchdog = 0, 20000
        res = tx.step(op)
    for it in items:
        rep.count("item:" + it[0])
    case = {"seed": seed, "content": {"name": repr(name), "show": show, "pa": pa, "items": [repr(i) for i in items], "rf_ch": ch}}
    rep.seen(case)
    if res[0] != 0:
        rep.count("does-not-fit")
        return      # does not fit: C18's business
    frame, mac = tx.last_frame, bytes(tx.o.mac)
    rx = B.BleRun(model, seed + 7, busio=not bool(n % 2))
    rx.step(("enter",))
    ops = [("channel=", ch)]
    if r.random() < 0.4:
        # the receiver has a history of its own on this channel: it advertised (a bare beacon, or something longer) before
        ops += [("name=", r.choice([None, None, b"rx"])), ("advertise", r.choice([[], [], build_chunks([("battery", 50)])]))]
        rep.count("receiver-advertised-first")
    base = len(ops) - 1
    ops += [("receive", frame), ("read",), ("read",)] + [("temp_encode", it[1]) for it in items if it[0] == "temp"]
    verdict = None
    for k, op in enumerate(ops):
        rx.world.transfers, rx.world.watchdog = 0, 20000
        res = rx.step(op)
        k -= base
        if op[0] == "receive" and res[0] != 0 and verdict is None:
            verdict = ("C19/available-raised", "%r on a packet advertised by FakeBLE" % rx.last_exc)
        if k == 2 and verdict is None:
            verdict = judge_element(rx.last_elem if res[:2] == [0, 1] else None, mac, name, show, pa, items)
        if k == 3 and verdict is None and res != [0, 0]:
            verdict = ("C19/element-returned-twice", "second read() = %s" % res)
    iout, mout = rx.finish()
    if verdict:
        rep.finding(verdict[0], dict(case, frame=frame.hex()), verdict[1])
    B.compare(rep, "pair", ops, iout, mout, verdict[0] if verdict else None)
    rep.sample(case, limit=3)


def raw_case(rep, model, seed, n, ch, frames, domain, expect):
    """frames: list of 32-byte payloads; expect(k) -> True (must be queued) / False (must not) / None (only: no exception).
    Whatever expect says, a payload that the independent decoder finds inconsistent (length byte does not fit, CRC-24
    wrong) must not be queued."""
    rx = B.BleRun(model, seed + 7, busio=bool(n % 2))
    rx.step(("enter",))
    ops = [("channel=", ch)]
    verdict = None
    rx.step(ops[0])
    qlen = 0
    arrived = []
    for k, f in enumerate(frames):
        rx.world.transfers, rx.world.watchdog = 0, 20000
        op = ("receive", f)
        ops.append(op)
        res = rx.step(op)
        new = len(rx.o.rx_queue)
        ref = REF.decode(bytes(f), ch)
        consistent = "error" not in ref and ref["crc_ok"]
        if verdict is None:
            if not consistent and res[0] == 0 and new != qlen:
                verdict = ("C19/inconsistent-packet-queued", "%s: %s" % (bytes(f).hex(), ref.get("error", "CRC-24 wrong")))
            elif expect(k) is False and consistent:
                pass        # the case generator meant to break it but the result is a consistent packet
            elif res[0] != 0:
                verdict = ("C19/available-raised", "%r for payload %s" % (rx.last_exc, bytes(f).hex()))
            elif expect(k) is True and new != qlen + 1:
                verdict = ("C19/valid-packet-not-queued", bytes(f).hex())
            elif expect(k) is False and new != qlen:
                verdict = ("C19/inconsistent-packet-queued", bytes(f).hex())
        if new == qlen + 1:
            arrived.append(bytes(f))
        qlen = new
    # drain: arrival order, each once (elements are told apart by re-decoding the payload they came from)
    for k in range(qlen + 1):
        ops.append(("read",))
        res = rx.step(("read",))
        if verdict is None:
            if k < len(arrived):
                want = REF.decode(arrived[k], ch)
                e = rx.last_elem
                if res[:2] != [0, 1] or bytes(e.mac) != want["adva"][:6].ljust(6, b"\0")[:len(e.mac)] and want["length"] >= 6:
                    verdict = ("C19/read-out-of-arrival-order", "read() number %d returned %s, the packet that arrived %d-th is from %s" % (
                        k + 1, None if res[:2] != [0, 1] else bytes(e.mac).hex(), k + 1, want["adva"].hex()))
            elif res != [0, 0]:
                verdict = ("C19/element-returned-twice", "read() number %d after %d arrivals = %s" % (k + 1, len(arrived), res))
    iout, mout = rx.finish()
    case = {"seed": seed, "rf_ch": ch, "frames": [bytes(f).hex() for f in frames[:40]], "n_frames": len(frames)}
    rep.seen(case)
    rep.count(domain, len(frames))
    if verdict:
        rep.finding(verdict[0], case, verdict[1])
    B.compare(rep, domain, ops, iout, mout, verdict[0] if verdict else None)


def adversarial_ads(r):
    """CRC-valid packets whose data structures are malformed or truncated"""
    k = r.randrange(12)
    if k == 0:
        return bytes([3, 0x16, 0x09])                     # service data shorter than a UUID
    if k == 1:
        return bytes([2, 0x16, 0xAA])
    if k == 2:
        return bytes([1, 0x16])
    if k == 3:
        return bytes([4, 0x16, 0xAA, 0xFE, 0x10])         # Eddystone without power/url
    if k == 4:
        return bytes([3, 0x16, 0x0F, 0x18])               # battery without a value
    if k == 5:
        return bytes([3, 0x16, 0x09, 0x18])               # temperature without a value
    if k == 6:
        return bytes([9, 0x16, 1, 2])                     # length runs past the end
    if k == 7:
        return bytes([0, 0, 0])                           # zero length
    if k == 8:
        return bytes([1, 0x0A]) + bytes([1, 0x08]) + bytes([1, 0x09])
    if k == 9:
        return bytes([3, 0x0A, 1, 2])
    if k == 10:
        return bytes([r.randrange(256) for _ in range(r.randrange(0, 19))])
    return bytes([2, 0x08, 0xFF, 3, 0x16, 0x09, 0x18])


def run(rep, model, tier, seed):
    r = common.rng(seed, "c19")
    rep.rule = ("(a) transmitter/receiver pairs of real FakeBLE objects with random name/PA level/service data (battery 0..255, "
                "temperatures -300.00..+300.00, scheme-prefixed URLs with TX power, raw chunks) on all three channels; (b) packets of "
                "the independent encoder: every payload length 0..21 + adversarial/truncated data structures with valid CRC, wrong "
                "length bytes, wrong CRCs; (c) EVERY single-bit corruption of valid packets and sampled double-bit corruptions; "
                "(d) random 32-byte payloads; non-trivial = a payload reaches available(); distinct = distinct case")
    n = 0
    for _ in range(600 if tier == "quick" else 8000):
        pair_case(rep, model, r, seed, n)
        n += 1
    # (b) independent encoder
    for ch in RF:
        frames, expect = [], {}
        for L in range(0, 22):
            mac = bytes(r.randrange(256) for _ in range(6))
            adv = bytes()
            while len(adv) < L:
                m = min(L - len(adv), r.randrange(2, 9))
                if m < 2:
                    break
                adv += REF.ad(r.choice([0xFF, 0x03, 0x2A]), bytes(r.randrange(256) for _ in range(m - 2)))
            frames.append(REF.encode(mac, adv, ch, noise=r))
            expect[len(frames) - 1] = True if len(adv) + 6 + 5 <= 32 else None
        for _ in range(40 if tier == "quick" else 600):
            mac = bytes(r.randrange(256) for _ in range(6))
            adv = adversarial_ads(r)[:21]
            frames.append(REF.encode(mac, adv, ch, noise=r))
            expect[len(frames) - 1] = None           # CRC-valid, malformed inside: only "never raises"
            frames.append(REF.encode(mac, adv, ch, crc_xor=r.randrange(1, 1 << 24), noise=r))
            expect[len(frames) - 1] = False
            wrong = r.choice([x for x in range(0, 40) if x != len(adv) + 6])
            frames.append(REF.encode(mac, adv, ch, length=wrong, noise=r))
            expect[len(frames) - 1] = None if wrong < len(adv) + 6 else False
        raw_case(rep, model, seed, n, ch, frames, "reference-encoder", lambda k, e=expect: e[k])
        n += 1
    rep.exhaustive.append("payload lengths 0..21 of the independent encoder on each channel")
    # (c) corruptions
    for ch in RF:
        for _ in range(1 if tier == "quick" else 6):
            mac = bytes(r.randrange(256) for _ in range(6))
            adv = REF.ad(1, b"\x05") + REF.ad(0x16, b"\x0f\x18" + bytes([r.randrange(256)])) + REF.ad(0xFF, bytes(r.randrange(256) for _ in range(r.randrange(0, 6))))
            good = REF.encode(mac, adv, ch, noise=r)
            span = (2 + 6 + len(adv) + 3) * 8
            frames = [good]
            for b in range(span):
                f = bytearray(good)
                f[b // 8] ^= 0x80 >> (b % 8)
                frames.append(bytes(f))
            for _ in range(300 if tier == "quick" else 3000):
                b1, b2 = r.sample(range(span), 2)
                f = bytearray(good)
                f[b1 // 8] ^= 0x80 >> (b1 % 8)
                f[b2 // 8] ^= 0x80 >> (b2 % 8)
                frames.append(bytes(f))
            raw_case(rep, model, seed, n, ch, frames, "corruptions", lambda k: k == 0)
            n += 1
    rep.exhaustive.append("every single-bit corruption of the covered part of a valid packet, per channel")
    # (d) random
    for ch in RF:
        frames = [bytes(r.randrange(256) for _ in range(32)) for _ in range(300 if tier == "quick" else 20000)]
        raw_case(rep, model, seed, n, ch, frames, "random-payloads", lambda k: None)
        n += 1
    rep.extra["also_sampled_only"] = True


def replay(path):
    import json
    d = json.load(open(path))
    for w in d.get("witnesses", d.get("disagreements", []))[:5]:
        print(json.dumps(w)[:2000])
    return 0

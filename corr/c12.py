"""C12 -- the frame queue is a bounded, duplicate-free FIFO of private copies.

Correspondence: histories of enqueue (fresh / duplicate-key / str-typed frames),
caller-side mutation of frames already passed in, dequeue, peek, len,
max_queue_size changes and fragmentation toggles (through the real
NetworkMixin.fragmentation setter) are run on the real classes and on the extracted
Coq model (Net/Queue.v via Net/QueueRun.v); every observable is compared, and an
independent reference FIFO (written from the property text) judges the
implementation's behaviour.
"""
import itertools
import json

from circuitpython_nrf24l01.rf24_network import RF24Network
from circuitpython_nrf24l01.network.structs import FrameQueue, FrameQueueFrag

from . import common, shim
from .netcodec import enc_frame, Stream, make_frame, obs_frame

TRUSTED = [
    "Coq 8.16.1 kernel incl. vm_compute (no native_compute); theorems closed under the global context",
    "hand-written Gallina model Net/Queue.v of FrameQueue/FrameQueueFrag/fragmentation setter, tied to the "
    "code by this differential run (exhaustive over short histories of a 13-symbol alphabet, random beyond)",
    "extraction (ExtrOcamlBasic, ExtrOcamlNativeString; no Extract Constant) + ocaml/modelrun.ml glue",
    "python harness corr/c12.py incl. the reference FIFO used as property-level checker; "
    "struct 'HHHBB' native = little-endian on this host",
]

A = {"frm": 1, "to": 0, "id": 10, "type": 65, "res": 0}
B = {"frm": 1, "to": 0, "id": 10, "type": 66, "res": 0}
C = {"frm": 2, "to": 0, "id": 10, "type": 65, "res": 0}
AS = {"frm": 1, "to": 0, "id": 10, "type": "A", "res": 0}  # str type: same key as A once packed
ALPHABET = {
    "a": ("enq", dict(A, msg=b"a1")),
    "A": ("enq", dict(A, msg=b"a2-dup")),
    "b": ("enq", dict(B, msg=b"b1")),
    "c": ("enq", dict(C, msg=b"c1", ba=True)),
    "s": ("enq", dict(AS, msg=b"s1")),
    "m": ("mutate",),
    "d": ("deq",),
    "p": ("peek",),
    "l": ("len",),
    "0": ("max", 0),
    "1": ("max", 1),
    "2": ("max", 2),
    "t": ("toggle",),
}


def mask_key(fr):
    t = fr["type"]
    t = ord(t[0]) if isinstance(t, str) else t
    return (fr["frm"] & 0xFFF, fr["id"] & 0xFFFF, t & 0xFF)


def masked(fr):
    t = fr["type"]
    t = ord(t[0]) if isinstance(t, str) else t
    return {"frm": fr["frm"] & 0xFFF, "to": fr["to"] & 0xFFF, "id": fr["id"] & 0xFFFF, "type": t & 0xFF,
            "res": fr["res"] & 0xFF, "msg": bytes(fr["msg"]).hex()}


def new_node(frag=True):
    spi, csn, ce = shim.new_parts()
    net = RF24Network(spi, csn, ce, 0)
    if not frag:
        net.fragmentation = False
    return net


def run_impl(net, hist, frag0):
    """returns (obs list, first property violation or None)"""
    # fresh queue object of the right class on the (reused) node
    net._frag_enabled = bool(frag0)
    net.queue = FrameQueueFrag() if frag0 else FrameQueue()
    obs = []
    ref = []  # reference FIFO of masked snapshots
    rmax = 6
    viol = None
    last_frames = []  # caller-side objects passed in so far
    for op in hist:
        q = net.queue
        kind = op[0]
        if kind == "enq":
            fr = op[1]
            obj = make_frame(fr)
            last_frames.append(obj)
            before = len(q)
            try:
                ret = q.enqueue(obj)
                o = [1 if ret else 0, 1 if obj.header.message_type == 131 and fr["type"] != 131 else 0]
                if ret is not True and ret is not False:
                    viol = viol or ("C12/enqueue-return-not-bool", repr(ret))
            except TypeError:
                ret = None
                o = [2, 0]
            obs.append(o)
            stored = len(q) == before + 1
            if len(q) not in (before, before + 1):
                viol = viol or ("C12/enqueue-changed-length-oddly", "%d -> %d" % (before, len(q)))
            if viol is None:
                if isinstance(fr["type"], str) and not fr["type"]:
                    if stored:
                        viol = ("C12/stored-unpackable-frame", "")
                else:
                    dup = mask_key(fr) in [(r["frm"], r["id"], r["type"]) for r in ref]
                    room = len(ref) < rmax
                    if stored and not room:
                        viol = ("C12/stored-beyond-capacity", "len %d max %d" % (len(ref), rmax))
                    elif stored and dup:
                        viol = ("C12/duplicate-key-stored", str(mask_key(fr)))
                    elif not stored and room and not dup:
                        viol = ("C12/refused-although-room-and-no-duplicate", "")
                    elif bool(ret) != stored:
                        viol = ("C12/enqueue-return-value-wrong", "returned %r stored %r" % (ret, stored))
                    if stored:
                        ref.append(masked(fr))
        elif kind == "mutate":
            for obj in last_frames[-2:]:
                obj.header.from_node ^= 7
                obj.header.frame_id += 1
                obj.header.message_type = 99
                obj.header.reserved = 77
                if isinstance(obj.message, bytearray):
                    for i in range(len(obj.message)):
                        obj.message[i] ^= 0xFF
                    obj.message.extend(b"junk")
                else:
                    obj.message = b"junk"
            obs.append([])
        elif kind in ("deq", "peek"):
            f = q.dequeue() if kind == "deq" else q.peek()
            of = obs_frame(f)
            obs.append(of)
            exp = ref[0] if ref else None
            if viol is None and of != exp:
                viol = ("C12/fifo-order-or-content", "expected %s got %s" % (exp, of))
            if kind == "deq" and ref:
                ref.pop(0)
            if kind == "deq" and f is not None:
                last_frames.append(f)  # the application may scribble on what it dequeued
        elif kind == "len":
            n = len(q)
            obs.append([n])
            if viol is None and n != len(ref):
                viol = ("C12/len-wrong", "expected %d got %d" % (len(ref), n))
        elif kind == "max":
            q.max_queue_size = op[1]
            rmax = op[1]
            obs.append([])
        elif kind == "toggle":
            net.fragmentation = not net.fragmentation
            obs.append([])
            q2 = net.queue
            want = FrameQueueFrag if net.fragmentation else FrameQueue
            if viol is None:
                if type(q2) is not want:
                    viol = ("C12/toggle-wrong-queue-class", type(q2).__name__)
                elif q2.max_queue_size != rmax:
                    viol = ("C12/toggle-lost-max-queue-size", "%r != %r" % (q2.max_queue_size, rmax))
                elif [obs_frame(f) for f in q2._queue] != ref:
                    viol = ("C12/toggle-changed-frames", "")
    fin = [len(net.queue), net.queue.max_queue_size]
    if viol is None and fin[0] != len(ref):
        viol = ("C12/len-wrong", "final")
    return obs, fin, viol


def enc_hist(hist, frag0):
    out = [1 if frag0 else 0]
    for op in hist:
        k = op[0]
        if k == "enq":
            out += [1] + enc_frame(op[1])
        elif k == "deq":
            out += [2]
        elif k == "peek":
            out += [3]
        elif k == "len":
            out += [4]
        elif k == "max":
            out += [5, op[1]]
        elif k == "toggle":
            out += [6, -1]  # patched below
    return out


def enc_hist_toggles(hist, frag0):
    """toggles carry the target state"""
    out = [1 if frag0 else 0]
    cur = bool(frag0)
    for op in hist:
        k = op[0]
        if k == "enq":
            out += [1] + enc_frame(op[1])
        elif k == "deq":
            out += [2]
        elif k == "peek":
            out += [3]
        elif k == "len":
            out += [4]
        elif k == "max":
            out += [5, op[1]]
        elif k == "toggle":
            cur = not cur
            out += [6, 1 if cur else 0]
        # "mutate" has no model counterpart: it must not be observable
    return out


def dec_model(line, hist):
    ints = [int(x) for x in line.split()]
    s = Stream(ints)
    obs = []
    for op in hist:
        k = op[0]
        if k == "mutate":
            obs.append([])
            continue
        assert s.get() == -1, line
        if k == "enq":
            obs.append([s.get(), s.get()])
        elif k in ("deq", "peek"):
            obs.append(s.optframe())
        elif k == "len":
            obs.append([s.get()])
        else:
            obs.append([])
    fin = [s.get(), s.get()]
    assert s.done(), line
    return obs, fin


def jsonable(hist):
    out = []
    for op in hist:
        if op[0] == "enq":
            fr = dict(op[1])
            fr["msg"] = bytes(fr["msg"]).hex()
            out.append(["enq", fr])
        else:
            out.append(list(op))
    return out


def from_json(jh):
    out = []
    for op in jh:
        if op[0] == "enq":
            fr = dict(op[1])
            fr["msg"] = bytes.fromhex(fr["msg"])
            out.append(("enq", fr))
        else:
            out.append(tuple(op))
    return out


FIELD = [0, 1, 2, 0o5555, 0xFFF, 0x1000, 0x1001, 0xFFFF, 0x10000, 0x10001, -1, -5, 7]
TYPES = [0, 1, 65, 66, 127, 128, 131, 193, 255, 256, 321, -5, "A", "B", "", "é", "€", "AB"]


def random_hist(r, n):
    hist = []
    pool = []
    for _ in range(n):
        x = r.random()
        if x < 0.45:
            if pool and r.random() < 0.35:
                fr = dict(r.choice(pool))
                fr["msg"] = bytes(r.randrange(256) for _ in range(r.randrange(0, 6)))
                if r.random() < 0.3:  # same key through a different representation
                    fr["frm"] = fr["frm"] + 0x1000
                if r.random() < 0.3 and isinstance(fr["type"], int) and 0 < (fr["type"] & 0xFF) < 128:
                    fr["type"] = chr(fr["type"] & 0xFF)
            else:
                fr = {"frm": r.choice(FIELD), "to": r.choice(FIELD), "id": r.choice(FIELD),
                      "type": r.choice(TYPES), "res": r.choice([0, 1, 131, 255, 256, -1]),
                      "msg": bytes(r.randrange(256) for _ in range(r.choice([0, 1, 2, 24, 30]))),
                      "ba": r.random() < 0.5}
                pool.append(fr)
            hist.append(("enq", fr))
        elif x < 0.55:
            hist.append(("mutate",))
        elif x < 0.72:
            hist.append(("deq",))
        elif x < 0.78:
            hist.append(("peek",))
        elif x < 0.84:
            hist.append(("len",))
        elif x < 0.93:
            hist.append(("max", r.choice([-1, 0, 1, 2, 3, 6, 10])))
        else:
            hist.append(("toggle",))
    return hist


def check_batch(rep, model, net, cases, domain):
    lines = ["run queue " + " ".join(str(x) for x in enc_hist_toggles(h, f0)) for h, f0 in cases]
    outs = model.batch(lines)
    for (hist, frag0), line in zip(cases, outs):
        obs, fin, viol = run_impl(net, hist, frag0)
        try:
            mobs, mfin = dec_model(line, hist)
        except Exception as e:  # model-side glue problem
            mobs, mfin = "undecodable: %s (%s)" % (line[:80], e), None
        nontriv = any(op[0] == "enq" for op in hist) and any(op[0] in ("deq", "peek", "toggle") for op in hist)
        rep.seen((jsonable(hist), frag0), nontrivial=nontriv)
        for op in hist:
            rep.count(op[0])
        case = {"frag0": frag0, "history": jsonable(hist)}
        if viol:
            rep.finding(viol[0], case, viol[1])
        if (obs, fin) != (mobs, mfin):
            rep.disagree(domain, case, {"obs": mobs, "final": mfin}, {"obs": obs, "final": fin},
                         viol[0] if viol else None)
        rep.sample({"case": case, "impl_obs": obs, "final": fin}, limit=3)


def run(rep, model, tier, seed):
    rep.rule = ("histories over {enq fresh/duplicate-key/str-typed frames, mutate caller's frames, deq, peek, len, "
                "max_queue_size:=0|1|2, fragmentation toggle}: ALL histories up to length %d over a 13-symbol "
                "alphabet from both queue classes, plus random histories (length<=60) with boundary field values; "
                "non-trivial = history with at least one enqueue and one dequeue/peek/toggle; distinct = distinct history")
    net = new_node()
    depth = 4 if tier == "quick" else 5
    rep.rule = rep.rule % depth
    syms = sorted(ALPHABET)
    cases = []
    for n in range(1, depth + 1):
        for word in itertools.product(syms, repeat=n):
            hist = [ALPHABET[c] for c in word]
            cases.append((hist, True))
            if n <= depth - 1:
                cases.append((hist, False))
    # corpus first (minimised past failures)
    corpus = [
        ([ALPHABET[c] for c in "ab1c"], True),      # max lowered below len (F11)
        ([ALPHABET[c] for c in "as"], False),       # str-typed duplicate (F12)
        ([ALPHABET[c] for c in "cmd"], True),       # bytearray message mutated after enqueue
        ([ALPHABET[c] for c in "abtdtd"], True),    # toggle keeps order
    ]
    for i in range(0, len(corpus), 2000):
        check_batch(rep, model, net, corpus[i:i + 2000], "corpus")
    for i in range(0, len(cases), 4000):
        check_batch(rep, model, net, cases[i:i + 4000], "exhaustive")
    rep.exhaustive.append("all %d histories of length <= %d over the 13-symbol alphabet" % (len(cases), depth))
    r = common.rng(seed, "c12")
    nrand = 3000 if tier == "quick" else 40000
    rnd = [(random_hist(r, r.randrange(1, 61)), r.random() < 0.6) for _ in range(nrand)]
    for i in range(0, len(rnd), 2000):
        check_batch(rep, model, net, rnd[i:i + 2000], "random")
    rep.extra["also_sampled_only"] = False


def replay(path):
    d = json.load(open(path))
    net = new_node()
    model = common.Model()
    try:
        for w in d.get("witnesses", d.get("disagreements", []))[:5]:
            hist = from_json(w["case"]["history"])
            f0 = w["case"]["frag0"]
            obs, fin, viol = run_impl(net, hist, f0)
            line = model.ask("run queue " + " ".join(str(x) for x in enc_hist_toggles(hist, f0)))
            print("history:", json.dumps(w["case"]))
            print("  impl :", obs, fin)
            print("  model:", dec_model(line, hist))
            print("  checker verdict on impl:", viol)
    finally:
        model.close()
    return 0

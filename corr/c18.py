"""C18 -- every advertisement is a well-formed BLE packet for the channel it is sent on.

A real FakeBLE object on the extracted world next to the Gallina model (Ble/Ble.v); the 32 bytes
the radio transmitted and the RF_CH register are decoded by an independent bit-serial BLE
link-layer reference (corr/bleref.py, written from the Core Specification) which judges every
advertisement; len_available() and the ValueError boundary are judged against the 32-byte limit.
"""
import itertools

from . import common
from . import bleops as B
from . import bleref as REF

TRUSTED = [
    "Coq 8.16.1 kernel incl. vm_compute (no native_compute); theorems closed under the global context",
    "hand-written Gallina model Ble/Ble.v of fake_ble.py (codecs, advertising state, _make_payload, advertise), tied to the code by this differential run; "
    "the BLE specification side of the theorems (Ble/BleRef.v: bit-serial whitening LFSR and CRC-24) is a hand transcription of Core Spec v4.0 Vol 6 Part B 3.1.1/3.2",
    "environment model Env/Radio.v + Env/World.v (the radio that transmits the payload): modelled, not verified",
    "independent Python reference corr/bleref.py (second transcription of the same specification sections)",
    "extraction (ExtrOcamlBasic, ExtrOcamlNativeString; no Extract Constant) + ocaml/modelrun.ml glue",
    "python harness corr/c18.py, corr/bleops.py; os.urandom replaced by a seeded generator (module global of fake_ble.py)",
]


class Checker:
    """ghost copy of what the caller configured, from the ops only"""

    def __init__(self, run):
        self.mac = bytes(run.o.mac)
        self.name = None
        self.show = False
        self.pa = 0

    def expect_fields(self):
        ads = [(1, b"\x05")]
        if self.show:
            ads.append((0x0A, bytes([self.pa & 0xFF])))
        if self.name is not None:
            ads.append((0x08, self.name))
        return ads

    def overhead(self):
        return 2 + 6 + 3 + (3 if self.show else 0) + (0 if self.name is None else len(self.name) + 2) + 3

    def judge(self, run, op, res):
        name = op[0]
        if name == "name=" and res == [0]:
            v = op[1]
            self.name = None if v is None else (v.encode("utf-8") if isinstance(v, str) else bytes(v))
        elif name == "show_pa_level=" and res == [0]:
            self.show = bool(op[1])
        elif name == "mac=" and res == [0]:
            self.mac = bytes(run.o.mac)
        elif name == "pa_level=" and res == [0]:
            self.pa = op[1]
        elif name == "exit":
            self.name, self.show = None, False
        elif name == "len_available":
            free = 32 - self.overhead() - op[1]
            if res != [0, free]:
                return ("C18/len-available-wrong", "len_available(%d bytes) = %s, %d bytes are free (name %r, show_pa_level %s)" % (
                    op[1], res, free, self.name, self.show))
        elif name == "advertise":
            chunks = ([bytes(c) for c in op[1]] if isinstance(op[1], (list, tuple)) else
                      ([bytes([len(op[1]) + 1, op[2] & 255]) + bytes(op[1])] if op[1] else []))
            total = self.overhead() + sum(len(c) for c in chunks)
            fits = total <= 32
            if res[0] == 1 and fits:
                return ("C18/advertise-refused-a-packet-that-fits", "%d bytes in all, ValueError: %s" % (total, run.last_exc))
            if res[0] == 0 and not fits:
                return ("C18/advertise-accepted-an-oversized-packet", "%d bytes in all" % total)
            if res[0] not in (0, 1):
                return ("C18/advertise-raised", "%r" % run.last_exc)
            if res[0] == 1:
                return None
            frame = run.last_frame
            if frame is None or len(frame) != 32:
                return ("C18/no-32-byte-payload-transmitted", "%r" % (frame,))
            rf_ch = run.snap()["regs"][5]
            d = REF.decode(frame, rf_ch)
            where = "RF_CH=%d frame %s" % (rf_ch, frame.hex())
            if "error" in d:
                return ("C18/not-decodable-on-the-tuned-channel", d["error"] + "; " + where)
            if not d["crc_ok"]:
                # which channel would it decode on?
                other = [c for c in (2, 26, 80) if c != rf_ch and REF.decode(frame, c).get("crc_ok")]
                return ("C18/whitening-or-crc-wrong-for-the-tuned-channel",
                        "CRC-24 fails on the tuned channel" + (" (it is a valid packet for the channel at RF_CH=%d)" % other[0] if other else "") + "; " + where)
            if d["header"] != 0x42:
                return ("C18/pdu-header-wrong", "header %02X; " % d["header"] + where)
            if d["length"] != total - 5:
                return ("C18/length-byte-wrong", "length %d, expected %d; " % (d["length"], total - 5) + where)
            if d["adva"] != self.mac[:6]:
                return ("C18/mac-wrong", "AdvA %s, configured %s" % (d["adva"].hex(), self.mac.hex()))
            want = b"".join(REF.ad(t, v) for t, v in self.expect_fields()) + b"".join(chunks)
            if d["advdata"] != want:
                return ("C18/advertising-data-wrong", "AdvData %s, expected %s" % (d["advdata"].hex(), want.hex()))
        if name in ("hop", "channel=", "enter", "exit", "advertise"):
            o = run.o
            rf_ch = run.snap()["regs"][5]
            if rf_ch in REF.RF_TO_BLE and REF.RF_TO_BLE[rf_ch] != 37 + o._curr_freq:
                return ("C18/whitening-channel-differs-from-tuned-frequency",
                        "radio tuned to RF_CH=%d (BLE channel %d), whitening for BLE channel %d after %r" % (
                            rf_ch, REF.RF_TO_BLE[rf_ch], 37 + o._curr_freq, B.jop(op)))
        return None


def run_case(rep, model, ops, domain, seed, busio=False):
    run = B.BleRun(model, seed, busio)
    chk = Checker(run)
    verdict = None
    run.step(("enter",))       # a FakeBLE object is used inside a `with` block (outside, the radio is powered down)
    for k, op in enumerate(ops):
        if op[0] == "exit":      # leave the block and enter the next one
            run.step(("exit",))
            chk.judge(run, ("exit",), [0])
            op = ("enter",)
        run.world.transfers, run.world.watchdog = 0, 20000
        res = run.step(op)
        rep.count(op[0])
        if verdict is None:
            v = chk.judge(run, op, res)
            if v:
                verdict = (v[0], v[1], k)
    iout, mout = run.finish()
    case = {"seed": seed, "ops": [B.jop(o) for o in ops]}
    rep.seen(case)
    if verdict:
        rep.finding(verdict[0], dict(case, step=verdict[2]), verdict[1])
    B.compare(rep, domain, ops, iout, mout, verdict[0] if verdict else None)
    rep.sample({"ops": case["ops"][:6], "n_ops": len(ops)}, limit=3)
    return verdict


def names(r):
    out = [None]
    for n in range(0, 21):
        out.append(bytes(r.randrange(32, 127) for _ in range(n)))
        out.append("".join(chr(r.randrange(48, 123)) for _ in range(n)))
    out += ["é" * 4, "€" * 5, "€" * 7]
    return out


def run(rep, model, tier, seed):
    r = common.rng(seed, "c18")
    rep.rule = ("op sequences on a real FakeBLE: (a) every name length 0..20 as str and bytes plus None x show_pa_level on/off x every "
                "PA level, with len_available() and chunk lengths -2..+2 around the capacity (single chunk, two chunks, list form); "
                "(b) ALL sequences of hop_channel()/channel=2,26,80,other/leaving and re-entering the with block up to length %d each followed by an "
                "advertisement; (c) random sequences over all ops with random MAC (bytes/int/None/short) and content; "
                "non-trivial = at least one advertise; distinct = distinct op list")
    depth = 3 if tier == "quick" else 5
    rep.rule = rep.rule % depth
    n = 0
    # (a) capacity boundary
    for nm in names(r):
        for show in (False, True):
            for pa in ((0,) if not show else (-18, -12, -6, 0)):
                ops = [("mac=", bytes(r.randrange(256) for _ in range(6))), ("pa_level=", pa)]
                # both orders of the two setters: each has its own length rule
                ops += [("name=", nm), ("show_pa_level=", show)] if r.random() < 0.5 else [("show_pa_level=", show), ("name=", nm)]
                for _ in range(r.randrange(0, 3)):
                    ops.append(("hop",))
                ops.append(("len_available", 0))
                nl = 0 if nm is None else len(nm.encode("utf-8") if isinstance(nm, str) else nm) + 2
                cap = 18 - nl - (3 if show else 0)
                for d in (-2, -1, 0, 1, 2):
                    L = cap + d
                    if L < 0:
                        continue
                    ops.append(("len_available", L))
                    if L >= 2:
                        ops.append(("advertise", bytes(r.randrange(256) for _ in range(L - 2)), r.choice([0xFF, 0x16, 0x09, 0x1FF])))
                    if L >= 4:
                        a = r.randrange(2, L - 1)
                        ops.append(("advertise", [REF.ad(0x16, bytes(r.randrange(256) for _ in range(a - 2))),
                                                  REF.ad(0xFF, bytes(r.randrange(256) for _ in range(L - a - 2)))]))
                ops.append(("advertise", b"", 0xFF))
                run_case(rep, model, ops, "capacity", seed + n, busio=bool(n % 2))
                n += 1
    rep.exhaustive.append("name lengths 0..20 (str and bytes) + None x show_pa_level x PA level x chunk totals cap-2..cap+2")
    # (b) channel/whitening state machine
    alpha = [("hop",), ("channel=", 2), ("channel=", 26), ("channel=", 80), ("channel=", 40), ("exit",)]
    for L in range(0, depth + 1):
        for w in itertools.product(alpha, repeat=L):
            ops = []
            for a in w:
                ops += [a, ("advertise", b"\x01\x02", 0xFF)]
            if not w:
                ops = [("advertise", b"\x01\x02", 0xFF)]
            run_case(rep, model, ops, "channels", seed + n, busio=bool(n % 2))
            n += 1
    rep.exhaustive.append("all sequences of {hop, channel=2/26/80/40, leave the with block and enter a new one} up to length %d, an advertisement after every step" % depth)
    # (c) random
    for _ in range(500 if tier == "quick" else 6000):
        ops = []
        for _ in range(r.randrange(1, 25)):
            x = r.random()
            if x < 0.15:
                ops.append(("hop",))
            elif x < 0.25:
                ops.append(("channel=", r.choice([2, 26, 80, 76, 0, 125])))
            elif x < 0.35:
                ops.append(("name=", r.choice(names(r))))
            elif x < 0.42:
                ops.append(("show_pa_level=", r.random() < 0.6))
            elif x < 0.5:
                ops.append(("mac=", r.choice([bytes(r.randrange(256) for _ in range(6)), r.randrange(1 << 48), None,
                                              bytes(r.randrange(256) for _ in range(r.randrange(0, 6)))])))
            elif x < 0.55:
                ops.append(("pa_level=", r.choice([-18, -12, -6, 0])))
            elif x < 0.65:
                ops.append(("exit",))
            elif x < 0.72:
                ops.append(("len_available", r.randrange(0, 22)))
            else:
                if r.random() < 0.7:
                    ops.append(("advertise", bytes(r.randrange(256) for _ in range(r.randrange(0, 20))), r.choice([0xFF, 0x16, 0x2A])))
                else:
                    ops.append(("advertise", [REF.ad(r.randrange(256), bytes(r.randrange(256) for _ in range(r.randrange(0, 8))))
                                              for _ in range(r.randrange(0, 4))]))
        run_case(rep, model, ops, "random", seed + n, busio=bool(n % 2))
        n += 1
    rep.extra["also_sampled_only"] = True


def replay(path):
    import json
    d = json.load(open(path))
    for w in d.get("witnesses", d.get("disagreements", []))[:5]:
        print(json.dumps(w)[:2000])
    return 0

"""C17 -- mesh joins yield distinct working addresses; lookups give the documented codes.

Real RF24Mesh objects (one master, 1..12 joining nodes) run CONCURRENTLY, one thread and one
virtual clock each, on the radios of one extracted world (corr/des.py): join orders, start
offsets, SPI speed and per-operation jitter come from one seeded PRNG.  Every node's bus
recording is then replayed on the Gallina node model (Net/Replay.v): same bus operations,
same results, same node state.  A checker written from the property text judges the run.
"""
from . import common
from . import des
from . import netops as NO
from . import netscen as S

TRUSTED = [
    "Coq 8.16.1 kernel incl. vm_compute (no native_compute); theorems closed under the global context",
    "environment model Env/Radio.v + Env/World.v: modelled, not verified (loss-free medium, atomic exchanges, no collisions)",
    "hand-written Gallina models Net/Mesh.v, Net/Node.v, Drv/RF24.v, tied to the code by replaying every node's bus recording "
    "on the model (Net/Replay.v) and comparing every result and the node state",
    "the thread scheduler of corr/des.py (smallest clock first) decides the interleaving: it is a harness, not a model",
    "extraction (ExtrOcamlBasic, ExtrOcamlNativeString; no Extract Constant) + ocaml/modelrun.ml glue (world server, replay runner)",
    "python harness corr/c17.py, corr/des.py, corr/netops.py",
]

UNASSIGNED = 0o4444


def valid(a):
    n = 0
    while a:
        if not 1 <= a & 7 <= 5 or n > 3:
            return False
        a >>= 3
        n += 1
    return True


class Scenario:
    def __init__(self, r, n_join, tier, storm=None):
        self.r = r
        self.n = n_join
        # "storm": once every node has had its turn at joining, all of them query the master at about the same time,
        # so that relays are busy with their own requests while their descendants' requests and answers pass through
        self.storm = (n_join >= 5 and r.random() < 0.5) if storm is None else storm
        ids = r.sample(range(1, 256), n_join)
        self.ids = [0] + ids
        self.specs = [(0, "mesh", 0)] + [(k + 1, "mesh" if r.random() < 0.3 else "meshnode", ids[k]) for k in range(n_join)]
        self.spi_cost = r.choice([10_000, 20_000, 50_000])
        self.jitter = r.choice([0, 2_000, 9_000])
        self.gap = r.choice([(100_000, 600_000), (300_000, 2_000_000)])
        self.seed = r.randrange(1 << 30)
        spread = r.choice([0, 5_000_000, 80_000_000, 400_000_000])
        self.offsets = [0] + [r.randrange(spread + 1) for _ in range(n_join)]
        self.stable = [k for k in range(1, n_join + 1) if r.random() < 0.6] or [1]   # never release
        self.timeout_ns = r.choice([3_000_000_000, 7_500_000_000])
        self.payload_no = 0
        self.sent = []          # (sender idx, target idx, payload, result entry)
        self.table_hist = []    # (master clock, table copy)
        self.scripts = [self.master_script()] + [self.node_script(k) for k in range(1, n_join + 1)]

    def describe(self):
        return {"ids": self.ids, "kinds": [s[1] for s in self.specs], "spi_cost": self.spi_cost, "jitter": self.jitter,
                "gap": list(self.gap), "offsets": self.offsets, "stable": self.stable, "seed": self.seed,
                "timeout_ns": self.timeout_ns, "storm": self.storm}

    # --- dynamic steps
    def joined(self, run, k):
        t = run.tasks[k]
        return any(e["op"][0] == "renew" for e in t.log) and t.obj._addr != UNASSIGNED

    def pick_op(self, k):
        def f(run, t):
            r = self.r
            me = self.ids[k]
            x = r.random()
            others = [j for j in range(1, self.n + 1) if j != k]
            if t.obj._addr == UNASSIGNED:
                return r.choice([("lookup_address", r.choice(self.ids[1:])), ("check_connection", 2, r.random() < 0.5),
                                 ("lookup_node_id", 0o5), ("msend", r.choice(self.ids), 65, b"x")])
            if x < 0.2:
                return ("lookup_address", me)
            if x < 0.35 and others:
                return ("lookup_address", self.ids[r.choice(others)])
            if x < 0.45:
                unknown = r.choice([i for i in range(1, 256) if i not in self.ids])
                return ("lookup_address", unknown)
            if x < 0.5:
                return ("lookup_address", r.choice([0, None]))
            if x < 0.55:
                return ("lookup_node_id", r.choice([0, None]))
            if x < 0.65:
                return ("lookup_node_id", t.obj._addr)
            if x < 0.72:
                return ("lookup_node_id", r.choice([0o5555, 0o1234, 0o52, 0o3]))
            if x < 0.8:
                pm = r.random() < 0.5
                return ("check_connection", r.choice([1, 3]) if pm else 1, pm)   # (one ping: the model numbers pings consecutively)
            cand = [j for j in self.stable if j != k and self.joined(run, j)]
            if cand:
                j = r.choice(cand)
                self.payload_no += 1
                pl = b"m%03d" % self.payload_no + bytes(r.randrange(256) for _ in range(r.randrange(0, 18)))
                self.sent.append([k, j, pl, len(t.log)])
                return ("msend", self.ids[j], r.choice([65, 1, 100]), pl)
            return ("lookup_address", me)
        return f

    def storm_op(self, k):
        def f(run, t):
            r = self.r
            if t.obj._addr == UNASSIGNED:
                return None
            others = [j for j in range(1, self.n + 1) if j != k and run.tasks[j].obj._addr != UNASSIGNED]
            x = r.random()
            if x < 0.3 or not others:
                return ("lookup_address", self.ids[k])
            if x < 0.6:
                return ("lookup_address", self.ids[r.choice(others)])
            if x < 0.8:
                return ("lookup_node_id", t.obj._addr)
            return ("lookup_node_id", run.tasks[r.choice(others)].obj._addr)
        return f

    def all_had_a_turn(self, run, t):
        return all(any(e["op"][0] == "renew" for e in x.log) or x.done for x in run.tasks[1:])

    def node_script(self, k):
        r = self.r
        sc = [("at", self.offsets[k]), ("call", ("renew", self.timeout_ns))]
        sc += [("call", self.pick_op(k)) for _ in range(r.randrange(0, 5))]
        if self.storm:
            sc += [("until", self.all_had_a_turn, 50_000, 400_000)]
            sc += [("call", self.storm_op(k)) for _ in range(r.randrange(2, 5))]
        if k not in self.stable:
            sc += [("until", lambda run, t: True, *self.gap)] * r.randrange(0, 3)
            sc += [("call", ("release",))]
            sc += [("call", self.pick_op(k)) for _ in range(r.randrange(0, 3))]
            if r.random() < 0.7:
                sc += [("call", ("renew", self.timeout_ns))]
                sc += [("call", self.pick_op(k)) for _ in range(r.randrange(0, 3))]
        sc += [("serve", *self.gap)]
        return sc

    def master_script(self):
        # the master's own API between updates: its lookups are table reads
        def mop(run, t):
            self.note_table(run, t)
            r = self.r
            return r.choice([("lookup_address", r.choice(self.ids)), ("lookup_node_id", r.choice([0o5, 0o4, 0o45, None, 0])),
                             ("check_connection", 1, False), ("renew", 1_000_000)])
        sc = []
        for _ in range(self.r.randrange(0, 4)):
            sc += [("until", lambda run, t, n=self.r.randrange(5, 400): self.note_table(run, t) or t.calls >= n, *self.gap),
                   ("call", mop)]
        sc += [("until", lambda run, t: self.note_table(run, t) or not any(x.scripted and not x.done for x in run.tasks[1:]), *self.gap)]
        sc += [("serve", *self.gap)]     # keep serving while frames are still in flight (drain period)
        return sc

    def note_table(self, run, t):
        tbl = dict(t.obj.dhcp_dict)
        if not self.table_hist or self.table_hist[-1][1] != tbl:
            self.table_hist.append((t.clock, tbl))
        return False


def table_at(hist, t0, t1, slack=3_000_000):
    """the master's tables that were current at some time in [t0 - slack, t1 + slack]"""
    out = []
    for i, (tm, tbl) in enumerate(hist):
        nxt = hist[i + 1][0] if i + 1 < len(hist) else float("inf")
        if tm <= t1 + slack and nxt >= t0 - slack:
            out.append(tbl)
    return out or [{}]


KNOWN_ACKWAIT = "C17/master-ignores-frames-while-awaiting-network-ack"


def judge(sc, run):
    """a violated clause of C17 as (key, detail), or None; a clause that is not the recorded known finding comes first"""
    found = []
    v = _judge(sc, run, found)
    if v:
        found.append(v)
    other = [x for x in found if x[0] != KNOWN_ACKWAIT]
    return other[0] if other else (found[0] if found else None)


def _judge(sc, run, found):
    tasks = run.tasks
    master = tasks[0]
    hist = [(0, {})] + sc.table_hist + [(master.clock, dict(master.obj.dhcp_dict))]
    # the radios are half duplex: two nodes that transmit to each other at the same moment both fail, which is
    # packet loss even on a perfect medium.  C17 claims only "no exception, termination, valid-or-None" for what
    # such a loss touches; everything else is judged at full strength.
    # The same holds for a frame the receiving radio acknowledges but does not store: its RX FIFO is full, or the packet
    # has the 2-bit PID and the payload of the previous one and is taken for a re-transmission (a relay that passes on
    # two identical answers four packets apart) -- the transmitter sees an ACK, the frame is gone.
    fails = [e for e in run.air if not e["ok"] or e.get("dropped_by")]

    def lossy(t0, t1, slack=2_000_000):
        return any(t0 - slack <= e["t"] <= t1 + slack for e in fails)

    def lost_frame(pred):
        return any(pred(S.parse_hdr(e["data"]) or {}) for e in fails)

    def master_ignored(addr, types, t0, t1, slack=3_000_000):
        """a frame of one of `types` from `addr` reached the master's radio in the window and the master never answered it
        nor acted on it: RF24Network._write() discards what _net_update() hands back while it waits for a NETWORK_ACK"""
        for e in run.air:
            h = S.parse_hdr(e["data"]) or {}
            if (h.get("frm") == addr and h.get("to") == 0 and h.get("type") in types and e["ok"]
                    and any(rr == 0 for rr, _p in e["receivers"]) and t0 - slack <= e["t"] <= t1 + slack):
                answered = any(x["from"] == 0 and (S.parse_hdr(x["data"]) or {}).get("type") in types
                               and (S.parse_hdr(x["data"]) or {}).get("to") == addr and e["t"] <= x["t"] <= e["t"] + 300_000_000
                               for x in run.air)
                if not answered:
                    return True
        return False
    for t in tasks:
        if t.exc is not None:
            return ("C17/exception-in-node-task", "node %d (id %d): %r" % (t.idx, sc.ids[t.idx], t.exc))
        for e in t.log:
            if e["res"][0] != 0:
                return ("C17/call-raised", "node %d (id %d) %r -> code %d %s" % (t.idx, sc.ids[t.idx], e["op"][:3], e["res"][0], e["exc"]))
    # joins
    for t in tasks[1:]:
        nid = sc.ids[t.idx]
        for e in t.log:
            name = e["op"][0]
            if name == "renew":
                if e["res"] == [0, 0] and lossy(e["t0"], e["t1"]):
                    continue
                if e["res"] == [0, 0]:
                    return ("C17/join-returned-None", "node id %d: renew_address(%.1f s) gave None after %.3f s; master table %s" % (
                        nid, e["op"][1] / 1e9, (e["t1"] - e["t0"]) / 1e9, master.obj.dhcp_dict))
                a = e["res"][2]
                if not valid(a) or a in (0, UNASSIGNED) or a != e["addr"]:
                    return ("C17/join-address-invalid", "node id %d got %o (node_address %o)" % (nid, a, e["addr"]))
                if not any(tbl.get(nid) == a for tbl in table_at(hist, e["t1"], e["t1"])):
                    return ("C17/join-not-recorded-by-master", "node id %d returned %o at %.3f ms; master's table then: %s" % (
                        nid, a, e["t1"] / 1e6, table_at(hist, e["t1"], e["t1"])))
            elif name == "release":
                connected = e["addr_before"] != UNASSIGNED
                if connected and e["res"] == [0, 0] and e["addr"] == e["addr_before"] and lossy(e["t0"], e["t1"]):
                    continue        # the release frame was not acknowledged by the parent (half-duplex clash): documented False
                if connected and (e["res"] != [0, 1] or e["addr"] != UNASSIGNED):
                    return ("C17/release-failed", "node id %d: release_address() -> %s, node_address %o" % (nid, e["res"], e["addr"]))
                if not connected and e["res"] != [0, 0]:
                    return ("C17/release-of-unconnected-node", "%s" % e["res"])
            elif name == "check_connection":
                want = e["addr_before"] != UNASSIGNED
                if e["res"] != [0, int(want)]:
                    return ("C17/check-connection-wrong", "node id %d (address %o): check_connection%r -> %s" % (
                        nid, e["addr_before"], tuple(e["op"][1:]), e["res"]))
            elif name in ("lookup_address", "lookup_node_id"):
                arg, got = e["op"][1], e["res"][1]
                if not arg:
                    want = [nid if (name == "lookup_node_id" and arg is None) else 0]
                elif e["addr_before"] == UNASSIGNED:
                    want = [-2]
                else:
                    tbls = table_at(hist, e["t0"], e["t1"])
                    if name == "lookup_address":
                        want = sorted({tbl.get(arg, -2) for tbl in tbls})
                    else:
                        want = sorted({next((i for i, a in tbl.items() if a == arg), -2) for tbl in tbls})
                    if -2 in want:
                        want = [-1] + want    # "no answer" is a documented outcome for unknown IDs/addresses
                if got == -1 and arg and e["addr_before"] != UNASSIGNED and lossy(e["t0"], e["t1"]):
                    continue
                if got == -1 and got not in want and master_ignored(e["addr_before"], (196, 198), e["t0"], e["t1"]):
                    found.append((KNOWN_ACKWAIT, "node id %d (address %o): %s(%r) -> -1: the request reached the master's radio "
                                  "and was never answered" % (nid, e["addr_before"], name, arg)))
                    continue
                if got not in want:
                    return ("C17/lookup-answer-wrong", "node id %d (address %o): %s(%r) -> %d, master's mapping says %s" % (
                        nid, e["addr_before"], name, arg, got, want))
    # the master's own calls
    for e in master.log:
        name = e["op"][0]
        if name in ("lookup_address", "lookup_node_id") and e["op"][1]:
            tbls = table_at(hist, e["t0"], e["t1"], 0)
            arg, got = e["op"][1], e["res"][1]
            want = ({tbl.get(arg, -2) for tbl in tbls} if name == "lookup_address" else
                    {next((i for i, a in tbl.items() if a == arg), -2) for tbl in tbls})
            if got not in want:
                return ("C17/master-lookup-wrong", "%s(%r) -> %d, table %s" % (name, arg, got, tbls))
        if name == "check_connection" and e["res"] != [0, 1]:
            return ("C17/check-connection-wrong", "master: %s" % e["res"])
        if name == "renew" and e["res"] != [0, 1, 0]:
            return ("C17/master-renew", "%s" % e["res"])
    # final state: connected nodes hold distinct addresses recorded under their IDs; released ones are gone
    final = dict(master.obj.dhcp_dict)
    held = {}
    for t in tasks[1:]:
        nid, a = sc.ids[t.idx], t.obj._addr
        if a != UNASSIGNED:
            if a in held:
                return ("C17/two-nodes-one-address", "ids %d and %d both hold %o" % (held[a], nid, a))
            held[a] = nid
            if final.get(nid) != a:
                return ("C17/table-disagrees-with-node", "node id %d holds %o, master's table: %s" % (nid, a, final))
        elif nid in final and any(e["op"][0] == "release" and e["res"] == [0, 1] for e in t.log):
            last_rel = max(i for i, e in enumerate(t.log) if e["op"][0] == "release")
            rel_addr = t.log[last_rel]["addr_before"]
            if not any(e["op"][0] == "renew" for e in t.log[last_rel:]) and not lost_frame(
                    lambda h: h.get("type") == 197 and h.get("frm") == rel_addr):
                if master_ignored(rel_addr, (197,), t.log[last_rel]["t0"], float("inf")):
                    found.append((KNOWN_ACKWAIT, "node id %d: its release frame reached the master's radio and the lease was kept" % nid))
                    continue
                return ("C17/lease-not-freed", "node id %d released its address, master's table still has %s" % (nid, final))
    # the table only ever changes for the ID of a node that is joining or releasing at that moment
    for (t_a, a), (t_b, b) in zip(hist, hist[1:]):
        for nid in set(a) | set(b):
            if a.get(nid) == b.get(nid):
                continue
            idx = sc.ids.index(nid) if nid in sc.ids else None
            ok = False
            if idx:
                log_ = tasks[idx].log
                for k_, e in enumerate(log_):
                    if e["op"][0] in ("renew", "release") and e["t0"] - 3_000_000 <= t_b and t_a <= e["t1"] + 3_000_000:
                        ok = True
                    # a release frame travels on after release_address() has returned (first hop only): the lease may go
                    # any time between the call and the node's next join
                    if e["op"][0] == "release" and e["res"] == [0, 1] and nid not in b and e["t0"] - 3_000_000 <= t_b:
                        nxt = next((x["t0"] for x in log_[k_ + 1:] if x["op"][0] == "renew"), float("inf"))
                        if t_a <= nxt + 3_000_000:
                            ok = True
            if not ok:
                return ("C17/master-table-disturbed", "entry of id %d changed %s -> %s between %.3f and %.3f ms while that node was "
                        "neither joining nor releasing" % (nid, a.get(nid), b.get(nid), t_a / 1e6, t_b / 1e6))
    # messages sent to a node ID arrive at that node
    for k, j, pl, li in sc.sent:
        e = tasks[k].log[li]
        got = [bytes(f.message) for f in tasks[j].obj.queue._queue]
        if e["res"] != [0, 1] and lossy(e["t0"], e["t1"]):
            continue
        if lost_frame(lambda h: h.get("msg", b"")[:len(pl)] == pl):
            continue
        if e["res"] != [0, 1] and master_ignored(e["addr_before"], (196,), e["t0"], e["t1"]):
            found.append((KNOWN_ACKWAIT, "node id %d -> id %d: send() = False: its address lookups reached the master's radio and "
                          "were never answered" % (sc.ids[k], sc.ids[j])))
            continue
        if e["res"] != [0, 1]:
            return ("C17/send-to-joined-id-failed", "node id %d -> id %d: send() = %s" % (sc.ids[k], sc.ids[j], e["res"]))
        if pl not in got and len(got) >= tasks[j].obj.queue.max_queue_size:
            continue        # the target's bounded queue was full: dropping is the queue's documented behaviour (C12)
        if pl not in got:
            # the queue keeps one frame per (origin, frame id, type): a frame whose key equals that of a frame still
            # queued (two nodes that held the same address one after the other, each counting its ids from 0) is a duplicate
            keys = {(f.header.from_node, f.header.frame_id, f.header.message_type) for f in tasks[j].obj.queue._queue}
            mine = [S.parse_hdr(x["data"]) for x in run.air if (S.parse_hdr(x["data"]) or {}).get("msg", b"")[:len(pl)] == pl]
            if any((h["frm"], h["id"], h["type"]) in keys for h in mine if h):
                continue
        if pl not in got:
            return ("C17/message-to-id-not-delivered", "node id %d -> id %d: %s not in the target's queue (%d frames)" % (
                sc.ids[k], sc.ids[j], pl.hex(), len(got)))
    # nothing but messages sent to it is queued on the master ("asking never disturbs the master")
    sent_pl = {pl for _k, _j, pl, _li in sc.sent}
    for t in tasks[:1]:
        for f in t.obj.queue._queue:
            if bytes(f.message) not in sent_pl:
                return ("C17/stray-frame-queued", "node id %d queue holds type %d from %o: %s" % (
                    sc.ids[t.idx], f.header.message_type, f.header.from_node, bytes(f.message).hex()))
    return None


def run_scenario(rep, model, sc, domain):
    run = des.Run(model, [True] * (sc.n + 1), sc.specs, sc.scripts, sc.seed, sc.spi_cost, sc.jitter,
                  horizon_ns=120_000_000_000)
    # remember the address before each call (the checker needs "was it connected when it asked")
    orig_call = run.call

    def call(t, op, dump=True):
        before = t.obj._addr
        e = orig_call(t, op, dump)
        e["addr_before"] = before
        if t.idx == 0:
            sc.note_table(run, t)
        return e
    run.call = call
    run.go()
    case = {"scenario": sc.describe(),
            "calls": [[t.idx] + NO.jops([e["op"]])[0] + [e["res"]] for t in run.tasks for e in t.log if e["op"][0] != "update"][:200]}
    rep.seen({"s": sc.describe()})
    rep.count("nodes=%d" % sc.n)
    for t in run.tasks:
        for e in t.log:
            if e["op"][0] != "update":
                rep.count(e["op"][0])
    relayed = sum(1 for t in run.tasks[1:] if S.level_of(t.obj._addr) > 1 and t.obj._addr != UNASSIGNED)
    rep.count("relayed-joins", relayed)
    rep.count("bus-operations", run.world.bus_ops)
    rep.count("task-switches", run.world.switches)
    rep.count("transmitter-held-for-a-deaf-peer", run.world.holds)
    rep.count("failed-transmissions(half-duplex-clashes)", sum(1 for e in run.air if not e["ok"]))
    rep.count("transmissions", len(run.air))
    v = judge(sc, run)
    if v:
        rep.finding(v[0], case, v[1])
    for t in run.tasks:
        d = run.replay(t)
        if d is not None:
            rep.disagree(domain, dict(case, replay=d), d["model"], d["impl"], v[0] if v else None)
            break
    rep.sample({"scenario": sc.describe(), "final": {str(sc.ids[t.idx]): oct(t.obj._addr) for t in run.tasks},
                "virtual_ms": max(t.clock for t in run.tasks) / 1e6}, limit=3)
    return v


class _AsC17:
    """report adapter: the master's lease decisions are judged by C16's checker, reported under C17's first clause"""

    def __init__(self, rep):
        object.__setattr__(self, "_rep", rep)

    def __getattr__(self, n):
        return getattr(self._rep, n)

    def __setattr__(self, n, v):
        setattr(self._rep, n, v)

    @staticmethod
    def _k(key):
        return None if key is None else "C17/master-" + key.split("/", 1)[1]

    def finding(self, key, case, detail):
        return self._rep.finding(self._k(key), case, detail)

    def disagree(self, domain, case, m, i, key=None):
        return self._rep.disagree(domain, case, m, i, self._k(key))


def master_leases(rep, model, r, tier):
    """sequential part: what the master answers to address requests that reach it through relays of every depth (the
    concurrent scenarios rarely grow a tree deeper than two levels): the lease must be a valid address below the relay,
    never the "unassigned" address 0o4444, recorded under the requester's ID"""
    from . import c16
    vias = [None, 0o4, 0o44, 0o444, 0o344, 0o144, 0o5, 0o45, 0o445, 0o12, 0o123]
    evs = []
    for via in vias:
        evs.append([("req", via, 10 + k) for k in range(6)])                     # fill the relay's slots, and one more
    for _ in range(20 if tier == "quick" else 300):
        evs.append([("req", r.choice(vias), r.randrange(1, 256)) for _ in range(r.randrange(1, 12))])
    c16.run_events(_AsC17(rep), model, evs, "master-leases", r)


def run(rep, model, tier, seed):
    r = common.rng(seed, "c17")
    master_leases(rep, model, common.rng(seed, "c17/leases"), tier)
    rep.rule = ("concurrent scenarios: 1 master + n joining nodes (n = 1..%d), random distinct IDs 1..255, start offsets spread over "
                "0 / 5 / 80 / 400 ms, SPI cost 10/20/50 us with 0/2/9 us jitter per bus operation, each node: join, 0-4 of "
                "{lookups of own/other/unknown/trivial IDs and addresses, send to a joined ID, check_connection}, optionally "
                "release, more calls, re-join; the master serves and reads its own table in between; every node's recording "
                "replayed on the model; non-trivial = at least one join attempted; distinct = distinct scenario parameters")
    nmax = 7 if tier == "quick" else 12
    rep.rule = rep.rule % nmax
    plan = ([1, 2, 3, 4, 6, 6, 7, 7, 7, 7] if tier == "quick" else
            [1, 2, 3, 4, 5] * 4 + [6, 7, 8] * 14 + [9, 10, 11, 12] * 5)
    broke = any(not d["key"] for d in rep.disagreements)      # (the sequential lease section above)
    for i, n in enumerate(plan):
        before = len(rep.disagreements)
        v = run_scenario(rep, model, Scenario(common.rng(seed, "c17/%s/%d" % (tier, i)), n, tier), "random")
        broke = broke or (len(rep.disagreements) > before and not v)
    if broke and not any(d["key"] for d in rep.disagreements):
        # the model no longer reproduces the code: look for a run on which the property itself fails
        for i in range(40):
            n = [6, 7, 8, 9, 7, 8][i % 6]
            v = run_scenario(rep, model, Scenario(common.rng(seed, "c17/hunt/%d" % i), n, tier, storm=True), "hunt")
            if v and v[0] != KNOWN_ACKWAIT:      # (the recorded finding is not what the hunt is looking for)
                break
    rep.extra["also_sampled_only"] = True


def replay(path):
    import json
    d = json.load(open(path))
    for w in d.get("witnesses", d.get("disagreements", []))[:3]:
        print(json.dumps(w)[:3000])
    return 0

"""Operation alphabet of the RF24 driver API shared by the correspondence checks:
encoding for the extracted model runner (Drv/RF24Run.v) and execution on a real object."""
import struct

from . import world as W

EXN = {ValueError: 1, IndexError: 2, TypeError: 3, RuntimeError: 4, NotImplementedError: 5, struct.error: 6,
       AttributeError: 7}


def pv(v):
    """pyval encoding"""
    if isinstance(v, bool):
        return [1, int(v)]
    if isinstance(v, int):
        return [0, v]
    if isinstance(v, (list, tuple)):
        out = [2, len(v)]
        for x in v:
            out += pv(x)
        return out
    if v is None:
        return [3]
    if isinstance(v, (bytes, bytearray)):
        return [4, len(v)] + list(v)
    if isinstance(v, str):
        return [5]
    raise TypeError(v)


def optz(v):
    return [0] if v is None else [1, int(v)]


def bts(b):
    return [len(b)] + list(b)


def r_unit(v):
    return []


def r_bool(v):
    return [1 if v else 0]


def r_int(v):
    return [int(v)]


def r_bytes(v):
    return bts(bytes(v))


def r_optbytes(v):
    return [0] if v is None else [1] + bts(bytes(v))


def r_sendres(v):
    if v is True or v is False:
        return [0, int(v)]
    return [1] + r_optbytes(v)


def r_sendlist(v):
    out = [len(v)]
    for x in v:
        out += r_sendres(x)
    return out


def setattr_(name):
    return lambda o, v: setattr(o, name, v)


def getattr_(name):
    return lambda o: getattr(o, name)


# name: (code, encoder(args)->ints, call(obj,*args), result printer)
OPS = {
    "channel=": (1, lambda z: [z], setattr_("channel"), r_unit),
    "channel": (2, lambda: [], getattr_("channel"), r_int),
    "data_rate=": (3, lambda z: [z], setattr_("data_rate"), r_unit),
    "data_rate": (4, lambda: [], getattr_("data_rate"), r_int),
    "pa_level=": (5, lambda v: pv(v), setattr_("pa_level"), r_unit),
    "pa_level": (6, lambda: [], getattr_("pa_level"), r_int),
    "is_lna_enabled": (7, lambda: [], getattr_("is_lna_enabled"), r_bool),
    "crc=": (8, lambda z: [z], setattr_("crc"), r_unit),
    "crc": (9, lambda: [], getattr_("crc"), r_int),
    "address_length=": (10, lambda z: [z], setattr_("address_length"), r_unit),
    "address_length": (11, lambda: [], getattr_("address_length"), r_int),
    "ard=": (12, lambda z: [z], setattr_("ard"), r_unit),
    "ard": (13, lambda: [], getattr_("ard"), r_int),
    "arc=": (14, lambda z: [z], setattr_("arc"), r_unit),
    "arc": (15, lambda: [], getattr_("arc"), r_int),
    "set_auto_retries": (16, lambda a, b: [a, b], lambda o, a, b: o.set_auto_retries(a, b), r_unit),
    "get_auto_retries": (17, lambda: [], lambda o: o.get_auto_retries(), lambda v: [v[0], v[1]]),
    "auto_ack=": (18, lambda v: pv(v), setattr_("auto_ack"), r_unit),
    "auto_ack": (19, lambda: [], getattr_("auto_ack"), r_int),
    "set_auto_ack": (20, lambda b, p: [int(b)] + optz(p), lambda o, b, p: o.set_auto_ack(b, p), r_unit),
    "get_auto_ack": (21, lambda z: [z], lambda o, z: o.get_auto_ack(z), r_bool),
    "dynamic_payloads=": (22, lambda v: pv(v), setattr_("dynamic_payloads"), r_unit),
    "dynamic_payloads": (23, lambda: [], getattr_("dynamic_payloads"), r_int),
    "set_dynamic_payloads": (24, lambda b, p: [int(b)] + optz(p), lambda o, b, p: o.set_dynamic_payloads(b, p), r_unit),
    "get_dynamic_payloads": (25, lambda z: [z], lambda o, z: o.get_dynamic_payloads(z), r_bool),
    "payload_length=": (26, lambda v: pv(v), setattr_("payload_length"), r_unit),
    "payload_length": (27, lambda: [], getattr_("payload_length"), r_int),
    "set_payload_length": (28, lambda z, p: [z] + optz(p), lambda o, z, p: o.set_payload_length(z, p), r_unit),
    "get_payload_length": (29, lambda z: [z], lambda o, z: o.get_payload_length(z), r_int),
    "ack=": (30, lambda b: [int(b)], setattr_("ack"), r_unit),
    "ack": (31, lambda: [], getattr_("ack"), r_bool),
    "allow_ask_no_ack=": (32, lambda b: [int(b)], setattr_("allow_ask_no_ack"), r_unit),
    "allow_ask_no_ack": (33, lambda: [], getattr_("allow_ask_no_ack"), r_bool),
    "interrupt_config": (34, lambda a, b, c: [int(a), int(b), int(c)], lambda o, a, b, c: o.interrupt_config(a, b, c), r_unit),
    "power=": (35, lambda b: [int(b)], setattr_("power"), r_unit),
    "power": (36, lambda: [], getattr_("power"), r_bool),
    "listen=": (37, lambda b: [int(b)], setattr_("listen"), r_unit),
    "listen": (38, lambda: [], getattr_("listen"), r_bool),
    "open_rx_pipe": (39, lambda z, a: [z] + bts(a), lambda o, z, a: o.open_rx_pipe(z, a), r_unit),
    "close_rx_pipe": (40, lambda z: [z], lambda o, z: o.close_rx_pipe(z), r_unit),
    "open_tx_pipe": (41, lambda a: bts(a), lambda o, a: o.open_tx_pipe(a), r_unit),
    "address": (42, lambda z: [z], lambda o, z: o.address(z), r_bytes),
    "enter": (43, lambda: [], lambda o: (o.__enter__(), None)[1], r_unit),
    "exit": (44, lambda: [], lambda o: (o.__exit__(None, None, None), None)[1], r_unit),
    "load_ack": (45, lambda b, z: bts(b) + [z], lambda o, b, z: o.load_ack(b, z), r_bool),
    "update": (46, lambda: [], lambda o: o.update(), r_bool),
    "available": (47, lambda: [], lambda o: o.available(), r_bool),
    "any": (48, lambda: [], lambda o: o.any(), r_int),
    "read": (49, lambda l: optz(l), lambda o, l: o.read(l), r_optbytes),
    "pipe": (50, lambda: [], getattr_("pipe"), lambda v: [0] if v is None else [1, v]),
    "tx_full": (51, lambda: [], getattr_("tx_full"), r_bool),
    "irq_dr": (52, lambda: [], getattr_("irq_dr"), r_bool),
    "irq_ds": (53, lambda: [], getattr_("irq_ds"), r_bool),
    "irq_df": (54, lambda: [], getattr_("irq_df"), r_bool),
    "clear_status_flags": (55, lambda a, b, c: [int(a), int(b), int(c)], lambda o, a, b, c: o.clear_status_flags(a, b, c), r_unit),
    "fifo": (56, lambda a, ce: [int(a)] + optz(ce), lambda o, a, ce: o.fifo(a, ce), r_int),
    "flush_rx": (57, lambda: [], lambda o: o.flush_rx(), r_unit),
    "flush_tx": (58, lambda: [], lambda o: o.flush_tx(), r_unit),
    "last_tx_arc": (59, lambda: [], getattr_("last_tx_arc"), r_int),
    "write": (60, lambda b, na, wo: bts(b) + [int(na), int(wo)], lambda o, b, na, wo: o.write(b, na, wo), r_bool),
    "send": (61, lambda b, na, fr, so: bts(b) + [int(na), fr, int(so)], lambda o, b, na, fr, so: o.send(b, na, fr, so), r_sendres),
    "resend": (62, lambda so: [int(so)], lambda o, so: o.resend(so), r_sendres),
    "send_list": (63, lambda bs, na, fr, so: [len(bs)] + sum((bts(b) for b in bs), []) + [int(na), fr, int(so)],
                  lambda o, bs, na, fr, so: o.send(bs, na, fr, so), r_sendlist),
    "rpd": (64, lambda: [], getattr_("rpd"), r_bool),
    "ce_pin=": (65, lambda b: [int(b)], setattr_("ce_pin"), r_unit),
}
# world-level pseudo operations
W_ORACLE, W_INJECT, W_SELECT, W_AIR = 90, 91, 92, 93
FATES = {"D": 0, "P": 1, "A": 2}


def encode(op):
    name, args = op[0], op[1:]
    if name == "oracle":
        return [W_ORACLE, len(args[0])] + [FATES[c] for c in args[0]]
    if name == "inject":
        return [W_INJECT, args[0], args[1]] + bts(args[2])
    if name == "select":
        return [W_SELECT, args[0]]
    if name == "air":
        return [W_AIR]
    code, enc = OPS[name][0], OPS[name][1]
    return [code] + enc(*args)


def dump_obj(o):
    p0r = o._pipe0_read_addr
    if not hasattr(o, "_pl_len"):      # rf24_lite.RF24: two pieces of state
        return [o._status] + ([0] if p0r is None else [1] + bts(bytes(p0r)))
    return ([o._in[0], o._config, o._rf_setup, o._open_pipes, o._dyn_pl, o._aa, o._features, o._retry_setup,
             o._channel, o._addr_len] + list(o._pl_len) + bts(bytes(o._pipes[0])) + bts(bytes(o._pipes[1]))
            + [int(x) for x in o._pipes[2:6]] + bts(bytes(o._tx_address))
            + ([0] if p0r is None else [1] + bts(bytes(p0r))) + [int(bool(o._is_plus_variant))])


def copy_arg(a):
    """fresh argument objects for every call (the driver keeps some by reference)"""
    if isinstance(a, bytearray):
        return bytearray(a)
    if isinstance(a, list):
        return [copy_arg(x) for x in a]
    return a


LAST_ARGS = []  # the argument objects actually handed to the last call (aliasing checks)
LAST_EXC = [None]


def scribble(a):
    """the caller re-uses its buffers: whatever was handed to the previous call is overwritten before the next one"""
    if isinstance(a, bytearray):
        for i in range(len(a)):
            a[i] ^= 0xFF
    elif isinstance(a, list):
        for x in a:
            scribble(x)


def apply_op(obj, op):
    """-> list of ints in the model's result format"""
    for a in LAST_ARGS:
        scribble(a)
    name, args = op[0], [copy_arg(a) for a in op[1:]]
    LAST_ARGS[:] = args
    LAST_EXC[0] = None
    _code, _enc, call, pr = OPS[name]
    wd = getattr(obj, "_verif_world", None)
    if wd is not None:
        wd.transfers = 0
        wd.watchdog = 3000
    try:
        v = call(obj, *args)
    except W.Watchdog as e:
        LAST_EXC[0] = e
        return [9]
    except Exception as e:  # noqa: every exception class is an observable
        LAST_EXC[0] = e
        for cls, code in EXN.items():
            if isinstance(e, cls):
                return [code]
        return [8]
    return [0] + pr(v)


class ImplRun:
    """Runs an op sequence on real objects against the world server and produces the same
    int stream as Drv/RF24Run.run_rf24."""

    def __init__(self, model, plus, obj_radios, make_obj):
        self.world = W.World(model, "".join("T" if p else "F" for p in plus))
        W.install_time(self.world)
        self.objs = []
        self.out = []
        self.nr = len(plus)
        for k, ri in enumerate(obj_radios):
            try:
                self.objs.append(make_obj(self.world, ri, k))
                try:
                    self.objs[-1]._verif_world = self.world
                except AttributeError:
                    pass
                self.out += [0]
            except RuntimeError:
                self.objs.append(None)
                self.out += [4]
        self.out += [-5, self.world.now_ns] + self.world.snap() + [-6]
        for o in self.objs:
            self.out += dump_obj(o)
        self.cur = 0

    def run(self, ops):
        for op in ops:
            name = op[0]
            if name == "oracle":
                self.world.oracle(op[1])
            elif name == "inject":
                self.world.inject(op[1], op[2], op[3])
            elif name == "select":
                self.cur = op[1]
            elif name == "air":
                log = self.world.air()
                self.out += [-4, len(log)]
                for e in log:
                    self.out += [e["from"]] + bts(e["addr"]) + bts(e["data"]) + [int(e["noack"]), e["attempts"],
                                                                                    int(e["ok"]), len(e["receivers"])]
                    for a, b in e["raw_receivers"]:
                        self.out += [a, b]
            else:
                o = self.objs[self.cur]
                res = apply_op(o, op)
                self.out += [-1] + res + [-5, self.world.now_ns] + self.world.snap() + [-6] + dump_obj(o)
        return self.out + [-2]


def split_steps(ints):
    """split a run's int stream into per-call records for reporting"""
    steps, cur = [], []
    for x in ints:
        if x == -1 and cur:
            steps.append(cur)
            cur = []
        cur.append(x)
    if cur:
        steps.append(cur)
    return steps


def request(plus, obj_radios, ops):
    req = [len(plus)] + [int(p) for p in plus] + [len(obj_radios)] + list(obj_radios)
    for op in ops:
        req += encode(op)
    return "run rf24 " + " ".join(str(x) for x in req)


class SpiLog:
    """records every SPI transfer of the current call: (radio index, mosi bytes, CE level at that moment)"""

    def __init__(self, world, pins):
        self.items = []
        orig = world.spi

        def spi(i, mosi):
            ce = pins[i].value if i < len(pins) and pins[i] is not None else None
            self.items.append((i, bytes(mosi), ce))
            return orig(i, mosi)

        world.spi = spi

    def clear(self):
        self.items.clear()

    def reg_writes(self, i=None):
        return [(m[0] - 0x20, list(m[1:]), ce) for (j, m, ce) in self.items if 0x20 <= m[0] < 0x40 and (i is None or i == j)]


def checked_run(model, plus, obj_radios, make_obj, ops, checker):
    """run `ops` on real objects (ImplRun), calling checker.step after every API call.
    returns (int stream identical in format to the model's, first verdict or None)"""
    pins = {}

    def mk(world, ri, k):
        o = make_obj(world, ri, k)
        pins[k] = getattr(o, "_ce_pin", None)
        return o

    impl = ImplRun(model, plus, obj_radios, mk)
    cepins = []
    for ri in range(len(plus)):
        pin = None
        for k, r in enumerate(obj_radios):
            if r == ri and pins.get(k) is not None:
                pin = pins[k]
        cepins.append(pin)
    log = SpiLog(impl.world, cepins)
    out = list(impl.out)
    nr = len(plus)
    prev = W.parse_snaps(impl.world.snap(), nr)[0]
    verdict = None
    checker.start(impl, prev)
    cur = 0
    for k, op in enumerate(ops):
        name = op[0]
        if name == "oracle":
            impl.world.oracle(op[1])
            continue
        if name == "inject":
            impl.world.inject(op[1], op[2], op[3])
            prev = W.parse_snaps(impl.world.snap(), nr)[0]
            continue
        if name == "select":
            cur = op[1]
            continue
        if name == "air":
            lg = impl.world.air()
            out += [-4, len(lg)]
            for e in lg:
                out += [e["from"]] + bts(e["addr"]) + bts(e["data"]) + [int(e["noack"]), e["attempts"], int(e["ok"]),
                                                                         len(e["receivers"])]
                for a, b in e["raw_receivers"]:
                    out += [a, b]
            if verdict is None:
                v = checker.air(k, lg)
                if v:
                    verdict = (v[0], v[1], k)
            continue
        obj = impl.objs[cur]
        log.clear()
        res = apply_op(obj, op)
        snapi = impl.world.snap()
        out += [-1] + res + [-5, impl.world.now_ns] + snapi + [-6] + dump_obj(obj)
        snaps = W.parse_snaps(snapi, nr)[0]
        if verdict is None:
            v = checker.step(k, cur, op, res, prev, snaps, obj, log)
            if v:
                verdict = (v[0], v[1], k)
        prev = snaps
    out += [-2]
    return out, verdict


def jops(ops):
    def j(a):
        if isinstance(a, (bytes, bytearray)):
            return {"bytes": bytes(a).hex(), "ba": isinstance(a, bytearray)}
        if isinstance(a, (list, tuple)):
            return {"seq": [j(x) for x in a], "tuple": isinstance(a, tuple)}
        return a
    return [[op[0]] + [j(a) for a in op[1:]] for op in ops]


def unj(jo):
    def u(a):
        if isinstance(a, dict) and "bytes" in a:
            b = bytes.fromhex(a["bytes"])
            return bytearray(b) if a["ba"] else b
        if isinstance(a, dict) and "seq" in a:
            s = [u(x) for x in a["seq"]]
            return tuple(s) if a["tuple"] else s
        return a
    return [tuple([op[0]] + [u(a) for a in op[1:]]) for op in jo]


def check_cases(rep, model, cases, domain, plus, obj_radios, make_obj, checker_factory, nontrivial, chunk=400):
    """generic differential loop: cases = list of op sequences"""
    for i in range(0, len(cases), chunk):
        part = cases[i:i + chunk]
        mouts = model.batch([request(plus, obj_radios, ops) for ops in part])
        for ops, mline in zip(part, mouts):
            iout, verdict = checked_run(model, plus, obj_radios, make_obj, ops, checker_factory())
            mout = [int(x) for x in mline.split()]
            case = {"plus": plus, "objects": obj_radios, "ops": jops(ops)}
            rep.seen(case["ops"], nontrivial=nontrivial(ops))
            for o in ops:
                rep.count(o[0])
            if verdict:
                rep.finding(verdict[0], dict(case, step=verdict[2]), verdict[1])
            if iout != mout:
                isteps, msteps = split_steps(iout), split_steps(mout)
                k = next((j for j in range(min(len(isteps), len(msteps))) if isteps[j] != msteps[j]),
                         min(len(isteps), len(msteps)))
                rep.disagree(domain, dict(case, first_differing_step=k - 1),
                             msteps[k][:160] if k < len(msteps) else None, isteps[k][:160] if k < len(isteps) else None,
                             verdict[0] if verdict else None)
            rep.sample({"ops": case["ops"][:6], "n_ops": len(ops)}, limit=3)


def replay_cases(path, make_obj, checker_factory):
    import json
    from . import common
    d = json.load(open(path))
    model = common.Model()
    try:
        for w in d.get("witnesses", d.get("disagreements", []))[:5]:
            c = w["case"]
            ops = unj(c["ops"])
            plus, objs = c.get("plus", [True]), c.get("objects", [0])
            iout, verdict = checked_run(model, plus, objs, make_obj, ops, checker_factory())
            mout = [int(x) for x in model.ask(request(plus, objs, ops)).split()]
            print("ops:", ops)
            print("  checker verdict on the implementation:", verdict)
            print("  model == implementation on every observable:", mout == iout)
    finally:
        model.close()
    return 0
